package main

import (
	"fmt"
	"go/ast"
	"go/types"
	"sort"
	"strings"
)

// ---------------------------------------------------------------------------------
// E15: partial struct copy. A keyed composite literal T{A: x.A, B: x.B, ...} all of whose
// values are the same-named fields of one value x of the same type T is a copy of x. If
// it leaves out fields of T, the omitted fields silently become zero in the copy - the
// shape of "forward only the fields this hop needs" edits that drop a field a later
// stage reads. Every such literal must list every field of T, or be tabled with the
// reason the omitted fields do not matter.
// ---------------------------------------------------------------------------------

var partialCopyAllowed = map[string]string{
	"codec.(*Codec).mergeContiguousSeries: telem.Series": "the merged series takes the first series' type, alignment and time range; its Data is the concatenation built right below",
}

type partialCopy struct {
	fn      *FuncNode
	lit     *ast.CompositeLit
	typ     string
	omitted []string
}

func findPartialCopies(p *Prog, scope func(*FuncNode) bool) (found []partialCopy, examined int) {
	for _, fn := range p.Funcs {
		if fn.Body == nil || !scope(fn) {
			continue
		}
		inspectNoLit(fn.Body, func(n ast.Node) bool {
			cl, ok := n.(*ast.CompositeLit)
			if !ok || len(cl.Elts) < 2 {
				return true
			}
			t := fn.Pkg.TypesInfo.TypeOf(cl)
			if t == nil {
				return true
			}
			st, ok := t.Underlying().(*types.Struct)
			if !ok {
				return true
			}
			var src types.Object
			listed := map[string]bool{}
			same := true
			for _, e := range cl.Elts {
				kv, ok := e.(*ast.KeyValueExpr)
				if !ok {
					same = false
					break
				}
				key, ok := kv.Key.(*ast.Ident)
				if !ok {
					same = false
					break
				}
				listed[key.Name] = true
				sel, ok := ast.Unparen(kv.Value).(*ast.SelectorExpr)
				if !ok || sel.Sel.Name != key.Name {
					same = false
					break
				}
				o := objOf(fn, sel.X)
				if o == nil || (src != nil && o != src) {
					same = false
					break
				}
				ot := o.Type()
				if ptr, ok := ot.(*types.Pointer); ok {
					ot = ptr.Elem()
				}
				if !types.Identical(ot, t) {
					same = false
					break
				}
				src = o
			}
			if !same || src == nil {
				return true
			}
			examined++
			var omitted []string
			for i := 0; i < st.NumFields(); i++ {
				if f := st.Field(i); !listed[f.Name()] {
					omitted = append(omitted, f.Name())
				}
			}
			if len(omitted) > 0 {
				name := types.TypeString(t, func(pk *types.Package) string { return pk.Name() })
				found = append(found, partialCopy{fn, cl, name, omitted})
			}
			return true
		})
	}
	sort.Slice(found, func(i, j int) bool { return found[i].fn.Name < found[j].fn.Name })
	return
}

func checkPartialCopy(r *Run, p *Prog, rule string, scope func(*FuncNode) bool) {
	found, examined := findPartialCopies(p, scope)
	seen := map[string]int{}
	for _, pc := range found {
		key := pc.fn.Name + ": " + pc.typ
		construct := "field-by-field copy lists every field: " + key
		seen[construct]++
		if seen[construct] > 1 {
			construct = fmt.Sprintf("%s #%d", construct, seen[construct])
		}
		if reason, ok := partialCopyAllowed[key]; ok {
			r.ObTrivial(rule, construct, posOf(p, pc.lit), true, "tabled: "+reason)
			continue
		}
		r.Ob(rule, construct, posOf(p, pc.lit), false, "the copy omits "+strings.Join(pc.omitted, ", ")+": these fields are zero in the copy whatever the original held")
	}
	r.Ob(rule, "every other field-by-field copy in scope is complete", "", true, fmt.Sprintf("%d same-type field-by-field literals examined", examined))
	r.Stats["partialcopy_examined_"+rule] = examined
}
