package main

import (
	"fmt"
	"go/ast"
	"go/constant"
	"go/token"
	"go/types"
	"sort"
	"strings"
)

func init() { checks["C15"] = checkC15 }

const chanPkg = "synnax/pkg/distribution/channel"

// unaryOnlyAllowed lists the cesium functions that may look a caller-supplied key up in
// the unary map without consulting the virtual map (one symbol each, with the reason).
var unaryOnlyAllowed = map[string]string{
	"cesium.(*DB).openUnary":              "paired with openVirtual by openVirtualOrUnary, which tries the virtual form first",
	"cesium.(*DB).expandKeysForAutoIndex": "resolves the index channel of data channels; virtual channels have no index",
	"cesium.(*DB).openDomainIdxWriter":    "looks an index channel up; index channels are never virtual",
}

func checkC15(r *Run) {
	r.Explanation = "Structural necessary conditions of 'channel keys are unique and metadata matches the engines': (R1) the key bit layout agrees in its four places: NewKey shifts the leaseholder by s, Leaseholder shifts back by s, LocalKey masks with 2^s-1, and the per-node counter refuses to go beyond math.MaxUint20 = 2^s-1 (s = 20); (R2) a non-zero Channel.LocalKey is assigned only in retrieveExistingAndAssignKeys, from the value returned by the persisted counter plus the number of keys handed out so far in this batch; counter.add is the only caller of the persisted counter's Add and tests the limit first; channel rows are created only after that assignment succeeded; (R3) every cesium function that looks a caller-supplied key up in the unary channel map also consults the virtual map (the engine's channel set is their union), with three tabled exceptions; (R4) at the leaseholder the non-transactional engine mutation is the last fallible call of deleteGateway/renameGateway, createGateway creates in the engine and in the table from the same slice, and in Service.create/delete/rename no remote (network) step is reachable after the gateway step; the proxy batch factory classifies every entry as free, gateway or peer."
	r.NotDecided = "Cross-store agreement after requests that fail in the middle (createGateway creates in the engine before the metadata transaction commits: a fault-sequence question); name-uniqueness races; key reuse across counters of different nodes."
	r.Trusted = []string{"go/types constant evaluation", "go/cfg"}
	r.Extra["module"] = "core"
	p, err := Load("core", "./pkg/distribution/channel/...", "./pkg/distribution/proxy/...")
	if err != nil {
		r.Undecide("%v", err)
		return
	}
	r.Stats["packages"] = len(p.Repo)
	r.Rule("C15.R1.layout", "NewKey, Key.Leaseholder, Key.LocalKey and the counter limit agree on a 20-bit local key under a 12-bit leaseholder", 4)
	r.Rule("C15.R5.names", "validateChannelNames returns nil only after the pass that refuses a name repeated inside the request, whatever the retrieve/overwrite option; deleteOverwritten queues the engine key of every channel whose metadata row it queues for deletion (paired appends in one iteration)", 2)
	r.Rule("C15.R2.provenance", "non-zero local keys come only from the persisted counter (value returned by Add, plus the count of keys assigned so far in the batch); counter.add alone advances the counter and checks the limit first; rows are created only after the assignment succeeded", 6)
	r.Rule("C15.R3.union", "every cesium function that indexes dbs.unary with a caller-supplied key also indexes dbs.virtual, except the tabled index-resolution helpers", 8)
	r.Rule("C15.R4.order", "engine mutation last in deleteGateway/renameGateway; createGateway writes engine and table from one slice; no remote step after the gateway step in create/delete/rename; BatchFactory.Batch is an exhaustive three-way split on Lease()", 7)

	checkKeyLayout(r, p)
	checkKeyProvenance(r, p)
	checkNameAndOverwrite(r, p)
	r.Rule("C15.ERR", "no error returned by a call is discarded, replaced in its own failure branch, accumulated from a possibly-nil value or left neither ruled out nor used on some path anywhere in the distribution channel package: a swallowed table or engine error is how the metadata and the engine come to disagree after a request that 'succeeded'", 1)
	checkErrDrop(r, p, "C15.ERR", func(fn *FuncNode) bool { return fn.InPkgs(chanPkg) && !fn.InPkgs(chanPkg+"/pb") }, 100)
	r.Rule("C15.R6.newkey", "the engine accepts a new channel only across the edges on which its key is in neither channel map: cesium.DB.validateNewChannel returns nil only when both the unary and the virtual lookup of ch.Key came back empty", 2)
	checkNewChannelKey(r, p)
	checkEngineUnion(r, p)
	checkGatewayOrdering(r, p)
}

func shiftConst(fn *FuncNode, op token.Token) (int64, bool) {
	var out int64
	found := false
	inspectNoLit(fn.Body, func(n ast.Node) bool {
		if be, ok := n.(*ast.BinaryExpr); ok && be.Op == op {
			if v, ok := constInt(fn, be.Y); ok {
				out, found = v, true
			}
		}
		return true
	})
	return out, found
}

func checkKeyLayout(r *Run, p *Prog) {
	newKey := p.Func(chanPkg, "", "NewKey")
	lease := p.Func(chanPkg, "Key", "Leaseholder")
	local := p.Func(chanPkg, "Key", "LocalKey")
	add := p.Func(chanPkg, "counter", "add")
	if newKey == nil || lease == nil || local == nil || add == nil {
		r.Undecide("C15.R1: NewKey / Key.Leaseholder / Key.LocalKey / counter.add not found")
		return
	}
	shl, ok1 := shiftConst(newKey, token.SHL)
	shr, ok2 := shiftConst(lease, token.SHR)
	mask, ok3 := shiftConst(local, token.AND)
	r.Ob("C15.R1.layout", "NewKey shifts the leaseholder by s and ORs the local key", p.Position(newKey.Pos()), ok1 && shl > 0 && shl < 32, fmt.Sprintf("s=%d", shl))
	r.Ob("C15.R1.layout", "Key.Leaseholder shifts back by the same s", p.Position(lease.Pos()), ok2 && shr == shl, fmt.Sprintf("shift right by %d, NewKey shifts left by %d", shr, shl))
	r.Ob("C15.R1.layout", "Key.LocalKey masks exactly the low s bits", p.Position(local.Pos()), ok3 && mask == (int64(1)<<uint(shl))-1, fmt.Sprintf("mask=%#x, 2^s-1=%#x", mask, (int64(1)<<uint(shl))-1))
	// counter limit
	limit := int64(-1)
	// the comparison may sit in add itself or in a package-local predicate it calls
	limitFns := []*FuncNode{add}
	for _, call := range CallsIn(add, func(o types.Object, _ *ast.CallExpr) bool {
		f, ok := o.(*types.Func)
		return ok && p.ByObj[f.Origin()] != nil && p.ByObj[f.Origin()].Pkg == add.Pkg
	}) {
		limitFns = append(limitFns, p.ByObj[CalleeFunc(add, call)])
	}
	for _, lf := range limitFns {
		inspectNoLit(lf.Body, func(n ast.Node) bool {
			if be, ok := n.(*ast.BinaryExpr); ok && be.Op == token.GTR {
				ast.Inspect(be.Y, func(y ast.Node) bool {
					if e, ok := y.(ast.Expr); ok {
						if tv, ok := lf.Pkg.TypesInfo.Types[e]; ok && tv.Value != nil && tv.Value.Kind() == constant.Int {
							if v, ok := constant.Int64Val(tv.Value); ok && v > limit {
								limit = v
							}
						}
					}
					return true
				})
			}
			return true
		})
	}
	r.Ob("C15.R1.layout", "the per-node counter stops at 2^s-1", p.Position(add.Pos()), limit == (int64(1)<<uint(shl))-1, fmt.Sprintf("limit=%d, 2^s-1=%d: a local key beyond the mask would spill into the leaseholder bits", limit, (int64(1)<<uint(shl))-1))
}

func checkKeyProvenance(r *Run, p *Prog) {
	localKey := p.FieldOf(chanPkg, "Channel", "LocalKey")
	assign := p.Func(chanPkg, "Service", "retrieveExistingAndAssignKeys")
	add := p.Func(chanPkg, "counter", "add")
	if localKey == nil || assign == nil || add == nil {
		r.Undecide("C15.R2: Channel.LocalKey / retrieveExistingAndAssignKeys / counter.add not found")
		return
	}
	// (a) writers of Channel.LocalKey
	nW := 0
	for _, fn := range p.FuncsOfPkg(chanPkg) {
		if strings.HasSuffix(p.Fset.Position(fn.Pos()).Filename, ".gen.go") || strings.HasSuffix(p.Fset.Position(fn.Pos()).Filename, ".pb.go") {
			continue // generated decoders copy stored keys
		}
		inspectNoLit(fn.Body, func(n ast.Node) bool {
			as, ok := n.(*ast.AssignStmt)
			if !ok {
				return true
			}
			for i, l := range as.Lhs {
				sel, ok := ast.Unparen(l).(*ast.SelectorExpr)
				if !ok || fieldVar(fn, sel) != localKey || i >= len(as.Rhs) {
					continue
				}
				nW++
				rhs := as.Rhs[i]
				if v, isC := constInt(fn, rhs); isC && v == 0 {
					r.Ob("C15.R2.provenance", "local key reset to zero in "+fn.Top().Name, p.Position(as.Pos()), true, "caller-supplied keys of new channels are discarded")
					continue
				}
				if s2, isSel := ast.Unparen(rhs).(*ast.SelectorExpr); isSel && fieldVar(fn, s2) == localKey {
					r.Ob("C15.R2.provenance", "local key copied from an existing channel in "+fn.Top().Name, p.Position(as.Pos()), true, "")
					continue
				}
				if fn.Top() != assign {
					r.Ob("C15.R2.provenance", "local key assigned in "+fn.Top().Name, p.Position(as.Pos()), false, "a non-zero local key may only be assigned by retrieveExistingAndAssignKeys, from the persisted counter")
					continue
				}
				checkAssignedKeyExpr(r, p, fn, as, rhs, add)
			}
			return true
		})
	}
	if nW < 2 {
		r.Undecide("C15.R2: only %d writers of Channel.LocalKey found", nW)
	}
	// (b) counter.add: the only caller of the persisted counter's Add, limit test before it
	wrapAdd := 0
	for _, cs := range p.AllCalls(func(o types.Object, _ *ast.CallExpr) bool {
		f, ok := o.(*types.Func)
		return ok && f.Name() == "Add" && f.Pkg() != nil && strings.HasSuffix(f.Pkg().Path(), "x/kv")
	}) {
		if !cs.Fn.InPkgs(chanPkg) {
			continue
		}
		wrapAdd++
		r.Ob("C15.R2.provenance", "persisted counter advanced in "+cs.Fn.Top().Name, p.Position(cs.Call.Pos()), cs.Fn.Top() == add, "only counter.add may advance the persisted key counter")
		if cs.Fn.Top() == add {
			c := p.CFG(add)
			cp, _ := c.Locate(cs.Call)
			gate := c.EdgesEstablishing(func(atom ast.Expr, val bool) bool {
				if val {
					return false
				}
				if be, ok := ast.Unparen(atom).(*ast.BinaryExpr); ok && be.Op == token.GTR {
					return true
				}
				// a package-local predicate whose result is a ">" comparison
				if call, ok := ast.Unparen(atom).(*ast.CallExpr); ok {
					if h := p.ByObj[CalleeFunc(add, call)]; h != nil && h.Body != nil && h.Pkg == add.Pkg {
						isGtr := false
						inspectNoLit(h.Body, func(y ast.Node) bool {
							if ret, ok := y.(*ast.ReturnStmt); ok && len(ret.Results) == 1 {
								if be, ok := ast.Unparen(ret.Results[0]).(*ast.BinaryExpr); ok && be.Op == token.GTR {
									isGtr = true
								}
							}
							return true
						})
						return isGtr
					}
				}
				return false
			})
			_, vis := c.ReachAvoiding([]Point{c.Entry()}, gate, nil)
			r.Ob("C15.R2.provenance", "counter.add tests the 20-bit limit before advancing", p.Position(cs.Call.Pos()), len(gate) > 0 && !vis[cp], "")
		}
	}
	if wrapAdd == 0 {
		r.Ob("C15.R2.provenance", "counter.add advances the persisted counter with the atomic Add", p.Position(add.Pos()), false, "no call of the persisted counter's Add: a read-then-Set pair is a lost-update race between two concurrent creates (same local key handed out twice)")
	}
	// the persisted counter is never Set from the channel package: Set overwrites what a
	// concurrent Add just reserved
	for _, cs := range p.AllCalls(func(o types.Object, _ *ast.CallExpr) bool {
		f, ok := o.(*types.Func)
		return ok && f.Name() == "Set" && f.Pkg() != nil && strings.HasSuffix(f.Pkg().Path(), "x/kv") && recvNamed(f) == "AtomicInt64Counter"
	}) {
		if cs.Fn.InPkgs(chanPkg) {
			r.Ob("C15.R2.provenance", "persisted counter overwritten in "+cs.Fn.Top().Name, p.Position(cs.Call.Pos()), false, "AtomicInt64Counter.Set replaces the counter: keys reserved by a concurrent Add are handed out again")
		}
	}
	// (c) rows are created only after the key assignment succeeded
	table := p.FieldOf(chanPkg, "Service", "table")
	for _, fn := range p.FuncsOfPkg(chanPkg) {
		inspectNoLit(fn.Body, func(n ast.Node) bool {
			call, ok := n.(*ast.CallExpr)
			if !ok {
				return true
			}
			sel, ok := ast.Unparen(call.Fun).(*ast.SelectorExpr)
			if !ok || sel.Sel.Name != "NewCreate" {
				return true
			}
			inner, ok := ast.Unparen(sel.X).(*ast.SelectorExpr)
			if !ok || fieldVar(fn, inner) != table {
				return true
			}
			c := p.CFG(fn)
			cp, _ := c.Locate(call)
			acalls := CallsIn(fn, calleeIs(assign))
			if len(acalls) != 1 {
				r.Ob("C15.R2.provenance", "rows created in "+fn.Top().Name+" carry counter-assigned keys", p.Position(call.Pos()), false, fmt.Sprintf("%d calls to retrieveExistingAndAssignKeys in the function that creates rows", len(acalls)))
				return true
			}
			path, why := c.succeededBefore(acalls[0], cp)
			r.ObPath("C15.R2.provenance", "rows created in "+fn.Top().Name+" carry counter-assigned keys", p.Position(call.Pos()), path == nil, why, path)
			return true
		})
	}
}

// checkAssignedKeyExpr: ch.LocalKey = <base> + LocalKey(len(<assigned so far>)) + 1
func checkAssignedKeyExpr(r *Run, p *Prog, fn *FuncNode, as *ast.AssignStmt, rhs ast.Expr, add *FuncNode) {
	// identifiers of the expression
	var ids []types.Object
	ast.Inspect(rhs, func(n ast.Node) bool {
		if id, ok := n.(*ast.Ident); ok {
			if v, ok := fn.Pkg.TypesInfo.Uses[id].(*types.Var); ok {
				ids = append(ids, v)
			}
		}
		return true
	})
	fromCounter := func(o types.Object, depth int) bool { return false }
	fromCounter = func(o types.Object, depth int) bool {
		if depth > 3 {
			return false
		}
		rhs2, _, ok := varDefinedBy(fn, o)
		if !ok {
			return false
		}
		found := false
		ast.Inspect(rhs2, func(n ast.Node) bool {
			switch x := n.(type) {
			case *ast.CallExpr:
				if IsFunc(Callee(fn, x), add) {
					found = true
				}
			case *ast.Ident:
				if v, ok := fn.Pkg.TypesInfo.Uses[x].(*types.Var); ok && v != o && fromCounter(v, depth+1) {
					found = true
				}
			}
			return true
		})
		return found
	}
	// the slice that receives append(.., ch) in the same iteration as the assignment (the
	// same block, or anywhere in the body of the loop around it)
	var assigned types.Object
	var scope ast.Node = fn.Body
	if lp := enclosingLoop(fn, as); lp != nil {
		scope = lp
	}
	ast.Inspect(scope, func(n ast.Node) bool {
		if a2, ok := n.(*ast.AssignStmt); ok && len(a2.Lhs) == 1 && len(a2.Rhs) == 1 {
			if call, ok := ast.Unparen(a2.Rhs[0]).(*ast.CallExpr); ok {
				if bi, ok := Callee(fn, call).(*types.Builtin); ok && bi.Name() == "append" && len(call.Args) == 2 && objOf(fn, call.Args[0]) == objOf(fn, a2.Lhs[0]) {
					assigned = objOf(fn, a2.Lhs[0])
				}
			}
		}
		return true
	})
	okBase, okCount, other := false, false, ""
	for _, o := range ids {
		switch {
		case fromCounter(o, 0):
			okBase = true
		case assigned != nil && o == assigned:
			okCount = true
		default:
			other = o.Name()
		}
	}
	lenOfAssigned := false
	ast.Inspect(rhs, func(n ast.Node) bool {
		if call, ok := n.(*ast.CallExpr); ok {
			if bi, ok := Callee(fn, call).(*types.Builtin); ok && bi.Name() == "len" && len(call.Args) == 1 && objOf(fn, call.Args[0]) == assigned {
				lenOfAssigned = true
			}
		}
		return true
	})
	r.Ob("C15.R2.provenance", "a new channel's key is <value reserved from the counter> + <number of keys assigned so far> + 1", p.Position(as.Pos()), okBase && okCount && lenOfAssigned && other == "",
		fmt.Sprintf("expression %s: derives from counter.add: %v, offset is len(slice of channels being created): %v, other variables: %q (an offset taken from the position in the request also counts channels that already exist and leaves the reserved block)", types.ExprString(rhs), okBase, lenOfAssigned, other))
}

func checkEngineUnion(r *Run, p *Prog) {
	unary := p.FieldOf("cesium", "DB", "mu.dbs.unary")
	virtual := p.FieldOf("cesium", "DB", "mu.dbs.virtual")
	if unary == nil || virtual == nil {
		r.Undecide("C15.R3: cesium.DB.mu.dbs.unary/virtual not found")
		return
	}
	type use struct{ u, v bool }
	uses := map[*FuncNode]*use{}
	for _, fn := range p.FuncsOfPkg("cesium") {
		ast.Inspect(fn.Body, func(n ast.Node) bool {
			ix, ok := n.(*ast.IndexExpr)
			if !ok {
				return true
			}
			sel, ok := ast.Unparen(ix.X).(*ast.SelectorExpr)
			if !ok {
				return true
			}
			fv := fieldVar(fn, sel)
			if fv != unary && fv != virtual {
				return true
			}
			t := fn.Top()
			if uses[t] == nil {
				uses[t] = &use{}
			}
			if fv == unary {
				uses[t].u = true
			} else {
				uses[t].v = true
			}
			return true
		})
	}
	// a function also consults the virtual map when a package-local function it calls does
	for changed := true; changed; {
		changed = false
		for _, fn := range p.FuncsOfPkg("cesium") {
			t := fn.Top()
			if uses[t] == nil || uses[t].v {
				continue
			}
			for _, call := range CallsIn(fn, func(o types.Object, _ *ast.CallExpr) bool {
				f, ok := o.(*types.Func)
				return ok && p.ByObj[f.Origin()] != nil && p.ByObj[f.Origin()].Pkg == fn.Pkg
			}) {
				// only through a pure predicate (one boolean result, no calls, no stores): a
				// helper that does work of its own is judged on its own
				if g := p.ByObj[CalleeFunc(fn, call)]; g != nil && uses[g.Top()] != nil && uses[g.Top()].v && isPurePredicate(g) {
					uses[t].v = true
					changed = true
				}
			}
		}
	}
	var fns []*FuncNode
	for f := range uses {
		fns = append(fns, f)
	}
	sort.Slice(fns, func(i, j int) bool { return fns[i].Name < fns[j].Name })
	n := 0
	for _, f := range fns {
		u := uses[f]
		if !u.u {
			continue
		}
		n++
		if reason, ok := unaryOnlyAllowed[f.Name]; ok {
			r.ObTrivial("C15.R3.union", f.Name+" may consult only the unary map", p.Position(f.Pos()), true, "tabled exception: "+reason)
			continue
		}
		r.Ob("C15.R3.union", f.Name+" consults both channel maps", p.Position(f.Pos()), u.v, "looks a key up in dbs.unary but never in dbs.virtual: virtual channels are silently treated as absent (metadata deleted, engine keeps the channel)")
	}
	if n < 8 {
		r.Undecide("C15.R3: only %d functions indexing dbs.unary found in package cesium (expected >= 8)", n)
	}
}

func checkGatewayOrdering(r *Run, p *Prog) {
	isFallibleCall := func(fn *FuncNode, call *ast.CallExpr) bool {
		tv, ok := fn.Pkg.TypesInfo.Types[call]
		if !ok {
			return false
		}
		switch t := tv.Type.(type) {
		case *types.Tuple:
			for i := 0; i < t.Len(); i++ {
				if isErrorType(t.At(i).Type()) {
					return true
				}
			}
		default:
			return isErrorType(tv.Type)
		}
		return false
	}
	// (i) engine mutation last
	for _, spec := range [][2]string{{"deleteGateway", "DeleteChannels"}, {"renameGateway", "RenameChannels"}} {
		fn := p.Func(chanPkg, "Service", spec[0])
		if fn == nil {
			r.Undecide("C15.R4: Service.%s not found", spec[0])
			continue
		}
		c := p.CFG(fn)
		var ts *ast.CallExpr
		inspectNoLit(fn.Body, func(n ast.Node) bool {
			if call, ok := n.(*ast.CallExpr); ok {
				if f := CalleeFunc(fn, call); f != nil && f.Name() == spec[1] {
					ts = call
				}
			}
			return true
		})
		if ts == nil {
			r.Ob("C15.R4.order", spec[0]+" mutates the engine", p.Position(fn.Pos()), false, "no TSChannel."+spec[1]+" call")
			continue
		}
		tp, _ := c.Locate(ts)
		_, vis := c.ReachAvoiding([]Point{tp}, nil, nil)
		bad := ""
		for pt := range vis {
			if pt.I < 0 || pt.I >= len(pt.B.Nodes) {
				continue
			}
			inspectNoLit(pt.B.Nodes[pt.I], func(n ast.Node) bool {
				if call, ok := n.(*ast.CallExpr); ok && call != ts && isFallibleCall(fn, call) {
					bad = types.ExprString(call.Fun) + " at " + p.Position(call.Pos())
				}
				return true
			})
		}
		r.Ob("C15.R4.order", "the engine mutation is the last fallible step of "+spec[0], p.Position(ts.Pos()), bad == "", "a fallible call after it: "+bad+" (the engine change cannot be rolled back with the metadata transaction)")
	}
	// (ii) no remote step after the gateway step
	for _, spec := range [][3]string{{"create", "createGateway", "createRemote"}, {"delete", "deleteGateway", "deleteRemote"}, {"rename", "renameGateway", "renameRemote"}} {
		fn := p.Func(chanPkg, "Service", spec[0])
		gw := p.Func(chanPkg, "Service", spec[1])
		rm := p.Func(chanPkg, "Service", spec[2])
		if fn == nil || gw == nil || rm == nil {
			r.Undecide("C15.R4: Service.%s / %s / %s not found", spec[0], spec[1], spec[2])
			continue
		}
		c := p.CFG(fn)
		gcalls := CallsIn(fn, calleeIs(gw))
		if len(gcalls) != 1 {
			r.Ob("C15.R4.order", "Service."+spec[0]+" has one gateway step", p.Position(fn.Pos()), false, fmt.Sprintf("%d calls", len(gcalls)))
			continue
		}
		gp, _ := c.Locate(gcalls[0])
		q, vis := c.ReachAvoiding([]Point{gp}, nil, nil)
		ok := true
		var path []string
		for _, pt := range c.NodesWhere(func(n ast.Node) bool { return nodeHasCall(fn, n, calleeIs(rm)) }) {
			if vis[pt] {
				ok = false
				path = q.PathTo(pt)
			}
		}
		r.ObPath("C15.R4.order", "in Service."+spec[0]+" every remote step precedes the gateway step", p.Position(gcalls[0].Pos()), ok, "a peer that rejects its part after the local engine was changed fails the request with the engine already mutated", path)
	}
	// (iii) createGateway: engine and table from the same slice
	cg := p.Func(chanPkg, "Service", "createGateway")
	if cg != nil {
		var tsCreate *ast.CallExpr
		var tableEntries ast.Expr
		inspectNoLit(cg.Body, func(n ast.Node) bool {
			if call, ok := n.(*ast.CallExpr); ok {
				if f := CalleeFunc(cg, call); f != nil {
					if f.Name() == "CreateChannel" {
						tsCreate = call
					}
					if f.Name() == "Entries" && len(call.Args) == 1 {
						tableEntries = call.Args[0]
					}
				}
			}
			return true
		})
		ok := false
		detail := ""
		if tsCreate != nil && tableEntries != nil {
			var slice types.Object
			if u, isU := ast.Unparen(tableEntries).(*ast.UnaryExpr); isU {
				slice = objOf(cg, u.X)
			}
			// the engine argument derives from the same slice
			for _, a := range tsCreate.Args[1:] {
				if o := objOf(cg, a); o != nil {
					if rhs, _, d := varDefinedBy(cg, o); d && slice != nil && exprMentions(cg, rhs, slice) {
						ok = true
					}
				}
				if slice != nil && exprMentions(cg, a, slice) {
					ok = true
				}
			}
			detail = fmt.Sprintf("table entries: %s", types.ExprString(tableEntries))
			// the table create follows a successful engine create
			c := p.CFG(cg)
			if tp, found := c.Locate(tableEntries); found {
				if pth, _ := c.succeededBefore(tsCreate, tp); pth != nil {
					ok = false
					detail = "the table create does not follow a successful engine create"
				}
			}
		}
		r.Ob("C15.R4.order", "createGateway creates in the engine and in the table from the same slice", p.Position(cg.Pos()), ok, detail)
	}
	// (iv) proxy split exhaustive
	bf := p.Func("synnax/pkg/distribution/proxy", "BatchFactory", "Batch")
	if bf == nil {
		r.Undecide("C15.R4: proxy.BatchFactory.Batch not found")
		return
	}
	var loop *ast.RangeStmt
	inspectNoLit(bf.Body, func(n ast.Node) bool {
		if rs, ok := n.(*ast.RangeStmt); ok {
			loop = rs
		}
		return true
	})
	okSplit := false
	if loop != nil {
		c := p.CFG(bf)
		isPlace := func(n ast.Node) bool {
			as, ok := n.(*ast.AssignStmt)
			if !ok || len(as.Rhs) != 1 {
				return false
			}
			call, ok := ast.Unparen(as.Rhs[0]).(*ast.CallExpr)
			if !ok {
				return false
			}
			bi, ok := Callee(bf, call).(*types.Builtin)
			return ok && bi.Name() == "append"
		}
		okSplit = len(c.NodesWhere(isPlace)) == 3
		for _, b := range c.G.Blocks {
			if b.Stmt == loop && b.Kind.String() == "RangeBody" {
				_, vis := c.ReachAvoiding([]Point{{b, -1}}, nil, isPlace)
				for pt := range vis {
					if pt.B.Stmt == loop && (pt.B.Kind.String() == "RangeLoop" || pt.B.Kind.String() == "RangeDone") {
						okSplit = false
					}
				}
			}
		}
	}
	r.Ob("C15.R4.order", "BatchFactory.Batch places every entry in exactly one of Free, Gateway, Peers", p.Position(bf.Pos()), okSplit, "an entry that falls through is never created/deleted anywhere")
}

// checkNameAndOverwrite decides C15.R5.
func checkNameAndOverwrite(r *Run, p *Prog) {
	// (a) duplicate names inside one request
	if fn := p.Func(chanPkg, "Service", "validateChannelNames"); fn == nil {
		r.Undecide("C15.R5: Service.validateChannelNames not found")
	} else {
		c := p.CFG(fn)
		var dup *ast.RangeStmt
		inspectNoLit(fn.Body, func(x ast.Node) bool {
			rng, ok := x.(*ast.RangeStmt)
			if !ok || dup != nil {
				return true
			}
			hasContains, hasAdd := false, false
			inspectNoLit(rng.Body, func(y ast.Node) bool {
				if call, ok := y.(*ast.CallExpr); ok {
					if f := CalleeFunc(fn, call); f != nil {
						switch f.Name() {
						case "Contains":
							hasContains = true
						case "Add":
							hasAdd = true
						}
					}
				}
				return true
			})
			if hasContains && hasAdd {
				dup = rng
			}
			return true
		})
		if dup == nil {
			r.Ob("C15.R5.names", "validateChannelNames refuses a name repeated in the request", p.Position(fn.Pos()), false, "no loop that records the names seen and refuses a repeated one")
		} else {
			isDup := func(n ast.Node) bool {
				e, ok := n.(ast.Expr)
				return ok && e == dup.X
			}
			q, vis := c.ReachAvoiding([]Point{c.Entry()}, nil, isDup)
			var path []string
			for _, ex := range c.Exits() {
				if ex.Return != nil && mayReturnNilError(fn, ex.Return) && vis[ex.P] {
					path = q.PathTo(ex.P)
				}
			}
			r.ObPath("C15.R5.names", "validateChannelNames accepts a batch only after the repeated-name pass", p.Position(fn.Pos()), path == nil,
				"a nil return is reachable before the pass over the request's own names: a batch that repeats a name creates two channels with that name", path)
			// inside the pass: an iteration goes on to the next name only when this one was
			// not seen before, and only after recording it
			loopVar := objOf(fn, dup.Value)
			isCall := func(name string) func(atom ast.Expr, val bool) bool {
				return func(atom ast.Expr, val bool) bool {
					call, ok := ast.Unparen(atom).(*ast.CallExpr)
					if !ok || val {
						return false
					}
					f := CalleeFunc(fn, call)
					return f != nil && f.Name() == name && len(call.Args) == 1 && objOf(fn, call.Args[0]) == loopVar
				}
			}
			unseen := c.EdgesEstablishing(isCall("Contains"))
			isAdd := func(n ast.Node) bool {
				return nodeHasCall(fn, n, func(o types.Object, call *ast.CallExpr) bool {
					f, ok := o.(*types.Func)
					return ok && f.Name() == "Add" && len(call.Args) == 1 && objOf(fn, call.Args[0]) == loopVar
				})
			}
			for _, b := range c.G.Blocks {
				if b.Stmt != ast.Stmt(dup) || b.Kind.String() != "RangeBody" {
					continue
				}
				for _, chk := range []struct {
					name  string
					edges map[edge]bool
					stop  func(ast.Node) bool
				}{{"the name was not seen before", unseen, nil}, {"the name was recorded", nil, isAdd}} {
					q2, vis2 := c.ReachAvoiding([]Point{{b, -1}}, chk.edges, chk.stop)
					var p2 []string
					for pt := range vis2 {
						if pt.B.Stmt == ast.Stmt(dup) && (pt.B.Kind.String() == "RangeLoop" || pt.B.Kind.String() == "RangeDone") {
							p2 = q2.PathTo(pt)
						}
					}
					okChk := p2 == nil && (chk.edges == nil || len(chk.edges) > 0)
					r.ObPath("C15.R5.names", "the repeated-name pass moves on to the next name only when "+chk.name, posOf(p, dup), okChk,
						"a repeated name can pass the request's own duplicate test", p2)
				}
			}
		}
	}
	// (b) paired appends in deleteOverwritten
	fn := p.Func(chanPkg, "Service", "deleteOverwritten")
	if fn == nil {
		r.Undecide("C15.R5: Service.deleteOverwritten not found")
		return
	}
	c := p.CFG(fn)
	appendsTo := func(n ast.Node, name string) bool {
		as, ok := n.(*ast.AssignStmt)
		if !ok || len(as.Lhs) != 1 || len(as.Rhs) != 1 {
			return false
		}
		id, ok := ast.Unparen(as.Lhs[0]).(*ast.Ident)
		if !ok || id.Name != name {
			return false
		}
		call, ok := ast.Unparen(as.Rhs[0]).(*ast.CallExpr)
		if !ok {
			return false
		}
		bi, ok := Callee(fn, call).(*types.Builtin)
		return ok && bi.Name() == "append"
	}
	// the two queues: the one handed to the table delete and the one handed to the engine
	var metaQ, engQ string
	inspectNoLit(fn.Body, func(x ast.Node) bool {
		call, ok := x.(*ast.CallExpr)
		if !ok {
			return true
		}
		f := CalleeFunc(fn, call)
		if f == nil {
			return true
		}
		if f.Name() == "DeleteChannels" && len(call.Args) == 1 {
			if id, ok := ast.Unparen(call.Args[0]).(*ast.Ident); ok {
				engQ = id.Name
			}
		}
		if f.Name() == "MatchKeys" && len(call.Args) == 1 {
			if id, ok := ast.Unparen(call.Args[0]).(*ast.Ident); ok {
				metaQ = id.Name
			}
		}
		return true
	})
	if metaQ == "" || engQ == "" {
		r.Undecide("C15.R5: the metadata and engine delete queues of deleteOverwritten were not identified")
		return
	}
	pts := c.NodesWhere(func(n ast.Node) bool { return appendsTo(n, metaQ) })
	if len(pts) == 0 {
		r.Undecide("C15.R5: deleteOverwritten never appends to %s", metaQ)
		return
	}
	for i, pt := range pts {
		loop := enclosingLoop(fn, pt.B.Nodes[pt.I])
		pth := c.leavesWithout(pt, loop, nil, func(n ast.Node) bool { return appendsTo(n, engQ) })
		r.ObPath("C15.R5.names", fmt.Sprintf("deleteOverwritten: append #%d to %s is paired with an append to %s", i+1, metaQ, engQ), posOf(p, pt.B.Nodes[pt.I]), pth == nil,
			"a channel's metadata row is deleted while its engine key is not queued: the channel stays in the leaseholder's engine (still retrievable and writable there)", pth)
	}
}

// checkNewChannelKey decides C15.R6 by truth table (E17) over "ch.Key is in dbs.unary" and
// "ch.Key is in dbs.virtual".
func checkNewChannelKey(r *Run, p *Prog) {
	fn := p.Func("cesium", "DB", "validateNewChannel")
	if fn == nil {
		r.Undecide("C15.R6: cesium.DB.validateNewChannel not found")
		return
	}
	ch := paramObj(fn, 0)
	classify := func(ev *ttEval, st *ttState, f *FuncNode, e ast.Expr) (string, bool, bool) {
		ix, ok := ast.Unparen(e).(*ast.IndexExpr)
		if !ok {
			return "", false, false
		}
		sel, ok := ast.Unparen(ix.X).(*ast.SelectorExpr)
		if !ok || (sel.Sel.Name != "unary" && sel.Sel.Name != "virtual") {
			return "", false, false
		}
		f2, k := ev.resolve(st, f, ix.Index)
		ks, ok := ast.Unparen(k).(*ast.SelectorExpr)
		if !ok || ks.Sel.Name != "Key" {
			return "", false, false
		}
		f3, base := ev.resolve(st, f2, ks.X)
		if objOf(f3, base) != ch {
			return "", false, false
		}
		return sel.Sel.Name, false, true
	}
	outcome := func(f *FuncNode, ret *ast.ReturnStmt, results []ttVal) string { return ttErrOutcome(ret, results) }
	table, bad := ttTable(p, fn, []string{"unary", "virtual"}, classify, outcome, false)
	if bad != "" {
		r.Undecide("C15.R6: validateNewChannel could not be evaluated: %s", bad)
		return
	}
	accepts := table[0]["ok"]
	for i, mapName := range []string{"unary", "virtual"} {
		okMap := true
		for mask, outs := range table {
			if mask&(1<<i) != 0 && outs["ok"] {
				okMap = false
			}
		}
		r.Ob("C15.R6.newkey", "validateNewChannel accepts a channel only when its key is not in dbs."+mapName, p.Position(fn.Pos()), okMap && accepts,
			"a second channel can be accepted under a key the engine already holds (truth table over the two lookups of ch.Key)")
	}
}

// isPurePredicate: one boolean result; the body only looks things up (no calls other than
// builtins, no stores to fields or through indexes).
func isPurePredicate(g *FuncNode) bool {
	sig, _ := g.Obj.Type().(*types.Signature)
	if sig == nil || sig.Results().Len() != 1 || !isBoolType(sig.Results().At(0).Type()) {
		return false
	}
	pure := true
	inspectNoLit(g.Body, func(n ast.Node) bool {
		switch v := n.(type) {
		case *ast.CallExpr:
			if _, isB := Callee(g, v).(*types.Builtin); !isB {
				pure = false
			}
		case *ast.AssignStmt:
			for _, l := range v.Lhs {
				if _, isID := ast.Unparen(l).(*ast.Ident); !isID {
					pure = false
				}
			}
		case *ast.GoStmt, *ast.DeferStmt, *ast.SendStmt:
			pure = false
		}
		return true
	})
	return pure
}
