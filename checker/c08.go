package main

import (
	"fmt"
	"go/ast"
	"go/constant"
	"go/token"
	"go/types"
	"sort"
	"strings"
)

func init() { checks["C08"] = checkC08 }

const codecPkg = "synnax/pkg/distribution/framer/codec"

// ---- layout extraction

type layoutItem struct {
	Guard string // sorted conjunction of flag literals, e.g. "!equalLens" or "equalTimeRanges&!timeRangesZero"
	Prim  string // u8 | u32 | u64 | raw | tr
	Pos   token.Pos
}

func (l layoutItem) String() string {
	g := l.Guard
	if g == "" {
		g = "always"
	}
	return g + ":" + l.Prim
}

type layoutWalker struct {
	prog    *Prog
	depth   int
	fn      *FuncNode
	flags   map[*types.Var]string // flag field -> name
	prim    func(fn *FuncNode, call *ast.CallExpr) string
	items   []layoutItem
	problem string
}

// flagLits returns the flag literals of a condition when it is a conjunction made only
// of flag fields (possibly negated); ok is false when the condition mentions no flag.
func (w *layoutWalker) flagLits(fn *FuncNode, cond ast.Expr) ([]string, bool) {
	var lits []string
	all := true
	for _, a := range conjuncts(cond) {
		core, neg := BoolTest(a)
		sel, ok := core.(*ast.SelectorExpr)
		if !ok {
			all = false
			continue
		}
		v := fieldVar(fn, sel)
		name, isFlag := w.flags[v]
		if !isFlag {
			all = false
			continue
		}
		if neg == 1 {
			lits = append(lits, "!"+name)
		} else {
			lits = append(lits, name)
		}
	}
	if len(lits) == 0 {
		return nil, false
	}
	if !all {
		w.problem = "a condition mixes flag tests with other tests: " + types.ExprString(cond)
	}
	return lits, true
}

func joinGuard(g []string) string {
	s := append([]string{}, g...)
	sort.Strings(s)
	return strings.Join(s, "&")
}

func negate(lits []string) []string {
	// only single literals can be negated into a conjunction
	if len(lits) != 1 {
		return nil
	}
	if strings.HasPrefix(lits[0], "!") {
		return []string{lits[0][1:]}
	}
	return []string{"!" + lits[0]}
}

func endsInReturn(list []ast.Stmt) bool {
	if len(list) == 0 {
		return false
	}
	_, ok := list[len(list)-1].(*ast.ReturnStmt)
	return ok
}

// walk collects wire primitives of a statement list in order, under guard.
func (w *layoutWalker) walk(fn *FuncNode, list []ast.Stmt, guard []string, stop func(ast.Stmt) bool) []layoutItem {
	var out []layoutItem
	emitCalls := func(n ast.Node) {
		inspectNoLit(n, func(x ast.Node) bool {
			if call, ok := x.(*ast.CallExpr); ok {
				if p := w.prim(fn, call); p != "" {
					out = append(out, layoutItem{joinGuard(guard), p, call.Pos()})
					return true
				}
				// a package-local helper that itself moves bytes: inline its layout
				if f := CalleeFunc(fn, call); f != nil && w.prog != nil && w.depth < 3 {
					if callee, ok := w.prog.ByObj[f]; ok && callee.Pkg == w.fn.Pkg && callee != fn {
						// a helper that only moves raw bytes (possibly in chunks) is one raw field
						kinds := map[string]bool{}
						ast.Inspect(callee.Body, func(y ast.Node) bool {
							if c2, ok := y.(*ast.CallExpr); ok {
								if k := w.prim(callee, c2); k != "" {
									kinds[k] = true
								}
							}
							return true
						})
						if len(kinds) == 1 && kinds["raw"] {
							out = append(out, layoutItem{joinGuard(guard), "raw", call.Pos()})
							return true
						}
						w.depth++
						out = append(out, w.walk(callee, callee.Body.List, guard, nil)...)
						w.depth--
					}
				}
			}
			return true
		})
	}
	for _, s := range list {
		if stop != nil && stop(s) {
			break
		}
		switch st := s.(type) {
		case *ast.IfStmt:
			if st.Init != nil {
				emitCalls(st.Init)
			}
			lits, isFlag := w.flagLits(fn, st.Cond)
			if isFlag {
				out = append(out, w.walk(fn, st.Body.List, append(append([]string{}, guard...), lits...), stop)...)
				if st.Else != nil {
					neg := negate(lits)
					if neg == nil {
						w.problem = "else branch of a compound flag condition"
					}
					switch e := st.Else.(type) {
					case *ast.BlockStmt:
						out = append(out, w.walk(fn, e.List, append(append([]string{}, guard...), neg...), stop)...)
					case *ast.IfStmt:
						out = append(out, w.walk(fn, []ast.Stmt{e}, append(append([]string{}, guard...), neg...), stop)...)
					}
				}
				if endsInReturn(st.Body.List) {
					if neg := negate(lits); neg != nil {
						guard = append(append([]string{}, guard...), neg...)
					}
				}
				continue
			}
			// non-flag condition: the condition itself may read (if x, err = r.Uint32(); err != nil)
			emitCalls(st.Cond)
			a := w.walk(fn, st.Body.List, guard, stop)
			var b []layoutItem
			hasElse := false
			switch e := st.Else.(type) {
			case *ast.BlockStmt:
				hasElse = true
				b = w.walk(fn, e.List, guard, stop)
			case *ast.IfStmt:
				hasElse = true
				b = w.walk(fn, []ast.Stmt{e}, guard, stop)
			}
			switch {
			case len(a) == 0 && len(b) == 0:
			case hasElse && sameLayout(a, b):
				out = append(out, a...)
			case !hasElse && endsInReturn(st.Body.List):
				// error / early-exit branch: its wire operations do not continue the frame
			default:
				w.problem = fmt.Sprintf("wire layout depends on a non-flag condition %s", types.ExprString(st.Cond))
				out = append(out, a...)
			}
		case *ast.BlockStmt:
			out = append(out, w.walk(fn, st.List, guard, stop)...)
		case *ast.ForStmt, *ast.RangeStmt:
			// loops are sections of their own, handled by the caller
			continue
		default:
			emitCalls(s)
		}
	}
	return out
}

func sameLayout(a, b []layoutItem) bool {
	if len(a) != len(b) {
		return false
	}
	for i := range a {
		if a[i].Guard != b[i].Guard || a[i].Prim != b[i].Prim {
			return false
		}
	}
	return true
}

func layoutString(l []layoutItem) string {
	var s []string
	for _, i := range l {
		s = append(s, i.String())
	}
	return strings.Join(s, " ")
}

func writerPrim(fn *FuncNode, call *ast.CallExpr) string {
	f := CalleeFunc(fn, call)
	if f == nil {
		return ""
	}
	sig, _ := f.Type().(*types.Signature)
	if sig == nil || sig.Recv() == nil || !namedTypeIs(sig.Recv().Type(), "x/binary", "Writer") {
		return ""
	}
	switch f.Name() {
	case "Uint8":
		return "u8"
	case "Uint32":
		return "u32"
	case "Uint64":
		return "u64"
	case "Write":
		return "raw"
	}
	return ""
}

func readerPrim(fn *FuncNode, call *ast.CallExpr) string {
	f := CalleeFunc(fn, call)
	if f == nil {
		return ""
	}
	sig, _ := f.Type().(*types.Signature)
	if sig == nil || sig.Recv() == nil || !namedTypeIs(sig.Recv().Type(), "x/binary", "Reader") {
		return ""
	}
	switch f.Name() {
	case "Uint8":
		return "u8"
	case "Uint32":
		return "u32"
	case "Uint64":
		return "u64"
	case "Read":
		return "raw"
	}
	return ""
}

func checkC08(r *Run) {
	r.Explanation = "Structural necessary conditions of 'the frame codec round-trips and is safe on any bytes': (R1) the ordered list of (flag guard, wire primitive) the encoder writes equals the list the decoder reads, for the header and for the per-series section, the six flag bit positions are distinct and bound to the same fields in flags.encode and decodeFlags, and the time-range helpers agree; (R2) in the decode call tree no allocation (make, slices.Grow) is sized by a value read from the wire unless that value was compared against an untainted bound on the way or clamped with min(.., bound) (taint dataflow through assignments, closures and one level of package-local helpers); (R3) no explicit panic (builtin panic, lo.Must) is reachable through static calls from Codec.Decode/DecodeStream and from the HTTP framer codec's Decode/DecodeStream."
	r.NotDecided = "Value-level round-trip equality, the merging of contiguous series and the sort order, behaviour while the two sides are several channel-set updates apart; index expressions on wire-derived values other than allocations."
	r.Trusted = []string{"go/types, go/cfg", "io.ReadFull returns an error on short input"}
	r.Extra["module"] = "core"
	p, err := Load("core", "./pkg/distribution/framer/...", "./pkg/transport/http/framer/...")
	if err != nil {
		r.Undecide("%v", err)
		return
	}
	r.Stats["packages"] = len(p.Repo)
	r.Rule("C08.R1.layout", "encoder and decoder agree position by position on (flag guard, primitive) for the header and the series section; flag bit positions are pairwise distinct and bound to the same field on both sides; writeTimeRange/readTimeRange agree", 4)
	r.Rule("C08.R2.alloc", "every allocation in the decode call tree whose size derives from bytes read off the wire is dominated by a bound check against an untainted value (or clamped by min)", 1)
	r.Rule("C08.R4.order", "the encoder's sort order is total: sorter.Less is the strict lexicographic order on (keys, alignments, rawIndices), so series of one channel with equal alignment keep their order under the unstable sort.Sort", 1)
	r.Rule("C08.R7.publish", "Codec.update puts the new channel-set state into the updates channel before it raises the updateAvailable flag: processUpdates clears the flag and drains the channel, so a flag raised first can be consumed while the channel is still empty and the state is stranded (the encoder stays on the stale key set)", 1)
	r.Rule("C08.R6.states", "the codec's backlog of channel-set states only grows: Codec.mu.states is allocated by the constructor and extended by processUpdates, and no entry is deleted or replaced (a frame encoded k updates ago must still decode)", 2)
	r.Rule("C08.R5.fullread", "binary.Reader takes bytes from its underlying io.Reader only through io.ReadFull: the decoder discards the byte counts and assumes every read filled its buffer, and stream transports deliver messages in chunks", 1)
	r.Rule("C08.R8.update", "the WebSocket framer codec decides from the decoded message alone whether a request renegotiates the channel set: a request decoder returns without Codec.Update only across a test of the message (its type, its command, an empty key list), never of codec state - the peer counts one state per request it sent, and a request the server skips leaves the two sequence numbers apart for good", 3)
	r.Rule("C08.R3.nopanic", "no builtin panic / lo.Must is reachable through static calls from the decode entry points", 4)

	checkLayout(r, p)
	checkDecodeAlloc(r, p)
	checkDecodeNoPanic(r, p)
	checkFullReads(r, p)
	checkStateBacklog(r, p)
	checkUpdatePublishOrder(r, p)
	checkRequestUpdates(r, p)
	if less := p.Func(codecPkg, "sorter", "Less"); less == nil {
		r.Undecide("C08.R4: sorter.Less not found")
	} else {
		ok, why := decideIndexOrder(less, []string{"keys", "alignments", "rawIndices"})
		r.Ob("C08.R4.order", "sorter.Less is lexicographic on (keys, alignments, rawIndices)", p.Position(less.Pos()), ok, why)
	}
}

func checkLayout(r *Run, p *Prog) {
	enc := p.Func(codecPkg, "Codec", "encodeInternal")
	dec := p.Func(codecPkg, "Codec", "DecodeStream")
	pk := p.Pkg(codecPkg)
	if enc == nil || dec == nil || pk == nil {
		r.Undecide("C08.R1: encodeInternal / DecodeStream not found")
		return
	}
	flagsT, _ := pk.Types.Scope().Lookup("flags").(*types.TypeName)
	if flagsT == nil {
		r.Undecide("C08.R1: type flags not found")
		return
	}
	flagFields := map[*types.Var]string{}
	st := structOf(flagsT.Type())
	for i := 0; i < st.NumFields(); i++ {
		flagFields[st.Field(i)] = st.Field(i).Name()
	}
	// ---- encoder: header = statements after buf.Reset() up to the series loop; series = the last range loop that writes
	ew := &layoutWalker{prog: p, fn: enc, flags: flagFields, prim: writerPrim}
	var seriesLoop *ast.RangeStmt
	startIdx := -1
	for i, s := range enc.Body.List {
		if es, ok := s.(*ast.ExprStmt); ok {
			if call, ok := es.X.(*ast.CallExpr); ok {
				if f := CalleeFunc(enc, call); f != nil && f.Name() == "Reset" {
					startIdx = i
				}
			}
		}
		if rs, ok := s.(*ast.RangeStmt); ok {
			has := false
			ast.Inspect(rs.Body, func(x ast.Node) bool {
				if call, ok := x.(*ast.CallExpr); ok && writerPrim(enc, call) != "" {
					has = true
				}
				return true
			})
			if has {
				seriesLoop = rs
			}
		}
	}
	if startIdx < 0 || seriesLoop == nil {
		r.Undecide("C08.R1: encoder sections not recognised (buf.Reset / series loop)")
		return
	}
	encHeader := ew.walk(enc, enc.Body.List[startIdx+1:], nil, func(s ast.Stmt) bool { return s == seriesLoop })
	encSeries := ew.walk(enc, seriesLoop.Body.List, nil, nil)
	// ---- decoder: header = body before the series closure; series = key read (after it) + closure body
	dw := &layoutWalker{prog: p, fn: dec, flags: flagFields, prim: readerPrim}
	var lit *ast.FuncLit
	litIdx := -1
	for i, s := range dec.Body.List {
		if as, ok := s.(*ast.AssignStmt); ok && len(as.Rhs) == 1 {
			if l, ok := as.Rhs[0].(*ast.FuncLit); ok {
				lit, litIdx = l, i
			}
		}
	}
	if lit == nil {
		r.Undecide("C08.R1: decoder series closure not found")
		return
	}
	decHeader := dw.walk(dec, dec.Body.List[:litIdx], nil, nil)
	ln := p.LitNode(lit)
	decSeries := dw.walk(ln, lit.Body.List, nil, nil)
	// the per-series key: a reader call in the trailing loop, guarded by the preceding "if allChannelsPresent { ... return }"
	var keyItems []layoutItem
	guard := []string{}
	for _, s := range dec.Body.List[litIdx+1:] {
		switch st := s.(type) {
		case *ast.IfStmt:
			if lits, ok := dw.flagLits(dec, st.Cond); ok && endsInReturn(st.Body.List) {
				if neg := negate(lits); neg != nil {
					guard = append(guard, neg...)
				}
			}
		case *ast.ForStmt:
			keyItems = append(keyItems, dw.walk(dec, st.Body.List, guard, nil)...)
		}
	}
	decSeries = append(keyItems, decSeries...)
	if ew.problem != "" {
		r.Undecide("C08.R1: encoder: %s", ew.problem)
	}
	if dw.problem != "" {
		r.Undecide("C08.R1: decoder: %s", dw.problem)
	}
	okH := sameLayout(encHeader, decHeader) && len(encHeader) >= 5
	r.Ob("C08.R1.layout", "frame header layout agrees between encodeInternal and DecodeStream", p.Position(dec.Pos()), okH, "encoder: "+layoutString(encHeader)+" | decoder: "+layoutString(decHeader))
	okS := sameLayout(encSeries, decSeries) && len(encSeries) >= 5
	r.Ob("C08.R1.layout", "per-series layout agrees between encodeInternal and DecodeStream", p.Position(lit.Pos()), okS, "encoder: "+layoutString(encSeries)+" | decoder: "+layoutString(decSeries))

	// ---- flag positions
	fe := p.Func(codecPkg, "flags", "encode")
	fd := p.Func(codecPkg, "", "decodeFlags")
	if fe == nil || fd == nil {
		r.Undecide("C08.R1: flags.encode / decodeFlags not found")
		return
	}
	setMap, getMap := map[string]string{}, map[string]string{}
	posVal := map[string]int64{}
	collect := func(fn *FuncNode, method string, m map[string]string) {
		inspectNoLit(fn.Body, func(x ast.Node) bool {
			as, ok := x.(*ast.AssignStmt)
			if !ok || len(as.Rhs) != 1 {
				return true
			}
			call, ok := ast.Unparen(as.Rhs[0]).(*ast.CallExpr)
			if !ok {
				return true
			}
			sel, ok := ast.Unparen(call.Fun).(*ast.SelectorExpr)
			if !ok || sel.Sel.Name != method {
				return true
			}
			cid, ok := ast.Unparen(sel.X).(*ast.Ident)
			if !ok {
				return true
			}
			c, ok := fn.Pkg.TypesInfo.Uses[cid].(*types.Const)
			if !ok {
				return true
			}
			if v, ok := constant.Int64Val(c.Val()); ok {
				posVal[c.Name()] = v
			}
			field := ""
			if method == "Set" && len(call.Args) == 2 {
				if fs, ok := ast.Unparen(call.Args[1]).(*ast.SelectorExpr); ok {
					field = fs.Sel.Name
				}
			}
			if method == "Get" && len(as.Lhs) == 1 {
				if fs, ok := ast.Unparen(as.Lhs[0]).(*ast.SelectorExpr); ok {
					field = fs.Sel.Name
				}
			}
			if field != "" {
				if prev, dup := m[c.Name()]; dup && prev != field {
					m[c.Name()] = prev + "," + field
				} else {
					m[c.Name()] = field
				}
			}
			return true
		})
	}
	collect(fe, "Set", setMap)
	collect(fd, "Get", getMap)
	okF := len(setMap) == st.NumFields() && len(getMap) == st.NumFields()
	var desc []string
	for c, f := range setMap {
		if getMap[c] != f {
			okF = false
		}
		desc = append(desc, fmt.Sprintf("%s=%d:%s/%s", c, posVal[c], f, getMap[c]))
	}
	sort.Strings(desc)
	seen := map[int64]bool{}
	for _, v := range posVal {
		if seen[v] || v < 0 || v > 7 {
			okF = false
		}
		seen[v] = true
	}
	// every field bound exactly once
	fieldsSeen := map[string]int{}
	for _, f := range setMap {
		fieldsSeen[f]++
	}
	for _, n := range fieldsSeen {
		if n != 1 {
			okF = false
		}
	}
	r.Ob("C08.R1.layout", "flag bit positions are distinct and bound to the same field in flags.encode and decodeFlags", p.Position(fe.Pos()), okF, strings.Join(desc, " "))

	// ---- time range helpers
	wt := p.Func(codecPkg, "", "writeTimeRange")
	rt := p.Func(codecPkg, "Codec", "readTimeRange")
	if wt == nil || rt == nil {
		r.Undecide("C08.R1: time range helpers not found")
		return
	}
	var wl, rl []string
	inspectNoLit(wt.Body, func(x ast.Node) bool {
		if call, ok := x.(*ast.CallExpr); ok {
			if pr := writerPrim(wt, call); pr != "" {
				field := ""
				ast.Inspect(call, func(y ast.Node) bool {
					if s, ok := y.(*ast.SelectorExpr); ok && (s.Sel.Name == "Start" || s.Sel.Name == "End") {
						field = s.Sel.Name
					}
					return true
				})
				wl = append(wl, pr+":"+field)
			}
		}
		return true
	})
	readVars := map[types.Object]int{}
	i := 0
	inspectNoLit(rt.Body, func(x ast.Node) bool {
		if as, ok := x.(*ast.AssignStmt); ok && len(as.Rhs) == 1 {
			if call, ok := ast.Unparen(as.Rhs[0]).(*ast.CallExpr); ok && readerPrim(rt, call) != "" {
				readVars[objOf(rt, as.Lhs[0])] = i
				rl = append(rl, readerPrim(rt, call))
				i++
			}
		}
		return true
	})
	// which read feeds Start / End
	inspectNoLit(rt.Body, func(x ast.Node) bool {
		if kv, ok := x.(*ast.KeyValueExpr); ok {
			if id, ok := kv.Key.(*ast.Ident); ok && (id.Name == "Start" || id.Name == "End") {
				ast.Inspect(kv.Value, func(y ast.Node) bool {
					if vid, ok := y.(*ast.Ident); ok {
						if idx, ok := readVars[rt.Pkg.TypesInfo.Uses[vid]]; ok && idx < len(rl) {
							rl[idx] = rl[idx] + ":" + id.Name
						}
					}
					return true
				})
			}
		}
		return true
	})
	r.Ob("C08.R1.layout", "writeTimeRange and readTimeRange move Start then End as two u64", p.Position(wt.Pos()), strings.Join(wl, ",") == strings.Join(rl, ",") && len(wl) == 2, fmt.Sprintf("write: %v read: %v", wl, rl))
}

// ---- R2 taint

func isWireRead(fn *FuncNode, call *ast.CallExpr) bool {
	f := CalleeFunc(fn, call)
	if f == nil {
		return false
	}
	sig, _ := f.Type().(*types.Signature)
	if sig == nil || sig.Recv() == nil || !namedTypeIs(sig.Recv().Type(), "x/binary", "Reader") {
		return false
	}
	switch f.Name() {
	case "Uint8", "Uint32", "Uint64":
		return true
	}
	return false
}

func checkDecodeAlloc(r *Run, p *Prog) {
	dec := p.Func(codecPkg, "Codec", "DecodeStream")
	if dec == nil {
		r.Undecide("C08.R2: DecodeStream not found")
		return
	}
	tainted := map[types.Object]bool{}
	// functions in the decode tree (package-local static callees), with tainted parameters
	inTree := map[*FuncNode]bool{}
	var addTree func(fn *FuncNode)
	addTree = func(fn *FuncNode) {
		if inTree[fn] {
			return
		}
		inTree[fn] = true
		for _, l := range fn.Lits {
			addTree(l)
		}
		ast.Inspect(fn.Body, func(x ast.Node) bool {
			if call, ok := x.(*ast.CallExpr); ok {
				if f := CalleeFunc(fn, call); f != nil {
					if n, ok := p.ByObj[f]; ok && (n.InPkgs(codecPkg) || n.InPkgs("x/binary")) {
						addTree(n)
					}
				}
			}
			return true
		})
	}
	addTree(dec)
	exprTainted := func(fn *FuncNode, e ast.Expr) bool {
		t := false
		ast.Inspect(e, func(x ast.Node) bool {
			switch v := x.(type) {
			case *ast.Ident:
				if o := fn.Pkg.TypesInfo.Uses[v]; o != nil && tainted[o] {
					t = true
				}
			case *ast.CallExpr:
				if isWireRead(fn, v) {
					t = true
				}
				// min(x, bound) with an untainted bound is bounded
				if bi, ok := Callee(fn, v).(*types.Builtin); ok && bi.Name() == "min" {
					return false
				}
			}
			return true
		})
		return t
	}
	minBounded := func(fn *FuncNode, e ast.Expr) bool {
		// taint only through min(..) calls that have at least one untainted argument
		ok := true
		var rec func(x ast.Expr) bool // returns tainted-unbounded
		rec = func(x ast.Expr) bool {
			switch v := ast.Unparen(x).(type) {
			case *ast.CallExpr:
				if bi, isB := Callee(fn, v).(*types.Builtin); isB && bi.Name() == "min" {
					for _, a := range v.Args {
						if !rec(a) {
							return false
						}
					}
					return true
				}
				if tv, isT := fn.Pkg.TypesInfo.Types[v.Fun]; isT && tv.IsType() && len(v.Args) == 1 {
					return rec(v.Args[0])
				}
				if isWireRead(fn, v) {
					return true
				}
				t := false
				for _, a := range v.Args {
					if rec(a) {
						t = true
					}
				}
				if s, isSel := ast.Unparen(v.Fun).(*ast.SelectorExpr); isSel && rec(s.X) {
					t = true
				}
				return t
			case *ast.BinaryExpr:
				return rec(v.X) || rec(v.Y)
			case *ast.Ident:
				o := fn.Pkg.TypesInfo.Uses[v]
				return o != nil && tainted[o]
			case *ast.SelectorExpr:
				return rec(v.X)
			}
			return false
		}
		_ = ok
		return !rec(e)
	}
	// fixpoint
	for changed := true; changed; {
		changed = false
		for fn := range inTree {
			ast.Inspect(fn.Body, func(x ast.Node) bool {
				switch s := x.(type) {
				case *ast.FuncLit:
					return false
				case *ast.AssignStmt:
					for i, l := range s.Lhs {
						o := objOf(fn, l)
						if o == nil || tainted[o] {
							continue
						}
						var rhs ast.Expr
						if len(s.Rhs) == len(s.Lhs) {
							rhs = s.Rhs[i]
						} else if len(s.Rhs) == 1 && i == 0 {
							rhs = s.Rhs[0]
						}
						if rhs != nil && !minBounded(fn, rhs) {
							tainted[o] = true
							changed = true
						}
					}
				case *ast.CallExpr:
					f := CalleeFunc(fn, s)
					if f == nil {
						return true
					}
					callee, ok := p.ByObj[f]
					if !ok || !inTree[callee] {
						return true
					}
					for i, a := range s.Args {
						if !minBounded(fn, a) {
							if po := paramObj(callee, i); po != nil && !tainted[po] {
								tainted[po] = true
								changed = true
							}
						}
					}
				}
				return true
			})
		}
	}
	_ = exprTainted
	// sinks
	n := 0
	var fns []*FuncNode
	for fn := range inTree {
		fns = append(fns, fn)
	}
	sort.Slice(fns, func(i, j int) bool { return fns[i].Name < fns[j].Name })
	for _, fn := range fns {
		c := p.CFG(fn)
		inspectNoLit(fn.Body, func(x ast.Node) bool {
			call, ok := x.(*ast.CallExpr)
			if !ok {
				return true
			}
			var sizes []ast.Expr
			kind := ""
			if bi, ok := Callee(fn, call).(*types.Builtin); ok && bi.Name() == "make" && len(call.Args) >= 2 {
				sizes, kind = call.Args[1:], "make"
			}
			if f := CalleeFunc(fn, call); f != nil && f.Name() == "Grow" && f.Pkg() != nil && f.Pkg().Path() == "slices" && len(call.Args) == 2 {
				sizes, kind = call.Args[1:], "slices.Grow"
			}
			if kind == "" {
				return true
			}
			for _, sz := range sizes {
				if minBounded(fn, sz) {
					continue
				}
				n++
				// the tainted variables in the size expression
				var vars []types.Object
				ast.Inspect(sz, func(y ast.Node) bool {
					if id, ok := y.(*ast.Ident); ok {
						if o := fn.Pkg.TypesInfo.Uses[id]; o != nil && tainted[o] {
							vars = append(vars, o)
						}
					}
					return true
				})
				sp, _ := c.Locate(call)
				ok := len(vars) > 0
				var path []string
				for _, v := range vars {
					bound := c.EdgesEstablishing(func(atom ast.Expr, val bool) bool {
						be, isB := ast.Unparen(atom).(*ast.BinaryExpr)
						if !isB {
							return false
						}
						// v <= K / v < K (true)   |   v > K / v >= K (false)   with K untainted
						xIsV := objOf(fn, be.X) == v
						yIsV := objOf(fn, be.Y) == v
						if !xIsV && !yIsV {
							return false
						}
						other := be.Y
						if yIsV {
							other = be.X
						}
						if !minBounded(fn, other) {
							return false
						}
						op := be.Op
						if yIsV { // K op v  ==  v op' K
							switch op {
							case token.LSS:
								op = token.GTR
							case token.LEQ:
								op = token.GEQ
							case token.GTR:
								op = token.LSS
							case token.GEQ:
								op = token.LEQ
							}
						}
						switch op {
						case token.LEQ, token.LSS:
							return val
						case token.GTR, token.GEQ:
							return !val
						}
						return false
					})
					q, vis := c.ReachAvoiding([]Point{c.Entry()}, bound, nil)
					if len(bound) == 0 || vis[sp] {
						ok = false
						path = q.PathTo(sp)
					}
				}
				r.ObPath("C08.R2.alloc", fmt.Sprintf("%s(%s) in %s is bounded", kind, types.ExprString(sz), fn.Name), p.Position(call.Pos()), ok,
					"the size derives from bytes read off the wire: without a bound a few input bytes allocate gigabytes", path)
			}
			return true
		})
	}
	r.Stats["decode_tree_functions"] = len(inTree)
	r.Stats["wire_tainted_values"] = len(tainted)
	if len(tainted) < 3 {
		r.Undecide("C08.R2: only %d wire-tainted values found in the decode tree (sources lost)", len(tainted))
	}
	if n == 0 {
		// no tainted allocation at all: record that as the (trivially discharged) obligation
		r.ObTrivial("C08.R2.alloc", "no allocation in the decode tree is sized by wire data", p.Position(dec.Pos()), true, "")
		r.ObTrivial("C08.R2.alloc", "decode tree enumerated", p.Position(dec.Pos()), true, fmt.Sprintf("%d functions", len(inTree)))
	}
}

// ---- R3

// panicExceptions lists, by function, explicit panics on the decode path that cannot be
// triggered by frame bytes (one named symbol each, with the reason).
var panicExceptions = map[string]string{
	"telem.Density.Size":        "panics only for an undefined density; the data type comes from the negotiated channel set (channel metadata), never from the frame bytes",
	"telem.Density.SampleCount": "same as Density.Size",
}

func checkDecodeNoPanic(r *Run, p *Prog) {
	entries := []*FuncNode{
		p.Func(codecPkg, "Codec", "Decode"), p.Func(codecPkg, "Codec", "DecodeStream"),
		p.Func("synnax/pkg/transport/http/framer", "Codec", "Decode"), p.Func("synnax/pkg/transport/http/framer", "Codec", "DecodeStream"),
	}
	for _, e := range entries {
		if e == nil {
			r.Undecide("C08.R3: a decode entry point was not found")
			return
		}
	}
	for _, e := range entries {
		seen := map[*FuncNode][]string{}
		var walk func(fn *FuncNode, chain []string)
		var bad []string
		walk = func(fn *FuncNode, chain []string) {
			if _, ok := seen[fn]; ok {
				return
			}
			seen[fn] = chain
			for _, l := range fn.Lits {
				walk(l, append(chain, l.Name))
			}
			inspectNoLit(fn.Body, func(x ast.Node) bool {
				call, ok := x.(*ast.CallExpr)
				if !ok {
					return true
				}
				switch o := Callee(fn, call).(type) {
				case *types.Builtin:
					if o.Name() == "panic" {
						if reason, ok := panicExceptions[fn.Name]; ok {
							_ = reason
							return true
						}
						bad = append(bad, strings.Join(append(chain, "panic at "+p.Position(call.Pos())), " -> "))
					}
				case *types.Func:
					o = o.Origin()
					if o.Pkg() != nil && strings.HasSuffix(o.Pkg().Path(), "samber/lo") && strings.HasPrefix(o.Name(), "Must") {
						bad = append(bad, strings.Join(append(chain, "lo."+o.Name()+" at "+p.Position(call.Pos())), " -> "))
					}
					if n, ok := p.ByObj[o]; ok {
						// Update() resolves channels through services: their internals are not wire-driven
						if n.InPkgs(codecPkg, "x/binary", "x/telem", "synnax/pkg/transport/http/framer", "synnax/pkg/distribution/framer/frame") {
							walk(n, append(chain, n.Name))
						}
					}
				}
				return true
			})
		}
		walk(e, []string{e.Name})
		r.ObPath("C08.R3.nopanic", "no explicit panic reachable from "+e.Name, p.Position(e.Pos()), len(bad) == 0, fmt.Sprintf("%d function(s) reached through static calls in codec, x/binary, x/telem, frame and the HTTP framer", len(seen)), bad)
	}
}

// checkFullReads decides C08.R5.
func checkFullReads(r *Run, p *Prog) {
	n := 0
	for _, fn := range p.FuncsOfPkg("x/binary") {
		if fn.Decl == nil || fn.Body == nil || recvName(fn.Decl) != "(*Reader)" {
			continue
		}
		inspectNoLit(fn.Body, func(x ast.Node) bool {
			call, ok := x.(*ast.CallExpr)
			if !ok {
				return true
			}
			// a direct method call on the underlying reader field
			if sel, ok := ast.Unparen(call.Fun).(*ast.SelectorExpr); ok {
				if inner, ok := ast.Unparen(sel.X).(*ast.SelectorExpr); ok {
					if f, ok := fn.Pkg.TypesInfo.Uses[inner.Sel].(*types.Var); ok && f.IsField() && isIOReader(f.Type()) && sel.Sel.Name == "Read" {
						n++
						r.Ob("C08.R5.fullread", "direct Read on the underlying reader in "+fn.Name, posOf(p, call), false, "a short read leaves the tail of the buffer zeroed and the unread bytes are parsed as the next field")
					}
				}
			}
			// the underlying reader passed to a helper: must be io.ReadFull / io.ReadAtLeast
			for _, a := range call.Args {
				inner, ok := ast.Unparen(a).(*ast.SelectorExpr)
				if !ok {
					continue
				}
				f, ok := fn.Pkg.TypesInfo.Uses[inner.Sel].(*types.Var)
				if !ok || !f.IsField() || !isIOReader(f.Type()) {
					continue
				}
				callee := CalleeFunc(fn, call)
				good := callee != nil && callee.Pkg() != nil && callee.Pkg().Path() == "io" && callee.Name() == "ReadFull"
				n++
				name := "?"
				if callee != nil {
					name = callee.Name()
				}
				r.Ob("C08.R5.fullread", fn.Name+" reads through "+name, posOf(p, call), good, "the underlying reader may only be drained by io.ReadFull")
			}
			return true
		})
	}
	if n < 1 {
		r.Undecide("C08.R5: only %d reads of binary.Reader's underlying reader found (expected >= 1)", n)
	}
}

func isIOReader(t types.Type) bool {
	n, ok := types.Unalias(t).(*types.Named)
	return ok && n.Obj().Pkg() != nil && n.Obj().Pkg().Path() == "io" && n.Obj().Name() == "Reader"
}

// checkStateBacklog decides C08.R6.
func checkStateBacklog(r *Run, p *Prog) {
	states := p.FieldOf(codecPkg, "Codec", "mu.states")
	seq := p.FieldOf(codecPkg, "Codec", "mu.seqNum")
	if states == nil || seq == nil {
		r.Undecide("C08.R6: Codec.mu.states / Codec.mu.seqNum not found")
		return
	}
	n := 0
	for _, fn := range p.FuncsOfPkg(codecPkg) {
		if fn.Body == nil {
			continue
		}
		inspectNoLit(fn.Body, func(x ast.Node) bool {
			st, ok := x.(ast.Stmt)
			if !ok || !isStoreTo(fn, st, states) {
				return true
			}
			n++
			good, what := false, describe(st)
			if as, ok := st.(*ast.AssignStmt); ok && len(as.Lhs) == 1 && len(as.Rhs) == 1 {
				switch l := ast.Unparen(as.Lhs[0]).(type) {
				case *ast.SelectorExpr:
					// allocation: = make(map...)
					if call, ok := ast.Unparen(as.Rhs[0]).(*ast.CallExpr); ok {
						if bi, ok := Callee(fn, call).(*types.Builtin); ok && bi.Name() == "make" {
							good = true
						}
					}
				case *ast.IndexExpr:
					// states[<seqNum field>] = s, the key being the freshly incremented counter
					if sel, ok := ast.Unparen(l.Index).(*ast.SelectorExpr); ok && fieldVar(fn, sel) == seq {
						good = true
					}
				}
			}
			r.Ob("C08.R6.states", "write of Codec.mu.states in "+fn.Name, posOf(p, st), good, what+": the backlog may only be allocated or extended at the current sequence number; deleting or overwriting a state makes frames encoded under it undecodable")
			return true
		})
	}
	if n < 2 {
		r.Undecide("C08.R6: only %d writes of Codec.mu.states found (expected 2)", n)
	}
}

// checkUpdatePublishOrder decides C08.R7.
func checkUpdatePublishOrder(r *Run, p *Prog) {
	fn := p.Func(codecPkg, "Codec", "update")
	if fn == nil {
		r.Undecide("C08.R7: Codec.update not found")
		return
	}
	c := p.CFG(fn)
	isSend := func(n ast.Node) bool {
		send, ok := n.(*ast.SendStmt)
		if !ok {
			return false
		}
		sel, ok := ast.Unparen(send.Chan).(*ast.SelectorExpr)
		return ok && sel.Sel.Name == "updates"
	}
	flags := c.NodesWhere(func(n ast.Node) bool {
		return nodeHasCall(fn, n, func(o types.Object, call *ast.CallExpr) bool {
			f, ok := o.(*types.Func)
			if !ok || f.Name() != "Store" || len(call.Args) != 1 {
				return false
			}
			sel, ok := ast.Unparen(call.Fun).(*ast.SelectorExpr)
			if !ok {
				return false
			}
			inner, ok := ast.Unparen(sel.X).(*ast.SelectorExpr)
			if !ok || inner.Sel.Name != "updateAvailable" {
				return false
			}
			id, ok := ast.Unparen(call.Args[0]).(*ast.Ident)
			return ok && id.Name == "true"
		})
	})
	if len(flags) == 0 || len(c.NodesWhere(isSend)) == 0 {
		r.Undecide("C08.R7: Codec.update no longer raises updateAvailable / sends on updates (unknown hand-off)")
		return
	}
	q, vis := c.ReachAvoiding([]Point{c.Entry()}, nil, isSend)
	var path []string
	for _, fp := range flags {
		if vis[fp] {
			path = q.PathTo(fp)
		}
	}
	r.ObPath("C08.R7.publish", "Codec.update publishes the state before raising the flag", p.Position(fn.Pos()), path == nil,
		"the flag is raised before the state is in the channel: a processUpdates that runs in between clears the flag, finds nothing, and nothing re-raises it", path)
}

// checkRequestUpdates decides C08.R8.
func checkRequestUpdates(r *Run, p *Prog) {
	const pk = "synnax/pkg/transport/http/framer"
	n := 0
	for _, fn := range p.FuncsOfPkg(pk) {
		if fn.Decl == nil || fn.Body == nil || !strings.Contains(recvName(fn.Decl), "Codec") {
			continue
		}
		isUpdate := func(node ast.Node) bool {
			return nodeHasCall(fn, node, func(o types.Object, _ *ast.CallExpr) bool {
				f, ok := o.(*types.Func)
				return ok && f.Name() == "Update" && recvNamed(f) == "Codec"
			})
		}
		c := p.CFG(fn)
		if len(c.NodesWhere(isUpdate)) == 0 {
			continue
		}
		n++
		var recv types.Object
		if fn.Decl.Recv != nil && len(fn.Decl.Recv.List) == 1 && len(fn.Decl.Recv.List[0].Names) == 1 {
			recv = fn.Pkg.TypesInfo.Defs[fn.Decl.Recv.List[0].Names[0]]
		}
		// no condition that reads codec state lies on a path to a return that accepts the
		// request without Update
		var path []string
		for _, b := range c.G.Blocks {
			cond := Cond(b)
			if cond == nil {
				continue
			}
			usesRecv := false
			ast.Inspect(cond, func(y ast.Node) bool {
				if id, ok := y.(*ast.Ident); ok && recv != nil && objOf(fn, id) == recv {
					usesRecv = true
				}
				return true
			})
			if !usesRecv {
				continue
			}
			for si, succ := range b.Succs {
				_ = si
				q, vis := c.ReachAvoiding([]Point{{succ, -1}}, nil, isUpdate)
				for _, ex := range c.Exits() {
					if ex.Return != nil && vis[ex.P] && mayReturnNilError(fn, ex.Return) {
						path = append([]string{posOf(p, cond) + ": " + types.ExprString(cond)}, q.PathTo(ex.P)...)
					}
				}
			}
		}
		r.ObPath("C08.R8.update", fn.Name+" skips Codec.Update only on a test of the decoded message", p.Position(fn.Pos()), path == nil,
			"a request is accepted without renegotiating the channel set on a path that does not depend on the message alone", path)
	}
	if n < 3 {
		r.Undecide("C08.R8: only %d request decoders calling Codec.Update found (expected >= 3)", n)
	}
}
