package main

import (
	"encoding/json"
	"fmt"
	"go/ast"
	"go/parser"
	"go/token"
	"os"
	"os/exec"
	"path/filepath"
	"sort"
	"strconv"
	"strings"
	"sync"
)

// Guard weakening: a systematic test of the rules (not a check). For every function in
// which some obligation of a property is anchored, every branch condition C is replaced,
// one at a time, by (C) && w() and by (C) || w(), where w() reads a package-level
// variable the analysis knows nothing about. A condition none of whose two variants
// makes any rule of the property fire is a guard the property's rules do not depend on:
// either it is irrelevant to the property or a rule is missing. The list is for reading;
// nothing in the registered checks depends on it.

const weakenDecl = "\n\nvar verifWeakVar bool\n\nfunc verifWeak() bool { return verifWeakVar }\n"

type weakSite struct {
	File       string `json:"file"`
	Line       int    `json:"line"`
	Func       string `json:"func"`
	Cond       string `json:"cond"`
	Stmt       bool   `json:"stmt,omitempty"`
	Start, End int
	And        string   `json:"and"` // detected | missed | undecided | invalid
	Or         string   `json:"or"`
	AndFired   []string `json:"and_fired,omitempty"`
	OrFired    []string `json:"or_fired,omitempty"`
}

// applyWeakenFromEnv installs the overlay for VERIF_WEAKEN=<file>:<start>:<end>:<and|or>.
func applyWeakenFromEnv() (*Mutant, string) {
	v := os.Getenv("VERIF_WEAKEN")
	if v == "" {
		return nil, ""
	}
	parts := strings.Split(v, ":")
	if len(parts) != 4 {
		return nil, ""
	}
	path := filepath.Join(RepoRoot, parts[0])
	b, err := os.ReadFile(path)
	if err != nil {
		return &Mutant{Name: v}, "stale: " + err.Error()
	}
	s, _ := strconv.Atoi(parts[1])
	e, _ := strconv.Atoi(parts[2])
	if s < 0 || e > len(b) || s >= e {
		return &Mutant{Name: v}, "stale: offsets"
	}
	var src string
	switch parts[3] {
	case "del":
		src = string(b[:s]) + "{ }" + string(b[e:])
	case "or":
		src = string(b[:s]) + "((" + string(b[s:e]) + ") || verifWeak())" + string(b[e:]) + weakenDecl
	default:
		src = string(b[:s]) + "((" + string(b[s:e]) + ") && verifWeak())" + string(b[e:]) + weakenDecl
	}
	LoadOverlay = map[string][]byte{path: []byte(src)}
	return &Mutant{Name: v}, ""
}

func weakenSites(obs []Obligation, stmts bool) []weakSite {
	lines := map[string]map[int]bool{}
	for _, o := range obs {
		i := strings.LastIndex(o.Pos, ":")
		if i < 0 {
			continue
		}
		f := o.Pos[:i]
		n, err := strconv.Atoi(o.Pos[i+1:])
		if err != nil {
			// file:line:col
			j := strings.LastIndex(f, ":")
			if j < 0 {
				continue
			}
			n, _ = strconv.Atoi(f[j+1:])
			f = f[:j]
		}
		if lines[f] == nil {
			lines[f] = map[int]bool{}
		}
		lines[f][n] = true
	}
	var files []string
	for f := range lines {
		files = append(files, f)
	}
	sort.Strings(files)
	var out []weakSite
	for _, f := range files {
		fset := token.NewFileSet()
		path := filepath.Join(RepoRoot, f)
		src, err := os.ReadFile(path)
		if err != nil {
			continue
		}
		af, err := parser.ParseFile(fset, path, src, 0)
		if err != nil {
			continue
		}
		for _, d := range af.Decls {
			fd, ok := d.(*ast.FuncDecl)
			if !ok || fd.Body == nil {
				continue
			}
			a, b := fset.Position(fd.Pos()).Line, fset.Position(fd.End()).Line
			anchored := false
			for n := range lines[f] {
				if n >= a && n <= b {
					anchored = true
				}
			}
			if !anchored {
				continue
			}
			add := func(c ast.Expr) {
				if c == nil {
					return
				}
				s, e := fset.Position(c.Pos()).Offset, fset.Position(c.End()).Offset
				out = append(out, weakSite{File: f, Line: fset.Position(c.Pos()).Line, Func: fd.Name.Name, Cond: string(src[s:e]), Start: s, End: e})
			}
			addStmt := func(st ast.Stmt) {
				s, e := fset.Position(st.Pos()).Offset, fset.Position(st.End()).Offset
				out = append(out, weakSite{File: f, Line: fset.Position(st.Pos()).Line, Func: fd.Name.Name, Cond: string(src[s:e]), Start: s, End: e, Stmt: true})
			}
			ast.Inspect(fd.Body, func(n ast.Node) bool {
				if stmts {
					switch v := n.(type) {
					case *ast.ExprStmt:
						addStmt(v)
					case *ast.DeferStmt:
						addStmt(v)
					case *ast.GoStmt:
						addStmt(v)
					case *ast.IncDecStmt:
						addStmt(v)
					case *ast.AssignStmt:
						if v.Tok == token.DEFINE {
							break
						}
						store := true
						for _, l := range v.Lhs {
							switch ast.Unparen(l).(type) {
							case *ast.SelectorExpr, *ast.IndexExpr, *ast.StarExpr:
							default:
								store = false
							}
						}
						if store {
							addStmt(v)
						}
					}
					return true
				}
				switch v := n.(type) {
				case *ast.IfStmt:
					add(v.Cond)
				case *ast.ForStmt:
					add(v.Cond)
				case *ast.SwitchStmt:
					if v.Tag == nil {
						for _, cc := range v.Body.List {
							for _, e := range cc.(*ast.CaseClause).List {
								add(e)
							}
						}
					}
				}
				return true
			})
		}
	}
	return out
}

func runWeaken(prop string, filter string) int {
	f, ok := checks[prop]
	if !ok {
		fmt.Fprintln(os.Stderr, "no such check")
		return 2
	}
	r := NewRun(prop, "quick", 0)
	f(r)
	stmts := os.Getenv("VERIF_WEAKEN_STMTS") != ""
	sites := weakenSites(r.Obs, stmts)
	if filter != "" {
		var keep []weakSite
		for _, s := range sites {
			if strings.Contains(s.File+":"+s.Func, filter) {
				keep = append(keep, s)
			}
		}
		sites = keep
	}
	fmt.Fprintf(os.Stderr, "weaken %s: %d conditions in anchored functions\n", prop, len(sites))
	self, _ := os.Executable()
	par := 10
	if v, err := strconv.Atoi(os.Getenv("VERIF_PAR")); err == nil && v > 0 {
		par = v
	}
	sem := make(chan struct{}, par)
	var wg sync.WaitGroup
	run := func(s *weakSite, kind string) (string, []string) {
		cmd := exec.Command(self, "check", prop)
		cmd.Env = append(os.Environ(), fmt.Sprintf("VERIF_WEAKEN=%s:%d:%d:%s", s.File, s.Start, s.End, kind), "VERIF_TIER=quick", "VERIF_MUTANT=")
		out, _ := cmd.CombinedOutput()
		res := mutantResult{Status: "invalid"}
		for _, line := range strings.Split(string(out), "\n") {
			if strings.HasPrefix(line, "MUTANT ") {
				_ = json.Unmarshal([]byte(strings.TrimPrefix(line, "MUTANT ")), &res)
			}
		}
		if res.Status == "missed" && len(res.Undecided) > 0 {
			return "undecided", res.Undecided
		}
		return res.Status, res.Fired
	}
	for i := range sites {
		kinds := []string{"and", "or"}
		if sites[i].Stmt {
			kinds = []string{"del"}
		}
		for _, kind := range kinds {
			wg.Add(1)
			go func(s *weakSite, kind string) {
				defer wg.Done()
				sem <- struct{}{}
				defer func() { <-sem }()
				st, fired := run(s, kind)
				if kind == "and" || kind == "del" {
					s.And, s.AndFired = st, fired
				}
				if kind == "or" || kind == "del" {
					s.Or, s.OrFired = st, fired
				}
			}(&sites[i], kind)
		}
	}
	wg.Wait()
	nBoth, nOne, nNone := 0, 0, 0
	for _, s := range sites {
		a, o := s.And == "detected" || s.And == "undecided", s.Or == "detected" || s.Or == "undecided"
		switch {
		case a && o:
			nBoth++
		case a || o:
			nOne++
		default:
			nNone++
		}
	}
	dir := filepath.Join(VerifRoot, "out", "weaken")
	_ = os.MkdirAll(dir, 0o755)
	b, _ := json.MarshalIndent(map[string]any{"property": prop, "conditions": len(sites), "both_variants_noticed": nBoth, "one_variant_noticed": nOne, "unnoticed": nNone, "sites": sites}, "", " ")
	suffix := ""
	if stmts {
		suffix = ".stmts"
	}
	_ = os.WriteFile(filepath.Join(dir, prop+suffix+".json"), b, 0o644)
	fmt.Printf("weaken %s: conditions=%d both=%d one=%d unnoticed=%d\n", prop, len(sites), nBoth, nOne, nNone)
	for _, s := range sites {
		if s.And != "detected" && s.And != "undecided" && s.Or != "detected" && s.Or != "undecided" {
			fmt.Printf("  UNNOTICED %s:%d %s: %s  [and=%s or=%s]\n", s.File, s.Line, s.Func, strings.Join(strings.Fields(s.Cond), " "), s.And, s.Or)
		}
	}
	return 0
}
