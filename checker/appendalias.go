package main

import (
	"fmt"
	"go/ast"
	"go/types"
)

// ---------------------------------------------------------------------------------
// E13: append aliasing. "y := append(x.f, more...)" with the result bound to something
// other than x.f writes into x.f's backing array whenever it has spare capacity. When x
// is shared (a table's key prefix, a configuration slice) two such calls overwrite each
// other's bytes: a data race and, between two scans, the wrong key prefix. The first
// argument must be a local the function owns, a clipped/cloned slice, or the result must
// be stored back into the same field.
// ---------------------------------------------------------------------------------

func checkAppendAliasing(r *Run, p *Prog, rule string, scope func(*FuncNode) bool) {
	n := 0
	for _, fn := range p.Funcs {
		if fn.Body == nil || !scope(fn) {
			continue
		}
		seen := map[string]int{}
		inspectNoLit(fn.Body, func(x ast.Node) bool {
			var lhs []ast.Expr
			var rhs []ast.Expr
			switch v := x.(type) {
			case *ast.AssignStmt:
				lhs, rhs = v.Lhs, v.Rhs
			case *ast.ReturnStmt:
				rhs = v.Results
			case *ast.ValueSpec:
				for _, nm := range v.Names {
					lhs = append(lhs, nm)
				}
				rhs = v.Values
			default:
				return true
			}
			for i, e := range rhs {
				call, ok := ast.Unparen(e).(*ast.CallExpr)
				if !ok || len(call.Args) < 2 {
					continue
				}
				if bi, ok := Callee(fn, call).(*types.Builtin); !ok || bi.Name() != "append" {
					continue
				}
				first := ast.Unparen(call.Args[0])
				sel, ok := first.(*ast.SelectorExpr)
				if !ok {
					continue
				}
				fv, ok := fn.Pkg.TypesInfo.Uses[sel.Sel].(*types.Var)
				if !ok || !fv.IsField() {
					continue
				}
				// fields of values the function itself created are its own
				if base := objOf(fn, rootExpr(sel.X)); base != nil {
					if _, isParam := paramIndex(fn, base); !isParam && !isReceiver(fn, base) && fn.Parent == nil {
						continue
					}
				}
				n++
				back := len(lhs) == len(rhs) && i < len(lhs) && types.ExprString(ast.Unparen(lhs[i])) == types.ExprString(first)
				key := fmt.Sprintf("append to %s in %s", types.ExprString(first), fn.Name)
				seen[key]++
				if seen[key] > 1 {
					key = fmt.Sprintf("%s #%d", key, seen[key])
				}
				r.Ob(rule, key, posOf(p, call), back, "the result is not stored back into "+types.ExprString(first)+": with spare capacity the new elements are written into the shared backing array, so concurrent callers overwrite each other (use slices.Clip / slices.Concat / a fresh slice)")
			}
			return true
		})
	}
	r.Stats["append_field_sites_"+rule] = n
	r.Ob(rule, "append calls on fields of shared objects were examined", "", true, fmt.Sprintf("%d append(<field>, ...) call(s)", n))
}

func rootExpr(e ast.Expr) ast.Expr {
	for {
		switch v := ast.Unparen(e).(type) {
		case *ast.SelectorExpr:
			e = v.X
		case *ast.IndexExpr:
			e = v.X
		case *ast.StarExpr:
			e = v.X
		default:
			return ast.Unparen(e)
		}
	}
}
