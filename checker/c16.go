package main

import (
	"fmt"
	"go/ast"
	"go/token"
	"go/types"
	"strings"
)

func init() { checks["C16"] = checkC16 }

const ontPkg = "synnax/pkg/distribution/ontology"

// trailingConst returns the constant string that the byte/string expression e certainly
// ends with ("" when unknown). It follows conversions, "+" chains, single-definition
// variables and the "v = append(v, suffix...)" idiom.
func trailingConst(fn *FuncNode, e ast.Expr, depth int) string {
	if depth > 6 {
		return ""
	}
	e = ast.Unparen(e)
	if s, ok := constString(fn, e); ok {
		return s
	}
	switch x := e.(type) {
	case *ast.CallExpr:
		if tv, ok := fn.Pkg.TypesInfo.Types[x.Fun]; ok && tv.IsType() && len(x.Args) == 1 {
			return trailingConst(fn, x.Args[0], depth+1)
		}
		if bi, ok := Callee(fn, x).(*types.Builtin); ok && bi.Name() == "append" && len(x.Args) >= 2 {
			return trailingConst(fn, x.Args[len(x.Args)-1], depth+1)
		}
	case *ast.BinaryExpr:
		if x.Op == token.ADD {
			if t := trailingConst(fn, x.Y, depth+1); t != "" {
				return t
			}
		}
	case *ast.Ident:
		o := objOf(fn, x)
		if o == nil {
			return ""
		}
		// the last assignment in source order, searched in fn and its enclosing functions
		var last ast.Expr
		for f := fn; f != nil; f = f.Parent {
			ast.Inspect(f.Body, func(n ast.Node) bool {
				if as, ok := n.(*ast.AssignStmt); ok {
					for i, l := range as.Lhs {
						if objOf(f, l) == o && i < len(as.Rhs) {
							last = as.Rhs[i]
						}
					}
				}
				return true
			})
			if last != nil {
				return trailingConst(f, last, depth+1)
			}
		}
	}
	return ""
}

// leadingConst is the mirror of trailingConst.
func leadingConst(fn *FuncNode, e ast.Expr, depth int) string {
	if depth > 6 {
		return ""
	}
	e = ast.Unparen(e)
	if s, ok := constString(fn, e); ok {
		return s
	}
	switch x := e.(type) {
	case *ast.CallExpr:
		if tv, ok := fn.Pkg.TypesInfo.Types[x.Fun]; ok && tv.IsType() && len(x.Args) == 1 {
			return leadingConst(fn, x.Args[0], depth+1)
		}
	case *ast.BinaryExpr:
		if x.Op == token.ADD {
			// leftmost operand
			l := x.X
			for {
				if b, ok := ast.Unparen(l).(*ast.BinaryExpr); ok && b.Op == token.ADD {
					l = b.X
					continue
				}
				break
			}
			return leadingConst(fn, l, depth+1)
		}
	case *ast.Ident:
		o := objOf(fn, x)
		for f := fn; f != nil && o != nil; f = f.Parent {
			if rhs, _, ok := varDefinedBy(f, o); ok {
				return leadingConst(f, rhs, depth+1)
			}
		}
	}
	return ""
}

// entryTypeOfQuery returns the name of the gorp entry type a query-builder method is
// invoked on (second type argument of gorp.Retrieve / gorp.Delete / Table).
func entryTypeOfQuery(fn *FuncNode, call *ast.CallExpr) string {
	sel, ok := ast.Unparen(call.Fun).(*ast.SelectorExpr)
	if !ok {
		return ""
	}
	t := fn.Pkg.TypesInfo.TypeOf(sel.X)
	n, ok := derefNamed(t)
	if !ok {
		return ""
	}
	args := n.TypeArgs()
	if args == nil || args.Len() < 2 {
		// promoted through an embedded query: take the instantiated method's receiver
		if f, isF := Callee(fn, call).(*types.Func); isF {
			if sig, isS := f.Type().(*types.Signature); isS && sig.Recv() != nil {
				if rn, isN := derefNamed(sig.Recv().Type()); isN {
					args = rn.TypeArgs()
				}
			}
		}
	}
	if args == nil || args.Len() < 2 {
		return ""
	}
	if e, ok := derefNamed(args.At(1)); ok {
		return e.Obj().Name()
	}
	return ""
}

func checkC16(r *Run) {
	r.Explanation = "Structural necessary conditions of 'the ontology graph stays acyclic, exact and free of dangling edges': (R1) every key-prefix scan of the relationship table ('from->type->to') or the resource table ('type:key') ends on the component separator and every key-suffix test begins with it, so an identifier that is a string prefix/suffix of another (channel:1 / channel:10) cannot be confused with it; traversal prefix functions come only from RelationshipPrefix, which appends '->type->'; (R2) a resource row is deleted only by DeleteResource/DeleteManyResources, after the incoming and the outgoing relationships of every deleted id were deleted successfully; (R3) relationships are created only by DefineRelationship/DefineFromOneToManyRelationships, after both endpoints were validated to exist and on the edge where the source is not among the descendants of the target; an existing relationship returns nil; retrieveDescendants records every child it walks (no non-error exit from its loop)."
	r.NotDecided = "Exactness of index-backed traversals on particular graph shapes (diamonds, deep chains) against a reference search; transactional visibility of ontology writes."
	r.Trusted = []string{"go/types constant evaluation", "go/cfg", "gorp prefix/suffix matching semantics"}
	r.Extra["module"] = "core"
	p, err := Load("core", "./pkg/distribution/ontology/...")
	if err != nil {
		r.Undecide("%v", err)
		return
	}
	r.Stats["packages"] = len(p.Repo)
	r.Rule("C16.R1.boundary", "every WherePrefix argument on the relationship/resource tables ends with the key separator ('->' / ':'), every HasSuffix pattern on relationship keys begins with '->', and Traverser.FilterPrefix is only ever RelationshipPrefix(..)", 8)
	r.Rule("C16.R2.edges", "resourceTable.NewDelete runs only in DeleteResource/DeleteManyResources and only after deleteIncomingRelationships and deleteOutgoingRelationships succeeded for every id being deleted", 4)
	r.Rule("C16.ERR", "no error returned by a call is discarded in the ontology package except the tabled sites (a swallowed edge clean-up error leaves dangling edges)", 1)
	r.Rule("C16.R4.append", "no append in the ontology package extends a slice held in a field of a shared object without storing the result back (query builders and key prefixes are shared between concurrent traversals)", 1)
	r.Rule("C16.R3.self", "the Define* functions refuse source == target before creating (the descendant walk cannot see that cycle)", 2)
	r.Rule("C16.R3.create", "relationshipTable.NewCreate runs only in DefineRelationship/DefineFromOneToManyRelationships, after validateResourcesExist succeeded for both endpoints and behind 'from is not a descendant of to'; an existing edge yields nil; retrieveDescendants records every child", 8)

	sep, ok := pkgConstString(p, ontPkg, "relationshipKeySep")
	if !ok {
		r.Undecide("C16: relationshipKeySep not found")
		return
	}
	checkScanBoundaries(r, p, sep)
	checkResourceDelete(r, p)
	checkRelationshipCreate(r, p)
	checkAppendAliasing(r, p, "C16.R4.append", func(fn *FuncNode) bool { return fn.InPkgs(ontPkg) })
	checkErrDrop(r, p, "C16.ERR", func(fn *FuncNode) bool { return fn.InPkgs(ontPkg) && !fn.InPkgs(ontPkg+"/signals") }, 100)
}

func checkScanBoundaries(r *Run, p *Prog, sep string) {
	n := 0
	for _, fn := range p.Funcs {
		if !fn.InPkgs(ontPkg) {
			continue
		}
		inspectNoLit(fn.Body, func(x ast.Node) bool {
			call, ok := x.(*ast.CallExpr)
			if !ok {
				return true
			}
			f := CalleeFunc(fn, call)
			if f == nil {
				return true
			}
			switch {
			case f.Name() == "WherePrefix" && f.Pkg() != nil && strings.HasSuffix(f.Pkg().Path(), "x/gorp") && len(call.Args) == 1:
				entry := entryTypeOfQuery(fn, call)
				want := ""
				switch entry {
				case "Relationship":
					want = sep
				case "Resource":
					want = ":"
				default:
					return true
				}
				n++
				arg := ast.Unparen(call.Args[0])
				got := trailingConst(fn, arg, 0)
				detail := fmt.Sprintf("prefix %s ends with %q, table separator %q", types.ExprString(arg), got, want)
				ok := strings.HasSuffix(got, want) && got != ""
				// prefix supplied by a Traverser.FilterPrefix function value
				if c2, isCall := arg.(*ast.CallExpr); isCall && got == "" {
					if s, isSel := ast.Unparen(c2.Fun).(*ast.SelectorExpr); isSel && s.Sel.Name == "FilterPrefix" {
						ok = true
						detail = "prefix comes from Traverser.FilterPrefix (checked separately)"
					}
				}
				r.Ob("C16.R1.boundary", fmt.Sprintf("prefix scan of the %s table in %s ends on the separator", entry, fn.Top().Name), p.Position(call.Pos()), ok, detail+": a bare id as prefix also matches every id it is a string prefix of")
			case f.Name() == "HasSuffix" && f.Pkg() != nil && f.Pkg().Path() == "bytes" && len(call.Args) == 2:
				n++
				got := leadingConst(fn, call.Args[1], 0)
				r.Ob("C16.R1.boundary", "suffix test on relationship keys in "+fn.Top().Name+" begins with the separator", p.Position(call.Pos()), strings.HasPrefix(got, sep), fmt.Sprintf("pattern %s begins with %q", types.ExprString(call.Args[1]), got))
			}
			return true
		})
	}
	if n < 6 {
		r.Undecide("C16.R1: only %d prefix/suffix scans found (expected >= 6)", n)
	}
	// Traverser.FilterPrefix values
	fp := p.FieldOf(ontPkg, "Traverser", "FilterPrefix")
	relPrefix := p.Func(ontPkg, "", "RelationshipPrefix")
	if fp == nil || relPrefix == nil {
		r.Undecide("C16.R1: Traverser.FilterPrefix / RelationshipPrefix not found")
		return
	}
	okSet, nSet := true, 0
	where := ""
	for _, pk := range p.Repo {
		for _, file := range pk.Syntax {
			ast.Inspect(file, func(x ast.Node) bool {
				kv, ok := x.(*ast.KeyValueExpr)
				if !ok {
					return true
				}
				id, ok := kv.Key.(*ast.Ident)
				if !ok {
					return true
				}
				if v, ok := pk.TypesInfo.Uses[id].(*types.Var); !ok || v.Origin() != fp {
					return true
				}
				nSet++
				call, isCall := ast.Unparen(kv.Value).(*ast.CallExpr)
				if !isCall {
					okSet = false
					where = p.Position(kv.Pos())
					return true
				}
				if f, ok := pk.TypesInfo.Uses[identOfFun(call.Fun)].(*types.Func); !ok || f.Origin() != relPrefix.Obj {
					okSet = false
					where = p.Position(kv.Pos())
				}
				return true
			})
		}
	}
	r.Ob("C16.R1.boundary", "Traverser.FilterPrefix is only ever RelationshipPrefix(..)", p.Position(relPrefix.Pos()), okSet && nSet >= 1, fmt.Sprintf("%d setter(s) %s", nSet, where))
	// RelationshipPrefix's closure returns id + "->type->"
	okRP := false
	detail := ""
	for _, l := range relPrefix.Lits {
		inspectNoLit(l.Body, func(x ast.Node) bool {
			if ret, ok := x.(*ast.ReturnStmt); ok && len(ret.Results) == 1 {
				got := trailingConst(l, ret.Results[0], 0)
				detail = fmt.Sprintf("returned prefix ends with %q", got)
				okRP = strings.HasSuffix(got, sep) && got != ""
			}
			return true
		})
	}
	r.Ob("C16.R1.boundary", "RelationshipPrefix yields a prefix that ends on the separator", p.Position(relPrefix.Pos()), okRP, detail)
}

func identOfFun(e ast.Expr) *ast.Ident {
	switch x := ast.Unparen(e).(type) {
	case *ast.Ident:
		return x
	case *ast.SelectorExpr:
		return x.Sel
	case *ast.IndexExpr:
		return identOfFun(x.X)
	case *ast.IndexListExpr:
		return identOfFun(x.X)
	}
	return nil
}

// tableBuilderCalls finds calls <recv>.<field>.<method>() where field is the given
// table field of dagWriter.
func tableBuilderCalls(p *Prog, field *types.Var, method string) []CallSite {
	var out []CallSite
	for _, fn := range p.Funcs {
		if !fn.InPkgs(ontPkg) {
			continue
		}
		inspectNoLit(fn.Body, func(x ast.Node) bool {
			call, ok := x.(*ast.CallExpr)
			if !ok {
				return true
			}
			sel, ok := ast.Unparen(call.Fun).(*ast.SelectorExpr)
			if !ok || sel.Sel.Name != method {
				return true
			}
			inner, ok := ast.Unparen(sel.X).(*ast.SelectorExpr)
			if ok && fieldVar(fn, inner) == field {
				out = append(out, CallSite{fn, call})
			}
			return true
		})
	}
	return out
}

func checkResourceDelete(r *Run, p *Prog) {
	resTable := p.FieldOf(ontPkg, "dagWriter", "resourceTable")
	delIn := p.Func(ontPkg, "dagWriter", "deleteIncomingRelationships")
	delOut := p.Func(ontPkg, "dagWriter", "deleteOutgoingRelationships")
	if resTable == nil || delIn == nil || delOut == nil {
		r.Undecide("C16.R2: resourceTable / delete helpers not found")
		return
	}
	allowed := map[string]bool{"DeleteResource": true, "DeleteManyResources": true}
	sites := tableBuilderCalls(p, resTable, "NewDelete")
	if len(sites) < 2 {
		r.Undecide("C16.R2: only %d resourceTable.NewDelete sites", len(sites))
	}
	for _, cs := range sites {
		fn := cs.Fn
		name := ""
		if fn.Top().Decl != nil {
			name = fn.Top().Decl.Name.Name
		}
		r.Ob("C16.R2.edges", "resource rows deleted in "+fn.Top().Name, p.Position(cs.Call.Pos()), allowed[name], "only DeleteResource / DeleteManyResources may delete resource rows")
		if !allowed[name] {
			continue
		}
		c := p.CFG(fn)
		dp, _ := c.Locate(cs.Call)
		for _, helper := range []*FuncNode{delIn, delOut} {
			calls := CallsIn(fn, calleeIs(helper))
			if len(calls) == 0 {
				// the step extracted into a package-local wrapper that succeeds only after it
				calls = wrapperCallsOf(p, fn, helper, 1)
			}
			if len(calls) != 1 {
				r.Ob("C16.R2.edges", fmt.Sprintf("%s runs before the resource delete in %s", helper.Name, fn.Top().Name), p.Position(cs.Call.Pos()), false, fmt.Sprintf("%d call(s) to %s", len(calls), helper.Name))
				continue
			}
			var path []string
			var why string
			if lp, isLoop := enclosingLoop(fn, calls[0]).(*ast.RangeStmt); isLoop {
				path, why = c.succeededInLoopBefore(calls[0], lp, dp)
			} else {
				path, why = c.succeededBefore(calls[0], dp)
			}
			ok := path == nil
			// in the batch variant the helper runs once per id of the same slice that is deleted
			if ok {
				if loop, isLoop := enclosingLoop(fn, calls[0]).(*ast.RangeStmt); isLoop {
					idsObj := objOf(fn, loop.X)
					uses := idsObj != nil && exprMentions(fn, cs.Call, idsObj)
					// the delete's Where(...) chain mentions the slice
					chain := ast.Node(cs.Call)
					inspectNoLit(fn.Body, func(y ast.Node) bool {
						if ret, isRet := y.(*ast.ReturnStmt); isRet && contains(ret, cs.Call) {
							chain = ret
						}
						return true
					})
					uses = idsObj != nil && exprMentions(fn, chain, idsObj)
					// and the helper is applied to the loop variable
					argOK := len(calls[0].Args) == 2 && objOf(fn, calls[0].Args[1]) == objOf(fn, loop.Value)
					if !uses || !argOK {
						ok = false
						why = "the relationships are deleted for a different set of ids than the resources"
					}
					// every iteration reaches the helper or returns
					for _, b := range c.G.Blocks {
						if b.Stmt == loop && b.Kind.String() == "RangeBody" {
							q, vis := c.ReachAvoiding([]Point{{b, -1}}, nil, func(n ast.Node) bool { return contains(n, calls[0]) })
							for pt := range vis {
								if pt.B.Stmt == loop && (pt.B.Kind.String() == "RangeLoop" || pt.B.Kind.String() == "RangeDone") {
									ok = false
									why = "an iteration can skip the helper"
									path = q.PathTo(pt)
								}
							}
						}
					}
				} else if len(calls[0].Args) == 2 {
					// single variant: same id parameter
					idParam := paramObj(fn, 1)
					if objOf(fn, calls[0].Args[1]) != idParam {
						ok = false
						why = "the helper is applied to a different id"
					}
				}
			}
			r.ObPath("C16.R2.edges", fmt.Sprintf("%s succeeds before the resource delete in %s", helper.Name, fn.Top().Name), p.Position(cs.Call.Pos()), ok, why+": a resource deleted while edges still mention it leaves dangling relationships", path)
		}
	}
}

func checkRelationshipCreate(r *Run, p *Prog) {
	relTable := p.FieldOf(ontPkg, "dagWriter", "relationshipTable")
	validate := p.Func(ontPkg, "dagWriter", "validateResourcesExist")
	desc := p.Func(ontPkg, "dagWriter", "retrieveDescendants")
	exists := p.Func(ontPkg, "dagWriter", "checkRelationshipExists")
	if relTable == nil || validate == nil || desc == nil || exists == nil {
		r.Undecide("C16.R3: relationshipTable / validateResourcesExist / retrieveDescendants / checkRelationshipExists not found")
		return
	}
	allowed := map[string]bool{"DefineRelationship": true, "DefineFromOneToManyRelationships": true}
	sites := tableBuilderCalls(p, relTable, "NewCreate")
	if len(sites) < 2 {
		r.Undecide("C16.R3: only %d relationshipTable.NewCreate sites", len(sites))
	}
	for _, cs := range sites {
		fn := cs.Fn
		name := ""
		if fn.Top().Decl != nil {
			name = fn.Top().Decl.Name.Name
		}
		r.Ob("C16.R3.create", "relationships created in "+fn.Top().Name, p.Position(cs.Call.Pos()), allowed[name], "only the Define* functions may create relationship rows")
		if !allowed[name] {
			continue
		}
		c := p.CFG(fn)
		cp, _ := c.Locate(cs.Call)
		from, to := paramNamed(fn, "from"), paramNamed(fn, "to")
		// validation of both endpoints
		vcalls := CallsIn(fn, calleeIs(validate))
		covered := map[types.Object]bool{}
		okV := len(vcalls) > 0
		var path []string
		why := ""
		for _, vc := range vcalls {
			for _, a := range vc.Args[1:] {
				covered[objOf(fn, a)] = true
			}
			if pth, w := c.succeededBefore(vc, cp); pth != nil {
				okV, path, why = false, pth, w
			}
		}
		if !covered[from] || !covered[to] {
			okV = false
			why = "validateResourcesExist does not cover both endpoints"
		}
		r.ObPath("C16.R3.create", "both endpoints are validated before the edge is created in "+fn.Top().Name, p.Position(cs.Call.Pos()), okV, why, path)
		// cycle and self tests by truth table (E17): over "source == target" and "the source is
		// among the descendants of the target", the create is possible only when both are false
		top := fn.Top()
		role := func(ev *ttEval, st *ttState, f *FuncNode, x ast.Expr) string {
			f2, x2 := ev.resolve(st, f, x)
			x2 = ast.Unparen(x2)
			if o := objOf(f2, x2); o != nil {
				switch {
				case o == from && f2.Top() == top:
					return "from"
				case o == to && to != nil && f2.Top() == top:
					return "to"
				}
				if rng, ok := enclosingLoop(f2, x2).(*ast.RangeStmt); ok && rng.Value != nil && objOf(f2, rng.Value) == o && objOf(f2, rng.X) == to && to != nil {
					return "to"
				}
			}
			if sl, ok := x2.(*ast.SelectorExpr); ok {
				switch sl.Sel.Name {
				case "To":
					return "to"
				case "From":
					return "from"
				}
			}
			return ""
		}
		classify := func(ev *ttEval, st *ttState, f *FuncNode, e ast.Expr) (string, bool, bool) {
			switch v := ast.Unparen(e).(type) {
			case *ast.BinaryExpr:
				if v.Op == token.EQL || v.Op == token.NEQ {
					a, b := role(ev, st, f, v.X), role(ev, st, f, v.Y)
					if a != "" && b != "" && a != b {
						return "self", v.Op == token.NEQ, true
					}
				}
			case *ast.IndexExpr:
				f2, m := ev.resolve(st, f, v.X)
				call, ok := ast.Unparen(m).(*ast.CallExpr)
				if !ok {
					return "", false, false
				}
				if g := CalleeFunc(f2, call); g == nil || g != desc.Obj || len(call.Args) != 2 {
					return "", false, false
				}
				if role(ev, st, f2, call.Args[1]) == "to" && role(ev, st, f, v.Index) == "from" {
					return "descendant", false, true
				}
			}
			return "", false, false
		}
		outcome := func(f *FuncNode, ret *ast.ReturnStmt, results []ttVal) string {
			if ret != nil && contains(ret, cs.Call) {
				return "create"
			}
			return ttErrOutcome(ret, results)
		}
		table, bad := ttTable(p, top, []string{"self", "descendant"}, classify, outcome, true, func(f *types.Func) bool {
			return f == desc.Obj || f == validate.Obj || f == exists.Obj
		})
		if bad != "" {
			r.Undecide("C16.R3: %s could not be evaluated: %s", top.Name, bad)
			continue
		}
		creates := table[0]["create"]
		okC, selfOK := creates, creates
		for mask, outs := range table {
			if !outs["create"] {
				continue
			}
			if mask&1 != 0 {
				selfOK = false
			}
			if mask&2 != 0 {
				okC = false
			}
		}
		r.Ob("C16.R3.create", "the edge is created only when the source is not a descendant of the target in "+top.Name, p.Position(cs.Call.Pos()), okC,
			"the create is possible although the source is among retrieveDescendants(target) (truth table over the self and descendant tests)")
		r.Ob("C16.R3.self", "a relationship from a resource to itself is refused in "+top.Name, p.Position(cs.Call.Pos()), selfOK,
			"the create is possible although source == target (a self edge is a cycle and makes retrieveDescendants recurse without end)")
	}
	// DefineRelationship: an existing edge is a no-op returning nil (err is nil on that path)
	if def := p.Func(ontPkg, "dagWriter", "DefineRelationship"); def != nil {
		ecalls := CallsIn(def, calleeIs(exists))
		ok := false
		if len(ecalls) == 1 {
			var ex, er types.Object
			inspectNoLit(def.Body, func(y ast.Node) bool {
				if as, isAs := y.(*ast.AssignStmt); isAs && len(as.Rhs) == 1 && ast.Unparen(as.Rhs[0]) == ecalls[0] && len(as.Lhs) == 2 {
					ex, er = objOf(def, as.Lhs[0]), objOf(def, as.Lhs[1])
				}
				return true
			})
			// the create is reached only across an edge establishing "does not exist yet", and
			// every return between the lookup and that edge hands out the lookup error (nil
			// when the edge exists) or nil
			c := p.CFG(def)
			gate := c.EdgesEstablishing(func(atom ast.Expr, val bool) bool { return ex != nil && objOf(def, atom) == ex && !val })
			creates := c.NodesWhere(func(n ast.Node) bool {
				return nodeHasCall(def, n, func(o types.Object, call *ast.CallExpr) bool {
					f, isF := o.(*types.Func)
					if !isF || f.Name() != "NewCreate" {
						return false
					}
					sel, isSel := ast.Unparen(call.Fun).(*ast.SelectorExpr)
					if !isSel {
						return false
					}
					inner, isSel := ast.Unparen(sel.X).(*ast.SelectorExpr)
					return isSel && fieldVar(def, inner) == relTable
				})
			})
			if cp, found := c.Locate(ecalls[0]); found && len(gate) > 0 && len(creates) > 0 {
				_, vis := c.ReachAvoiding([]Point{cp}, gate, nil)
				ok = true
				for _, cr := range creates {
					if vis[cr] {
						ok = false
					}
				}
				for _, e := range c.Exits() {
					if !vis[e.P] || e.Return == nil || len(e.Return.Results) != 1 {
						continue
					}
					res := e.Return.Results[0]
					if !(isNilIdent(def, res) || (er != nil && objOf(def, res) == er)) {
						ok = false
					}
				}
			}
		}
		r.Ob("C16.R3.create", "defining an existing relationship is a no-op", p.Position(def.Pos()), ok, "the early exit on an existing edge must return the (nil) lookup error")
	}
	// retrieveDescendants: inside the children loop every exit is an error return, and every iteration records the child
	c := p.CFG(desc)
	var loop *ast.RangeStmt
	inspectNoLit(desc.Body, func(y ast.Node) bool {
		if rs, ok := y.(*ast.RangeStmt); ok {
			loop = rs
		}
		return true
	})
	if loop == nil {
		r.Ob("C16.R3.create", "retrieveDescendants walks every child", p.Position(desc.Pos()), false, "no loop over the children")
		return
	}
	child := objOf(desc, loop.Value)
	isRecord := func(n ast.Node) bool {
		as, ok := n.(*ast.AssignStmt)
		if !ok || len(as.Lhs) != 1 || len(as.Rhs) != 1 {
			return false
		}
		_, isIdx := ast.Unparen(as.Lhs[0]).(*ast.IndexExpr)
		return isIdx && objOf(desc, as.Rhs[0]) == child
	}
	errEdges := c.EdgesEstablishing(func(atom ast.Expr, val bool) bool {
		o, trueMeansNil, ok := nilCompare(desc, atom)
		return ok && isErrorType(o.Type()) && val != trueMeansNil
	})
	ok := true
	var path []string
	for _, b := range c.G.Blocks {
		if b.Stmt == loop && b.Kind.String() == "RangeBody" {
			q, vis := c.ReachAvoiding([]Point{{b, -1}}, errEdges, isRecord)
			for pt := range vis {
				if pt.B.Stmt == loop && (pt.B.Kind.String() == "RangeLoop" || pt.B.Kind.String() == "RangeDone") {
					ok = false
					path = q.PathTo(pt)
				}
			}
			for _, ex := range c.Exits() {
				if vis[ex.P] {
					ok = false
					path = q.PathTo(ex.P)
				}
			}
		}
	}
	recursive := len(CallsIn(desc, calleeIs(desc))) == 1
	r.ObPath("C16.R3.create", "retrieveDescendants records every child it walks and recurses into it", p.Position(loop.Pos()), ok && recursive, "a child that is skipped (or an early non-error return) hides a descendant from the cycle test, so a cycle-closing edge is accepted", path)
}

// cycleGuards decides, inside fn, that the target points are reached only (1) after
// retrieveDescendants(<to>) succeeded and across the "from is not among them" edge and
// (2) past an explicit source == target comparison whose equal edge leaves.
func cycleGuards(p *Prog, fn *FuncNode, desc *FuncNode, from, to types.Object, targets []Point) (okC bool, why2 string, p2 []string, selfOK bool, why3 string, p3 []string) {
	c := p.CFG(fn)
	reaches := func(vis map[Point]bool) (Point, bool) {
		for _, t := range targets {
			if vis[t] {
				return t, true
			}
		}
		return Point{}, false
	}
	// cycle test: descendants := retrieveDescendants(ctx, <to or element of to>) ; _, exists := descendants[from] ; create only where exists is false
	dcalls := CallsIn(fn, calleeIs(desc))
	okC = len(dcalls) == 1
	why2 = fmt.Sprintf("%d retrieveDescendants call(s)", len(dcalls))
	if okC {
		dv := objOf(fn, func() ast.Expr {
			var lhs ast.Expr
			inspectNoLit(fn.Body, func(y ast.Node) bool {
				if as, ok := y.(*ast.AssignStmt); ok && len(as.Rhs) == 1 && ast.Unparen(as.Rhs[0]) == dcalls[0] && len(as.Lhs) == 2 {
					lhs = as.Lhs[0]
				}
				return true
			})
			return lhs
		}())
		// the boolean from "_, X := descendants[from]"
		var inCycle types.Object
		inspectNoLit(fn.Body, func(y ast.Node) bool {
			if as, ok := y.(*ast.AssignStmt); ok && len(as.Lhs) == 2 && len(as.Rhs) == 1 {
				if ix, ok := ast.Unparen(as.Rhs[0]).(*ast.IndexExpr); ok && objOf(fn, ix.X) == dv && dv != nil && objOf(fn, ix.Index) == from {
					inCycle = objOf(fn, as.Lhs[1])
				}
			}
			return true
		})
		// the descendants are those of the target
		targetOK := false
		if len(dcalls[0].Args) == 2 {
			a := dcalls[0].Args[1]
			if objOf(fn, a) == to {
				targetOK = true
			}
			if s, ok := ast.Unparen(a).(*ast.SelectorExpr); ok && s.Sel.Name == "To" {
				targetOK = true // rel.To of the relationships built from the `to` slice
			}
		}
		if inCycle == nil || !targetOK {
			okC = false
			why2 = fmt.Sprintf("cycle test not recognised (descendants[from] tested: %v, descendants of the target: %v)", inCycle != nil, targetOK)
		} else {
			for _, cp := range targets {
				if lp, isLoop := enclosingLoop(fn, dcalls[0]).(*ast.RangeStmt); isLoop {
					if pth, w := c.succeededInLoopBefore(dcalls[0], lp, cp); pth != nil {
						okC, p2, why2 = false, pth, w
					}
				} else if pth, w := c.succeededBefore(dcalls[0], cp); pth != nil {
					okC, p2, why2 = false, pth, w
				}
			}
			// from the cycle test, the create is reachable only across "not a descendant"
			gate := c.EdgesEstablishing(func(atom ast.Expr, val bool) bool { return !val && objOf(fn, atom) == inCycle })
			tp := c.NodesWhere(func(n ast.Node) bool {
				as, ok := n.(*ast.AssignStmt)
				return ok && len(as.Lhs) == 2 && objOf(fn, as.Lhs[1]) == inCycle
			})
			// every condition that reads the result of the test: its edges either establish
			// "not a descendant" or must not lead to the create
			testEdges := map[edge]bool{}
			for _, b := range c.G.Blocks {
				cond := Cond(b)
				if cond == nil {
					continue
				}
				reads := false
				ast.Inspect(cond, func(y ast.Node) bool {
					if id, ok := y.(*ast.Ident); ok && objOf(fn, id) == inCycle {
						reads = true
					}
					return true
				})
				if !reads {
					continue
				}
				for si := range b.Succs {
					testEdges[edge{b, si}] = true
				}
			}
			switch {
			case len(tp) != 1 || len(gate) == 0:
				okC, why2 = false, "the result of descendants[from] is never tested false before the create"
			default:
				q, vis := c.ReachAvoiding(tp, testEdges, nil)
				if cp, hit := reaches(vis); hit {
					okC, p2, why2 = false, q.PathTo(cp), "the create is reachable without the cycle test having been read"
				}
				for e := range testEdges {
					if gate[e] {
						continue
					}
					q2, v2 := c.ReachAvoiding([]Point{{e.B.Succs[e.Succ], -1}}, nil, nil)
					if cp, hit := reaches(v2); hit {
						okC, p2, why2 = false, q2.PathTo(cp), "the edge can be created although the source may be a descendant of the target (an edge of the test at "+posOf(p, Cond(e.B))+" that does not establish 'not a descendant' leads to it)"
					}
				}
			}
		}
	}
	// the shortest cycle: the descendants of the target do not contain the target, so
	// source == target must be refused by an explicit comparison whose "equal" edge
	// leaves the function before the create
	isSelfAtom := func(atom ast.Expr) (eqMeansTrue bool, ok bool) {
		be, isBin := ast.Unparen(atom).(*ast.BinaryExpr)
		if !isBin || (be.Op != token.EQL && be.Op != token.NEQ) {
			return false, false
		}
		role := func(e ast.Expr) string {
			e = ast.Unparen(e)
			if o := objOf(fn, e); o != nil {
				switch o {
				case from:
					return "from"
				case to:
					return "to"
				}
				// range variable over the `to` slice
				if rng, ok := enclosingLoop(fn, e).(*ast.RangeStmt); ok && rng.Value != nil && objOf(fn, rng.Value) == o && objOf(fn, rng.X) == to {
					return "to"
				}
			}
			if s, ok := e.(*ast.SelectorExpr); ok {
				switch s.Sel.Name {
				case "To":
					return "to"
				case "From":
					return "from"
				}
			}
			return ""
		}
		a, b := role(be.X), role(be.Y)
		if a == "" || b == "" || a == b {
			return false, false
		}
		return be.Op == token.EQL, true
	}
	equalEdges := c.EdgesEstablishing(func(atom ast.Expr, val bool) bool {
		eq, ok := isSelfAtom(atom)
		return ok && val == eq
	})
	selfOK, why3 = len(equalEdges) > 0, "no comparison of the source with the target"
	if selfOK {
		var starts []Point
		for e := range equalEdges {
			starts = append(starts, Point{e.B.Succs[e.Succ], -1})
		}
		q, vis := c.ReachAvoiding(starts, nil, nil)
		if cp, hit := reaches(vis); hit {
			selfOK, why3, p3 = false, "the create is reachable although source == target", q.PathTo(cp)
		}
		// and every target is compared: in a loop over the targets the comparison is in the loop
	}
	return
}
