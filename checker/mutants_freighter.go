package main

func init() {
	const ferr = "freighter/go/errors.go"
	const mockgo = "freighter/go/mock/stream.go"
	const hsrv = "freighter/go/http/stream_server.go"
	const hcore = "freighter/go/http/stream.go"
	const hcli = "freighter/go/http/stream_client.go"
	const ggo = "freighter/go/grpc/stream.go"

	mut("C14", "mock terminal message sent only if the buffer has room", mockgo,
		"	close(s.serverClosed)\n	s.responses <- message[RS]{error: errPayload}", "	close(s.serverClosed)\n	select {\n	case s.responses <- message[RS]{error: errPayload}:\n	default:\n	}", "C14.R2.terminal")
	mut("C14", "mock terminal message drops the handler's error", mockgo,
		"	errPayload := errors.Encode(ctx, err, true)", "	_ = err\n	errPayload := errors.Encode(ctx, nil, true)", "C14.R2.terminal")
	mut("C14", "http socket not closed when the handler succeeded", hsrv,
		"	// These errors occur when the client abruptly closes the connection (e.g. reloading", "	if handlerErr == nil {\n		return\n	}\n	// These errors occur when the client abruptly closes the connection (e.g. reloading", "C14.R2.terminal")
	mut("C14", "http close payload skipped for stream-closed errors too", hsrv,
		"	if !errors.Is(err, context.Canceled) {", "	if !errors.IsAny(err, context.Canceled, freighter.ErrStreamClosed) {", "C14.R2.terminal")
	mut("C14", "grpc handler swallows stream-closed errors", ggo,
		"	if err == nil || errors.Is(err, io.EOF) {\n		return nil\n	}\n	oCtx = attachContext(oCtx)", "	if err == nil || errors.Is(err, io.EOF) || errors.Is(err, freighter.ErrStreamClosed) {\n		return nil\n	}\n	oCtx = attachContext(oCtx)", "C14.R2.terminal")
	mut("C14", "mock client returns the decoded error without remembering it", mockgo,
		"			if c.receiveErr == nil {\n				c.receiveErr = errors.Decode(c.ctx, msg.error)\n			}\n			return res, c.receiveErr", "			return res, errors.Decode(c.ctx, msg.error)", "C14.R3.sticky")
	mut("C14", "http Receive reads the socket again after the terminal result", hcore,
		"	if c.peerCloseErr != nil {\n		var i I\n		return i, c.peerCloseErr\n	}\n	msg, err := c.receiveRaw()", "	msg, err := c.receiveRaw()", "C14.R3.sticky")
	mut("C14", "http CloseSend sends before marking the sender closed", hcli,
		"	s.sendClosed = true\n	return s.send(WSMessage[RQ]{Type: WSMessageTypeClose})", "	err := s.send(WSMessage[RQ]{Type: WSMessageTypeClose})\n	s.sendClosed = true\n	return err", "C14.R3.sticky")
	mut("C14", "grpc client Receive leaks the raw transport error", ggo,
		"	tRes, err := c.internal.Recv()\n	if err != nil {\n		return res, translateGRPCError(err)\n	}", "	tRes, err := c.internal.Recv()\n	if err != nil {\n		return res, err\n	}", "C14.R3.sticky")
	mut("C14", "stream core close is no longer idempotent", hcore,
		"	if c.closed {\n		return nil\n	}\n	c.closed = true\n	close(c.normalShutdownSig)", "	c.closed = true\n	close(c.normalShutdownSig)", "C14.R4.once")

	// ---------------- C14.R3.overwrite
	mut("C14", "the shared close overwrites the cached terminal result", "freighter/go/http/stream.go",
		"	c.closed = true\n	close(c.normalShutdownSig)", "	c.closed = true\n	c.peerCloseErr = freighter.ErrStreamClosed\n	close(c.normalShutdownSig)", "C14.R3.overwrite")

	// ---------------- E14 (error flow)
	mut("C14", "TransformReceiver tests ok before the transform's error", "freighter/go/freightfluence/receiver.go",
		"			if err != nil {\n				return err\n			}\n			if !ok {\n				continue o\n			}", "			if !ok {\n				continue o\n			}\n			if err != nil {\n				return err\n			}", "C14.ERR")
	mut("C14", "gRPC client Send no longer refuses after CloseSend", "freighter/go/grpc/stream.go",
		"	if c.closeSent {\n		return freighter.ErrStreamClosed\n	}\n	tReq", "	tReq", "C14.R3.sticky")
	mut("C14", "WebSocket client Send refuses after CloseSend only when the peer also closed", "freighter/go/http/stream_client.go",
		"	if s.sendClosed {\n		return freighter.ErrStreamClosed", "	if s.sendClosed && s.peerCloseErr != nil {\n		return freighter.ErrStreamClosed", "C14.R3.sticky")
	mut("C14", "mock client Send tests the receive error only", "freighter/go/mock/stream.go",
		"func (c *ClientStream[RQ, RS]) Send(req RQ) error {\n	if c.sendErr != nil {\n		return c.sendErr\n	}\n", "func (c *ClientStream[RQ, RS]) Send(req RQ) error {\n", "C14.R3.sticky")
	mut("C14", "mock exec forwards a nil result untranslated when the context is done", "freighter/go/mock/stream.go",
		"	if errPayload.Type == errors.TypeNil {", "	if errPayload.Type == errors.TypeNil && ctx.Err() == nil {", "C14.R2.terminal")
	mut("C14", "WebSocket Receive lets a close message without an error through as data", "freighter/go/http/stream.go",
		"		if c.peerCloseErr == nil {\n			c.peerCloseErr = freighter.EOF\n		}\n", "", "C14.R3.sticky")
	mut("C14", "WebSocket Receive treats close messages with a payload as data", "freighter/go/http/stream.go",
		"	if msg.Type == WSMessageTypeClose {", "	if msg.Type == WSMessageTypeClose && msg.Err.Type != errors.TypeNil {", "C14.R3.sticky")
	mut("C14", "mock server Receive returns terminal messages of cancelled streams as data", "freighter/go/mock/stream.go",
		"		if msg.error.Type != errors.TypeEmpty {\n			s.receiveErr = errors.Decode(s.ctx, msg.error)\n			return req, s.receiveErr\n		}", "		if msg.error.Type != errors.TypeEmpty {\n			s.receiveErr = errors.Decode(s.ctx, msg.error)\n			return req, nil\n		}", "C14.R3.sticky")
	mut("C14", "WebSocket Receive reports a read failure without making it the terminal result", "freighter/go/http/stream.go",
		"		c.peerCloseErr = errors.WithStack(c.peerCloseErr)\n		var i I\n		return i, c.peerCloseErr", "		var i I\n		return i, errors.WithStack(err)", "C14.R3.sticky")
}
