package main

import (
	"fmt"
	"os"
	"sort"
	"strconv"
	"strings"
)

type checkFn func(r *Run)

var checks = map[string]checkFn{}

func main() {
	if len(os.Args) < 3 {
		fmt.Fprintln(os.Stderr, "usage: synnaxlint check <property> | replay <file>")
		os.Exit(2)
	}
	switch os.Args[1] {
	case "check":
		prop := os.Args[2]
		tier := os.Getenv("VERIF_TIER")
		for _, a := range os.Args[3:] {
			if a == "--thorough" {
				tier = "thorough"
			}
			if a == "--quick" {
				tier = "quick"
			}
		}
		if tier == "" {
			tier = "quick"
		}
		seed, _ := strconv.ParseInt(os.Getenv("VERIF_SEED"), 10, 64)
		f, ok := checks[prop]
		if !ok {
			fmt.Fprintf(os.Stderr, "UNDECIDED property=%s no such check\n", prop)
			os.Exit(2)
		}
		r := NewRun(prop, tier, seed)
		m, note := applyMutantFromEnv()
		if m == nil {
			m, note = applyWeakenFromEnv()
		}
		if m != nil && note != "" {
			os.Exit(finishMutant(m, r, note))
		}
		func() {
			defer func() {
				if e := recover(); e != nil {
					r.Undecide("analyser panic: %v", e)
					if os.Getenv("VERIF_DEBUG") != "" {
						panic(e)
					}
				}
			}()
			f(r)
		}()
		if m != nil {
			os.Exit(finishMutant(m, r, ""))
		}
		if tier == "thorough" {
			res, err := runSelfTest(prop)
			if err != nil {
				r.Undecide("self-test could not run: %v", err)
			}
			det := 0
			for _, x := range res {
				switch x.Status {
				case "detected":
					det++
				case "stale":
					fmt.Fprintf(os.Stderr, "note: seeded variant %s is stale (%v)\n", x.Name, x.Undecided)
				default:
					r.Undecide("seeded variant %q (%s) was not detected by rule %s: status=%s fired=%v %v", x.Name, prop, x.Expect, x.Status, x.Fired, x.Undecided)
				}
			}
			r.Extra["seeded_variants"] = res
			r.Stats["seeded_variants_run"] = len(res)
			r.Stats["seeded_variants_detected"] = det
		}
		os.Exit(r.Finish())
	case "cfg":
		// debug: synnaxlint cfg <module> <pkg> <recv> <name>
		p, err := Load(os.Args[2])
		if err != nil {
			fmt.Println(err)
			os.Exit(2)
		}
		fn := p.Func(os.Args[3], os.Args[4], os.Args[5])
		c := p.CFG(fn)
		for _, b := range c.G.Blocks {
			fmt.Printf("block %d kind=%s live=%v succs=", b.Index, b.Kind, b.Live)
			for _, s := range b.Succs {
				fmt.Printf("%d ", s.Index)
			}
			fmt.Println()
			for _, n := range b.Nodes {
				fmt.Printf("    %s  %T %s\n", p.Position(n.Pos()), n, describe(n))
			}
		}
		os.Exit(0)
	case "replay":
		os.Exit(replay(os.Args[2]))
	case "errflow":
		// exploration: synnaxlint errflow <module> [pkg substring]
		p, err := Load(os.Args[2])
		if err != nil {
			fmt.Println(err)
			os.Exit(2)
		}
		sub := ""
		if len(os.Args) > 3 {
			sub = os.Args[3]
		}
		r := NewRun("X", "quick", 0)
		checkErrFlow(r, p, "X.FLOW", func(fn *FuncNode) bool {
			return strings.Contains(fn.Pkg.PkgPath, sub) && !strings.Contains(fn.Pkg.PkgPath, "testutil")
		}, 0)
		for _, o := range r.Obs {
			if !o.OK {
				fmt.Printf("%s | %s | %s | %v\n", o.Pos, o.Construct, o.Detail, o.Path)
			}
		}
		fmt.Println(r.Stats)
		var ks []string
		for k, v := range errTolerances {
			ks = append(ks, v+" | "+k)
		}
		sort.Strings(ks)
		for _, k := range ks {
			fmt.Println("TOLERATES", k)
		}
		os.Exit(0)
	case "validators":
		p, err := Load(os.Args[2])
		if err != nil {
			fmt.Println(err)
			os.Exit(2)
		}
		r := NewRun("X", "quick", 0)
		checkValidatorUse(r, p, "X.V", func(fn *FuncNode) bool { return true }, 0)
		for _, o := range r.Obs {
			if !o.OK {
				fmt.Printf("%s | %s | %v\n", o.Pos, o.Construct, o.Path)
			}
		}
		fmt.Println(r.Stats)
		os.Exit(0)
	case "partialcopy":
		p, err := Load(os.Args[2])
		if err != nil {
			fmt.Println(err)
			os.Exit(2)
		}
		found, n := findPartialCopies(p, func(fn *FuncNode) bool { return true })
		for _, pc := range found {
			fmt.Println(p.Position(pc.lit.Pos()), pc.fn.Name, pc.typ, pc.omitted)
		}
		fmt.Println("examined", n)
		os.Exit(0)
	case "anchors":
		// exploration: where the obligations of a property are anchored (rule | position)
		f, ok := checks[os.Args[2]]
		if !ok {
			os.Exit(2)
		}
		r := NewRun(os.Args[2], "quick", 0)
		f(r)
		for _, o := range r.Obs {
			fmt.Printf("%s\t%s\n", o.Rule, o.Pos)
		}
		os.Exit(0)
	case "weaken":
		filter := ""
		if len(os.Args) > 3 {
			filter = os.Args[3]
		}
		os.Exit(runWeaken(os.Args[2], filter))
	default:
		fmt.Fprintln(os.Stderr, "unknown command")
		os.Exit(2)
	}
}
