package main

import (
	"fmt"
	"os"
	"strconv"
)

type checkFn func(r *Run)

var checks = map[string]checkFn{}

func main() {
	if len(os.Args) < 3 {
		fmt.Fprintln(os.Stderr, "usage: synnaxlint check <property> | replay <file>")
		os.Exit(2)
	}
	switch os.Args[1] {
	case "check":
		prop := os.Args[2]
		tier := os.Getenv("VERIF_TIER")
		for _, a := range os.Args[3:] {
			if a == "--thorough" {
				tier = "thorough"
			}
			if a == "--quick" {
				tier = "quick"
			}
		}
		if tier == "" {
			tier = "quick"
		}
		seed, _ := strconv.ParseInt(os.Getenv("VERIF_SEED"), 10, 64)
		f, ok := checks[prop]
		if !ok {
			fmt.Fprintf(os.Stderr, "UNDECIDED property=%s no such check\n", prop)
			os.Exit(2)
		}
		r := NewRun(prop, tier, seed)
		func() {
			defer func() {
				if e := recover(); e != nil {
					r.Undecide("analyser panic: %v", e)
					if os.Getenv("VERIF_DEBUG") != "" {
						panic(e)
					}
				}
			}()
			f(r)
		}()
		os.Exit(r.Finish())
	case "replay":
		os.Exit(replay(os.Args[2]))
	default:
		fmt.Fprintln(os.Stderr, "unknown command")
		os.Exit(2)
	}
}
