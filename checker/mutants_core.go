package main

func init() {
	const cgo = "core/pkg/distribution/framer/codec/codec.go"

	// ---------------- C08
	mut("C08", "decoder reads the shared alignment before the shared time range", cgo,
		"	if fgs.equalTimeRanges && !fgs.timeRangesZero {\n		if refTr, err = c.readTimeRange(); err != nil {\n			return framer.Frame{}, err\n		}\n	}\n	if fgs.equalAlignments && !fgs.zeroAlignments {\n		v, readErr := c.reader.Uint64()\n		if readErr != nil {\n			return framer.Frame{}, readErr\n		}\n		refAlignment = telem.Alignment(v)\n	}",
		"	if fgs.equalAlignments && !fgs.zeroAlignments {\n		v, readErr := c.reader.Uint64()\n		if readErr != nil {\n			return framer.Frame{}, readErr\n		}\n		refAlignment = telem.Alignment(v)\n	}\n	if fgs.equalTimeRanges && !fgs.timeRangesZero {\n		if refTr, err = c.readTimeRange(); err != nil {\n			return framer.Frame{}, err\n		}\n	}", "C08.R1.layout")
	mut("C08", "encoder writes the per-series alignment before the time range", cgo,
		"		if !fgs.equalTimeRanges {\n			writeTimeRange(c.buf, s.TimeRange)\n		}\n		if !fgs.equalAlignments {\n			c.buf.Uint64(uint64(s.Alignment))\n		}",
		"		if !fgs.equalAlignments {\n			c.buf.Uint64(uint64(s.Alignment))\n		}\n		if !fgs.equalTimeRanges {\n			writeTimeRange(c.buf, s.TimeRange)\n		}", "C08.R1.layout")
	mut("C08", "decoder expects per-series time ranges when they are shared", cgo,
		"		if !fgs.equalTimeRanges {\n			if s.TimeRange, err = c.readTimeRange(); err != nil {", "		if fgs.equalTimeRanges {\n			if s.TimeRange, err = c.readTimeRange(); err != nil {", "C08.R1.layout")
	mut("C08", "encoder writes keys only when all channels are present", cgo,
		"		if !fgs.allChannelsPresent {\n			c.buf.Uint32(uint32(msi.key))", "		if fgs.allChannelsPresent {\n			c.buf.Uint32(uint32(msi.key))", "C08.R1.layout")
	mut("C08", "two flags share a bit", cgo,
		"	equalAlignmentsFlagPos    bit.FlagPos = 4", "	equalAlignmentsFlagPos    bit.FlagPos = 3", "C08.R1.layout")
	mut("C08", "decodeFlags reads timeRangesZero from the wrong bit", cgo,
		"	f.timeRangesZero = timeRangesZeroFlagPos.Get(b)", "	f.timeRangesZero = equalTimeRangesFlagPos.Get(b)", "C08.R1.layout")
	mut("C08", "readTimeRange swaps start and end", cgo,
		"	return telem.TimeRange{Start: telem.TimeStamp(start), End: telem.TimeStamp(end)}, nil", "	return telem.TimeRange{Start: telem.TimeStamp(end), End: telem.TimeStamp(start)}, nil", "C08.R1.layout")
	mut("C08", "the allocation bound is disabled", cgo,
		"	if size <= maxDataPrealloc {", "	if true || size <= maxDataPrealloc {", "C08.R2.alloc")
	mut("C08", "decodeSeries allocates the announced size directly", cgo,
		"		if s.Data, err = c.readData(size); err != nil {\n			return err\n		}", "		s.Data = make([]byte, size)\n		if _, err = c.reader.Read(s.Data); err != nil {\n			return err\n		}", "C08.R2.alloc")
	mut("C08", "a frame cache sized by the wire's series count", cgo,
		"	fgs := decodeFlags(flagB)\n", "	fgs := decodeFlags(flagB)\n	scratch := make([]uint32, seqNum)\n	_ = scratch\n", "C08.R2.alloc")
	mut("C08", "decode panics again before negotiation", cgo,
		"	if c.mu.seqNum < 1 {\n		return framer.Frame{}, errors.Wrap(\n			validate.ErrValidation,\n			\"[framer.codec] - received a frame before the codec was updated with a set of channels\",\n		)\n	}", "	c.panicIfNotUpdated(\"Decode\")", "C08.R3.nopanic")
	mut("C08", "decoder panics on an unknown key", cgo,
		"			return errors.Newf(\"unknown channel key: %v\", key)", "			panic(errors.Newf(\"unknown channel key: %v\", key))", "C08.R3.nopanic")
	mut("C08", "sort order ignores the original position", cgo,
		"	return s.rawIndices[i] < s.rawIndices[j]\n}", "	return false\n}", "C08.R4.order")

	// ---------------- C16
	const wdag = "core/pkg/distribution/ontology/writer_dag.go"
	const oret = "core/pkg/distribution/ontology/retrieve.go"
	mut("C16", "outgoing scan by the bare id", wdag,
		"WherePrefix([]byte(key.String()+relationshipKeySep)).\n		Entries(&relationships).", "WherePrefix([]byte(key.String())).\n		Entries(&relationships).", "C16.R1.boundary")
	mut("C16", "outgoing delete by the bare id", wdag,
		"		WherePrefix([]byte(from.String()+relationshipKeySep)).", "		WherePrefix([]byte(from.String())).", "C16.R1.boundary")
	mut("C16", "incoming delete matches any key ending in the id", wdag,
		"	suffix := []byte(relationshipKeySep + id.String())", "	suffix := []byte(id.String())", "C16.R1.boundary")
	mut("C16", "type filter by the bare type", oret,
		"c.WherePrefix([]byte(types[0].String() + \":\"))", "c.WherePrefix([]byte(types[0].String()))", "C16.R1.boundary")
	mut("C16", "traversal prefix without the trailing separator", oret,
		"	suffix := []byte(\"->\" + string(relType) + \"->\")", "	suffix := []byte(\"->\" + string(relType))", "C16.R1.boundary")
	mut("C16", "DeleteResource forgets the incoming edges", wdag,
		"func (d dagWriter) DeleteResource(ctx context.Context, id ID) error {\n	if err := d.deleteIncomingRelationships(ctx, id); err != nil {\n		return err\n	}\n", "func (d dagWriter) DeleteResource(ctx context.Context, id ID) error {\n", "C16.R2.edges")
	mut("C16", "DeleteManyResources ignores failures of the edge clean-up", wdag,
		"		if err := d.deleteOutgoingRelationships(ctx, id); err != nil {\n			return err\n		}\n	}\n	return d.resourceTable.NewDelete().Where(gorp.MatchKeys[string, Resource](IDsToKeys(ids)...)).Exec(ctx, d.tx)", "		_ = d.deleteOutgoingRelationships(ctx, id)\n	}\n	return d.resourceTable.NewDelete().Where(gorp.MatchKeys[string, Resource](IDsToKeys(ids)...)).Exec(ctx, d.tx)", "C16.R2.edges")
	mut("C16", "DefineRelationship skips the existence check of its endpoints", wdag,
		"	if err := d.validateResourcesExist(ctx, from, to); err != nil {\n		return err\n	}\n	// A resource related", "	// A resource related", "C16.R3.create")
	mut("C16", "DefineRelationship validates only the source", wdag,
		"	if err := d.validateResourcesExist(ctx, from, to); err != nil {", "	if err := d.validateResourcesExist(ctx, from); err != nil {", "C16.R3.create")
	mut("C16", "cycle test looks at the descendants of the source", wdag,
		"	descendants, err := d.retrieveDescendants(ctx, to)\n	if err != nil {\n		return err\n	}\n	if _, exists := descendants[from]; exists {", "	descendants, err := d.retrieveDescendants(ctx, from)\n	if err != nil {\n		return err\n	}\n	if _, exists := descendants[from]; exists {", "C16.R3.create")
	mut("C16", "cycle test waved through for group targets", wdag,
		"	if _, exists := descendants[from]; exists {\n		return graph.ErrCyclicDependency\n	}\n	return d.relationshipTable", "	if _, exists := descendants[from]; exists && to.Type != \"group\" {\n		return graph.ErrCyclicDependency\n	}\n	return d.relationshipTable", "C16.R3.create")
	mut("C16", "one-to-many create ignores a detected cycle", wdag,
		"		if _, exists := descendants[from]; exists {\n			return graph.ErrCyclicDependency\n		}\n	}\n	return d.relationshipTable.NewCreate().Entries(&rels).Exec(ctx, d.tx)", "		if _, exists := descendants[from]; exists {\n			continue\n		}\n	}\n	return d.relationshipTable.NewCreate().Entries(&rels).Exec(ctx, d.tx)", "C16.R3.create")
	mut("C16", "retrieveDescendants stops at the first childless child", wdag,
		"		maps.Copy(descendants, childDescendants)\n		descendants[child.ID] = child", "		if len(childDescendants) == 0 {\n			return descendants, nil\n		}\n		maps.Copy(descendants, childDescendants)\n		descendants[child.ID] = child", "C16.R3.create")
	mut("C16", "existing relationship reported as an error-free create of a duplicate", wdag,
		"	if err != nil || exists {\n		return err\n	}\n	if err := d.validateResourcesExist(ctx, from, to); err != nil {", "	if err != nil {\n		return err\n	}\n	_ = exists\n	if err := d.validateResourcesExist(ctx, from, to); err != nil {", "C16.R3.create")

	// ---------------- C17
	const gw = "x/go/gorp/writer.go"
	const gt = "x/go/gorp/table.go"
	const gg = "x/go/gorp/gorp.go"
	const gd = "x/go/gorp/delta.go"
	const gi = "x/go/gorp/index.go"
	mut("C17", "Writer.delete forgets to stage the indexes", gw,
		"	for _, idx := range w.indexes {\n		idx.stageDelete(w.tx, key)\n	}\n	return nil", "	return nil", "C17.R1.stage")
	mut("C17", "Writer.set stages only the first index", gw,
		"	for _, idx := range w.indexes {\n		idx.stageSet(w.tx, entry)\n	}", "	for i, idx := range w.indexes {\n		if i > 0 {\n			continue\n		}\n		idx.stageSet(w.tx, entry)\n	}", "C17.R1.stage")
	mut("C17", "Writer.set stages before the row write", gw,
		"	v := w.keyCodec.encode(entry.GorpKey())\n	if err := w.tx.Set(ctx, v, data, entry.SetOptions()...); err != nil {\n		return err\n	}\n	for _, idx := range w.indexes {\n		idx.stageSet(w.tx, entry)\n	}\n	return nil",
		"	v := w.keyCodec.encode(entry.GorpKey())\n	for _, idx := range w.indexes {\n		idx.stageSet(w.tx, entry)\n	}\n	if err := w.tx.Set(ctx, v, data, entry.SetOptions()...); err != nil {\n		return err\n	}\n	return nil", "C17.R1.stage")
	mut("C17", "Table.NewUpdate drops the index list", gt,
		"	u.retrieve.keyPrefix = t.keyPrefix\n	u.indexes = t.indexes\n", "	u.retrieve.keyPrefix = t.keyPrefix\n", "C17.R2.propagate")
	mut("C17", "Delete.Exec builds an index-less writer", "x/go/gorp/delete.go",
		"wrapWriter[K, E](tx, d.retrieve.keyPrefix, d.indexes)", "wrapWriter[K, E](tx, d.retrieve.keyPrefix, nil)", "C17.R2.propagate")
	mut("C17", "channel rows written through a free writer", "core/pkg/distribution/channel/lease_proxy.go",
		"func (s *Service) createAndUpdateFreeVirtual(", "func touchChannelRows(ctx context.Context, tx gorp.Tx, chs []Channel) error {\n	return gorp.NewCreate[Key, Channel]().Entries(&chs).Exec(ctx, tx)\n}\n\nfunc (s *Service) createAndUpdateFreeVirtual(", "C17.R3.tableonly")
	mut("C17", "Commit reports success to the cleanups unconditionally", gg,
		"	t.state.runCleanups(err == nil)", "	t.state.runCleanups(true)", "C17.R4.hooks")
	mut("C17", "Close forgets the cleanups", gg,
		"	err := t.Tx.Close()\n	t.state.runCleanups(false)\n	return err", "	err := t.Tx.Close()\n	return err", "C17.R4.hooks")
	mut("C17", "aborted deltas are flushed too", gd,
		"		if committed && d != nil && !d.isEmpty() && o.flush != nil {", "		if d != nil && !d.isEmpty() && o.flush != nil {", "C17.R4.hooks")
	mut("C17", "delta kept after the transaction ended", gd,
		"		d := o.txDeltas[state]\n		delete(o.txDeltas, state)\n		o.deltaMu.Unlock()", "		d := o.txDeltas[state]\n		o.deltaMu.Unlock()", "C17.R4.hooks")
	mut("C17", "LookupIndex.set mutates without the index lock", gi,
		"func (l *LookupIndex[K, E, V]) set(entry E) {\n	l.mu.Lock()\n	defer l.mu.Unlock()\n", "func (l *LookupIndex[K, E, V]) set(entry E) {\n", "C17.R5.GUARD")
	mut("C17", "SortedIndex.Get reads entries after releasing the lock", gi,
		"func (s *SortedIndex[K, E, V]) delete(key K) {\n	s.mu.Lock()\n	defer s.mu.Unlock()\n", "func (s *SortedIndex[K, E, V]) delete(key K) {\n	s.mu.RLock()\n	defer s.mu.RUnlock()\n", "C17.R5.GUARD")
	mut("C17", "observer attached before populate", gt,
		"	for _, idx := range cfg.Indexes {\n		insert, finish := idx.populate()\n		inserts = append(inserts, insert)\n		finishes = append(finishes, finish)\n	}\n	t.disconnectObserver = attachIndexObserver[K, E](\n		override.Nil[observe.Observable[kv.TxReader]](cfg.DB, cfg.DB.IndexObservable),\n		cfg.DB,\n		cfg.Indexes,\n	)",
		"	t.disconnectObserver = attachIndexObserver[K, E](\n		override.Nil[observe.Observable[kv.TxReader]](cfg.DB, cfg.DB.IndexObservable),\n		cfg.DB,\n		cfg.Indexes,\n	)\n	for _, idx := range cfg.Indexes {\n		insert, finish := idx.populate()\n		inserts = append(inserts, insert)\n		finishes = append(finishes, finish)\n	}", "C17.R5.populate")
	mut("C17", "stageSet skips a restage of an equal value", gd,
		"func (d *delta[K, V]) stageSet(key K, value V) {\n	if prev, ok := d.state[key]; ok && !prev.deleted {\n		d.removeFromForward(key, prev.value)\n	}",
		"func (d *delta[K, V]) stageSet(key K, value V) {\n	if prev, ok := d.state[key]; ok {\n		if prev.value == value {\n			return\n		}\n		if !prev.deleted {\n			d.removeFromForward(key, prev.value)\n		}\n	}", "C17.R6.delta")
	mut("C17", "observer applies all sets before all deletes", gt,
		"			for ch := range changes {\n				switch ch.Variant {\n				case change.VariantSet:\n					for _, idx := range indexes {\n						idx.set(ch.Value)\n					}\n				case change.VariantDelete:\n					for _, idx := range indexes {\n						idx.delete(ch.Key)\n					}\n				}\n			}",
		"			var dels []K\n			for ch := range changes {\n				switch ch.Variant {\n				case change.VariantSet:\n					for _, idx := range indexes {\n						idx.set(ch.Value)\n					}\n				case change.VariantDelete:\n					dels = append(dels, ch.Key)\n				}\n			}\n			for _, k := range dels {\n				for _, idx := range indexes {\n					idx.delete(k)\n				}\n			}", "C17.R6.delta")

	// ---------------- C15
	const chgo = "core/pkg/distribution/channel/channel.go"
	const lpgo = "core/pkg/distribution/channel/lease_proxy.go"
	mut("C15", "Leaseholder decodes with a different shift", chgo,
		"func (c Key) Leaseholder() node.Key { return node.Key(c >> 20) }", "func (c Key) Leaseholder() node.Key { return node.Key(c >> 16) }", "C15.R1.layout")
	mut("C15", "LocalKey mask one bit short", chgo,
		"func (c Key) LocalKey() LocalKey { return LocalKey(c & 0xFFFFF) }", "func (c Key) LocalKey() LocalKey { return LocalKey(c & 0x7FFFF) }", "C15.R1.layout")
	mut("C15", "counter may exceed 20 bits", "core/pkg/distribution/channel/counter.go",
		"int64(math.MaxUint20)", "int64(math.MaxUint20) * 2", "C15.R1.layout")
	mut("C15", "key offset taken from the position in the request", lpgo,
		"			ch.LocalKey = originalCounterValue + LocalKey(len(toCreate)) + 1", "			ch.LocalKey = originalCounterValue + LocalKey(i) + 1", "C15.R2.provenance")
	mut("C15", "caller-supplied local keys are trusted", lpgo,
		"		} else if ch.LocalKey != 0 {\n			channels[i].LocalKey = 0\n		}", "		} else if ch.LocalKey != 0 {\n			channels[i].LocalKey = ch.LocalKey + 1\n		}", "C15.R2.provenance")
	mut("C15", "rows created although key assignment failed", lpgo,
		"	toCreate, err := s.retrieveExistingAndAssignKeys(ctx, tx, channels, s.leasedCounter, opts.RetrieveIfNameExists)\n	if err != nil {\n		return err\n	}", "	toCreate, err := s.retrieveExistingAndAssignKeys(ctx, tx, channels, s.leasedCounter, opts.RetrieveIfNameExists)\n	if err != nil {\n		s.cfg.L.Warn(err.Error())\n	}", "C15.R2.provenance")
	mut("C15", "DeleteChannels forgets virtual channels again", "cesium/delete.go",
		"		_, vok := db.mu.dbs.virtual[ch]\n\n		if (!uok && !vok) || udb.Channel().IsIndex {", "		if !uok || udb.Channel().IsIndex {", "C15.R3.union")
	mut("C15", "DeleteTimeRange reports virtual channels as missing", "cesium/delete.go",
		"		if _, ok := db.mu.dbs.virtual[ch]; ok {\n			continue\n		}\n		return channel.NewNotFoundError(ch)", "		return channel.NewNotFoundError(ch)", "C15.R3.union")
	mut("C15", "deleteGateway mutates the engine before the ontology clean-up", lpgo,
		"	if err := s.maybeDeleteResources(ctx, tx, keys); err != nil {\n		return err\n	}\n	// It's very important that this goes last, as it's the only operation that can fail\n	// without an atomic guarantee.\n	if err := s.cfg.TSChannel.DeleteChannels(keys.Storage()); err != nil {\n		return err\n	}",
		"	if err := s.cfg.TSChannel.DeleteChannels(keys.Storage()); err != nil {\n		return err\n	}\n	if err := s.maybeDeleteResources(ctx, tx, keys); err != nil {\n		return err\n	}", "C15.R4.order")
	mut("C15", "gateway deleted before the peers are asked", lpgo,
		"	batch := s.keyRouter.Batch(keys)\n	for nodeKey, entries := range batch.Peers {\n		err := s.deleteRemote(ctx, nodeKey, entries)\n		if err != nil {\n			return err\n		}\n	}",
		"	batch := s.keyRouter.Batch(keys)\n	if err := s.deleteGateway(ctx, tx, batch.Gateway); err != nil {\n		return err\n	}\n	batch.Gateway = nil\n	for nodeKey, entries := range batch.Peers {\n		err := s.deleteRemote(ctx, nodeKey, entries)\n		if err != nil {\n			return err\n		}\n	}", "C15.R4.order")
	mut("C15", "createGateway stores different rows than it created in the engine", lpgo,
		"	storageChannels := toStorage(toCreate)", "	storageChannels := toStorage(*channels)", "C15.R4.order")
	mut("C15", "proxy drops entries leased to the host when it is node 1", "core/pkg/distribution/proxy/proxy.go",
		"		} else if lease == f.Host {\n			b.Gateway = append(b.Gateway, entry)\n		} else {", "		} else if lease == f.Host {\n			if lease != 1 {\n				b.Gateway = append(b.Gateway, entry)\n			}\n		} else {", "C15.R4.order")

	// ---------------- C07
	const wsvc = "core/pkg/distribution/framer/writer/service.go"
	const isvc = "core/pkg/distribution/framer/iterator/service.go"
	const wsync = "core/pkg/distribution/framer/writer/synchronizer.go"
	const isync = "core/pkg/distribution/framer/iterator/synchronizer.go"
	mut("C07", "writer opens without checking that its channels exist", wsvc,
		"	channels, err := s.validateChannelKeys(ctx, cfg.Keys)\n	if err != nil {\n		return nil, err\n	}\n", "	channels, err := s.validateChannelKeys(ctx, cfg.Keys)\n	if err != nil {\n		s.cfg.L.Warn(err.Error())\n	}\n", "C07.R1.exist")
	mut("C07", "writer validator tolerates missing channels", wsvc,
		"	if len(channels) != len(keys) {\n		missing, _ := lo.Difference(keys, channel.KeysFromChannels(channels))", "	if len(channels) == 0 {\n		missing, _ := lo.Difference(keys, channel.KeysFromChannels(channels))", "C07.R1.exist")
	mut("C07", "iterator existence gate gains a second filter", isvc,
		"	q := s.cfg.Channel.NewRetrieve().Where(channel.MatchKeys(keys...))", "	q := s.cfg.Channel.NewRetrieve().Where(channel.MatchKeys(keys...)).Where(channel.MatchVirtual(false))", "C07.R1.exist")
	mut("C07", "iterator validates after opening peers", isvc,
		"	if err := s.validateChannelKeys(ctx, cfg.Keys); err != nil {\n		return nil, err\n	}\n	cfg.Keys = cfg.Keys.Unique()", "	cfg.Keys = cfg.Keys.Unique()", "C07.R1.exist")
	mut("C07", "writer synchronizer returns the last response", wsync,
		"	return s.cycle.res, fulfilled, nil", "	return res, fulfilled, nil", "C07.R2.sync")
	mut("C07", "iterator synchronizer returns the last response", isync,
		"	return s.cycle.res, fulfilled, nil", "	return res, fulfilled, nil", "C07.R2.sync")
	mut("C07", "writer synchronizer ignores refusals", wsync,
		"	if !res.Authorized && s.cycle.res.Authorized {\n		s.cycle.res.Authorized = false\n	}\n", "", "C07.R2.sync")
	mut("C07", "synchronizer sized by the number of channels", wsvc,
		"newSynchronizer(len(cfg.Keys.UniqueLeaseholders()), s.cfg.Instrumentation),", "newSynchronizer(len(cfg.Keys), s.cfg.Instrumentation),", "C07.R2.sync")
	mut("C07", "gateway responses bypass the synchronizer", wsvc,
		"	lo.Must0(seg.RouteOutletFrom(validatorResponsesAddr, synchronizerAddr))", "	lo.Must0(seg.RouteOutletFrom(validatorResponsesAddr, gatewayWriterAddr))", "C07.R2.sync")
	mut("C07", "peer sender keeps stale targets", "freighter/go/freightfluence/sender.go",
		"				delete(addrMap, target)\n", "", "C07.R3.sender")
	mut("C07", "validator inspects masked-out series", "core/pkg/distribution/framer/writer/validator.go",
		"ShouldExcludeRaw(rawI)", "ShouldExcludeRaw(rawI+0*len(k.String()))", "C07.R4.mask")

	// ---------------- C08.R5
	mut("C08", "Uint64 accepts a short read", "x/go/binary/reader.go",
		"	if _, err := io.ReadFull(r.r, r.buf[:8]); err != nil {", "	if _, err := r.r.Read(r.buf[:8]); err != nil {", "C08.R5.fullread")
	mut("C08", "raw reads return after the first chunk", "x/go/binary/reader.go",
		"	return io.ReadFull(r.r, data)", "	return io.ReadAtLeast(r.r, data, 1)", "C08.R5.fullread")

	// ---------------- C07.R5
	mut("C07", "a partial frame is sent only to the peers it has series for", "core/pkg/distribution/framer/writer/switch.go",
		"		if rs.sync {\n			for nodeKey, addr := range rs.addresses {\n				if _, ok := frames[nodeKey]; !ok {\n					r.Frame = frame.Frame{}\n					oReqs[addr] = r\n				}\n			}\n		}\n", "		_ = frame.Frame{}\n", "C07.R5.broadcast")
	mut("C07", "control commands go to the first peer only", "core/pkg/distribution/framer/writer/switch.go",
		"		for _, addr := range rs.addresses {\n			oReqs[addr] = r\n		}", "		for _, addr := range rs.addresses {\n			oReqs[addr] = r\n			break\n		}", "C07.R5.broadcast")

	// ---------------- C16.R3.self
	mut("C16", "DefineRelationship accepts a self edge", "core/pkg/distribution/ontology/writer_dag.go",
		"	if from == to {\n		return graph.ErrCyclicDependency\n	}\n", "", "C16.R3.self")
	mut("C16", "one-to-many create skips a self edge instead of refusing it", "core/pkg/distribution/ontology/writer_dag.go",
		"		if rel.To == from {\n			return graph.ErrCyclicDependency\n		}", "		if rel.To == from {\n			continue\n		}", "C16.R3.self")

	// ---------------- C07.R2 connective
	mut("C07", "iterator acknowledgements are merged with AND across nodes", "core/pkg/distribution/framer/iterator/synchronizer.go",
		"	if res.Ack {\n		s.cycle.res.Ack = true\n	}", "	if !res.Ack {\n		s.cycle.res.Ack = false\n	}", "C07.R2.sync")
	mut("C07", "the engine reports success only when every channel iterator succeeded", "cesium/iterator_stream.go",
		"func (s *streamIterator) execWithoutResponse(f func(i *unary.Iterator) bool) (ok bool) {\n	for _, i := range s.internal {\n		if f(i) {\n			ok = true\n		}\n	}\n	return\n}", "func (s *streamIterator) execWithoutResponse(f func(i *unary.Iterator) bool) (ok bool) {\n	ok = len(s.internal) > 0\n	for _, i := range s.internal {\n		if !f(i) {\n			ok = false\n		}\n	}\n	return\n}", "C07.R2.sync")

	// ---------------- C08.R6
	mut("C08", "the codec forgets the state before the previous one", "core/pkg/distribution/framer/codec/codec.go",
		"			c.mu.states[c.mu.seqNum] = s\n", "			c.mu.states[c.mu.seqNum] = s\n			delete(c.mu.states, c.mu.seqNum-2)\n", "C08.R6.states")

	// ---------------- C17.R7, C07.R2 end
	mut("C17", "getLocked hands out the live bucket", "x/go/gorp/index.go",
		"	out := make([]K, len(src))\n	copy(out, src)\n	return out\n}", "	return src\n}", "C17.R7.alias")

	// ---------------- C07.R6
	mut("C07", "the free writer stays silent for frames without free channels", "core/pkg/distribution/framer/writer/free.go",
		"		); err != nil || !w.sync {\n			return\n		}", "		); err != nil || !w.sync || req.Frame.Empty() {\n			return\n		}", "C07.R6.ack")

	// ---------------- C18
	const rb = "core/pkg/service/access/rbac/service.go"
	mut("C18", "an instance policy covers every key of its type", rb,
		"				} else if policyObj.Type == requestedObj.Type &&\n					policyObj.Key == requestedObj.Key {", "				} else if policyObj.Type == requestedObj.Type {", "C18.R2.cover")
	mut("C18", "an uncovered object is skipped instead of refused", rb,
		"		if !found {\n			return false\n		}", "		if !found {\n			continue\n		}", "C18.R2.cover")
	mut("C18", "policies are matched without looking at the action", rb,
		"			if !hasAction {\n				continue\n			}", "			_ = hasAction", "C18.R2.cover")
	mut("C18", "the flag survives from one object to the next", rb,
		"	for _, requestedObj := range req.Objects {\n		found := false", "	found := false\n	for _, requestedObj := range req.Objects {", "C18.R2.cover")
	mut("C18", "a subject with any policy is let through", rb,
		"	if allowRequest(req, v) {\n		return nil\n	}", "	if allowRequest(req, v) || len(req.Objects) == 0 {\n		return nil\n	}", "C18.R1.gate")
	mut("C18", "policies are looked up for the first requested object instead of the subject", rb,
		"	v, err := e.retrievePolicies(ctx, req.Subject)", "	v, err := e.retrievePolicies(ctx, req.Objects[0])", "C18.R1.gate")

	// ---------------- C15.R2 counter
	mut("C15", "the key counter is advanced by read-then-set", "core/pkg/distribution/channel/counter.go",
		"	next, err := c.wrap.Add(ctx, int64(delta))\n	return LocalKey(next), err", "	next := c.wrap.Value() + int64(delta)\n	err := c.wrap.Set(ctx, next)\n	return LocalKey(next), err", "C15.R2.provenance")

	mut("C07", "Valid is merged with AND while the steps are merged with OR", "core/pkg/distribution/framer/iterator/synchronizer.go",
		"	if res.Ack {\n		s.cycle.res.Ack = true\n	}", "	if res.Command == CommandValid {\n		s.cycle.res.Ack = s.cycle.res.Ack && res.Ack\n	} else if res.Ack {\n		s.cycle.res.Ack = true\n	}", "C07.R2.sync")

	// ---------------- fresh decode targets
	mut("C17", "one decode target is reused for a batch of observed changes", "x/go/gorp/observe.go",
		"		for _, kvChange := range changes {\n			var op change.Change[K, E]\n", "		var op change.Change[K, E]\n		for _, kvChange := range changes {\n", "C17.R8.fresh")

	mut("C17", "the scan prefix is appended to the table's shared key prefix", "x/go/gorp/reader.go",
		"	prefixedKey := slices.Concat(r.keyCodec.prefix, opts.prefix)", "	prefixedKey := append(r.keyCodec.prefix, opts.prefix...)\n	_ = slices.Clip[[]byte]", "C17.R9.append")

	// ---------------- C15.R5
	const lpx = "core/pkg/distribution/channel/lease_proxy.go"
	mut("C15", "retrieve/overwrite batches skip the repeated-name pass", lpx,
		"	namesSeen := make(set.Set[string], len(names))", "	if skipExisting {\n		return nil\n	}\n	namesSeen := make(set.Set[string], len(names))", "C15.R5.names")
	mut("C15", "an overwritten channel is dropped from metadata but not from the engine", lpx,
		"		storageToDelete = append(storageToDelete, ex.Storage().Key)", "		if !ex.Virtual {\n			storageToDelete = append(storageToDelete, ex.Storage().Key)\n		}", "C15.R5.names")

	mut("C08", "the update flag is raised before the state is published", "core/pkg/distribution/framer/codec/codec.go",
		"	c.mu.updates <- s\n	c.mu.updateAvailable.Store(true)\n}", "	c.mu.updateAvailable.Store(true)\n	c.mu.updates <- s\n}", "C08.R7.publish")

	mut("C18", "deleting a role leaves its ontology resource and edges behind", "core/pkg/service/access/rbac/role/writer.go",
		"	return w.otg.DeleteResource(ctx, OntologyID(key))\n}", "	return nil\n}", "C18.R3.resource")
	mut("C18", "deleting policies leaves their ontology resources behind", "core/pkg/service/access/rbac/policy/writer.go",
		"	return w.otg.DeleteManyResources(ctx, OntologyIDs(keys))\n}", "	return nil\n}", "C18.R3.resource")
	// ---------------- E14 (error flow)
	mut("C16", "DeleteResource goes on after a failed incoming-edge delete of typed ids", "core/pkg/distribution/ontology/writer_dag.go",
		"func (d dagWriter) DeleteResource(ctx context.Context, id ID) error {\n	if err := d.deleteIncomingRelationships(ctx, id); err != nil {", "func (d dagWriter) DeleteResource(ctx context.Context, id ID) error {\n	if err := d.deleteIncomingRelationships(ctx, id); err != nil && id.IsType() {", "C16.ERR")
	mut("C17", "Writer.set stores nothing yet reports success when encoding fails for keyed entries", "x/go/gorp/writer.go",
		"	data, err := w.tx.Encode(ctx, entry)\n	if err != nil {", "	data, err := w.tx.Encode(ctx, entry)\n	if err != nil && len(w.indexes) == 0 {", "C17.ERR")
	mut("C07", "an unresolvable leaseholder is skipped when other peers are already open", "core/pkg/distribution/framer/writer/peer.go",
		"		target, err := s.cfg.HostResolver.Resolve(nodeKey)\n		if err != nil {", "		target, err := s.cfg.HostResolver.Resolve(nodeKey)\n		if err != nil && len(senders) == 0 {", "C07.ERR")
	mut("C17", "the populate routine is started before the change observer is attached", "x/go/gorp/table.go",
		"	t.disconnectObserver = attachIndexObserver[K, E](\n		override.Nil[observe.Observable[kv.TxReader]](cfg.DB, cfg.DB.IndexObservable),\n		cfg.DB,\n		cfg.Indexes,\n	)\n	// Populate runs on an isolated signal context: the caller's ctx is the\n	// open-operation ctx (may be short-lived, e.g. an open timeout), but\n	// populate must run for the Table's full lifetime. Termination flows\n	// through Table.Close().\n	sCtx, cancel := signal.Isolated(signal.WithInstrumentation(cfg.Instrumentation))\n	t.populateDone = sCtx.Stopped()\n	t.populateShutdown = signal.NewHardShutdown(sCtx, cancel)\n	sCtx.Go(\n		func(ctx context.Context) error {\n			t.runPopulate(ctx, cfg.Instrumentation, inserts, finishes)\n			return nil\n		},\n		signal.WithKey(\"gorp_index_populate\"),\n	)\n	return t, nil\n}\n\n// runPopulate scans", "	// Populate runs on an isolated signal context: the caller's ctx is the\n	// open-operation ctx (may be short-lived, e.g. an open timeout), but\n	// populate must run for the Table's full lifetime. Termination flows\n	// through Table.Close().\n	sCtx, cancel := signal.Isolated(signal.WithInstrumentation(cfg.Instrumentation))\n	t.populateDone = sCtx.Stopped()\n	t.populateShutdown = signal.NewHardShutdown(sCtx, cancel)\n	sCtx.Go(\n		func(ctx context.Context) error {\n			t.runPopulate(ctx, cfg.Instrumentation, inserts, finishes)\n			return nil\n		},\n		signal.WithKey(\"gorp_index_populate\"),\n	)\n	t.disconnectObserver = attachIndexObserver[K, E](\n		override.Nil[observe.Observable[kv.TxReader]](cfg.DB, cfg.DB.IndexObservable),\n		cfg.DB,\n		cfg.Indexes,\n	)\n	return t, nil\n}\n\n// runPopulate scans", "C17.R5.populate")
	mut("C07", "the iterator's peer sender forwards only the per-command fields", "core/pkg/distribution/framer/iterator/peer.go",
		"	out = in\n", "	out = Request{Command: in.Command, Span: in.Span, Stamp: in.Stamp, SeqNum: in.SeqNum}\n", "C07.R7.copy")
	mut("C08", "a streamer request is not renegotiated while the codec is still on its first state", "core/pkg/transport/http/framer/codec.go",
		"	if len(v.Payload.Keys) == 0 {\n		return nil\n	}\n	return c.Update(ctx, v.Payload.Keys)\n}\n\nfunc (c *Codec) decodeIteratorRequest(", "	if len(v.Payload.Keys) == 0 {\n		return nil\n	}\n	if c.LowerPerfCodec == nil {\n		return nil\n	}\n	return c.Update(ctx, v.Payload.Keys)\n}\n\nfunc (c *Codec) decodeIteratorRequest(", "C08.R8.update")
	mut("C07", "the iterator synchronizer emits once a majority of leaseholders answered", "core/pkg/distribution/framer/iterator/synchronizer.go",
		"	fulfilled := s.cycle.counter == s.nodeCount\n", "	fulfilled := s.cycle.counter > s.nodeCount/2\n", "C07.R2.sync")
	mut("C07", "the writer synchronizer restarts its count only for commits", "core/pkg/distribution/framer/writer/synchronizer.go",
		"	if fulfilled {\n		s.cycle.counter = 0\n	}", "	if fulfilled && res.Command == CommandCommit {\n		s.cycle.counter = 0\n	}", "C07.R2.sync")
	mut("C15", "a repeated name is refused only when existing channels are not skipped", "core/pkg/distribution/channel/lease_proxy.go",
		"		if namesSeen.Contains(name) {", "		if namesSeen.Contains(name) && !skipExisting {", "C15.R5.names")
	mut("C15", "a virtual channel may reuse the key of an existing unary channel", "cesium/channel.go",
		"	if unaryExists || virtualExists {", "	if (unaryExists && !ch.Virtual) || virtualExists {", "C15.R6.newkey")
	mut("C15", "a failed ontology clean-up of a single-channel delete is ignored", "core/pkg/distribution/channel/lease_proxy.go",
		"	if err := s.maybeDeleteResources(ctx, tx, keys); err != nil {\n		return err\n	}\n	// It's very important that this goes last", "	if err := s.maybeDeleteResources(ctx, tx, keys); err != nil && len(keys) > 1 {\n		return err\n	}\n	// It's very important that this goes last", "C15.ERR")
	mut("C18", "a failed subject resolution is ignored inside a transaction", "core/pkg/service/access/rbac/service.go",
		"	keys, err := e.policy.ResolveSubjects(ctx, e.tx, subject)\n	if err != nil {", "	keys, err := e.policy.ResolveSubjects(ctx, e.tx, subject)\n	if err != nil && e.tx == nil {", "C18.ERR")
}
