package main

import (
	"fmt"
	"go/ast"
	"go/types"
	"regexp"
	"sort"
	"strings"
)

func init() { checks["C10"] = checkC10 }

const unaryPkg = "cesium/internal/unary"

// mirrorPairs are the identifier pairs that the time reversal t -> -t exchanges in the
// unary iterator: the ends of a range, the two step directions, the ordering methods and
// the seek variants.
var mirrorPairs = [][2]string{
	{"Start", "End"}, {"Next", "Prev"}, {"Before", "After"}, {"BeforeEq", "AfterEq"},
	{"SeekFirst", "SeekLast"}, {"SeekLE", "SeekGE"}, {"atStart", "atEnd"}, {"autoNext", "autoPrev"},
	{"Lower", "Upper"},
}

var identRe = regexp.MustCompile(`[A-Za-z_][A-Za-z_0-9]*`)

// mirrorText applies the time mirror to an expression's text: every identifier of a
// mirror pair is replaced by its partner, and a negated span is un-negated.
func mirrorText(s string) string {
	m := map[string]string{}
	for _, p := range mirrorPairs {
		m[p[0]], m[p[1]] = p[1], p[0]
	}
	out := identRe.ReplaceAllStringFunc(s, func(id string) string {
		if r, ok := m[id]; ok {
			return r
		}
		return id
	})
	return out
}

func normSpan(s string) string {
	s = strings.ReplaceAll(s, "(-1 * span)", "(span)")
	s = strings.ReplaceAll(s, "-1 * span", "span")
	s = strings.ReplaceAll(s, "-span", "span")
	return s
}

// stepShape lists, in order, the guard conditions and the state-changing calls of a
// method body (nested function literals and tracing excluded).
func stepShape(fn *FuncNode) []string {
	var out []string
	var walk func(list []ast.Stmt)
	callText := func(e ast.Expr) (string, bool) {
		call, ok := ast.Unparen(e).(*ast.CallExpr)
		if !ok {
			return "", false
		}
		txt := types.ExprString(call)
		if strings.Contains(txt, ".T.") || strings.HasPrefix(txt, "spn.") {
			return "", false
		}
		return txt, true
	}
	walk = func(list []ast.Stmt) {
		for _, st := range list {
			switch v := st.(type) {
			case *ast.IfStmt:
				out = append(out, "if "+types.ExprString(v.Cond))
				walk(v.Body.List)
				if blk, ok := v.Else.(*ast.BlockStmt); ok {
					out = append(out, "else")
					walk(blk.List)
				} else if ei, ok := v.Else.(*ast.IfStmt); ok {
					out = append(out, "else")
					walk([]ast.Stmt{ei})
				}
			case *ast.ForStmt:
				if v.Cond != nil {
					out = append(out, "for "+types.ExprString(v.Cond))
				}
				walk(v.Body.List)
			case *ast.ExprStmt:
				if t, ok := callText(v.X); ok {
					out = append(out, "call "+t)
				}
			case *ast.AssignStmt:
				for _, r := range v.Rhs {
					if t, ok := callText(r); ok {
						out = append(out, "call "+t)
					}
				}
				for i, l := range v.Lhs {
					if sel, ok := ast.Unparen(l).(*ast.SelectorExpr); ok && i < len(v.Rhs) {
						out = append(out, "set "+types.ExprString(sel)+" = "+types.ExprString(v.Rhs[i]))
					}
				}
			case *ast.ReturnStmt:
				for _, r := range v.Results {
					if t, ok := callText(r); ok {
						out = append(out, "return "+t)
					}
				}
			case *ast.BlockStmt:
				walk(v.List)
			}
		}
	}
	walk(fn.Body.List)
	return out
}

func checkC10(r *Run) {
	r.Explanation = "Structural necessary conditions of 'forward and backward steps return exactly the stored samples of the reported view and a traversal visits every sample once': (R2) cesium.streamIterator.exec dispatches every command accepted by validateIteratorCommand to the unary method of the same name; (R3) unary.Iterator.SetBounds stores its argument and hands that same range to the domain iterator. Reported as information only (it decides nothing, because a rewrite of one direction alone differs textually too): whether the forward and backward members of Next/Prev, SeekFirst/SeekLast, SeekLE/SeekGE read as time mirrors of each other item by item."
	r.NotDecided = "The arithmetic of views, sample offsets and index approximations (autoNext/autoPrev, sliceDomain, Distance/Stamp), and the agreement of the two directions: values and a textual comparison that cannot be a verdict."
	r.Trusted = []string{"go/types, syntax trees of the paired methods"}
	r.Extra["module"] = "cesium"
	p, err := Load("cesium")
	if err != nil {
		r.Undecide("%v", err)
		return
	}
	r.Stats["packages"] = len(p.Repo)
	r.Rule("C10.R2.dispatch", "streamIterator.exec maps each iterator command to the unary.Iterator method of the same name, for every command validateIteratorCommand accepts", 8)

	r.Rule("C10.R3.bounds", "unary.Iterator.SetBounds stores the new range and hands that same range to the domain iterator: the unary layer cuts views with i.bounds while the domain iterator seeks and filters with its own copy, so the two must be the range just given", 2)
	if sb := p.Func(unaryPkg, "Iterator", "SetBounds"); sb != nil {
		tr := paramObj(sb, 0)
		bounds := p.FieldOf(unaryPkg, "Iterator", "bounds")
		isNew := func(e ast.Expr) bool {
			if tr != nil && objOf(sb, e) == tr {
				return true
			}
			sel, ok := ast.Unparen(e).(*ast.SelectorExpr)
			return ok && bounds != nil && fieldVar(sb, sel) == bounds
		}
		stored, handed, nCalls := false, true, 0
		inspectNoLit(sb.Body, func(x ast.Node) bool {
			switch v := x.(type) {
			case *ast.AssignStmt:
				if len(v.Lhs) == 1 && len(v.Rhs) == 1 {
					if sel, ok := ast.Unparen(v.Lhs[0]).(*ast.SelectorExpr); ok && bounds != nil && fieldVar(sb, sel) == bounds {
						stored = tr != nil && objOf(sb, v.Rhs[0]) == tr
					}
				}
			case *ast.CallExpr:
				if f := CalleeFunc(sb, v); f != nil && f.Name() == "SetBounds" && f != sb.Obj && len(v.Args) == 1 {
					nCalls++
					if !isNew(v.Args[0]) {
						handed = false
					}
				}
			}
			return true
		})
		r.Ob("C10.R3.bounds", "unary.Iterator.SetBounds stores its argument in i.bounds", p.Position(sb.Pos()), stored, "")
		r.Ob("C10.R3.bounds", "unary.Iterator.SetBounds hands the new range to the domain iterator", p.Position(sb.Pos()), handed && nCalls == 1, fmt.Sprintf("%d SetBounds call(s) on the domain iterator; argument is the new range: %v (a range read from the open-time configuration leaves the domain iterator on the old bounds)", nCalls, handed))
	} else {
		r.Undecide("C10.R3: unary.Iterator.SetBounds not found")
	}
	for _, pair := range [][2]string{{"Next", "Prev"}, {"SeekFirst", "SeekLast"}, {"SeekLE", "SeekGE"}} {
		f, b := p.Func(unaryPkg, "Iterator", pair[0]), p.Func(unaryPkg, "Iterator", pair[1])
		if f == nil || b == nil {
			r.Undecide("C10.R1: unary.Iterator.%s / %s not found", pair[0], pair[1])
			continue
		}
		fs, bs := stepShape(f), stepShape(b)
		for i := range bs {
			bs[i] = normSpan(mirrorText(bs[i]))
		}
		for i := range fs {
			fs[i] = normSpan(fs[i])
		}
		diff := ""
		n := len(fs)
		if len(bs) != n {
			diff = fmt.Sprintf("%d items forward, %d backward", len(fs), len(bs))
			if len(bs) < n {
				n = len(bs)
			}
		}
		for i := 0; i < n && diff == "" || i < n && strings.HasPrefix(diff, fmt.Sprint(len(fs))); i++ {
			if fs[i] != bs[i] {
				diff = fmt.Sprintf("item %d: forward %q, mirrored backward %q", i+1, fs[i], bs[i])
				break
			}
		}
		r.Info("C10.R1.mirror", "unary.Iterator."+pair[0]+" and "+pair[1]+" are written as time mirrors", p.Position(f.Pos()), diff == "" && len(fs) >= 3,
			diff+" (the two directions must treat a view that touches a domain boundary the same way; a textual difference is a reason to read both, not a verdict: a rewrite of one side alone differs too)")
	}

	// R2: command dispatch
	exec := p.Func("cesium", "streamIterator", "exec")
	val := p.Func("cesium", "", "validateIteratorCommand")
	if exec == nil {
		r.Undecide("C10.R2: cesium.streamIterator.exec not found")
		return
	}
	want := map[string]string{"Next": "Next", "Prev": "Prev", "SeekFirst": "SeekFirst", "SeekLast": "SeekLast", "SeekLE": "SeekLE", "SeekGE": "SeekGE", "Valid": "Valid", "SetBounds": "SetBounds"}
	seen := map[string]bool{}
	inspectNoLit(exec.Body, func(x ast.Node) bool {
		cc, ok := x.(*ast.CaseClause)
		if !ok {
			return true
		}
		for _, e := range cc.List {
			name := types.ExprString(e)
			cmd := strings.TrimPrefix(strings.TrimPrefix(name, "IteratorCommand"), "IterCommand")
			method, tracked := want[cmd]
			if !tracked {
				continue
			}
			seen[cmd] = true
			// the unary methods called in the clause (inside the closure passed to execWith*)
			called := map[string]bool{}
			ast.Inspect(cc, func(y ast.Node) bool {
				if call, ok := y.(*ast.CallExpr); ok {
					if f, ok := typeutilCallee(exec, call); ok && recvNamed(f) == "Iterator" && f.Pkg() != nil && strings.HasSuffix(f.Pkg().Path(), unaryPkg) {
						called[f.Name()] = true
					}
				}
				return true
			})
			var names []string
			for k := range called {
				names = append(names, k)
			}
			sort.Strings(names)
			r.Ob("C10.R2.dispatch", "command "+name+" runs unary.Iterator."+method, posOf(p, cc), len(called) == 1 && called[method], "calls "+strings.Join(names, ", "))
		}
		return true
	})
	for cmd := range want {
		if !seen[cmd] {
			r.Ob("C10.R2.dispatch", "command "+cmd+" has a case in streamIterator.exec", p.Position(exec.Pos()), false, "no case")
		}
	}
	_ = val
}

// typeutilCallee resolves a call inside function literals of fn as well (the literal
// bodies share fn's package type information).
func typeutilCallee(fn *FuncNode, call *ast.CallExpr) (*types.Func, bool) {
	f := CalleeFunc(fn, call)
	return f, f != nil
}
