package main

func init() {
	const wt = "arc/go/compiler/wasm/types.go"
	const cast = "arc/go/compiler/expression/cast.go"
	const un = "arc/go/compiler/expression/unary.go"
	const lg = "arc/go/compiler/expression/logical.go"
	const ctl = "arc/go/compiler/statement/control.go"
	const lp = "arc/go/compiler/statement/loop.go"
	const vr = "arc/go/compiler/statement/variable.go"
	const cx = "arc/go/compiler/context/context.go"

	// ---------------- C19
	mut("C19", "'<' picks the signed compare for unsigned kinds", wt,
		"	case \"<\":\n		if isFloat {\n			if is64bit {\n				return OpF64Lt, nil\n			}\n			return OpF32Lt, nil\n		}\n		if t.IsUnsignedInteger() {", "	case \"<\":\n		if isFloat {\n			if is64bit {\n				return OpF64Lt, nil\n			}\n			return OpF32Lt, nil\n		}\n		if t.IsSignedInteger() {", "C19.R1.binop")
	mut("C19", "'%' tests the type name for the wrong prefix", wt,
		"		if strings.HasPrefix(t.String(), \"u\") {", "		if strings.HasPrefix(t.String(), \"i\") {", "C19.R1.binop")
	mut("C19", "'>=' on 64-bit unsigned uses the 32-bit opcode", wt,
		"				return OpI64GeU, nil", "				return OpI32GeU, nil", "C19.R1.binop")
	mut("C19", "'-' on f32 selects f32.add", wt,
		"			return OpF32Sub, nil", "			return OpF32Add, nil", "C19.R1.binop")
	mut("C19", "u64 is carried in an i32", wt,
		"	if t.Is64Bit() {\n		return I64\n	}", "	if t.Kind == types.KindI64 {\n		return I64\n	}", "C19.R2.carrier")
	mut("C19", "compound '/=' is spelled '//'", vr,
		"		return \"/\"", "		return \"//\"", "C19.R3.operators")
	mut("C19", "i32->i64 extension by the target's signedness", cast,
		"			opCode = lo.Ternary(fromIsSigned, wasm.OpI64ExtendI32S, wasm.OpI64ExtendI32U)", "			opCode = lo.Ternary(toIsSigned, wasm.OpI64ExtendI32S, wasm.OpI64ExtendI32U)", "C19.R4.cast")
	mut("C19", "f32->i64 uses the f64 truncation", cast,
		"			opCode = lo.Ternary(toIsSigned, wasm.OpI64TruncF32S, wasm.OpI64TruncF32U)", "			opCode = lo.Ternary(toIsSigned, wasm.OpI64TruncF64S, wasm.OpI64TruncF32U)", "C19.R4.cast")
	mut("C19", "f64->f32 cast emits nothing", cast,
		"		case wasm.F32:\n			opCode = wasm.OpF32DemoteF64\n		}", "		}", "C19.R4.cast")
	mut("C19", "unary minus on 64-bit integers multiplies in i32", un,
		"			ctx.Writer.WriteI64Const(-1)\n			ctx.Writer.WriteBinaryOp(wasm.OpI64Mul)", "			ctx.Writer.WriteI64Const(-1)\n			ctx.Writer.WriteBinaryOp(wasm.OpI32Mul)", "C19.R5.negate")
	mut("C19", "unary minus on u32 is rejected by the compiler", un,
		"		case types.KindI8, types.KindI16, types.KindI32, types.KindU8, types.KindU16, types.KindU32:", "		case types.KindI8, types.KindI16, types.KindI32, types.KindU8, types.KindU16:", "C19.R5.negate")
	mut("C19", "'or' does not normalise its right operand", lg,
		"		if _, err := compileLogicalAnd(context.Child(ctx, ands[i])); err != nil {\n			return types.Type{}, err\n		}\n		normalizeBoolean(ctx)", "		if _, err := compileLogicalAnd(context.Child(ctx, ands[i])); err != nil {\n			return types.Type{}, err\n		}", "C19.R10.logic")
	mut("C19", "'and' short-circuits to 1", lg,
		"		ctx.Writer.WriteI32Const(0)\n		ctx.Writer.WriteOpcode(wasm.OpElse)", "		ctx.Writer.WriteI32Const(1)\n		ctx.Writer.WriteOpcode(wasm.OpElse)", "C19.R10.logic")
	mut("C19", "normalizeBoolean compares for equality with zero", lg,
		"	ctx.Writer.WriteOpcode(wasm.OpI32Ne)", "	ctx.Writer.WriteOpcode(wasm.OpI32Eq)", "C19.R10.logic")
	mut("C19", "final else compiled at the outer if's depth", ctl,
		"CompileBlock(context.Child(elseIfCtx, ctx.AST.ElseClause().Block()))", "CompileBlock(context.Child(innerCtx, ctx.AST.ElseClause().Block()))", "C19.R11.depth")
	mut("C19", "simple if body compiled without entering the block", ctl,
		"	innerCtx := ctx.EnterBlock()\n	if _, err = CompileBlock(context.Child(innerCtx, ctx.AST.Block())); err != nil {", "	innerCtx := ctx\n	if _, err = CompileBlock(context.Child(innerCtx, ctx.AST.Block())); err != nil {", "C19.R11.depth")
	mut("C19", "for-range loop swaps break and continue depths", lp,
		"	bodyCtx := loopCtx.EnterLoop(context.LoopEntry{\n		BreakDepth:    breakDepth,\n		ContinueDepth: continueDepth,\n	})\n\n	if block := ctx.AST.Block(); block != nil {\n		if _, err = CompileBlock(context.Child(bodyCtx, block)); err != nil {\n			return err\n		}\n	}\n\n	// end block $continue\n	ctx.Writer.WriteEnd()\n\n	ctx.Writer.WriteLocalGet(loopVarIdx)", "	bodyCtx := loopCtx.EnterLoop(context.LoopEntry{\n		BreakDepth:    continueDepth,\n		ContinueDepth: breakDepth,\n	})\n\n	if block := ctx.AST.Block(); block != nil {\n		if _, err = CompileBlock(context.Child(bodyCtx, block)); err != nil {\n			return err\n		}\n	}\n\n	// end block $continue\n	ctx.Writer.WriteEnd()\n\n	ctx.Writer.WriteLocalGet(loopVarIdx)", "C19.R11.depth")
	mut("C19", "Child drops the block depth", cx,
		"		blockDepth:       ctx.blockDepth,\n", "", "C19.R11.depth")

	// ---------------- C19.R12
	mut("C19", "the range limit is compared against the user's variable", "arc/go/compiler/statement/loop.go",
		"	limitSym, err := loopScope.Resolve(ctx, \"__for_limit\")", "	limitSym, err := loopScope.Resolve(ctx, endExpr.GetText())", "C19.R12.bound")

	// ---------------- C19.R13
	mut("C19", "loop variables are not declared as locals", "arc/go/compiler/compiler.go",
		"			symbol.KindOutput, symbol.KindLoopVariable:", "			symbol.KindOutput:", "C19.R13.locals")

	mut("C19", "a stored zero counts as an uninitialised stateful variable", "arc/go/stl/stateful/stateful.go",
		"			if value, ok := inner[varID]; ok {\n				return uint32(value)\n", "			if value := inner[varID]; value != 0 {\n				return uint32(value)\n", "C19.R14.presence")
}
