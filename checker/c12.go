package main

import (
	"fmt"
	"go/ast"
	"go/token"
	"go/types"
	"strings"
)

func init() { checks["C12"] = checkC12 }

const (
	gossipPkg  = "aspen/internal/cluster/gossip"
	cstorePkg  = "aspen/internal/cluster/store"
	versionPkg = "x/version"
)

// ---------------------------------------------------------------------------------
// Finite-orderings evaluation: a function that touches its operands only through
// comparisons of <recv>.F with <param>.F is decided by enumerating the orderings
// (<, =, >) of each field pair. This is case analysis on the syntax tree, not execution.
// ---------------------------------------------------------------------------------

type ordCase map[string]int // field name -> sign(recv.F - param.F)

type ordEval struct {
	fn   *FuncNode
	recv types.Object
	par  types.Object
	bad  string
	// index mode: operands are <expr>[recv] and <expr>[par] (sort.Interface.Less)
	index bool
	// prog, when set, lets method-call comparisons (a.NewerThan(b)) be inlined
	prog *Prog
	// boolErr: the function returns (bool, error); the value is the first result of a
	// return whose second result is nil
	boolErr bool
	// alias: locals with one definition stand for their defining expression
	alias map[types.Object]ast.Expr
}

func (e *ordEval) fieldOf(x ast.Expr) (string, int, bool) {
	for i := 0; i < 4; i++ {
		if o := objOf(e.fn, x); o != nil && e.alias != nil {
			if a, ok := e.alias[o]; ok {
				x = a
				continue
			}
		}
		break
	}
	if e.index {
		ix, ok := ast.Unparen(x).(*ast.IndexExpr)
		if !ok {
			return "", 0, false
		}
		name := types.ExprString(ix.X)
		if s, ok := ast.Unparen(ix.X).(*ast.SelectorExpr); ok {
			name = s.Sel.Name
		}
		switch objOf(e.fn, ix.Index) {
		case e.recv:
			return name, 0, true
		case e.par:
			return name, 1, true
		}
		return "", 0, false
	}
	s, ok := ast.Unparen(x).(*ast.SelectorExpr)
	if !ok {
		return "", 0, false
	}
	o := objOf(e.fn, s.X)
	switch o {
	case e.recv:
		return s.Sel.Name, 0, true
	case e.par:
		return s.Sel.Name, 1, true
	}
	return "", 0, false
}

func (e *ordEval) expr(x ast.Expr, c ordCase) bool {
	switch v := ast.Unparen(x).(type) {
	case *ast.Ident:
		switch v.Name {
		case "true":
			return true
		case "false":
			return false
		}
	case *ast.UnaryExpr:
		if v.Op == token.NOT {
			return !e.expr(v.X, c)
		}
	case *ast.BinaryExpr:
		switch v.Op {
		case token.LAND:
			return e.expr(v.X, c) && e.expr(v.Y, c)
		case token.LOR:
			return e.expr(v.X, c) || e.expr(v.Y, c)
		}
		f1, side1, ok1 := e.fieldOf(v.X)
		f2, side2, ok2 := e.fieldOf(v.Y)
		if ok1 && ok2 && f1 == f2 && side1 != side2 {
			sign, known := c[f1]
			if !known {
				e.bad = "comparison on an unexpected field " + f1
				return false
			}
			if side1 == 1 { // param OP recv: flip
				sign = -sign
			}
			switch v.Op {
			case token.LSS:
				return sign < 0
			case token.LEQ:
				return sign <= 0
			case token.GTR:
				return sign > 0
			case token.GEQ:
				return sign >= 0
			case token.EQL:
				return sign == 0
			case token.NEQ:
				return sign != 0
			}
		}
	}
	// X.M(Y) where M's body is a single "return recv OP param": the same as X OP Y
	if call, ok := ast.Unparen(x).(*ast.CallExpr); ok && len(call.Args) == 1 && e.prog != nil {
		if sel, ok := ast.Unparen(call.Fun).(*ast.SelectorExpr); ok {
			if f := CalleeFunc(e.fn, call); f != nil {
				if callee, ok := e.prog.ByObj[f]; ok && callee.Decl != nil && callee.Body != nil && len(callee.Body.List) == 1 && callee.Decl.Recv != nil && len(callee.Decl.Recv.List[0].Names) == 1 {
					if ret, ok := callee.Body.List[0].(*ast.ReturnStmt); ok && len(ret.Results) == 1 {
						if be, ok := ast.Unparen(ret.Results[0]).(*ast.BinaryExpr); ok {
							rv := callee.Pkg.TypesInfo.Defs[callee.Decl.Recv.List[0].Names[0]]
							pv := paramObj(callee, 0)
							a, b := objOf(callee, be.X), objOf(callee, be.Y)
							var lx, ly ast.Expr
							switch {
							case a == rv && b == pv:
								lx, ly = sel.X, call.Args[0]
							case a == pv && b == rv:
								lx, ly = call.Args[0], sel.X
							}
							if lx != nil {
								return e.expr(&ast.BinaryExpr{X: lx, Op: be.Op, Y: ly}, c)
							}
						}
					}
				}
			}
		}
	}
	e.bad = "expression outside the comparison fragment: " + types.ExprString(x)
	return false
}

// stmts evaluates a statement list; returns (value, returned).
func (e *ordEval) stmts(list []ast.Stmt, c ordCase) (bool, bool) {
	for _, s := range list {
		switch v := s.(type) {
		case *ast.ReturnStmt:
			if e.boolErr && len(v.Results) == 2 && isNilIdent(e.fn, v.Results[1]) {
				return e.expr(v.Results[0], c), true
			}
			if len(v.Results) != 1 {
				e.bad = "return with several results"
				return false, true
			}
			return e.expr(v.Results[0], c), true
		case *ast.IfStmt:
			if v.Init != nil {
				e.bad = "if with an init statement"
				return false, true
			}
			if e.expr(v.Cond, c) {
				if val, ret := e.stmts(v.Body.List, c); ret {
					return val, true
				}
			} else if v.Else != nil {
				switch el := v.Else.(type) {
				case *ast.BlockStmt:
					if val, ret := e.stmts(el.List, c); ret {
						return val, true
					}
				case *ast.IfStmt:
					if val, ret := e.stmts([]ast.Stmt{el}, c); ret {
						return val, true
					}
				}
			}
		case *ast.BlockStmt:
			if val, ret := e.stmts(v.List, c); ret {
				return val, true
			}
		case *ast.AssignStmt:
			if v.Tok != token.DEFINE || len(v.Lhs) != len(v.Rhs) {
				e.bad = fmt.Sprintf("assignment outside the comparison fragment at %s", e.fn.Pkg.Fset.Position(s.Pos()))
				return false, true
			}
			if e.alias == nil {
				e.alias = map[types.Object]ast.Expr{}
			}
			for i, l := range v.Lhs {
				if o := objOf(e.fn, l); o != nil {
					e.alias[o] = v.Rhs[i]
				}
			}
		case *ast.SwitchStmt:
			if v.Tag != nil || v.Init != nil {
				e.bad = fmt.Sprintf("switch outside the comparison fragment at %s", e.fn.Pkg.Fset.Position(s.Pos()))
				return false, true
			}
			var def *ast.CaseClause
			taken := false
			for _, cc := range v.Body.List {
				clause := cc.(*ast.CaseClause)
				if clause.List == nil {
					def = clause
					continue
				}
				hit := false
				for _, ce := range clause.List {
					if e.expr(ce, c) {
						hit = true
					}
				}
				if hit {
					taken = true
					if val, ret := e.stmts(clause.Body, c); ret {
						return val, true
					}
					break
				}
			}
			if !taken && def != nil {
				if val, ret := e.stmts(def.Body, c); ret {
					return val, true
				}
			}
		default:
			e.bad = fmt.Sprintf("statement outside the comparison fragment at %s", e.fn.Pkg.Fset.Position(s.Pos()))
			return false, true
		}
	}
	return false, false
}

// decideOrder evaluates fn on the 9 orderings of (Generation, Version) and compares
// with want(gen, ver).
func decideOrder(fn *FuncNode, want func(g, v int) bool) (bool, string) {
	if fn.Decl == nil || fn.Decl.Recv == nil || len(fn.Decl.Recv.List[0].Names) == 0 {
		return false, "no named receiver"
	}
	e := &ordEval{fn: fn, recv: fn.Pkg.TypesInfo.Defs[fn.Decl.Recv.List[0].Names[0]], par: paramObj(fn, 0)}
	var diffs []string
	for _, g := range []int{-1, 0, 1} {
		for _, v := range []int{-1, 0, 1} {
			got, ret := e.stmts(fn.Body.List, ordCase{"Generation": g, "Version": v})
			if e.bad != "" {
				return false, e.bad
			}
			if !ret {
				return false, "a path falls off the end"
			}
			if got != want(g, v) {
				diffs = append(diffs, fmt.Sprintf("(gen %s, ver %s): returns %v, want %v", sgn(g), sgn(v), got, want(g, v)))
			}
		}
	}
	if len(diffs) > 0 {
		return false, strings.Join(diffs, "; ")
	}
	return true, "agrees with the strict lexicographic order on all 9 orderings of (Generation, Version)"
}

func sgn(i int) string { return map[int]string{-1: "<", 0: "=", 1: ">"}[i] }

func checkC12(r *Run) {
	r.Explanation = "Structural necessary conditions of monotone, convergent membership gossip: (R1) every read-modify-write of the cluster state (CopyState ... SetState in one function) runs under one mutex held across both calls; (R2) a received member record replaces the local one only when the local record is missing or the received heartbeat is OlderThan (more advanced than) the local one, in store.Merge, gossip.sync and gossip.ack, with the roles of 'received' and 'local' checked; the initiator merges the peer's records on every path of ack, the peer merges ack2, and the sync handler answers with what sync computed; (R3) Heartbeat.OlderThan / YoungerThan are the strict lexicographic order on (Generation, Version) and its mirror, decided by case analysis over the 9 orderings of the two field pairs; Restart increments Generation and zeroes Version."
	r.NotDecided = "Convergence after all pairs exchanged (a fixpoint over histories); which peers are chosen; liveness."
	r.Trusted = []string{"go/types, go/cfg, lockset engine"}
	r.Extra["module"] = "aspen"
	p, err := Load("aspen")
	if err != nil {
		r.Undecide("%v", err)
		return
	}
	r.Stats["packages"] = len(p.Repo)
	r.Rule("C12.R1.atomic", "a function that takes a snapshot with CopyState() and publishes a state with SetState() holds one mutex across both calls", 4)
	r.Rule("C12.R2.direction", "the local record is overwritten (or sent back / requested) only under an assignment of the four facts (local more advanced, remote more advanced, known locally, known remotely) that licenses that store - decided as a truth table over the whole function, with the received/local roles as stated", 4)
	r.Rule("C12.R2.exchange", "ack merges the peer's records on every path; ack2 merges; the sync handler returns sync's answer; GossipOnceWith feeds the peer's ack to ack", 4)
	r.Rule("C12.R4.restart", "cluster.Open restarts the host heartbeat on every path that found persisted state, and on every success path from there the state is flushed synchronously (goFlushStore's FlushSync of CopyState()) afterwards: the new generation is on disk before Open returns", 3)
	r.Rule("C12.R2.complete", "gossip.sync compares every received digest with the local record (no digest is skipped before the comparison) and, on every path, runs the pass that volunteers the members the initiator sent no digest for", 2)
	r.Rule("C12.ERR", "no error returned by a call is discarded or left neither ruled out nor used on some path in the gossip and cluster-store packages: a failed exchange that looks successful is a merge that silently did not happen", 1)
	checkErrDrop(r, p, "C12.ERR", func(fn *FuncNode) bool {
		return fn.InPkgs("aspen/internal/cluster/gossip", "aspen/internal/cluster/store")
	}, 10)
	r.Rule("C12.R3.order", "Heartbeat.OlderThan is the strict lexicographic (Generation, Version) order, YoungerThan its mirror; Restart bumps Generation and zeroes Version", 3)

	scope := func(fn *FuncNode) bool { return fn.InPkgs("aspen/internal/cluster", "x/store") }
	la := NewLockAnalysis(p, scope)
	la.Run()
	for _, u := range la.Unknown {
		r.Undecide("lockset: %s", u)
	}

	// ---- R1
	n := 0
	for _, fn := range p.Funcs {
		if !fn.InPkgs("aspen/internal/cluster") || fn.Lit != nil {
			continue
		}
		var copies, sets []*ast.CallExpr
		inspectNoLit(fn.Body, func(x ast.Node) bool {
			if call, ok := x.(*ast.CallExpr); ok {
				if f := CalleeFunc(fn, call); f != nil && f.Pkg() != nil && strings.HasSuffix(f.Pkg().Path(), "x/store") {
					switch f.Name() {
					case "CopyState":
						copies = append(copies, call)
					case "SetState":
						sets = append(sets, call)
					}
				}
			}
			return true
		})
		if len(copies) == 0 || len(sets) == 0 {
			continue
		}
		n++
		ok := true
		detail := ""
		for _, cp := range copies {
			for _, st := range sets {
				common := false
				for k, h := range la.CallStates[cp] {
					if h2, ok := la.CallStates[st][k]; ok && h.Mode == ModeW && h2.Mode == ModeW {
						common = true
						detail = "both under " + h.Class
					}
				}
				if !common {
					ok = false
					detail = "no mutex is held across CopyState() and SetState(): two concurrent mutators lose an update and a member's record regresses"
				}
			}
		}
		r.Ob("C12.R1.atomic", "read-modify-write of the cluster state in "+fn.Name, p.Position(copies[0].Pos()), ok, detail)
	}
	if n < 4 {
		r.Undecide("C12.R1: only %d CopyState/SetState functions found (expected 4)", n)
	}

	checkMergeDirection(r, p)
	checkExchange(r, p)
	checkRestartPersisted(r, p)
	checkSyncComplete(r, p)

	// ---- R3
	older := p.Func(versionPkg, "Heartbeat", "OlderThan")
	younger := p.Func(versionPkg, "Heartbeat", "YoungerThan")
	restart := p.Func(versionPkg, "Heartbeat", "Restart")
	if older == nil || younger == nil || restart == nil {
		r.Undecide("C12.R3: Heartbeat.OlderThan / YoungerThan / Restart not found")
		return
	}
	ok, why := decideOrder(older, func(g, v int) bool { return g > 0 || (g == 0 && v > 0) })
	r.Ob("C12.R3.order", "Heartbeat.OlderThan == (Generation, Version) strictly greater", p.Position(older.Pos()), ok, why)
	ok, why = decideOrder(younger, func(g, v int) bool { return g < 0 || (g == 0 && v < 0) })
	r.Ob("C12.R3.order", "Heartbeat.YoungerThan == (Generation, Version) strictly smaller", p.Position(younger.Pos()), ok, why)
	incGen, zeroVer := false, false
	inspectNoLit(restart.Body, func(x ast.Node) bool {
		switch s := x.(type) {
		case *ast.IncDecStmt:
			if sel, ok := ast.Unparen(s.X).(*ast.SelectorExpr); ok && sel.Sel.Name == "Generation" && s.Tok == token.INC {
				incGen = true
			}
		case *ast.AssignStmt:
			if len(s.Lhs) == 1 && len(s.Rhs) == 1 {
				if sel, ok := ast.Unparen(s.Lhs[0]).(*ast.SelectorExpr); ok && sel.Sel.Name == "Version" {
					if lit, ok := ast.Unparen(s.Rhs[0]).(*ast.BasicLit); ok && lit.Value == "0" && s.Tok == token.ASSIGN {
						zeroVer = true
					}
				}
			}
		}
		return true
	})
	r.Ob("C12.R3.order", "Heartbeat.Restart increments Generation and zeroes Version", p.Position(restart.Pos()), incGen && zeroVer, fmt.Sprintf("Generation++: %v, Version = 0: %v", incGen, zeroVer))
}

// roleOf classifies an expression "<var>.Heartbeat" by where var comes from:
// "local" (looked up in a CopyState() snapshot's Nodes) or "remote" (element of a
// parameter: range variable over a message/group parameter or its field).
func roleOf(fn *FuncNode, e ast.Expr) string {
	s, ok := ast.Unparen(e).(*ast.SelectorExpr)
	if !ok || s.Sel.Name != "Heartbeat" {
		return ""
	}
	o := objOf(fn, s.X)
	if o == nil {
		return ""
	}
	return roleOfObj(fn, o)
}

// roleOfObj: the role of a record variable by its definition in fn.
func roleOfObj(fn *FuncNode, o types.Object) string {
	role := ""
	// x, ok := snap.Nodes[k]   /   x := snap.Nodes[k]
	inspectNoLit(fn.Body, func(n ast.Node) bool {
		switch st := n.(type) {
		case *ast.AssignStmt:
			if len(st.Rhs) == 1 && len(st.Lhs) >= 1 && objOf(fn, st.Lhs[0]) == o {
				if ix, ok := ast.Unparen(st.Rhs[0]).(*ast.IndexExpr); ok {
					if base := rootObj(fn, ix.X); base != nil && definedByCopyState(fn, base) {
						role = "local"
					}
				}
			}
		case *ast.RangeStmt:
			if st.Value != nil && objOf(fn, st.Value) == o {
				if base := rootObj(fn, st.X); base != nil {
					if isParam(fn, base) {
						role = "remote"
					} else if definedByCopyState(fn, base) {
						role = "local"
					}
				}
			}
		}
		return true
	})
	return role
}

func rootObj(fn *FuncNode, e ast.Expr) types.Object {
	for {
		switch x := ast.Unparen(e).(type) {
		case *ast.SelectorExpr:
			e = x.X
			continue
		case *ast.IndexExpr:
			e = x.X
			continue
		case *ast.Ident:
			return objOf(fn, x)
		}
		return nil
	}
}

func isParam(fn *FuncNode, o types.Object) bool {
	for f := fn; f != nil; f = f.Parent {
		if f.Type.Params == nil {
			continue
		}
		for _, fl := range f.Type.Params.List {
			for _, nm := range fl.Names {
				if f.Pkg.TypesInfo.Defs[nm] == o {
					return true
				}
			}
		}
	}
	return false
}

func definedByCopyState(fn *FuncNode, o types.Object) bool {
	rhs, _, ok := varDefinedBy(fn, o)
	if !ok {
		return false
	}
	call, ok := ast.Unparen(rhs).(*ast.CallExpr)
	if !ok {
		return false
	}
	f := CalleeFunc(fn, call)
	return f != nil && f.Name() == "CopyState"
}

// advancedAtom: atom (with truth value) proves "A is more advanced than B" for the
// returned roles (A, B): A.OlderThan(B) true, or B.YoungerThan(A) true.
func advancedAtom(fn *FuncNode, atom ast.Expr, val bool) (string, string, bool) {
	call, ok := atom.(*ast.CallExpr)
	if !ok || !val || len(call.Args) != 1 {
		return "", "", false
	}
	f := CalleeFunc(fn, call)
	s, ok := ast.Unparen(call.Fun).(*ast.SelectorExpr)
	if f == nil || !ok {
		return "", "", false
	}
	recv, arg := roleOf(fn, s.X), roleOf(fn, call.Args[0])
	switch f.Name() {
	case "OlderThan":
		return recv, arg, recv != "" && arg != ""
	case "YoungerThan":
		return arg, recv, recv != "" && arg != ""
	}
	return "", "", false
}

// missingAtom: atom proves the local lookup failed (!ok on a snapshot index).
func missingAtom(fn *FuncNode, atom ast.Expr, val bool) bool {
	id, ok := atom.(*ast.Ident)
	if !ok || val {
		return false
	}
	o := objOf(fn, id)
	if o == nil {
		return false
	}
	hit := false
	inspectNoLit(fn.Body, func(n ast.Node) bool {
		if as, ok := n.(*ast.AssignStmt); ok && len(as.Lhs) == 2 && len(as.Rhs) == 1 && objOf(fn, as.Lhs[1]) == o {
			if _, ok := ast.Unparen(as.Rhs[0]).(*ast.IndexExpr); ok {
				hit = true
			}
		}
		return true
	})
	return hit
}

type directionSpec struct {
	pkg, recv, name string
	// storeInto: the assignment target's map field name (Nodes / Digests) and, when
	// several stores exist, which index to look at is decided by want
	target string
	// want: which fact licenses the store: "remote>local" or "local>remote" or "missing"
	allow []string
	desc  string
}

func checkMergeDirection(r *Run, p *Prog) {
	specs := []directionSpec{
		{cstorePkg, "core", "Merge", "Nodes", []string{"remote>local", "missing"}, "store.Merge adopts a received record"},
		{gossipPkg, "Gossip", "sync", "Nodes", []string{"local>remote", "missing-remote"}, "gossip.sync returns a record to the initiator"},
		{gossipPkg, "Gossip", "sync", "Digests", []string{"remote>local", "missing"}, "gossip.sync requests a record from the initiator"},
		{gossipPkg, "Gossip", "ack", "Nodes", []string{"local>remote"}, "gossip.ack returns a record to the peer"},
	}
	// The decision is read as a truth table (E17) over four facts: the local record is
	// more advanced than the received one, the received one is more advanced than the
	// local one, the member is present in the local snapshot, the member is present in
	// the received message. A store may be passed only under an assignment in which one
	// of the facts that license it holds - however the test is written down (one
	// condition, named booleans, De Morgan forms, early continue, a predicate).
	atoms := []string{"local>remote", "remote>local", "has:local", "has:remote"}
	for _, sp := range specs {
		top := p.Func(sp.pkg, sp.recv, sp.name)
		if top == nil {
			r.Undecide("C12.R2: %s.%s not found", sp.recv, sp.name)
			continue
		}
		// role of the record an expression is part of: "local" (from a CopyState snapshot),
		// "remote" (from a parameter)
		role := func(ev *ttEval, st *ttState, f *FuncNode, e ast.Expr) string {
			for i := 0; i < 10; i++ {
				switch x := ast.Unparen(e).(type) {
				case *ast.SelectorExpr:
					e = x.X
				case *ast.IndexExpr:
					e = x.X
				case *ast.CallExpr:
					if g := CalleeFunc(f, x); g != nil && g.Name() == "CopyState" {
						return "local"
					}
					return ""
				case *ast.Ident:
					o := objOf(f, x)
					if o == nil {
						return ""
					}
					if b, ok := st.alias[o]; ok {
						f, e = b.fn, b.e
						continue
					}
					if f != top {
						return ""
					}
					if isParam(top, o) {
						return "remote"
					}
					if definedByCopyState(top, o) {
						return "local"
					}
					return roleOfObj(top, o)
				default:
					return ""
				}
			}
			return ""
		}
		classify := func(ev *ttEval, st *ttState, f *FuncNode, e ast.Expr) (string, bool, bool) {
			switch x := ast.Unparen(e).(type) {
			case *ast.CallExpr:
				g := CalleeFunc(f, x)
				sel, ok := ast.Unparen(x.Fun).(*ast.SelectorExpr)
				if g == nil || !ok || len(x.Args) != 1 || (g.Name() != "OlderThan" && g.Name() != "YoungerThan") {
					return "", false, false
				}
				isHB := func(y ast.Expr) bool {
					_, y2 := ev.resolve(st, f, y)
					s2, ok := ast.Unparen(y2).(*ast.SelectorExpr)
					return ok && s2.Sel.Name == "Heartbeat"
				}
				if !isHB(sel.X) || !isHB(x.Args[0]) {
					return "", false, false
				}
				f1, x1 := ev.resolve(st, f, sel.X)
				f2, x2 := ev.resolve(st, f, x.Args[0])
				ra, rb := role(ev, st, f1, x1), role(ev, st, f2, x2)
				if ra == "" || rb == "" || ra == rb {
					return "", false, false
				}
				adv, other := ra, rb // receiver.OlderThan(arg): the receiver is more advanced
				if g.Name() == "YoungerThan" {
					adv, other = rb, ra
				}
				return adv + ">" + other, false, true
			case *ast.IndexExpr:
				if tv, ok := f.Pkg.TypesInfo.Types[x.X]; ok {
					if _, isMap := tv.Type.Underlying().(*types.Map); !isMap {
						return "", false, false
					}
				}
				if ro := role(ev, st, f, x.X); ro != "" {
					return "has:" + ro, false, true
				}
			}
			return "", false, false
		}
		event := func(f *FuncNode, s ast.Stmt) string {
			as, ok := s.(*ast.AssignStmt)
			if !ok || len(as.Lhs) != 1 || f != top {
				return ""
			}
			ix, ok := ast.Unparen(as.Lhs[0]).(*ast.IndexExpr)
			if !ok {
				return ""
			}
			if s2, ok := ast.Unparen(ix.X).(*ast.SelectorExpr); ok && s2.Sel.Name == sp.target {
				return "store"
			}
			return ""
		}
		outcome := func(*FuncNode, *ast.ReturnStmt, []ttVal) string { return "end" }
		table, bad := ttTableEv(p, top, atoms, classify, outcome, false, event)
		if bad != "" {
			r.Undecide("C12.R2.direction: %s.%s could not be evaluated: %s", sp.recv, sp.name, bad)
			continue
		}
		licensed := func(mask int) bool {
			for _, a := range sp.allow {
				switch a {
				case "local>remote":
					if mask&1 != 0 {
						return true
					}
				case "remote>local":
					if mask&2 != 0 {
						return true
					}
				case "missing":
					if mask&4 == 0 {
						return true
					}
				case "missing-remote":
					if mask&8 == 0 {
						return true
					}
				}
			}
			return false
		}
		stores, ok, why := false, true, ""
		for mask := 0; mask < 1<<len(atoms); mask++ {
			for o := range table[mask] {
				if !strings.Contains(o, "+store") {
					continue
				}
				stores = true
				if !licensed(mask) {
					ok = false
					why = fmt.Sprintf("the store is reached with local>remote=%v remote>local=%v known-locally=%v known-remotely=%v", mask&1 != 0, mask&2 != 0, mask&4 != 0, mask&8 != 0)
				}
			}
		}
		if !stores {
			r.Ob("C12.R2.direction", sp.desc, p.Position(top.Pos()), false, "no store into ."+sp.target)
			continue
		}
		r.Ob("C12.R2.direction", sp.desc+" only when licensed ("+strings.Join(sp.allow, " or ")+")", p.Position(top.Pos()), ok,
			"an inverted or missing comparison lets older state overwrite newer state (or withholds newer state) when the two sides are ahead on different members: "+why)
	}
}

func checkExchange(r *Run, p *Prog) {
	ack := p.Func(gossipPkg, "Gossip", "ack")
	ack2 := p.Func(gossipPkg, "Gossip", "ack2")
	syncF := p.Func(gossipPkg, "Gossip", "sync")
	process := p.Func(gossipPkg, "Gossip", "process")
	once := p.Func(gossipPkg, "Gossip", "GossipOnceWith")
	if ack == nil || ack2 == nil || syncF == nil || process == nil || once == nil {
		r.Undecide("C12.R2: gossip functions not resolved")
		return
	}
	isMergeOf := func(fn *FuncNode, param types.Object) func(ast.Node) bool {
		return func(n ast.Node) bool {
			return nodeHasCall(fn, n, func(o types.Object, call *ast.CallExpr) bool {
				f, ok := o.(*types.Func)
				if !ok || f.Name() != "Merge" || len(call.Args) != 2 {
					return false
				}
				arg := ast.Unparen(call.Args[1])
				// through a local with a single definition ("peerNodes := msg.Nodes")
				if o := objOf(fn, arg); o != nil && o != param {
					if rhs, _, ok := varDefinedBy(fn, o); ok && rhs != nil {
						arg = ast.Unparen(rhs)
					}
				}
				s, ok := arg.(*ast.SelectorExpr)
				return ok && s.Sel.Name == "Nodes" && objOf(fn, s.X) == param
			})
		}
	}
	for _, fn := range []*FuncNode{ack, ack2} {
		c := p.CFG(fn)
		param := paramObj(fn, 1)
		q, vis := c.ReachAvoiding([]Point{c.Entry()}, nil, isMergeOf(fn, param))
		ok := true
		var path []string
		for _, ex := range c.Exits() {
			if vis[ex.P] && !(ex.P.I >= 0 && ex.P.I < len(ex.P.B.Nodes) && isMergeOf(fn, param)(ex.P.B.Nodes[ex.P.I])) {
				ok = false
				path = q.PathTo(ex.P)
			}
		}
		r.ObPath("C12.R2.exchange", fn.Name+" merges the records it received on every path", p.Position(fn.Pos()), ok, "records dropped here leave the two views different after a completed exchange", path)
	}
	// process: the sync variant returns g.sync(msg)
	okSync := false
	inspectNoLit(process.Body, func(x ast.Node) bool {
		if ret, ok := x.(*ast.ReturnStmt); ok && len(ret.Results) == 2 {
			if call, ok := ast.Unparen(ret.Results[0]).(*ast.CallExpr); ok && IsFunc(Callee(process, call), syncF) {
				okSync = true
			}
		}
		return true
	})
	okAck2 := len(CallsIn(process, calleeIs(ack2))) == 1
	r.Ob("C12.R2.exchange", "the gossip server answers a sync with sync's result and applies an ack2", p.Position(process.Pos()), okSync && okAck2, fmt.Sprintf("returns sync(msg): %v; calls ack2: %v", okSync, okAck2))
	// GossipOnceWith: ack(ctx, <response of Send>)
	c := p.CFG(once)
	calls := CallsIn(once, calleeIs(ack))
	okOnce := false
	var path []string
	why := "ack is not called"
	if len(calls) == 1 && len(calls[0].Args) == 2 {
		resp := objOf(once, calls[0].Args[1])
		var send *ast.CallExpr
		inspectNoLit(once.Body, func(x ast.Node) bool {
			if as, ok := x.(*ast.AssignStmt); ok && len(as.Rhs) == 1 && len(as.Lhs) == 2 && objOf(once, as.Lhs[0]) == resp {
				send, _ = ast.Unparen(as.Rhs[0]).(*ast.CallExpr)
			}
			return true
		})
		if send != nil {
			cp, _ := c.Locate(calls[0])
			path, why = c.succeededBefore(send, cp)
			okOnce = path == nil
		} else {
			why = "the argument of ack is not the peer's response"
		}
	}
	r.ObPath("C12.R2.exchange", "the initiator processes the peer's ack after a successful send", p.Position(once.Pos()), okOnce, why, path)
}

// decideIndexOrder evaluates a Less(i, j)-style function over all orderings of the named
// slices' elements at i and j and compares with the lexicographic order on them.
func decideIndexOrder(fn *FuncNode, slices []string) (bool, string) {
	e := &ordEval{fn: fn, recv: paramObj(fn, 0), par: paramObj(fn, 1), index: true}
	var diffs []string
	var rec func(k int, c ordCase)
	rec = func(k int, c ordCase) {
		if k == len(slices) {
			got, ret := e.stmts(fn.Body.List, c)
			if e.bad != "" || !ret {
				return
			}
			want := false
			for _, s := range slices {
				if c[s] < 0 {
					want = true
					break
				}
				if c[s] > 0 {
					break
				}
			}
			if got != want {
				var d []string
				for _, s := range slices {
					d = append(d, s+sgn(c[s]))
				}
				diffs = append(diffs, fmt.Sprintf("(%s): returns %v, want %v", strings.Join(d, " "), got, want))
			}
			return
		}
		for _, v := range []int{-1, 0, 1} {
			n := ordCase{}
			for kk, vv := range c {
				n[kk] = vv
			}
			n[slices[k]] = v
			rec(k+1, n)
		}
	}
	rec(0, ordCase{})
	if e.bad != "" {
		return false, e.bad
	}
	if len(diffs) > 0 {
		if len(diffs) > 4 {
			diffs = append(diffs[:4], fmt.Sprintf("... %d more", len(diffs)-4))
		}
		return false, strings.Join(diffs, "; ")
	}
	return true, fmt.Sprintf("equals the strict lexicographic order on (%s) for all %d orderings", strings.Join(slices, ", "), pow3(len(slices)))
}

func pow3(n int) int {
	r := 1
	for i := 0; i < n; i++ {
		r *= 3
	}
	return r
}

// checkRestartPersisted decides C12.R4: "state from a restarted node's new generation
// supersedes everything from its previous run" needs the bumped generation to reach
// storage; heartbeat-only changes do not notify the store's observers, so the only write
// is the synchronous flush that Open performs after the restart.
func checkRestartPersisted(r *Run, p *Prog) {
	const clusterPkg = "aspen/internal/cluster"
	open := p.Func(clusterPkg, "", "Open")
	flush := p.Func(clusterPkg, "Cluster", "goFlushStore")
	if open == nil || flush == nil {
		r.Undecide("C12.R4: cluster.Open / Cluster.goFlushStore not found")
		return
	}
	c := p.CFG(open)
	// the restart: <v>.Heartbeat = <..>.Heartbeat.Restart() followed by SetNode(ctx, <v>)
	var restarted types.Object
	inspectNoLit(open.Body, func(x ast.Node) bool {
		as, ok := x.(*ast.AssignStmt)
		if !ok || len(as.Lhs) != 1 || len(as.Rhs) != 1 {
			return true
		}
		sel, ok := ast.Unparen(as.Lhs[0]).(*ast.SelectorExpr)
		if !ok || sel.Sel.Name != "Heartbeat" {
			return true
		}
		if call, ok := ast.Unparen(as.Rhs[0]).(*ast.CallExpr); ok {
			if f := CalleeFunc(open, call); f != nil && f.Name() == "Restart" && f.Pkg() != nil && strings.HasSuffix(f.Pkg().Path(), versionPkg) {
				restarted = objOf(open, sel.X)
			}
		}
		return true
	})
	isSetRestarted := func(n ast.Node) bool {
		return restarted != nil && nodeHasCall(open, n, func(o types.Object, call *ast.CallExpr) bool {
			if f, ok := o.(*types.Func); ok && f.Name() == "SetNode" && len(call.Args) == 2 {
				return objOf(open, call.Args[1]) == restarted
			}
			return false
		})
	}
	isFlush := func(n ast.Node) bool {
		return nodeHasCall(open, n, func(o types.Object, _ *ast.CallExpr) bool { return IsFunc(o, flush) })
	}
	setPts := c.NodesWhere(isSetRestarted)
	r.Ob("C12.R4.restart", "cluster.Open publishes the host with Heartbeat.Restart()", p.Position(open.Pos()), len(setPts) > 0, "no SetNode of a host whose Heartbeat was assigned from Heartbeat.Restart()")
	successExit := func(ex Exit) bool {
		if ex.Return == nil || len(ex.Return.Results) == 0 {
			return ex.Return == nil
		}
		return mayReturnNilError(open, ex.Return)
	}
	// (a) persisted state found => restarted on every success path
	found := c.EdgesEstablishing(func(atom ast.Expr, val bool) bool {
		call, ok := ast.Unparen(atom).(*ast.CallExpr)
		if !ok {
			return false
		}
		f := CalleeFunc(open, call)
		return f != nil && f.Name() == "IsZero" && !val
	})
	var starts []Point
	for e := range found {
		starts = append(starts, Point{e.B.Succs[e.Succ], -1})
	}
	if len(starts) == 0 {
		r.Undecide("C12.R4: the 'persisted state found' edge (state.IsZero() false) was not found in cluster.Open")
	} else {
		q, reach := c.ReachAvoiding(starts, nil, isSetRestarted)
		bad := ""
		var path []string
		for _, ex := range c.Exits() {
			if successExit(ex) && reach[ex.P] {
				bad = posOf(p, ex.Return)
				path = q.PathTo(ex.P)
			}
		}
		r.ObPath("C12.R4.restart", "cluster.Open restarts the heartbeat whenever persisted state was loaded", p.Position(open.Pos()), bad == "", "a success return at "+bad+" is reachable from the 'state found' edge without the restart", path)
	}
	// (b) restart => flushed afterwards on every success path
	if len(setPts) > 0 {
		q, reach := c.ReachAvoiding(setPts, nil, isFlush)
		bad := ""
		var path []string
		for _, ex := range c.Exits() {
			if successExit(ex) && reach[ex.P] {
				bad = posOf(p, ex.Return)
				path = q.PathTo(ex.P)
			}
		}
		r.ObPath("C12.R4.restart", "cluster.Open flushes the state after the heartbeat restart", p.Position(open.Pos()), bad == "", "a success return at "+bad+" is reachable from the restart without a later goFlushStore: the new generation is not persisted (heartbeat-only changes do not notify the flush observer)", path)
	}
	// (c) goFlushStore flushes synchronously when storage is configured
	fc := p.CFG(flush)
	isSync := func(n ast.Node) bool {
		return nodeHasCall(flush, n, func(o types.Object, call *ast.CallExpr) bool {
			f, ok := o.(*types.Func)
			if !ok || f.Name() != "FlushSync" || len(call.Args) != 2 {
				return false
			}
			inner, ok := ast.Unparen(call.Args[1]).(*ast.CallExpr)
			if !ok {
				return false
			}
			g := CalleeFunc(flush, inner)
			return g != nil && g.Name() == "CopyState"
		})
	}
	noStorage := fc.EdgesEstablishing(func(atom ast.Expr, val bool) bool {
		be, ok := ast.Unparen(atom).(*ast.BinaryExpr)
		if !ok || !strings.HasSuffix(types.ExprString(be.X), "Storage") || !isNilIdent(flush, be.Y) {
			return false
		}
		return (be.Op == token.NEQ && !val) || (be.Op == token.EQL && val)
	})
	q, reach := fc.ReachAvoiding([]Point{fc.Entry()}, noStorage, isSync)
	bad := ""
	var path []string
	for _, ex := range fc.Exits() {
		if reach[ex.P] {
			bad = p.Position(flush.Pos())
			path = q.PathTo(ex.P)
		}
	}
	r.ObPath("C12.R4.restart", "Cluster.goFlushStore flushes CopyState() synchronously when storage is configured", p.Position(flush.Pos()), bad == "" && len(noStorage) > 0, "goFlushStore can return with storage configured without a synchronous FlushSync(ctx, c.CopyState())", path)
}

// checkSyncComplete decides C12.R2.complete on gossip.sync.
func checkSyncComplete(r *Run, p *Prog) {
	fn := p.Func(gossipPkg, "Gossip", "sync")
	if fn == nil {
		r.Undecide("C12.R2.complete: gossip.Gossip.sync not found")
		return
	}
	msg := paramObj(fn, 0)
	c := p.CFG(fn)
	var digLoop, volLoop *ast.RangeStmt
	inspectNoLit(fn.Body, func(x ast.Node) bool {
		rng, ok := x.(*ast.RangeStmt)
		if !ok {
			return true
		}
		if f, ok := isFieldOfObj(fn, rng.X, msg); ok && f == "Digests" && digLoop == nil {
			digLoop = rng
		} else if sel, ok := ast.Unparen(rng.X).(*ast.SelectorExpr); ok && sel.Sel.Name == "Nodes" && volLoop == nil {
			volLoop = rng
		}
		return true
	})
	if digLoop == nil || volLoop == nil {
		r.Undecide("C12.R2.complete: the digest loop / volunteer loop of sync were not found")
		return
	}
	// (a) the volunteer pass runs on every path to a return
	isVol := func(n ast.Node) bool {
		e, ok := n.(ast.Expr)
		return ok && e == volLoop.X
	}
	q, vis := c.ReachAvoiding([]Point{c.Entry()}, nil, isVol)
	var path []string
	for _, ex := range c.Exits() {
		if vis[ex.P] {
			path = q.PathTo(ex.P)
		}
	}
	r.ObPath("C12.R2.complete", "sync volunteers the members the initiator does not know on every path", posOf(p, volLoop), path == nil,
		"a return is reachable without the pass over the local members: with incomparable views the initiator never learns the members only the peer knows", path)
	// (b) no iteration of the digest loop ends before the local record was looked up and compared
	// the presence flag of the local lookup "<rec>, <flag> := <snapshot>.Nodes[dig.Key]"
	var present types.Object
	inspectNoLit(digLoop.Body, func(y ast.Node) bool {
		if as, ok := y.(*ast.AssignStmt); ok && len(as.Lhs) == 2 && len(as.Rhs) == 1 {
			if _, isIdx := ast.Unparen(as.Rhs[0]).(*ast.IndexExpr); isIdx && present == nil {
				present = objOf(fn, as.Lhs[1])
			}
		}
		return true
	})
	isCompare := func(n ast.Node) bool {
		if as, isAssign := n.(*ast.AssignStmt); isAssign {
			// the lookup itself is not a comparison; an assignment whose right-hand side
			// compares (a named boolean) is
			if len(as.Rhs) == 1 {
				if _, isIdx := ast.Unparen(as.Rhs[0]).(*ast.IndexExpr); isIdx {
					return false
				}
			}
			blk := &ast.BlockStmt{}
			for _, e := range as.Rhs {
				blk.List = append(blk.List, &ast.ExprStmt{X: e})
			}
			n = blk
		}
		found := false
		inspectNoLit(n, func(y ast.Node) bool {
			if call, ok := y.(*ast.CallExpr); ok {
				if f := CalleeFunc(fn, call); f != nil && (f.Name() == "OlderThan" || f.Name() == "YoungerThan") {
					found = true
				}
			}
			if id, ok := y.(*ast.Ident); ok && present != nil && objOf(fn, id) == present {
				found = true // the "do we know this member at all" test
			}
			return true
		})
		return found
	}
	var body Point
	for _, b := range c.G.Blocks {
		if b.Stmt == ast.Stmt(digLoop) && b.Kind.String() == "RangeBody" {
			body = Point{b, -1}
		}
	}
	if body.B == nil {
		r.Undecide("C12.R2.complete: digest loop body block not found")
		return
	}
	pth := c.leavesWithout(body, digLoop, nil, isCompare)
	r.ObPath("C12.R2.complete", "every received digest is compared with the local record", posOf(p, digLoop), pth == nil,
		"an iteration of the digest loop ends before the comparison: that member's fresher local record is never handed back and a fresher remote one is never requested", pth)
}
