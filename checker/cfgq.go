package main

import (
	"fmt"
	"go/ast"
	"go/token"
	"go/types"

	"golang.org/x/tools/go/cfg"
	"golang.org/x/tools/go/types/typeutil"
)

// FuncCFG is the control-flow graph of one function body (literals excluded: every
// literal is its own FuncNode with its own graph).
type FuncCFG struct {
	P  *Prog
	Fn *FuncNode
	G  *cfg.CFG
}

var cfgCache = map[*FuncNode]*FuncCFG{}

// Callee resolves the statically known callee of a call (function, method, interface
// method or builtin) through the type checker.
func Callee(fn *FuncNode, call *ast.CallExpr) types.Object {
	return typeutil.Callee(fn.Pkg.TypesInfo, call)
}

// CalleeFunc is Callee restricted to *types.Func, normalised to the generic origin.
func CalleeFunc(fn *FuncNode, call *ast.CallExpr) *types.Func {
	if f, ok := Callee(fn, call).(*types.Func); ok && f != nil {
		return f.Origin()
	}
	return nil
}

// FuncID renders a function object as "pkg/path.(*T).m", "pkg/path.T.m" or "pkg/path.f"
// with the github.com/synnaxlabs/ prefix trimmed.
func FuncID(f *types.Func) string {
	if f == nil {
		return "<nil>"
	}
	pkg := ""
	if f.Pkg() != nil {
		pkg = trimMod(f.Pkg().Path())
	}
	sig, _ := f.Type().(*types.Signature)
	if sig != nil && sig.Recv() != nil {
		t := sig.Recv().Type()
		ptr := false
		if p, ok := t.(*types.Pointer); ok {
			t, ptr = p.Elem(), true
		}
		name := "?"
		switch n := t.(type) {
		case *types.Named:
			name = n.Obj().Name()
		case *types.Alias:
			name = n.Obj().Name()
		}
		if ptr {
			return fmt.Sprintf("%s.(*%s).%s", pkg, name, f.Name())
		}
		return fmt.Sprintf("%s.%s.%s", pkg, name, f.Name())
	}
	return pkg + "." + f.Name()
}

func trimMod(s string) string {
	if len(s) >= len(modPrefix) && s[:len(modPrefix)] == modPrefix {
		return s[len(modPrefix):]
	}
	return s
}

func (p *Prog) CFG(fn *FuncNode) *FuncCFG {
	if c, ok := cfgCache[fn]; ok {
		return c
	}
	mayReturn := func(call *ast.CallExpr) bool {
		switch o := Callee(fn, call).(type) {
		case *types.Builtin:
			return o.Name() != "panic"
		case *types.Func:
			if o.Pkg() != nil {
				id := o.Pkg().Path() + "." + o.Name()
				switch id {
				case "os.Exit", "log.Fatal", "log.Fatalf", "log.Fatalln", "log.Panic", "log.Panicf", "runtime.Goexit":
					return false
				}
			}
		}
		return true
	}
	c := &FuncCFG{P: p, Fn: fn, G: cfg.New(fn.Body, mayReturn)}
	cfgCache[fn] = c
	return c
}

// Point is a position in the graph: node I of block B (I == -1: before the first node).
type Point struct {
	B *cfg.Block
	I int
}

// inspectNoLit walks n but does not descend into function literals, unless the literal
// is called on the spot ("func(){...}()"), in which case its body executes as part of
// the node and is walked too when inlineIIFE is set.
func inspectNoLit(n ast.Node, f func(ast.Node) bool) {
	ast.Inspect(n, func(x ast.Node) bool {
		if x == nil {
			return true
		}
		if _, ok := x.(*ast.FuncLit); ok {
			return false
		}
		return f(x)
	})
}

// contains reports whether target occurs inside node outside nested function literals.
func contains(node, target ast.Node) bool {
	if node == target {
		return true
	}
	if target.Pos() < node.Pos() || target.End() > node.End() {
		return false
	}
	found := false
	inspectNoLit(node, func(x ast.Node) bool {
		if x == target {
			found = true
		}
		return !found
	})
	return found
}

// Locate finds the graph node that contains target.
func (c *FuncCFG) Locate(target ast.Node) (Point, bool) {
	for _, b := range c.G.Blocks {
		for i, n := range b.Nodes {
			if contains(n, target) {
				return Point{b, i}, true
			}
		}
	}
	return Point{}, false
}

// Query is a reachability question over the graph. Traversal starts after each start
// point, does not continue past a node for which StopNode is true (the node itself is
// visited), and does not follow an edge for which StopEdge is true.
type Query struct {
	C        *FuncCFG
	StopNode func(n ast.Node) bool
	StopEdge func(from *cfg.Block, succ int) bool
	parent   map[Point]Point
	visited  map[Point]bool
}

func (c *FuncCFG) Entry() Point { return Point{c.G.Blocks[0], -1} }

// Run explores from the given points (the start nodes themselves count as already
// executed) and returns the visited node points.
func (q *Query) Run(starts ...Point) map[Point]bool {
	q.parent = map[Point]Point{}
	q.visited = map[Point]bool{}
	var work []Point
	visit := func(from, to Point) {
		if q.visited[to] {
			return
		}
		q.visited[to] = true
		q.parent[to] = from
		work = append(work, to)
	}
	advance := func(p Point) {
		if p.I+1 < len(p.B.Nodes) {
			visit(p, Point{p.B, p.I + 1})
			return
		}
		for si, s := range p.B.Succs {
			if q.StopEdge != nil && q.StopEdge(p.B, si) {
				continue
			}
			if len(s.Nodes) == 0 {
				visit(p, Point{s, -1})
			} else {
				visit(p, Point{s, 0})
			}
		}
	}
	for _, s := range starts {
		advance(s)
	}
	for len(work) > 0 {
		p := work[len(work)-1]
		work = work[:len(work)-1]
		if p.I >= 0 && q.StopNode != nil && q.StopNode(p.B.Nodes[p.I]) {
			continue
		}
		advance(p)
	}
	return q.visited
}

// PathTo renders the path by which the last Run reached p.
func (q *Query) PathTo(p Point) []string {
	var pts []Point
	for cur, ok := p, true; ok; cur, ok = q.parent[cur] {
		pts = append(pts, cur)
		if len(pts) > 400 {
			break
		}
	}
	var out []string
	lastLine := ""
	for i := len(pts) - 1; i >= 0; i-- {
		pt := pts[i]
		if pt.I < 0 || pt.I >= len(pt.B.Nodes) {
			continue
		}
		s := q.C.P.Position(pt.B.Nodes[pt.I].Pos())
		if s != lastLine {
			out = append(out, s)
			lastLine = s
		}
	}
	if len(out) > 24 {
		out = append(out[:12], append([]string{"..."}, out[len(out)-11:]...)...)
	}
	return out
}

// Cond returns the condition expression of a two-way block, or nil.
func Cond(b *cfg.Block) ast.Expr {
	if len(b.Succs) != 2 || len(b.Nodes) == 0 {
		return nil
	}
	e, _ := b.Nodes[len(b.Nodes)-1].(ast.Expr)
	return e
}

// ExitPoints returns the points of all return statements plus the ends of blocks that
// fall off the end of the function (no successors, not ending in a no-return call).
type Exit struct {
	P      Point
	Return *ast.ReturnStmt // nil for fall-off-end
}

func (c *FuncCFG) Exits() []Exit {
	var out []Exit
	for _, b := range c.G.Blocks {
		if !b.Live {
			continue
		}
		for i, n := range b.Nodes {
			if r, ok := n.(*ast.ReturnStmt); ok {
				out = append(out, Exit{Point{b, i}, r})
			}
		}
		if len(b.Succs) == 0 {
			if len(b.Nodes) > 0 {
				if _, ok := b.Nodes[len(b.Nodes)-1].(*ast.ReturnStmt); ok {
					continue
				}
				// a no-return call (panic) ends the block: not a normal exit
				if es, ok := b.Nodes[len(b.Nodes)-1].(*ast.ExprStmt); ok {
					if call, ok := es.X.(*ast.CallExpr); ok {
						if bi, ok := Callee(c.Fn, call).(*types.Builtin); ok && bi.Name() == "panic" {
							continue
						}
					}
				}
			}
			out = append(out, Exit{Point{b, len(b.Nodes) - 1}, nil})
		}
	}
	return out
}

// CallsIn returns the call expressions in fn's own body (nested literals excluded)
// whose callee satisfies pred.
func CallsIn(fn *FuncNode, pred func(callee types.Object, call *ast.CallExpr) bool) []*ast.CallExpr {
	var out []*ast.CallExpr
	inspectNoLit(fn.Body, func(n ast.Node) bool {
		if call, ok := n.(*ast.CallExpr); ok {
			if pred(Callee(fn, call), call) {
				out = append(out, call)
			}
		}
		return true
	})
	return out
}

// CallsDeep is CallsIn including all nested literals (each reported with its FuncNode).
type CallSite struct {
	Fn   *FuncNode
	Call *ast.CallExpr
}

func (p *Prog) CallsDeep(fn *FuncNode, pred func(callee types.Object, call *ast.CallExpr) bool) []CallSite {
	var out []CallSite
	for _, c := range CallsIn(fn, pred) {
		out = append(out, CallSite{fn, c})
	}
	for _, l := range fn.Lits {
		out = append(out, p.CallsDeep(l, pred)...)
	}
	return out
}

// AllCalls enumerates every call site in the repository packages of the program whose
// callee satisfies pred.
func (p *Prog) AllCalls(pred func(callee types.Object, call *ast.CallExpr) bool) []CallSite {
	var out []CallSite
	for _, fn := range p.Funcs {
		for _, c := range CallsIn(fn, pred) {
			out = append(out, CallSite{fn, c})
		}
	}
	return out
}

// IsFunc reports whether obj is the function fn (compared through generic origins).
func IsFunc(obj types.Object, fn *FuncNode) bool {
	f, ok := obj.(*types.Func)
	return ok && fn != nil && fn.Obj != nil && f.Origin() == fn.Obj
}

// nodeHasCall reports whether node n (outside literals) contains a call satisfying pred.
func nodeHasCall(fn *FuncNode, n ast.Node, pred func(callee types.Object, call *ast.CallExpr) bool) bool {
	found := false
	inspectNoLit(n, func(x ast.Node) bool {
		if call, ok := x.(*ast.CallExpr); ok && pred(Callee(fn, call), call) {
			found = true
		}
		return !found
	})
	return found
}

// isNilIdent reports whether e is the predeclared nil.
func isNilIdent(fn *FuncNode, e ast.Expr) bool {
	id, ok := ast.Unparen(e).(*ast.Ident)
	if !ok {
		return false
	}
	_, isNil := fn.Pkg.TypesInfo.Uses[id].(*types.Nil)
	return isNil
}

// objOf returns the variable object an identifier expression denotes.
func objOf(fn *FuncNode, e ast.Expr) types.Object {
	id, ok := ast.Unparen(e).(*ast.Ident)
	if !ok {
		return nil
	}
	if o := fn.Pkg.TypesInfo.Uses[id]; o != nil {
		return o
	}
	return fn.Pkg.TypesInfo.Defs[id]
}

// NilTest classifies a condition "v != nil" / "v == nil" on variable v: returns v and
// the successor index (0 true, 1 false) on which v is nil.
func NilTest(fn *FuncNode, cond ast.Expr) (types.Object, int) {
	be, ok := ast.Unparen(cond).(*ast.BinaryExpr)
	if !ok || (be.Op != token.NEQ && be.Op != token.EQL) {
		return nil, 0
	}
	var v ast.Expr
	switch {
	case isNilIdent(fn, be.Y):
		v = be.X
	case isNilIdent(fn, be.X):
		v = be.Y
	default:
		return nil, 0
	}
	o := objOf(fn, v)
	if o == nil {
		return nil, 0
	}
	if be.Op == token.NEQ {
		return o, 1
	}
	return o, 0
}

// BoolTest classifies a condition that is a (possibly negated) boolean variable or
// call: returns the core expression and the successor index on which it is true.
func BoolTest(cond ast.Expr) (ast.Expr, int) {
	e := ast.Unparen(cond)
	neg := 0
	for {
		u, ok := e.(*ast.UnaryExpr)
		if !ok || u.Op != token.NOT {
			break
		}
		neg ^= 1
		e = ast.Unparen(u.X)
	}
	return e, neg
}

// assignedFrom reports whether variable obj is assigned in fn (outside literals) only by
// statements whose right-hand side is a single call satisfying pred; it returns the number
// of such assignments (0 means obj is never assigned that way).
func assignedOnlyFromCall(fn *FuncNode, obj types.Object, pred func(callee types.Object, call *ast.CallExpr) bool) (int, bool) {
	n, only := 0, true
	inspectNoLit(fn.Body, func(x ast.Node) bool {
		as, ok := x.(*ast.AssignStmt)
		if !ok {
			return true
		}
		for _, l := range as.Lhs {
			if objOf(fn, l) != obj {
				continue
			}
			if len(as.Rhs) == 1 {
				if call, ok := ast.Unparen(as.Rhs[0]).(*ast.CallExpr); ok && pred(Callee(fn, call), call) {
					n++
					continue
				}
			}
			only = false
		}
		return true
	})
	return n, only
}
