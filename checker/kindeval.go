package main

import (
	"fmt"
	"go/ast"
	"go/constant"
	"go/token"
	"go/types"
	"strings"
)

// ---------------------------------------------------------------------------------
// E9: finite-domain evaluation. The arc compiler selects opcodes by predicates over an
// enum (types.Kind) and string constants. For a function whose decisions depend only on
// those, the result for every element of the finite input domain is computed by
// interpreting the syntax tree over abstract values (enum constants, booleans, string
// and numeric literals). Anything outside that fragment makes the evaluation fail, which
// the caller reports as undecided. No target code is built or run.
// ---------------------------------------------------------------------------------

type kvKind int

const (
	kvUnknown kvKind = iota
	kvBool
	kvConst // named constant (types.Const) or literal
	kvType  // an arc types.Type value of which only Kind is known
	kvNil
	kvErr // a non-nil error value
)

type kval struct {
	K     kvKind
	B     bool
	C     *types.Const   // named constant
	Lit   constant.Value // literal / constant value
	Kind  *types.Const   // for kvType: the Kind constant
	Descr string
}

func (v kval) String() string {
	switch v.K {
	case kvBool:
		return fmt.Sprint(v.B)
	case kvConst:
		if v.C != nil {
			return v.C.Name()
		}
		return v.Lit.String()
	case kvType:
		return "Type{" + v.Kind.Name() + "}"
	case kvNil:
		return "nil"
	case kvErr:
		return "error"
	}
	return "?"
}

func constEqual(a, b kval) (bool, bool) {
	var av, bv constant.Value
	if a.K == kvConst && b.K == kvConst {
		av, bv = a.Lit, b.Lit
		if a.C != nil {
			av = a.C.Val()
		}
		if b.C != nil {
			bv = b.C.Val()
		}
		if av == nil || bv == nil || av.Kind() != bv.Kind() {
			return false, false
		}
		return constant.Compare(av, token.EQL, bv), true
	}
	if a.K == kvNil && b.K == kvNil {
		return true, true
	}
	if (a.K == kvNil && b.K == kvErr) || (a.K == kvErr && b.K == kvNil) {
		return false, true
	}
	return false, false
}

type kenv struct {
	p       *Prog
	fn      *FuncNode
	vars    map[types.Object]kval
	effects []kval // values passed to "emit" calls (WriteOpcode & co.)
	fail    string
	depth   int
	// kindString maps a Kind constant to the literal prefix of Type.String() for it
	kindString func(kind *types.Const) (string, bool)
}

type kret struct {
	vals     []kval
	returned bool
}

func (e *kenv) failf(format string, a ...any) kval {
	if e.fail == "" {
		e.fail = fmt.Sprintf(format, a...)
	}
	return kval{}
}

func (e *kenv) expr(x ast.Expr) kval {
	if e.fail != "" {
		return kval{}
	}
	info := e.fn.Pkg.TypesInfo
	x = ast.Unparen(x)
	// compile-time constants
	if tv, ok := info.Types[x]; ok && tv.Value != nil {
		v := kval{K: kvConst, Lit: tv.Value}
		switch id := x.(type) {
		case *ast.Ident:
			if c, ok := info.Uses[id].(*types.Const); ok {
				v.C = c
			}
		case *ast.SelectorExpr:
			if c, ok := info.Uses[id.Sel].(*types.Const); ok {
				v.C = c
			}
		}
		if tv.Value.Kind() == constant.Bool {
			return kval{K: kvBool, B: constant.BoolVal(tv.Value)}
		}
		return v
	}
	switch v := x.(type) {
	case *ast.Ident:
		if v.Name == "nil" {
			return kval{K: kvNil}
		}
		if o := info.Uses[v]; o != nil {
			if val, ok := e.vars[o]; ok {
				return val
			}
		}
		return kval{K: kvUnknown, Descr: v.Name}
	case *ast.SelectorExpr:
		// t.Kind
		base := e.exprQuiet(v.X)
		if base.K == kvType && v.Sel.Name == "Kind" {
			return kval{K: kvConst, C: base.Kind, Lit: base.Kind.Val()}
		}
		return kval{K: kvUnknown, Descr: types.ExprString(v)}
	case *ast.UnaryExpr:
		if v.Op == token.NOT {
			b := e.expr(v.X)
			if b.K != kvBool {
				return e.failf("! on non-boolean %s", types.ExprString(v.X))
			}
			return kval{K: kvBool, B: !b.B}
		}
	case *ast.BinaryExpr:
		switch v.Op {
		case token.LAND:
			a := e.expr(v.X)
			if a.K != kvBool {
				return e.failf("&& on non-boolean")
			}
			if !a.B {
				return kval{K: kvBool, B: false}
			}
			return e.expr(v.Y)
		case token.LOR:
			a := e.expr(v.X)
			if a.K != kvBool {
				return e.failf("|| on non-boolean")
			}
			if a.B {
				return kval{K: kvBool, B: true}
			}
			return e.expr(v.Y)
		case token.EQL, token.NEQ:
			a, b := e.expr(v.X), e.expr(v.Y)
			eq, ok := constEqual(a, b)
			if !ok {
				return e.failf("cannot compare %s and %s", a, b)
			}
			return kval{K: kvBool, B: eq == (v.Op == token.EQL)}
		}
	case *ast.CallExpr:
		return e.call(v)
	case *ast.CompositeLit:
		return kval{K: kvUnknown, Descr: "composite"}
	}
	return e.failf("unsupported expression %s", types.ExprString(x))
}

func (e *kenv) exprQuiet(x ast.Expr) kval {
	saved := e.fail
	v := e.expr(x)
	if e.fail != saved {
		e.fail = saved
		return kval{}
	}
	return v
}

func (e *kenv) call(c *ast.CallExpr) kval {
	info := e.fn.Pkg.TypesInfo
	// conversions
	if tv, ok := info.Types[c.Fun]; ok && tv.IsType() && len(c.Args) == 1 {
		return e.expr(c.Args[0])
	}
	f, _ := Callee(e.fn, c).(*types.Func)
	if f == nil {
		return e.failf("unresolved call %s", types.ExprString(c.Fun))
	}
	f = f.Origin()
	full := ""
	if f.Pkg() != nil {
		full = f.Pkg().Path() + "." + f.Name()
	}
	switch {
	case full == "strings.HasPrefix" && len(c.Args) == 2:
		// HasPrefix(<type>.String(), "lit")
		if inner, ok := ast.Unparen(c.Args[0]).(*ast.CallExpr); ok {
			if s, ok := ast.Unparen(inner.Fun).(*ast.SelectorExpr); ok && s.Sel.Name == "String" {
				recv := e.expr(s.X)
				lit := e.expr(c.Args[1])
				if recv.K == kvType && lit.K == kvConst && e.kindString != nil {
					if str, ok := e.kindString(recv.Kind); ok {
						return kval{K: kvBool, B: strings.HasPrefix(str, constant.StringVal(lit.Lit))}
					}
				}
			}
		}
		return e.failf("unsupported HasPrefix form")
	case strings.HasSuffix(full, "samber/lo.Ternary") && len(c.Args) == 3:
		cond := e.expr(c.Args[0])
		if cond.K != kvBool {
			return e.failf("Ternary on non-boolean")
		}
		if cond.B {
			return e.expr(c.Args[1])
		}
		return e.expr(c.Args[2])
	case strings.Contains(full, "errors.New") || strings.Contains(full, "errors.Newf") || strings.Contains(full, "errors.Wrap"):
		return kval{K: kvErr}
	}
	// emit calls on the wasm Writer
	if recvNamed(f) == "Writer" && strings.HasSuffix(f.Pkg().Path(), "arc/compiler/wasm") {
		switch {
		case f.Name() == "WriteOpcode" || f.Name() == "WriteBinaryOp" || f.Name() == "WriteUnaryOp":
			if len(c.Args) == 1 {
				e.effects = append(e.effects, e.expr(c.Args[0]))
				return kval{K: kvNil}
			}
		case strings.HasPrefix(f.Name(), "WriteLEB128") || f.Name() == "Write" || f.Name() == "WriteByte" || f.Name() == "WriteBytes" || f.Name() == "writeBlockType":
			imm := kval{K: kvUnknown, Descr: "imm"}
			if len(c.Args) == 1 {
				if a := e.exprQuiet(c.Args[0]); a.K == kvConst {
					imm = a
					imm.C = nil
					imm.Descr = "imm"
				}
			}
			imm.Descr = "imm"
			e.effects = append(e.effects, imm)
			return kval{K: kvNil}
		}
	}
	// repository function or method on a Type value: interpret its body
	callee, ok := e.p.ByObj[f]
	if !ok || callee.Decl == nil || e.depth > 4 {
		return e.failf("call to %s is outside the evaluated fragment", f.Name())
	}
	sub := &kenv{p: e.p, fn: callee, vars: map[types.Object]kval{}, depth: e.depth + 1, kindString: e.kindString}
	if s, ok := ast.Unparen(c.Fun).(*ast.SelectorExpr); ok && callee.Decl.Recv != nil && len(callee.Decl.Recv.List) > 0 && len(callee.Decl.Recv.List[0].Names) > 0 {
		recv := e.expr(s.X)
		if e.fail != "" {
			return kval{}
		}
		sub.vars[callee.Pkg.TypesInfo.Defs[callee.Decl.Recv.List[0].Names[0]]] = recv
	}
	for i, a := range c.Args {
		if po := paramObj(callee, i); po != nil {
			sub.vars[po] = e.expr(a)
		}
	}
	if e.fail != "" {
		return kval{}
	}
	res := sub.block(callee.Body.List)
	if sub.fail != "" {
		return e.failf("%s: %s", callee.Name, sub.fail)
	}
	e.effects = append(e.effects, sub.effects...)
	if !res.returned || len(res.vals) == 0 {
		return kval{K: kvNil}
	}
	return res.vals[0]
}

func (e *kenv) block(list []ast.Stmt) kret {
	for _, s := range list {
		if e.fail != "" {
			return kret{}
		}
		if r := e.stmt(s); r.returned {
			return r
		}
	}
	return kret{}
}

func (e *kenv) assign(lhs ast.Expr, v kval) {
	id, ok := ast.Unparen(lhs).(*ast.Ident)
	if !ok {
		e.failf("unsupported assignment target %s", types.ExprString(lhs))
		return
	}
	if id.Name == "_" {
		return
	}
	o := e.fn.Pkg.TypesInfo.Defs[id]
	if o == nil {
		o = e.fn.Pkg.TypesInfo.Uses[id]
	}
	if o != nil {
		e.vars[o] = v
	}
}

func (e *kenv) stmt(s ast.Stmt) kret {
	switch v := s.(type) {
	case *ast.ReturnStmt:
		var vals []kval
		for _, r := range v.Results {
			vals = append(vals, e.expr(r))
		}
		return kret{vals: vals, returned: true}
	case *ast.BlockStmt:
		return e.block(v.List)
	case *ast.ExprStmt:
		e.expr(v.X)
	case *ast.DeclStmt:
		if gd, ok := v.Decl.(*ast.GenDecl); ok {
			for _, sp := range gd.Specs {
				vs, ok := sp.(*ast.ValueSpec)
				if !ok {
					continue
				}
				for i, nm := range vs.Names {
					if i < len(vs.Values) {
						e.assign(nm, e.expr(vs.Values[i]))
					} else {
						// zero value: treated as an unset opcode/flag
						e.vars[e.fn.Pkg.TypesInfo.Defs[nm]] = kval{K: kvConst, Lit: constant.MakeInt64(0), Descr: "zero"}
					}
				}
			}
		}
	case *ast.AssignStmt:
		if len(v.Lhs) == len(v.Rhs) {
			vals := make([]kval, len(v.Rhs))
			for i, r := range v.Rhs {
				vals[i] = e.expr(r)
			}
			for i, l := range v.Lhs {
				e.assign(l, vals[i])
			}
		} else {
			e.failf("multi-value assignment")
		}
	case *ast.IfStmt:
		if v.Init != nil {
			if r := e.stmt(v.Init); r.returned {
				return r
			}
		}
		c := e.expr(v.Cond)
		if c.K != kvBool {
			e.failf("if on a non-boolean condition %s", types.ExprString(v.Cond))
			return kret{}
		}
		if c.B {
			return e.block(v.Body.List)
		}
		if v.Else != nil {
			return e.stmt(v.Else)
		}
	case *ast.SwitchStmt:
		if v.Init != nil {
			e.stmt(v.Init)
		}
		var tag kval
		if v.Tag != nil {
			tag = e.expr(v.Tag)
		} else {
			tag = kval{K: kvBool, B: true}
		}
		var def *ast.CaseClause
		for _, cc := range v.Body.List {
			clause := cc.(*ast.CaseClause)
			if clause.List == nil {
				def = clause
				continue
			}
			for _, ce := range clause.List {
				cv := e.expr(ce)
				if e.fail != "" {
					return kret{}
				}
				match := false
				if tag.K == kvBool && cv.K == kvBool {
					match = tag.B == cv.B
				} else if eq, ok := constEqual(tag, cv); ok {
					match = eq
				} else {
					e.failf("switch compares %s with %s", tag, cv)
					return kret{}
				}
				if match {
					return e.block(clause.Body)
				}
			}
		}
		if def != nil {
			return e.block(def.Body)
		}
	case *ast.EmptyStmt:
	default:
		e.failf("unsupported statement %T", s)
	}
	return kret{}
}

func recvNamed(f *types.Func) string {
	sig, _ := f.Type().(*types.Signature)
	if sig == nil || sig.Recv() == nil {
		return ""
	}
	t := sig.Recv().Type()
	if p, ok := t.(*types.Pointer); ok {
		t = p.Elem()
	}
	if n, ok := t.(*types.Named); ok {
		return n.Obj().Name()
	}
	return ""
}

// kindStringTable builds Kind -> literal produced by Type.String() for the scalar
// kinds, by reading the "case KindX: base = "lit"" / "return "lit"" clauses of its switch.
func kindStringTable(p *Prog, strFn *FuncNode) func(*types.Const) (string, bool) {
	table := map[string]string{}
	if strFn != nil {
		ast.Inspect(strFn.Body, func(n ast.Node) bool {
			sw, ok := n.(*ast.SwitchStmt)
			if !ok {
				return true
			}
			for _, cc := range sw.Body.List {
				clause := cc.(*ast.CaseClause)
				lit := ""
				for _, st := range clause.Body {
					switch s := st.(type) {
					case *ast.AssignStmt:
						if len(s.Rhs) == 1 {
							if v, ok := constString(strFn, s.Rhs[0]); ok {
								lit = v
							}
						}
					case *ast.ReturnStmt:
						if len(s.Results) == 1 {
							if v, ok := constString(strFn, s.Results[0]); ok && lit == "" {
								lit = v
							}
						}
					}
				}
				if lit == "" {
					continue
				}
				for _, ce := range clause.List {
					if id, ok := ast.Unparen(ce).(*ast.Ident); ok {
						if c, ok := strFn.Pkg.TypesInfo.Uses[id].(*types.Const); ok {
							table[c.Name()] = lit
						}
					}
				}
			}
			return false
		})
	}
	return func(k *types.Const) (string, bool) {
		s, ok := table[k.Name()]
		return s, ok
	}
}
