package main

import (
	"fmt"
	"go/ast"
	"go/token"
	"go/types"
	"sort"
	"strings"
)

func init() { checks["C14"] = checkC14 }

// ------------------------------------------------------------------ error registries

type encRule struct {
	Kind     string       // "is" (sentinel) or "as" (concrete type)
	Sentinel types.Object // for "is"
	AsType   types.Type   // for "as"
	Type     string       // payload type string
	Pos      ast.Node
}

type decRule struct {
	Type     string // exact type string, or prefix when Prefix is set
	Prefix   bool
	Sentinel types.Object // root sentinel of the returned error (nil when a concrete type is built)
	AsType   types.Type
	Pos      ast.Node
}

type registryPair struct {
	Pkg      string
	Enc, Dec *FuncNode
	EncRules []encRule
	DecRules []decRule
	Problems []string
	Pos      ast.Node
	Fn       *FuncNode
}

func sentinelOf(fn *FuncNode, e ast.Expr) types.Object {
	switch x := ast.Unparen(e).(type) {
	case *ast.Ident:
		if v, ok := fn.Pkg.TypesInfo.Uses[x].(*types.Var); ok && v.Parent() == v.Pkg().Scope() {
			return v
		}
	case *ast.SelectorExpr:
		if v, ok := fn.Pkg.TypesInfo.Uses[x.Sel].(*types.Var); ok && v.Pkg() != nil && v.Parent() == v.Pkg().Scope() {
			return v
		}
	case *ast.CallExpr:
		// errors.Wrap(S, ...), errors.Wrapf(S, ...), errors.WithStack(S)
		if f := CalleeFunc(fn, x); f != nil && strings.HasPrefix(f.Name(), "W") && len(x.Args) >= 1 {
			return sentinelOf(fn, x.Args[0])
		}
	}
	return nil
}

func payloadTypeOf(fn *FuncNode, e ast.Expr) (string, bool) {
	cl, ok := ast.Unparen(e).(*ast.CompositeLit)
	if !ok {
		return "", false
	}
	if !namedTypeIs(fn.Pkg.TypesInfo.TypeOf(cl), "x/errors", "Payload") {
		return "", false
	}
	t := litField(cl, "Type")
	if t == nil {
		return "", false
	}
	return constString(fn, t)
}

// extractEncode reads "if errors.Is/CheapIs(err, S) { return Payload{Type: T}, true }" and
// "if errors.As(err, &v) { return Payload{Type: T}, true }" rules, in source order.
func extractEncode(fn *FuncNode) ([]encRule, []string) {
	var rules []encRule
	var problems []string
	var walk func(list []ast.Stmt)
	walk = func(list []ast.Stmt) {
		for _, s := range list {
			ifs, ok := s.(*ast.IfStmt)
			if !ok {
				continue
			}
			call, ok := ast.Unparen(ifs.Cond).(*ast.CallExpr)
			if !ok {
				// a sentinel test combined with anything else encodes the sentinel only
				// sometimes; the decoder's table cannot agree with that
				mentionsTest := false
				ast.Inspect(ifs.Cond, func(n ast.Node) bool {
					if c, ok := n.(*ast.CallExpr); ok {
						if f := CalleeFunc(fn, c); f != nil && (f.Name() == "Is" || f.Name() == "CheapIs" || f.Name() == "As") {
							mentionsTest = true
						}
					}
					return true
				})
				if mentionsTest {
					problems = append(problems, "encode branch whose condition is not a bare sentinel/type test at "+fn.Pkg.Fset.Position(ifs.Pos()).String()+": "+types.ExprString(ifs.Cond))
				}
				continue
			}
			f := CalleeFunc(fn, call)
			if f == nil || len(call.Args) != 2 {
				continue
			}
			var ty string
			found := false
			for _, bs := range ifs.Body.List {
				if ret, ok := bs.(*ast.ReturnStmt); ok && len(ret.Results) == 2 {
					if t, ok := payloadTypeOf(fn, ret.Results[0]); ok {
						ty, found = t, true
					}
				}
			}
			if !found {
				problems = append(problems, "encode branch without a constant payload type at "+fn.Pkg.Fset.Position(ifs.Pos()).String())
				continue
			}
			switch f.Name() {
			case "Is", "CheapIs":
				if s := sentinelOf(fn, call.Args[1]); s != nil {
					rules = append(rules, encRule{Kind: "is", Sentinel: s, Type: ty, Pos: ifs})
				} else {
					problems = append(problems, "encode tests a non-sentinel at "+fn.Pkg.Fset.Position(ifs.Pos()).String())
				}
			case "As":
				if u, ok := ast.Unparen(call.Args[1]).(*ast.UnaryExpr); ok && u.Op == token.AND {
					rules = append(rules, encRule{Kind: "as", AsType: fn.Pkg.TypesInfo.TypeOf(u.X), Type: ty, Pos: ifs})
				}
			}
		}
	}
	walk(fn.Body.List)
	return rules, problems
}

// extractDecode reads the decoder: switch p.Type { case T: return <err rooted at S>, true },
// "if p.Type == T { return ... }", "if strings.HasPrefix(p.Type, P) { return ... }" and
// the guard form "if !strings.HasPrefix(p.Type, P) { return nil, false }" followed by
// an unconditional fallback return.
func extractDecode(fn *FuncNode) ([]decRule, []string) {
	var rules []decRule
	var problems []string
	retRule := func(ret *ast.ReturnStmt) (types.Object, types.Type, bool) {
		if len(ret.Results) != 2 {
			return nil, nil, false
		}
		if id, ok := ast.Unparen(ret.Results[1]).(*ast.Ident); !ok || id.Name != "true" {
			return nil, nil, false
		}
		if s := sentinelOf(fn, ret.Results[0]); s != nil {
			return s, nil, true
		}
		if cl, ok := ast.Unparen(ret.Results[0]).(*ast.CompositeLit); ok {
			return nil, fn.Pkg.TypesInfo.TypeOf(cl), true
		}
		if call, ok := ast.Unparen(ret.Results[0]).(*ast.CallExpr); ok {
			// errors.New(p.Data): a fresh error, no sentinel
			_ = call
			return nil, nil, true
		}
		return nil, nil, true
	}
	firstReturn := func(list []ast.Stmt) *ast.ReturnStmt {
		for i := len(list) - 1; i >= 0; i-- {
			if r, ok := list[i].(*ast.ReturnStmt); ok {
				return r
			}
		}
		return nil
	}
	guardPrefix := ""
	for _, s := range fn.Body.List {
		switch st := s.(type) {
		case *ast.SwitchStmt:
			for _, cc := range st.Body.List {
				clause := cc.(*ast.CaseClause)
				ret := firstReturn(clause.Body)
				if ret == nil {
					continue
				}
				sent, at, ok := retRule(ret)
				if !ok {
					continue
				}
				for _, e := range clause.List {
					if t, ok := constString(fn, e); ok {
						rules = append(rules, decRule{Type: t, Sentinel: sent, AsType: at, Pos: clause})
					}
				}
			}
		case *ast.IfStmt:
			cond := ast.Unparen(st.Cond)
			neg := false
			if u, ok := cond.(*ast.UnaryExpr); ok && u.Op == token.NOT {
				neg = true
				cond = ast.Unparen(u.X)
			}
			ret := firstReturn(st.Body.List)
			switch c := cond.(type) {
			case *ast.BinaryExpr:
				// p.Type == T  /  p.Type != T (guard)
				if t, ok := constString(fn, c.Y); ok && (c.Op == token.EQL || c.Op == token.NEQ) {
					if c.Op == token.EQL && !neg && ret != nil {
						if sent, at, ok := retRule(ret); ok {
							rules = append(rules, decRule{Type: t, Sentinel: sent, AsType: at, Pos: st})
						}
					} else if c.Op == token.NEQ && !neg {
						guardPrefix = "=" + t // exact-type guard
					}
				}
			case *ast.CallExpr:
				if f := CalleeFunc(fn, c); f != nil && f.Name() == "HasPrefix" && len(c.Args) == 2 {
					pre, ok := constString(fn, c.Args[1])
					if !ok {
						problems = append(problems, "non-constant prefix in decoder")
						continue
					}
					if neg {
						guardPrefix = pre
					} else if ret != nil {
						if sent, at, ok := retRule(ret); ok {
							rules = append(rules, decRule{Type: pre, Prefix: true, Sentinel: sent, AsType: at, Pos: st})
						}
					}
				}
			}
		case *ast.ReturnStmt:
			if guardPrefix != "" {
				if sent, at, ok := retRule(st); ok {
					if strings.HasPrefix(guardPrefix, "=") {
						rules = append(rules, decRule{Type: guardPrefix[1:], Sentinel: sent, AsType: at, Pos: st})
					} else {
						rules = append(rules, decRule{Type: guardPrefix, Prefix: true, Sentinel: sent, AsType: at, Pos: st})
					}
				}
			}
		}
	}
	return rules, problems
}

// decodeOf simulates the decoder's dispatch on a payload type string: exact rules win in
// order, then prefix rules in order.
func (rp *registryPair) decodeOf(t string) (*decRule, bool) {
	for i := range rp.DecRules {
		d := &rp.DecRules[i]
		if !d.Prefix && d.Type == t {
			return d, true
		}
	}
	for i := range rp.DecRules {
		d := &rp.DecRules[i]
		if d.Prefix && strings.HasPrefix(t, d.Type) {
			return d, true
		}
	}
	return nil, false
}

func (rp *registryPair) claims(t string) bool {
	_, ok := rp.decodeOf(t)
	return ok
}

func collectRegistries(p *Prog) []*registryPair {
	var out []*registryPair
	for _, cs := range p.AllCalls(calleeNamed("x/errors", "", "Register")) {
		if len(cs.Call.Args) != 2 {
			continue
		}
		rp := &registryPair{Pkg: trimMod(cs.Fn.Pkg.PkgPath), Pos: cs.Call, Fn: cs.Fn}
		resolve := func(e ast.Expr) *FuncNode {
			switch x := ast.Unparen(e).(type) {
			case *ast.Ident:
				if f, ok := cs.Fn.Pkg.TypesInfo.Uses[x].(*types.Func); ok {
					return p.ByObj[f.Origin()]
				}
			case *ast.FuncLit:
				return p.LitNode(x)
			}
			return nil
		}
		rp.Enc, rp.Dec = resolve(cs.Call.Args[0]), resolve(cs.Call.Args[1])
		if rp.Enc == nil || rp.Dec == nil {
			rp.Problems = append(rp.Problems, "encode/decode functions not resolved")
		} else {
			var p1, p2 []string
			rp.EncRules, p1 = extractEncode(rp.Enc)
			rp.DecRules, p2 = extractDecode(rp.Dec)
			rp.Problems = append(p1, p2...)
		}
		out = append(out, rp)
	}
	sort.Slice(out, func(i, j int) bool { return out[i].Pkg < out[j].Pkg })
	return out
}

func checkC14(r *Run) {
	r.Explanation = "Structural necessary conditions of 'streams end definitely, with the handler's error, on every transport': (R1, information only: a table-shape extractor that a rewrite of an encoder as a switch or a table loop defeats) whether each (sentinel or concrete type -> payload type) an encoder produces is mapped back by its decoder to the same kind and claimed by no other registry; (R2) after the handler returns, the in-memory server stream sends exactly one terminal message carrying the handler's encoded error with a plain (unconditional, blocking) send on every path; the WebSocket server closes the stream with the handler's error on every path, and skips the typed close payload only for context.Canceled; the gRPC handler returns the encoded handler error unless it is nil/EOF; (R3) every Receive that has a terminal-result field stores a decoded terminal error in it before returning it and returns the field first when set; CloseSend marks the sending side closed before sending; gRPC adapters translate every transport error; (R4) the WebSocket stream core closes its shutdown channel at most once."
	r.NotDecided = "Ordering/no-duplication of data messages (delegated to Go channels, gorilla/websocket and grpc-go: trusted base); timing races of close handshakes."
	r.Trusted = []string{"go/types, go/cfg", "Go channel, gorilla/websocket and grpc-go ordering"}
	r.Extra["module"] = "core"
	// one program rooted at core sees every registered error kind (x, freighter, core);
	// the stream rules are decided on the freighter module itself (it contains the
	// in-memory transport, which core only uses in tests).
	pc, err := Load("core")
	if err != nil {
		r.Undecide("%v", err)
		return
	}
	p, err := Load("freighter/go")
	if err != nil {
		r.Undecide("%v", err)
		return
	}
	r.Stats["packages"] = len(p.Repo) + len(pc.Repo)
	r.Rule("C14.R2.terminal", "after the handler returns, each transport delivers exactly one terminal result derived from the handler's error on every path", 6)
	r.Rule("C14.R5.fresh", "every message a stream transport decodes lands in a fresh value (never a per-stream field): the codecs merge into their target, so a later message would inherit the omitted fields of an earlier one", 2)
	r.Rule("C14.R3.overwrite", "a stored terminal result is never overwritten: every write of a stream's terminal field happens where the field is known to be unset (behind the 'already terminated' test on the same object), except the tabled server-side close", 6)
	r.Rule("C14.R3.sticky", "a decoded terminal error is stored before it is returned and is returned first on later calls; CloseSend marks the sender closed before sending; gRPC adapters translate transport errors", 8)
	r.Rule("C14.R4.once", "streamCore.close closes normalShutdownSig behind a closed flag (or sync.Once) tested on the same object", 1)

	checkRegistries(r, pc)
	checkMockExec(r, p)
	checkHTTPServerClose(r, p)
	checkGRPCHandler(r, p)
	checkSticky(r, p)
	checkTerminalOverwrite(r, p)
	r.Rule("C14.ERR", "no error returned by a call is discarded or left unexamined on some path anywhere in freighter (transports, middleware, freightfluence): a swallowed transport or transform error makes a stream carry on after a failed step instead of ending with that error", 1)
	checkErrDrop(r, p, "C14.ERR", func(fn *FuncNode) bool {
		return fn.InPkgs("freighter") && !fn.InPkgs("freighter/test")
	}, 100)
	checkFreshDecodeTargets(r, p, "C14.R5.fresh", func(fn *FuncNode) bool { return fn.InPkgs("freighter/http", "freighter/grpc", "freighter/mock") }, 2)
	checkCloseOnce(r, p)
}

func checkRegistries(r *Run, p *Prog) {
	regs := collectRegistries(p)
	n := 0
	for _, rp := range regs {
		if strings.Contains(rp.Pkg, "/test") || strings.Contains(rp.Pkg, "integration") {
			continue // test-support registries
		}
		n++
		for _, pr := range rp.Problems {
			if strings.HasPrefix(pr, "encode branch whose condition") {
				r.Info("C14.R1.registry", "every encode branch of the registry in "+rp.Pkg+" tests exactly one sentinel or type", "", false, pr+" (the sentinel is then typed on the wire only sometimes; the decoder's table cannot follow that)")
				continue
			}
			r.Info("C14.R1.registry", "registry in "+rp.Pkg+" has the table shape the extractor reads", "", false, pr)
		}
		if len(rp.EncRules) == 0 || len(rp.DecRules) == 0 {
			r.Info("C14.R1.registry", "registry in "+rp.Pkg+" has the table shape the extractor reads", "", false, fmt.Sprintf("%d encode rules, %d decode rules extracted", len(rp.EncRules), len(rp.DecRules)))
			continue
		}
		for _, e := range rp.EncRules {
			d, ok := rp.decodeOf(e.Type)
			name := "?"
			if e.Kind == "is" {
				name = e.Sentinel.Name()
			} else {
				name = types.TypeString(e.AsType, func(*types.Package) string { return "" })
			}
			construct := fmt.Sprintf("%s: %s -> %q round-trips", rp.Pkg, name, e.Type)
			switch {
			case !ok:
				r.Info("C14.R1.registry", construct, p.Position(e.Pos.Pos()), false, "the decoder has no case (and no prefix) for this payload type: the error arrives as an untyped error")
			case e.Kind == "is":
				same := d.Sentinel == e.Sentinel
				got := "<none>"
				if d.Sentinel != nil {
					got = d.Sentinel.Name()
				}
				r.Info("C14.R1.registry", construct, p.Position(e.Pos.Pos()), same, fmt.Sprintf("decoded as an error rooted at %s: errors.Is(err, %s) must hold on the receiving side", got, name))
			default:
				same := d.AsType != nil && types.Identical(types.Unalias(d.AsType), types.Unalias(e.AsType))
				r.Info("C14.R1.registry", construct, p.Position(e.Pos.Pos()), same, "decoded value must be of the encoded concrete type")
			}
			// no other registry claims it
			for _, other := range regs {
				if other == rp || strings.Contains(other.Pkg, "/test") || strings.Contains(other.Pkg, "integration") {
					continue
				}
				if other.claims(e.Type) {
					r.Info("C14.R1.registry", fmt.Sprintf("%q is claimed only by its own registry", e.Type), p.Position(e.Pos.Pos()), false, "also claimed by the decoder registered in "+other.Pkg+": registration order decides which error the receiver sees")
				}
			}
		}
	}
	r.Stats["error_registries"] = n
	if n < 6 {
		r.Info("C14.R1.registry", "production error registries found", "", false, fmt.Sprintf("only %d (expected >= 6)", n))
	}
}

// isSelectComm reports whether stmt is the communication of a select clause in fn.
func isSelectComm(fn *FuncNode, stmt ast.Stmt) bool {
	hit := false
	ast.Inspect(fn.Body, func(n ast.Node) bool {
		if cc, ok := n.(*ast.CommClause); ok && cc.Comm == stmt {
			hit = true
		}
		return true
	})
	return hit
}

func checkMockExec(r *Run, p *Prog) {
	fn := p.Func("freighter/mock", "ServerStream", "exec")
	if fn == nil {
		r.Undecide("C14.R2: mock ServerStream.exec not found")
		return
	}
	c := p.CFG(fn)
	handler := paramObj(fn, 1)
	var hcall *ast.CallExpr
	inspectNoLit(fn.Body, func(x ast.Node) bool {
		if call, ok := x.(*ast.CallExpr); ok && Callee(fn, call) == handler {
			hcall = call
		}
		return true
	})
	if hcall == nil {
		r.Ob("C14.R2.terminal", "mock exec runs the handler", p.Position(fn.Pos()), false, "handler is not called")
		return
	}
	herr := errVarOfCall(fn, hcall)
	// the payload variable: defined by errors.Encode(ctx, herr, ...)
	var payload types.Object
	inspectNoLit(fn.Body, func(x ast.Node) bool {
		if as, ok := x.(*ast.AssignStmt); ok && len(as.Lhs) == 1 && len(as.Rhs) == 1 && as.Tok == token.DEFINE {
			if call, ok := ast.Unparen(as.Rhs[0]).(*ast.CallExpr); ok {
				if f := CalleeFunc(fn, call); f != nil && f.Name() == "Encode" && len(call.Args) >= 2 {
					// Encode(ctx, herr, ..) or Encode(ctx, handler(ctx, s), ..)
					if (herr != nil && objOf(fn, call.Args[1]) == herr) || ast.Unparen(call.Args[1]) == ast.Expr(hcall) {
						payload = objOf(fn, as.Lhs[0])
					}
				}
			}
		}
		return true
	})
	isTerminalSend := func(n ast.Node) bool {
		ss, ok := n.(*ast.SendStmt)
		if !ok || isSelectComm(fn, ss) {
			return false
		}
		cl, ok := ast.Unparen(ss.Value).(*ast.CompositeLit)
		if !ok {
			return false
		}
		e := litField(cl, "error")
		return e != nil && payload != nil && objOf(fn, e) == payload
	}
	sends := c.NodesWhere(isTerminalSend)
	hp, _ := c.Locate(hcall)
	q, vis := c.ReachAvoiding([]Point{hp}, nil, isTerminalSend)
	ok := len(sends) == 1 && payload != nil
	var path []string
	for _, ex := range c.Exits() {
		if vis[ex.P] && !(ex.P.I >= 0 && ex.P.I < len(ex.P.B.Nodes) && isTerminalSend(ex.P.B.Nodes[ex.P.I])) {
			ok = false
			path = q.PathTo(ex.P)
		}
	}
	r.ObPath("C14.R2.terminal", "mock exec sends the handler's encoded error as one unconditional terminal message", p.Position(hcall.Pos()), ok,
		fmt.Sprintf("%d plain terminal send(s): a send that can be skipped (select with other ready cases) leaves the client without a terminal result", len(sends)), path)
	// the only reassignment of the payload substitutes EOF when the handler returned nil
	okSub := true
	inspectNoLit(fn.Body, func(x ast.Node) bool {
		if as, ok := x.(*ast.AssignStmt); ok && as.Tok == token.ASSIGN && len(as.Lhs) == 1 && objOf(fn, as.Lhs[0]) == payload {
			call, isCall := ast.Unparen(as.Rhs[0]).(*ast.CallExpr)
			if !isCall || len(call.Args) < 2 {
				okSub = false
				return true
			}
			s, isSel := ast.Unparen(call.Args[1]).(*ast.SelectorExpr)
			if !isSel || s.Sel.Name != "EOF" {
				okSub = false
			}
		}
		return true
	})
	r.Ob("C14.R2.terminal", "mock exec substitutes only EOF for a nil handler result", p.Position(fn.Pos()), okSub, "")
	// the terminal message never carries the "no error" payload: the receiving side
	// decodes that to nil and would take the end of the stream for one more message
	isTypeNilTest := func(atom ast.Expr) (eqMeansNil bool, ok bool) {
		be, isBin := ast.Unparen(atom).(*ast.BinaryExpr)
		if !isBin || (be.Op != token.EQL && be.Op != token.NEQ) {
			return false, false
		}
		side := func(a, b ast.Expr) bool {
			sel, ok := ast.Unparen(a).(*ast.SelectorExpr)
			if !ok || sel.Sel.Name != "Type" || objOf(fn, sel.X) != payload {
				return false
			}
			cs, ok := ast.Unparen(b).(*ast.SelectorExpr)
			return ok && cs.Sel.Name == "TypeNil"
		}
		if side(be.X, be.Y) || side(be.Y, be.X) {
			return be.Op == token.EQL, true
		}
		return false, false
	}
	if payload != nil && len(sends) > 0 {
		def := c.NodesWhere(func(n ast.Node) bool {
			as, ok := n.(*ast.AssignStmt)
			return ok && as.Tok == token.DEFINE && len(as.Lhs) == 1 && objOf(fn, as.Lhs[0]) == payload
		})
		pathN := c.boolStateSearch(def, false,
			func(n ast.Node, fact bool) (bool, bool) {
				if as, ok := n.(*ast.AssignStmt); ok && as.Tok == token.ASSIGN && len(as.Lhs) == 1 && objOf(fn, as.Lhs[0]) == payload {
					if call, ok := ast.Unparen(as.Rhs[0]).(*ast.CallExpr); ok && len(call.Args) >= 2 && certainErr(fn, call.Args[1], as) {
						return true, false
					}
					return false, false
				}
				return fact, false
			},
			func(cond ast.Expr, val bool, fact bool) bool {
				for _, f := range condFacts(fn, cond, val, 0) {
					if eqMeansNil, ok := isTypeNilTest(f.Atom); ok {
						return f.Val != eqMeansNil
					}
				}
				return fact
			},
			func(n ast.Node, fact bool) bool { return isTerminalSend(n) && !fact })
		r.ObPath("C14.R2.terminal", "mock exec never sends the 'no error' payload as the terminal message", p.Position(fn.Pos()), pathN == nil,
			"a nil handler result must travel as EOF: the receiving side decodes a TypeNil payload to a nil error and hands the terminal message out as data", pathN)
	}
}

func checkHTTPServerClose(r *Run, p *Prog) {
	hs := p.Func("freighter/http", "streamServer", "handleSocket")
	cl := p.Func("freighter/http", "serverStream", "close")
	if hs == nil || cl == nil {
		r.Undecide("C14.R2: http handleSocket / serverStream.close not found")
		return
	}
	c := p.CFG(hs)
	var exec *ast.CallExpr
	inspectNoLit(hs.Body, func(x ast.Node) bool {
		if call, ok := x.(*ast.CallExpr); ok {
			if f := CalleeFunc(hs, call); f != nil && f.Name() == "Exec" {
				exec = call
			}
		}
		return true
	})
	if exec == nil {
		r.Ob("C14.R2.terminal", "http handleSocket runs the handler through the middleware chain", p.Position(hs.Pos()), false, "no Exec call")
		return
	}
	herr := errVarOfCall(hs, exec)
	isClose := func(n ast.Node) bool {
		return nodeHasCall(hs, n, func(o types.Object, call *ast.CallExpr) bool {
			return IsFunc(o, cl) && len(call.Args) == 1 && objOf(hs, call.Args[0]) == herr
		})
	}
	ep, _ := c.Locate(exec)
	q, vis := c.ReachAvoiding([]Point{ep}, nil, isClose)
	ok := herr != nil && len(c.NodesWhere(isClose)) > 0
	var path []string
	for _, ex := range c.Exits() {
		if vis[ex.P] && !(ex.P.I >= 0 && ex.P.I < len(ex.P.B.Nodes) && isClose(ex.P.B.Nodes[ex.P.I])) {
			ok = false
			path = q.PathTo(ex.P)
		}
	}
	r.ObPath("C14.R2.terminal", "http handleSocket closes the stream with the handler's error on every path", p.Position(exec.Pos()), ok, "a path that skips stream.close(handlerErr) leaves the client waiting for a terminal result", path)

	// serverStream.close: the typed close payload carries the (EOF-substituted) error and is skipped only for context.Canceled
	cc := p.CFG(cl)
	errParam := paramObj(cl, 0)
	isCloseMsg := func(n ast.Node) bool {
		hit := false
		inspectNoLit(n, func(x ast.Node) bool {
			lit, ok := x.(*ast.CompositeLit)
			if !ok || !namedTypeIs(cl.Pkg.TypesInfo.TypeOf(lit), "freighter/http", "WSMessage") {
				return true
			}
			t := litField(lit, "Type")
			e := litField(lit, "Err")
			if t == nil || e == nil {
				return true
			}
			if s, ok := constString(cl, t); !ok || s != "close" {
				return true
			}
			enc, ok := ast.Unparen(e).(*ast.CallExpr)
			if !ok {
				return true
			}
			if f := CalleeFunc(cl, enc); f != nil && f.Name() == "Encode" && len(enc.Args) >= 2 && objOf(cl, enc.Args[1]) == errParam {
				hit = true
			}
			return true
		})
		return hit
	}
	legit := cc.EdgesEstablishing(func(atom ast.Expr, val bool) bool {
		call, ok := atom.(*ast.CallExpr)
		if !ok || !val || len(call.Args) != 2 {
			return false
		}
		f := CalleeFunc(cl, call)
		if f == nil || f.Name() != "Is" || objOf(cl, call.Args[0]) != errParam {
			return false
		}
		s, ok := ast.Unparen(call.Args[1]).(*ast.SelectorExpr)
		if !ok || s.Sel.Name != "Canceled" {
			return false
		}
		id, ok := ast.Unparen(s.X).(*ast.Ident)
		if !ok {
			return false
		}
		pn, ok := cl.Pkg.TypesInfo.Uses[id].(*types.PkgName)
		return ok && pn.Imported().Path() == "context"
	})
	q2, vis2 := cc.ReachAvoiding([]Point{cc.Entry()}, legit, isCloseMsg)
	ok2 := len(cc.NodesWhere(isCloseMsg)) > 0
	var path2 []string
	for _, ex := range cc.Exits() {
		if vis2[ex.P] && !(ex.P.I >= 0 && ex.P.I < len(ex.P.B.Nodes) && isCloseMsg(ex.P.B.Nodes[ex.P.I])) {
			ok2 = false
			path2 = q2.PathTo(ex.P)
		}
	}
	// also: the WriteControl (connection close) must not be reachable without the payload except for Canceled
	for _, pt := range cc.NodesWhere(func(n ast.Node) bool {
		return nodeHasCall(cl, n, func(o types.Object, _ *ast.CallExpr) bool {
			f, ok := o.(*types.Func)
			return ok && f.Name() == "WriteControl"
		})
	}) {
		if vis2[pt] {
			ok2 = false
			path2 = q2.PathTo(pt)
		}
	}
	r.ObPath("C14.R2.terminal", "http serverStream.close sends the typed close payload unless the error is context.Canceled", p.Position(cl.Pos()), ok2 && len(legit) <= 1,
		"skipping the payload for any other (registered) error kind makes the client see a different terminal error than the handler returned", path2)
	// nil -> EOF substitution only
	okSub := true
	inspectNoLit(cl.Body, func(x ast.Node) bool {
		if as, ok := x.(*ast.AssignStmt); ok && as.Tok == token.ASSIGN && len(as.Lhs) == 1 && objOf(cl, as.Lhs[0]) == errParam && len(as.Rhs) == 1 {
			if s, ok := ast.Unparen(as.Rhs[0]).(*ast.SelectorExpr); ok && s.Sel.Name == "EOF" {
				return true
			}
			// reuse of err for later transport errors happens after the payload was sent: allowed when it is a call result
			if _, isCall := ast.Unparen(as.Rhs[0]).(*ast.CallExpr); isCall {
				return true
			}
			okSub = false
		}
		return true
	})
	r.Ob("C14.R2.terminal", "http serverStream.close substitutes only EOF for a nil handler result", p.Position(cl.Pos()), okSub, "")
}

func checkGRPCHandler(r *Run, p *Prog) {
	var fn *FuncNode
	for _, f := range p.FuncsOfPkg("freighter/grpc") {
		if f.Decl != nil && f.Decl.Name.Name == "Handler" && strings.Contains(f.Name, "StreamServerCore") {
			fn = f
		}
	}
	if fn == nil {
		r.Undecide("C14.R2: grpc StreamServerCore.Handler not found")
		return
	}
	var exec *ast.CallExpr
	inspectNoLit(fn.Body, func(x ast.Node) bool {
		if call, ok := x.(*ast.CallExpr); ok {
			if f := CalleeFunc(fn, call); f != nil && f.Name() == "Exec" {
				exec = call
			}
		}
		return true
	})
	if exec == nil {
		r.Undecide("C14.R2: grpc Handler has no Exec call")
		return
	}
	herr := errVarOfCall(fn, exec)
	_ = p.CFG(fn)
	// truth table (E17) over "the handler error is nil" and "it is EOF": for a non-nil,
	// non-EOF error the function never returns nil
	classify := func(ev *ttEval, st *ttState, f *FuncNode, e ast.Expr) (string, bool, bool) {
		if f != fn {
			return "", false, false
		}
		if o, trueMeansNil, ok := nilCompare(f, e); ok && o == herr {
			return "nil", !trueMeansNil, true
		}
		if call, ok := ast.Unparen(e).(*ast.CallExpr); ok && len(call.Args) == 2 {
			if g := CalleeFunc(f, call); g != nil && g.Name() == "Is" && objOf(f, call.Args[0]) == herr {
				if sl, ok := ast.Unparen(call.Args[1]).(*ast.SelectorExpr); ok && sl.Sel.Name == "EOF" {
					return "eof", false, true
				}
			}
		}
		return "", false, false
	}
	outcome := func(f *FuncNode, ret *ast.ReturnStmt, results []ttVal) string {
		if ret == nil || len(ret.Results) != 1 {
			return "other"
		}
		res := ast.Unparen(ret.Results[0])
		if isNilIdent(f, res) {
			return "nil"
		}
		if call, isCall := res.(*ast.CallExpr); isCall {
			if g := CalleeFunc(f, call); g != nil && g.Name() == "Encode" && len(call.Args) >= 2 && objOf(f, call.Args[1]) == herr {
				return "encoded"
			}
		}
		if objOf(f, res) == herr {
			return "raw"
		}
		return "other"
	}
	ok := herr != nil
	detail := ""
	if ok {
		table, bad := ttTable(p, fn, []string{"nil", "eof"}, classify, outcome, false)
		if bad != "" {
			r.Undecide("C14.R2: grpc Handler could not be evaluated: %s", bad)
			return
		}
		if table[0]["nil"] || table[0]["raw"] {
			ok = false
			detail = "returns nil (or the unencoded error) for a non-nil, non-EOF handler error"
		}
		if !table[0]["encoded"] {
			ok = false
			detail = "never returns the encoded handler error"
		}
	}
	r.Ob("C14.R2.terminal", "grpc Handler returns the encoded handler error unless it is nil or EOF", p.Position(fn.Pos()), ok, detail)
}

func checkSticky(r *Run, p *Prog) {
	type spec struct{ pkg, recv, name, field string }
	for _, sp := range []spec{
		{"freighter/mock", "ServerStream", "Receive", "receiveErr"},
		{"freighter/mock", "ClientStream", "Receive", "receiveErr"},
		{"freighter/http", "streamCore", "Receive", "peerCloseErr"},
	} {
		fn := p.Func(sp.pkg, sp.recv, sp.name)
		fld := p.FieldOf(sp.pkg, sp.recv, sp.field)
		if fn == nil || fld == nil {
			r.Undecide("C14.R3: %s.%s / field %s not found", sp.recv, sp.name, sp.field)
			continue
		}
		c := p.CFG(fn)
		// (a) all work happens behind the "no terminal result stored yet" edge, and the
		// other edge returns the stored field
		unsetEdges := c.EdgesEstablishing(func(atom ast.Expr, val bool) bool {
			isF, trueMeansNil, ok := nilCompareField(fn, atom, fld)
			return ok && isF && val == trueMeansNil
		})
		setEdges := c.EdgesEstablishing(func(atom ast.Expr, val bool) bool {
			isF, trueMeansNil, ok := nilCompareField(fn, atom, fld)
			return ok && isF && val != trueMeansNil
		})
		okFirst := len(unsetEdges) > 0 && len(setEdges) > 0
		if okFirst {
			_, before := c.ReachAvoiding([]Point{c.Entry()}, unsetEdges, nil)
			returnsField := false
			for pt := range before {
				if pt.I < 0 || pt.I >= len(pt.B.Nodes) {
					continue
				}
				n := pt.B.Nodes[pt.I]
				if ret, ok := n.(*ast.ReturnStmt); ok {
					if len(ret.Results) == 2 {
						if sel, ok := ast.Unparen(ret.Results[1]).(*ast.SelectorExpr); ok && fieldVar(fn, sel) == fld {
							returnsField = true
							continue
						}
					}
					okFirst = false // some other return before the stored-result test
					continue
				}
				// no transport work (calls, channel operations) before the test
				work := false
				inspectNoLit(n, func(y ast.Node) bool {
					switch v := y.(type) {
					case *ast.CallExpr:
						if _, isConv := fn.Pkg.TypesInfo.Types[v.Fun]; isConv && fn.Pkg.TypesInfo.Types[v.Fun].IsType() {
							return true
						}
						work = true
					case *ast.UnaryExpr:
						if v.Op == token.ARROW {
							work = true
						}
					case *ast.SendStmt:
						work = true
					}
					return true
				})
				if work {
					okFirst = false
				}
			}
			okFirst = okFirst && returnsField
		}
		r.Ob("C14.R3.sticky", sp.pkg+"."+sp.recv+".Receive returns the stored terminal result first", p.Position(fn.Pos()), okFirst, "later calls must keep returning the same terminal result")
		// (b) every return of a decoded error returns the field (stored before)
		okStore := true
		detail := ""
		nDecoded := 0
		for _, ex := range c.Exits() {
			if ex.Return == nil || len(ex.Return.Results) != 2 {
				continue
			}
			res := ast.Unparen(ex.Return.Results[1])
			if isNilIdent(fn, res) {
				continue
			}
			if sel, ok := res.(*ast.SelectorExpr); ok && fieldVar(fn, sel) == fld {
				nDecoded++
				continue
			}
			// monotone conditions need no store: ctx.Err() after ctx.Done(), closed-channel sentinels
			if call, ok := res.(*ast.CallExpr); ok {
				if f := CalleeFunc(fn, call); f != nil && f.Name() == "Err" {
					continue
				}
				if f := CalleeFunc(fn, call); f != nil && f.Name() == "Decode" {
					okStore = false
					detail = "returns errors.Decode(...) directly without storing it"
					continue
				}
			}
			if sel, ok := res.(*ast.SelectorExpr); ok && sel.Sel.Name == "ErrStreamClosed" {
				continue // returned on a closed serverClosed channel: stays closed
			}
			// anything else - a local error, a wrapped read or decode failure - is a failure
			// the next call would not repeat: the terminal result would not be stable
			okStore = false
			detail = "returns " + types.ExprString(res) + ", which is neither the stored terminal field nor a condition that persists (ctx.Err(), a closed-stream sentinel)"
		}
		r.Ob("C14.R3.sticky", sp.pkg+"."+sp.recv+".Receive stores a decoded terminal error before returning it", p.Position(fn.Pos()), okStore && nDecoded > 0, fmt.Sprintf("%d return(s) of the stored field %s", nDecoded, detail))
	}
	// CloseSend marks closed before sending
	for _, sp := range []spec{{"freighter/mock", "ClientStream", "CloseSend", "sendErr"}, {"freighter/http", "clientStream", "CloseSend", "sendClosed"}, {"freighter/grpc", "ClientStream", "CloseSend", "closeSent"}} {
		fn := p.Func(sp.pkg, sp.recv, sp.name)
		fld := p.FieldOf(sp.pkg, sp.recv, sp.field)
		if fn == nil || fld == nil {
			r.Undecide("C14.R3: %s.%s / %s not found", sp.recv, sp.name, sp.field)
			continue
		}
		c := p.CFG(fn)
		isMark := func(n ast.Node) bool { return isStoreTo(fn, n, fld) }
		isSend := func(n ast.Node) bool {
			if _, ok := n.(*ast.SendStmt); ok {
				return true
			}
			return nodeHasCall(fn, n, func(o types.Object, _ *ast.CallExpr) bool {
				f, ok := o.(*types.Func)
				return ok && (f.Name() == "send" || f.Name() == "CloseSend") && f != fn.Obj
			})
		}
		q, vis := c.ReachAvoiding([]Point{c.Entry()}, nil, isMark)
		ok := len(c.NodesWhere(isMark)) > 0
		var path []string
		for _, s := range c.NodesWhere(isSend) {
			if vis[s] {
				ok = false
				path = q.PathTo(s)
			}
		}
		r.ObPath("C14.R3.sticky", sp.pkg+"."+sp.recv+".CloseSend marks the sending side closed before it sends the close", p.Position(fn.Pos()), ok, "a Send racing with CloseSend must be refused, not delivered after the close", path)
	}
	// the close marker the mock client sends is an encoded, certainly non-nil error
	if fn := p.Func("freighter/mock", "ClientStream", "CloseSend"); fn != nil {
		okEnc, n := true, 0
		inspectNoLit(fn.Body, func(x ast.Node) bool {
			ss, ok := x.(*ast.SendStmt)
			if !ok {
				return true
			}
			n++
			cl, ok := ast.Unparen(ss.Value).(*ast.CompositeLit)
			if !ok {
				okEnc = false
				return true
			}
			call, ok := ast.Unparen(litField(cl, "error")).(*ast.CallExpr)
			if !ok || len(call.Args) < 2 || !certainErr(fn, call.Args[1], ss) {
				okEnc = false
			}
			return true
		})
		r.Ob("C14.R3.sticky", "freighter/mock.ClientStream.CloseSend sends an encoded non-nil error as the close marker", p.Position(fn.Pos()), okEnc && n > 0, "the server's Receive decodes the marker and must get a non-nil terminal error")
	}
	// ... and Send hands nothing to the transport unless that mark is unset
	for _, sp := range []spec{{"freighter/mock", "ClientStream", "Send", "sendErr"}, {"freighter/http", "clientStream", "Send", "sendClosed"}, {"freighter/grpc", "ClientStream", "Send", "closeSent"}} {
		fn := p.Func(sp.pkg, sp.recv, sp.name)
		fld := p.FieldOf(sp.pkg, sp.recv, sp.field)
		if fn == nil || fld == nil {
			r.Undecide("C14.R3: %s.%s / %s not found", sp.recv, sp.name, sp.field)
			continue
		}
		c := p.CFG(fn)
		unset := c.EdgesEstablishing(func(atom ast.Expr, val bool) bool {
			if isF, trueMeansNil, ok := nilCompareField(fn, atom, fld); ok && isF {
				return val == trueMeansNil
			}
			if sel, ok := ast.Unparen(atom).(*ast.SelectorExpr); ok && fieldVar(fn, sel) == fld {
				return !val
			}
			return false
		})
		isTransport := func(n ast.Node) bool {
			if _, ok := n.(*ast.SendStmt); ok {
				return true
			}
			return nodeHasCall(fn, n, func(o types.Object, _ *ast.CallExpr) bool {
				f, ok := o.(*types.Func)
				return ok && (f.Name() == "send" || f.Name() == "Send") && f != fn.Obj
			})
		}
		q, vis := c.ReachAvoiding([]Point{c.Entry()}, unset, nil)
		ok := len(unset) > 0 && len(c.NodesWhere(isTransport)) > 0
		var path []string
		for _, s := range c.NodesWhere(isTransport) {
			if vis[s] {
				ok = false
				path = q.PathTo(s)
			}
		}
		r.ObPath("C14.R3.sticky", sp.pkg+"."+sp.recv+".Send reaches the transport only while the sending side is not marked closed", p.Position(fn.Pos()), ok, "a request delivered after CloseSend reaches the handler after its end-of-stream", path)
	}
	// a terminal message never comes back as data: past the edge on which the received
	// message is recognised as terminal, every return carries an error that cannot be nil
	for _, sp := range []struct {
		pkg, recv, field, constName string
		terminalWhenEqual           bool
		// senderNormalises: the sending side never puts the "no error" payload on the wire
		// (C14.R2.terminal for exec; CloseSend encodes the constant EOF), so Decode of a
		// terminal message is not nil
		senderNormalises bool
	}{
		{"freighter/mock", "ServerStream", "receiveErr", "TypeEmpty", false, true},
		{"freighter/mock", "ClientStream", "receiveErr", "TypeEmpty", false, true},
		{"freighter/http", "streamCore", "peerCloseErr", "WSMessageTypeClose", true, false},
	} {
		fn := p.Func(sp.pkg, sp.recv, "Receive")
		fld := p.FieldOf(sp.pkg, sp.recv, sp.field)
		if fn == nil || fld == nil {
			r.Undecide("C14.R3: %s.%s.Receive / %s not found", sp.pkg, sp.recv, sp.field)
			continue
		}
		c := p.CFG(fn)
		isConst := func(e ast.Expr) bool {
			switch v := ast.Unparen(e).(type) {
			case *ast.Ident:
				return v.Name == sp.constName
			case *ast.SelectorExpr:
				return v.Sel.Name == sp.constName
			}
			return false
		}
		terminal := c.EdgesEstablishing(func(atom ast.Expr, val bool) bool {
			be, ok := ast.Unparen(atom).(*ast.BinaryExpr)
			if !ok || (be.Op != token.EQL && be.Op != token.NEQ) || !(isConst(be.X) || isConst(be.Y)) {
				return false
			}
			return (be.Op == token.EQL) == (val == sp.terminalWhenEqual)
		})
		construct := sp.pkg + "." + sp.recv + ".Receive answers a terminal message with a non-nil error on every path"
		// every edge of a condition that reads the test decides it one way or the other
		notTerminal := c.EdgesEstablishing(func(atom ast.Expr, val bool) bool {
			be, ok := ast.Unparen(atom).(*ast.BinaryExpr)
			if !ok || (be.Op != token.EQL && be.Op != token.NEQ) || !(isConst(be.X) || isConst(be.Y)) {
				return false
			}
			return (be.Op == token.EQL) != (val == sp.terminalWhenEqual)
		})
		undecidedEdge := ""
		for _, b := range c.G.Blocks {
			cond := Cond(b)
			if cond == nil {
				continue
			}
			reads := false
			ast.Inspect(cond, func(n ast.Node) bool {
				if e, ok := n.(ast.Expr); ok && isConst(e) {
					reads = true
				}
				return true
			})
			if !reads {
				continue
			}
			for si := range b.Succs {
				if !terminal[edge{b, si}] && !notTerminal[edge{b, si}] {
					undecidedEdge = posOf(p, cond) + ": " + types.ExprString(cond)
				}
			}
		}
		if undecidedEdge != "" {
			r.Ob("C14.R3.sticky", construct, p.Position(fn.Pos()), false, "the terminal-message test is combined with another condition at "+undecidedEdge+": on one of its edges a terminal message is not recognised and is handed out as data")
			continue
		}
		if len(terminal) == 0 {
			r.Ob("C14.R3.sticky", construct, p.Position(fn.Pos()), false, "no test of the received message against "+sp.constName)
			continue
		}
		// product search: (point, "the terminal field is certainly non-nil")
		type st struct {
			pt     Point
			nonNil bool
		}
		seen := map[st]bool{}
		parent := map[st]st{}
		var work []st
		push := func(from, to st) {
			if !seen[to] {
				seen[to] = true
				parent[to] = from
				work = append(work, to)
			}
		}
		for e := range terminal {
			s0 := st{Point{e.B.Succs[e.Succ], -1}, false}
			seen[s0] = true
			work = append(work, s0)
		}
		isField := func(e ast.Expr) bool {
			sel, ok := ast.Unparen(e).(*ast.SelectorExpr)
			return ok && fieldVar(fn, sel) == fld
		}
		okT := true
		var pathT []string
		why := ""
		for len(work) > 0 && okT {
			cur := work[len(work)-1]
			work = work[:len(work)-1]
			b, idx, nn := cur.pt.B, cur.pt.I, cur.nonNil
			if idx >= 0 && idx < len(b.Nodes) {
				switch v := b.Nodes[idx].(type) {
				case *ast.AssignStmt:
					for i, l := range v.Lhs {
						if isField(l) && len(v.Lhs) == len(v.Rhs) {
							nn = certainErr(fn, v.Rhs[i], v)
							if call, ok := ast.Unparen(v.Rhs[i]).(*ast.CallExpr); ok && sp.senderNormalises {
								if f := CalleeFunc(fn, call); f != nil && f.Name() == "Decode" {
									nn = true
								}
							}
						}
					}
				case *ast.ReturnStmt:
					if len(v.Results) == 2 {
						last := v.Results[1]
						if !(isField(last) && nn) && !certainErr(fn, last, v) {
							okT = false
							why = "returns " + types.ExprString(last) + ", which may be nil, for a terminal message"
							for x, ok := cur, true; ok && len(pathT) < 30; x, ok = parent[x] {
								if x.pt.I >= 0 && x.pt.I < len(x.pt.B.Nodes) {
									pathT = append([]string{p.Position(x.pt.B.Nodes[x.pt.I].Pos())}, pathT...)
								}
							}
						}
					}
					continue
				}
			}
			if idx+1 < len(b.Nodes) {
				push(cur, st{Point{b, idx + 1}, nn})
				continue
			}
			cond := Cond(b)
			for si, succ := range b.Succs {
				n2 := nn
				if cond != nil {
					for _, f := range condFacts(fn, cond, si == 0, 0) {
						if isF, trueMeansNil, ok := nilCompareField(fn, f.Atom, fld); ok && isF {
							n2 = f.Val != trueMeansNil
						}
					}
				}
				push(cur, st{Point{succ, -1}, n2})
			}
		}
		r.ObPath("C14.R3.sticky", construct, p.Position(fn.Pos()), okT, why+" (the caller would take the end of the stream for one more message)", pathT)
	}
	// gRPC adapters translate every transport error
	tr := p.Func("freighter/grpc", "", "translateGRPCError")
	if tr == nil {
		r.Undecide("C14.R3: translateGRPCError not found")
		return
	}
	for _, sp := range [][2]string{{"ServerStream", "Receive"}, {"ServerStream", "Send"}, {"ClientStream", "Receive"}, {"ClientStream", "Send"}, {"ClientStream", "CloseSend"}} {
		fn := p.Func("freighter/grpc", sp[0], sp[1])
		if fn == nil {
			r.Undecide("C14.R3: grpc %s.%s not found", sp[0], sp[1])
			continue
		}
		// every error obtained from s.internal.<X>() reaches a return only through translateGRPCError
		internal := p.FieldOf("freighter/grpc", sp[0], "internal")
		ok := true
		n := 0
		inspectNoLit(fn.Body, func(x ast.Node) bool {
			call, isCall := x.(*ast.CallExpr)
			if !isCall {
				return true
			}
			sel, isSel := ast.Unparen(call.Fun).(*ast.SelectorExpr)
			if !isSel {
				return true
			}
			in, isIn := ast.Unparen(sel.X).(*ast.SelectorExpr)
			if !isIn || fieldVar(fn, in) != internal || sel.Sel.Name == "Context" {
				return true
			}
			n++
			// either the call is directly the argument of translateGRPCError, or its error variable is
			wrapped := false
			inspectNoLit(fn.Body, func(y ast.Node) bool {
				if tc, ok := y.(*ast.CallExpr); ok && IsFunc(Callee(fn, tc), tr) && len(tc.Args) == 1 {
					if ast.Unparen(tc.Args[0]) == call {
						wrapped = true
					}
					if ev := errVarOfCall(fn, call); ev != nil && objOf(fn, tc.Args[0]) == ev {
						wrapped = true
					}
				}
				return true
			})
			if !wrapped {
				ok = false
			}
			return true
		})
		r.Ob("C14.R3.sticky", "grpc "+sp[0]+"."+sp[1]+" translates the transport error", p.Position(fn.Pos()), ok && n > 0, fmt.Sprintf("%d transport call(s): EOF and registered kinds must come out as freighter errors", n))
	}
}

// nilCompareField recognises "x.f != nil" / "x.f == nil" on field f.
func nilCompareField(fn *FuncNode, e ast.Expr, f *types.Var) (bool, bool, bool) {
	be, ok := ast.Unparen(e).(*ast.BinaryExpr)
	if !ok || (be.Op != token.NEQ && be.Op != token.EQL) {
		return false, false, false
	}
	var v ast.Expr
	switch {
	case isNilIdent(fn, be.Y):
		v = be.X
	case isNilIdent(fn, be.X):
		v = be.Y
	default:
		return false, false, false
	}
	sel, ok := ast.Unparen(v).(*ast.SelectorExpr)
	if !ok || fieldVar(fn, sel) != f {
		return false, false, false
	}
	return true, be.Op == token.EQL, true
}

func checkCloseOnce(r *Run, p *Prog) {
	fn := p.Func("freighter/http", "streamCore", "close")
	if fn == nil {
		r.Undecide("C14.R4: streamCore.close not found")
		return
	}
	c := p.CFG(fn)
	closes := c.NodesWhere(func(n ast.Node) bool {
		return nodeHasCall(fn, n, func(o types.Object, call *ast.CallExpr) bool {
			bi, ok := o.(*types.Builtin)
			return ok && bi.Name() == "close"
		})
	})
	if len(closes) == 0 {
		// sync.Once form
		once := false
		ast.Inspect(fn.Body, func(x ast.Node) bool {
			if call, ok := x.(*ast.CallExpr); ok {
				if f := CalleeFunc(fn, call); f != nil && f.Name() == "Do" && f.Pkg() != nil && f.Pkg().Path() == "sync" {
					once = true
				}
			}
			return true
		})
		r.Ob("C14.R4.once", "streamCore.close closes its shutdown channel at most once", p.Position(fn.Pos()), once, "no close(...) and no sync.Once.Do found")
		return
	}
	// a boolean field of the receiver: tested (false edge of "if c.f {return}") before the close and set true before it
	var flag *types.Var
	gate := c.EdgesEstablishing(func(atom ast.Expr, val bool) bool {
		sel, ok := atom.(*ast.SelectorExpr)
		if !ok || val {
			return false
		}
		v := fieldVar(fn, sel)
		if v == nil {
			return false
		}
		if b, ok := v.Type().Underlying().(*types.Basic); !ok || b.Kind() != types.Bool {
			return false
		}
		flag = v
		return true
	})
	q, vis := c.ReachAvoiding([]Point{c.Entry()}, gate, nil)
	ok := flag != nil
	var path []string
	for _, cl := range closes {
		if vis[cl] {
			ok = false
			path = q.PathTo(cl)
		}
	}
	// flag set before the close on every path
	if flag != nil {
		q2, vis2 := c.ReachAvoiding([]Point{c.Entry()}, nil, func(n ast.Node) bool { return isStoreTo(fn, n, flag) })
		for _, cl := range closes {
			if vis2[cl] {
				ok = false
				path = q2.PathTo(cl)
			}
		}
	}
	r.ObPath("C14.R4.once", "streamCore.close closes its shutdown channel at most once", p.Position(closes[0].B.Nodes[closes[0].I].Pos()), ok, "clientStream.Receive calls close on every error return: a second Receive after the terminal result would close a closed channel (panic)", path)
}

// terminalOverwriteAllowed lists the writes of a terminal field that need no "unset" guard.
var terminalOverwriteAllowed = map[string]string{
	"http.(*serverStream).close": "the handler has returned: nothing reads the server-side terminal field afterwards, and the value only refuses later server-side calls",
}

// checkTerminalOverwrite decides C14.R3.overwrite.
func checkTerminalOverwrite(r *Run, p *Prog) {
	type spec struct{ pkg, recv, field string }
	n := 0
	for _, sp := range []spec{
		{"freighter/mock", "ServerStream", "receiveErr"},
		{"freighter/mock", "ClientStream", "receiveErr"},
		{"freighter/http", "streamCore", "peerCloseErr"},
	} {
		fld := p.FieldOf(sp.pkg, sp.recv, sp.field)
		if fld == nil {
			r.Undecide("C14.R3.overwrite: field %s.%s not found", sp.recv, sp.field)
			continue
		}
		for _, fn := range p.FuncsOfPkg(sp.pkg) {
			if fn.Body == nil || fn.Lit != nil {
				continue
			}
			c := p.CFG(fn)
			// edges on which the field is known to be nil
			unset := c.EdgesEstablishing(func(atom ast.Expr, val bool) bool {
				isF, trueMeansNil, ok := nilCompareField(fn, atom, fld)
				return ok && isF && val == trueMeansNil
			})
			seen := 0
			for _, b := range c.G.Blocks {
				if !b.Live {
					continue
				}
				for i, node := range b.Nodes {
					st, ok := node.(ast.Stmt)
					if !ok || !isStoreTo(fn, st, fld) {
						continue
					}
					n++
					seen++
					construct := fmt.Sprintf("write #%d of %s.%s in %s", seen, sp.recv, sp.field, fn.Name)
					if reason, ok := terminalOverwriteAllowed[fn.Name]; ok {
						r.ObTrivial("C14.R3.overwrite", construct, posOf(p, st), true, "tabled: "+reason)
						continue
					}
					good := false
					if len(unset) > 0 {
						_, vis := c.ReachAvoiding([]Point{c.Entry()}, unset, nil)
						good = !vis[Point{b, i}]
					}
					// a re-wrap of the value just stored (x.f = wrap(x.f)) keeps the result
					if as, ok := st.(*ast.AssignStmt); ok && len(as.Rhs) == 1 && !good {
						_ = as
					}
					r.Ob("C14.R3.overwrite", construct, posOf(p, st), good, "the terminal field can be written while it already holds the stream's terminal result: later Receive calls then return a different error than the first one did")
				}
			}
		}
	}
	if n < 6 {
		r.Undecide("C14.R3.overwrite: only %d writes of terminal fields found (expected >= 6)", n)
	}
}
