package main

import (
	"fmt"
	"go/ast"
	"go/token"
	"go/types"
	"sort"
	"strings"
)

func init() { checks["C04"] = checkC04 }

const idxMuClass = "cesium/internal/domain.index.mu"

func checkC04(r *Run) {
	r.Explanation = "Structural necessary conditions of 'deletes remove exactly the range; GC is invisible', decided on the CFG and lockset of the delete and GC entry points: (R1) cesium.DB.DeleteTimeRange deletes from an index channel only after every dependant's HasDataFor(tr) returned (false, nil) for the same range, inspects every other unary channel unless it is the channel itself or not indexed by it, and holds DB.mu exclusively across the test and the delete (writer opens take it shared); (R2) domain.DB.Delete holds deleteLock for its whole body, holds idx.mu in write mode from the re-lock to the persist, and re-validates the remembered start/end pointers after re-locking; (R3) GarbageCollect closes idle writers and readers before any file is rewritten, garbageCollectFile touches no file when a reader handle is open or the writer pool refused, keeps the reader pool locked across the swap, and rejuvenates the file afterwards; unary delete/GC invalidate the offset cache on success."
	r.NotDecided = "The four approximation cases of calculateStartOffset/EndOffset, sample snapping and byte-offset arithmetic (runtime values); the offset-delta bookkeeping inside garbageCollectFile (which pointers moved by how much)."
	r.Trusted = []string{"go/types, go/cfg, lockset engine (see C09)"}
	r.Extra["module"] = "cesium"
	p, err := Load("cesium")
	if err != nil {
		r.Undecide("%v", err)
		return
	}
	r.Stats["packages"] = len(p.Repo)
	r.Rule("C04.R1.guard", "in cesium.DB.DeleteTimeRange the index channel's Delete is reachable only after the dependants loop, whose HasDataFor(tr) result must be (false, nil) to continue; the loop skips a channel only if it is the index itself or not indexed by it; DB.mu is held exclusively at the test and at the delete", 5)
	r.Rule("C04.R2.atomic", "domain.DB.Delete holds deleteLock (W) throughout, holds idx.mu (W) at every table store, at prepare and at the persist call, and after re-locking compares the remembered start and end pointers with the table before using their positions", 6)
	r.Rule("C04.R3.gc", "GarbageCollect runs gcWriters and gcReaders before any garbageCollectFile; garbageCollectFile performs no file mutation when prepareForGC refused or a reader handle is open, holds fc.readers across the swap, and calls rejuvenate after it on every success path", 6)
	r.Rule("C04.R5.roles", "in domain.validateDelete the start offset is compared with / clamped to only the start domain's length and the end offset only the end domain's (roles resolved from parameter positions and pointers[position].size definitions)", 4)
	r.Rule("C04.R4.cache", "unary.DB.delete and unary.DB.GarbageCollect invalidate the offset cache on every success path", 2)

	la := NewLockAnalysis(p, cesiumScope)
	la.Run()
	for _, u := range la.Unknown {
		r.Undecide("lockset: %s", u)
	}
	checkDeleteTimeRange(r, p, la)
	checkDomainDelete(r, p, la)
	checkGCExclusion(r, p, la)
	checkCacheInvalidate(r, p)
	checkDeleteRoles(r, p)
	checkGCRewriteLoop(r, p)
	checkReaderRegistration(r, p, la)
}

// checkReaderRegistration: garbage collection excludes readers by holding fc.readers while
// it swaps a file and by skipping files that have registered handles. That only works if a
// read handle is opened and registered inside one hold of fc.readers.
func checkReaderRegistration(r *Run, p *Prog, la *LockAnalysis) {
	const cls = "cesium/internal/domain.fileController.readers"
	n := 0
	for _, fn := range p.FuncsOfPkg(domainPkg) {
		if fn.Decl == nil || fn.Body == nil || recvName(fn.Decl) != "(*fileController)" {
			continue
		}
		inspectNoLit(fn.Body, func(x ast.Node) bool {
			call, ok := x.(*ast.CallExpr)
			if !ok || len(call.Args) != 2 {
				return true
			}
			f := CalleeFunc(fn, call)
			if f == nil || f.Name() != "Open" || f.Pkg() == nil || !strings.HasSuffix(f.Pkg().Path(), "x/io/fs") {
				return true
			}
			// read-only opens of a data file
			if v, isConst := constInt(fn, call.Args[1]); !isConst || v != 0 {
				return true
			}
			n++
			r.Ob("C04.R3.gc", "read handle opened in "+fn.Name+" under the reader pool lock", p.Position(call.Pos()), la.HeldAt(call, cls, ModeW),
				"a handle opened before fc.readers is taken is invisible to a garbage collection that swaps the file in between; it is then pooled and serves the old file at the new offsets")
			return true
		})
	}
	if n < 1 {
		r.Undecide("C04.R3: no read-only FS.Open found in fileController (reader registration lost its anchor)")
	}
}

// checkGCRewriteLoop: the loop of garbageCollectFile that rewrites pointer offsets visits
// every pointer of the index. Between the copy phase and this loop a concurrent Delete may
// split a pointer into several (the comment in the code says so), so the number of
// pointers to rewrite is not known in advance: any early exit strands later pointers at
// their old offsets in the compacted file.
func checkGCRewriteLoop(r *Run, p *Prog) {
	gcf := p.Func(domainPkg, "DB", "garbageCollectFile")
	if gcf == nil {
		r.Undecide("C04.R3: garbageCollectFile not found")
		return
	}
	n := 0
	var visit func(fn *FuncNode)
	visit = func(fn *FuncNode) {
		ast.Inspect(fn.Body, func(x ast.Node) bool {
			rng, ok := x.(*ast.RangeStmt)
			if !ok {
				return true
			}
			if !strings.HasSuffix(types.ExprString(rng.X), "mu.pointers") {
				return true
			}
			writesOffset := false
			ast.Inspect(rng.Body, func(y ast.Node) bool {
				if as, ok := y.(*ast.AssignStmt); ok {
					for _, l := range as.Lhs {
						if sel, ok := ast.Unparen(l).(*ast.SelectorExpr); ok && sel.Sel.Name == "offset" {
							writesOffset = true
						}
					}
				}
				return true
			})
			if !writesOffset {
				return true
			}
			n++
			early := ""
			depth := 0
			var walk func(y ast.Node) bool
			walk = func(y ast.Node) bool {
				switch v := y.(type) {
				case *ast.FuncLit:
					return false
				case *ast.ForStmt, *ast.RangeStmt, *ast.SwitchStmt, *ast.SelectStmt, *ast.TypeSwitchStmt:
					if y != ast.Node(rng) {
						depth++
						ast.Inspect(childBody(v), walk)
						depth--
						return false
					}
				case *ast.BranchStmt:
					if (v.Tok == token.BREAK && (depth == 0 || v.Label != nil)) || v.Tok == token.GOTO {
						early = "break at " + posOf(p, v)
					}
				case *ast.ReturnStmt:
					early = "return at " + posOf(p, v)
				}
				return true
			}
			ast.Inspect(rng.Body, walk)
			r.Ob("C04.R3.gc", "the offset rewrite loop of garbageCollectFile visits every pointer", p.Position(rng.Pos()), early == "", "early exit ("+early+"): pointers split by a concurrent Delete after the copy phase are not counted, later pointers keep offsets into the old file layout")
			return true
		})
	}
	visit(gcf)
	if n == 0 {
		r.Undecide("C04.R3: the offset rewrite loop over idx.mu.pointers was not found in garbageCollectFile")
	}
}

func childBody(n ast.Node) ast.Node {
	switch v := n.(type) {
	case *ast.ForStmt:
		return v.Body
	case *ast.RangeStmt:
		return v.Body
	case *ast.SwitchStmt:
		return v.Body
	case *ast.SelectStmt:
		return v.Body
	case *ast.TypeSwitchStmt:
		return v.Body
	}
	return n
}

// checkDeleteRoles decides C04.R5: validateDelete receives (startPosition, endPosition,
// startOffset, endOffset) and derives one length from pointers[startPosition] and one from
// pointers[endPosition]. An offset is a byte count inside *its own* domain: comparing the
// start offset with the end domain's length (or vice versa) confuses two domains of
// different sizes. Roles are resolved through parameter positions and definitions, not
// names.
func checkDeleteRoles(r *Run, p *Prog) {
	fn := p.Func("cesium/internal/domain", "", "validateDelete")
	if fn == nil {
		r.Undecide("C04.R5: domain.validateDelete not found")
		return
	}
	posRole := map[types.Object]int{}
	offRole := map[types.Object]int{}
	var ints, ptrs []types.Object
	for i := 0; ; i++ {
		po := paramObj(fn, i)
		if po == nil {
			break
		}
		switch t := po.Type().Underlying().(type) {
		case *types.Basic:
			if t.Info()&types.IsInteger != 0 {
				ints = append(ints, po)
			}
		case *types.Pointer:
			if b, ok := t.Elem().Underlying().(*types.Basic); ok && b.Info()&types.IsInteger != 0 {
				ptrs = append(ptrs, po)
			}
		}
	}
	if len(ints) != 2 || len(ptrs) != 2 {
		r.Undecide("C04.R5: validateDelete no longer takes two positions and two offset pointers (%d, %d)", len(ints), len(ptrs))
		return
	}
	names := []string{"start", "end"}
	for i := range ints {
		posRole[ints[i]] = i
		offRole[ptrs[i]] = i
	}
	// lengths: variables defined from <..>.pointers[<position>].size
	lenRole := map[types.Object]int{}
	roleOfLenExpr := func(e ast.Expr) (int, bool) {
		found, role := false, 0
		ast.Inspect(e, func(x ast.Node) bool {
			sel, ok := x.(*ast.SelectorExpr)
			if !ok || sel.Sel.Name != "size" {
				return true
			}
			if ix, ok := ast.Unparen(sel.X).(*ast.IndexExpr); ok {
				if ro, ok := posRole[objOf(fn, ix.Index)]; ok {
					found, role = true, ro
				}
			}
			return true
		})
		return role, found
	}
	inspectNoLit(fn.Body, func(x ast.Node) bool {
		as, ok := x.(*ast.AssignStmt)
		if !ok || len(as.Lhs) != len(as.Rhs) {
			return true
		}
		for i, l := range as.Lhs {
			if o := objOf(fn, l); o != nil {
				if ro, ok := roleOfLenExpr(as.Rhs[i]); ok {
					if _, isOff := offRole[o]; !isOff {
						lenRole[o] = ro
					}
				}
			}
		}
		return true
	})
	side := func(e ast.Expr) (kind string, role int, ok bool) {
		e = ast.Unparen(e)
		if st, isStar := e.(*ast.StarExpr); isStar {
			if ro, ok := offRole[objOf(fn, st.X)]; ok {
				return "offset", ro, true
			}
		}
		if o := objOf(fn, e); o != nil {
			if ro, ok := lenRole[o]; ok {
				return "length", ro, true
			}
		}
		if ro, ok := roleOfLenExpr(e); ok {
			if _, isCall := e.(*ast.CallExpr); isCall || true {
				return "length", ro, true
			}
		}
		return "", 0, false
	}
	n := 0
	seen := map[string]int{}
	inspectNoLit(fn.Body, func(x ast.Node) bool {
		be, ok := x.(*ast.BinaryExpr)
		if !ok {
			return true
		}
		switch be.Op {
		case token.EQL, token.NEQ, token.LSS, token.GTR, token.LEQ, token.GEQ:
		default:
			return true
		}
		lk, lr, lok := side(be.X)
		rk, rr, rok := side(be.Y)
		if !lok || !rok || lk == rk {
			return true
		}
		n++
		key := fmt.Sprintf("validateDelete compares the %s offset with the %s domain's length (%s)", names[map[bool]int{true: lr, false: rr}[lk == "offset"]], names[map[bool]int{true: rr, false: lr}[lk == "offset"]], be.Op)
		seen[key]++
		if seen[key] > 1 {
			key = fmt.Sprintf("%s #%d", key, seen[key])
		}
		r.Ob("C04.R5.roles", key, posOf(p, be), lr == rr, "an offset is a byte count inside its own domain; "+types.ExprString(be)+" relates it to the other domain's length, which differs whenever the two domains have different sizes")
		return true
	})
	// the same discipline for assignments *off = len (clamps)
	inspectNoLit(fn.Body, func(x ast.Node) bool {
		as, ok := x.(*ast.AssignStmt)
		if !ok || len(as.Lhs) != 1 || len(as.Rhs) != 1 {
			return true
		}
		lk, lr, lok := side(as.Lhs[0])
		rk, rr, rok := side(as.Rhs[0])
		if lok && rok && lk == "offset" && rk == "length" {
			n++
			r.Ob("C04.R5.roles", fmt.Sprintf("validateDelete clamps the %s offset to the %s domain's length", names[lr], names[rr]), posOf(p, as), lr == rr, "clamped to the other domain's length")
		}
		return true
	})
	if n < 4 {
		r.Undecide("C04.R5: only %d offset/length relations found in validateDelete (expected at least 4)", n)
	}
}

func checkDeleteTimeRange(r *Run, p *Prog, la *LockAnalysis) {
	fn := p.Func("cesium", "DB", "DeleteTimeRange")
	hasData := p.Func("cesium/internal/unary", "DB", "HasDataFor")
	udel := p.Func("cesium/internal/unary", "DB", "Delete")
	if fn == nil || hasData == nil || udel == nil {
		r.Undecide("C04.R1: DeleteTimeRange / unary.HasDataFor / unary.Delete not resolved")
		return
	}
	c := p.CFG(fn)
	hcalls := CallsIn(fn, calleeIs(hasData))
	dcalls := CallsIn(fn, calleeIs(udel))
	if len(hcalls) != 1 || len(dcalls) < 2 {
		r.Ob("C04.R1.guard", "DeleteTimeRange tests dependants and deletes data and index channels", p.Position(fn.Pos()), false, fmt.Sprintf("HasDataFor calls=%d, unary Delete calls=%d (expected 1 and 2)", len(hcalls), len(dcalls)))
		return
	}
	h := hcalls[0]
	hp, _ := c.Locate(h)
	// the index delete is the Delete call reachable from the HasDataFor call
	_, fromH := c.ReachAvoiding([]Point{hp}, nil, nil)
	var idxDel *ast.CallExpr
	for _, d := range dcalls {
		if dp, ok := c.Locate(d); ok && fromH[dp] {
			idxDel = d
		}
	}
	if idxDel == nil {
		r.Ob("C04.R1.guard", "index delete follows the dependants test", p.Position(h.Pos()), false, "no unary Delete is reachable after the HasDataFor test: the guard protects nothing")
		return
	}
	dp, _ := c.Locate(idxDel)
	// (a) precedes on every path
	q, vis := c.ReachAvoiding([]Point{c.Entry()}, nil, func(n ast.Node) bool { return false })
	_ = q
	_ = vis
	// results of HasDataFor
	var okVar, errVar types.Object
	inspectNoLit(fn.Body, func(n ast.Node) bool {
		if as, ok := n.(*ast.AssignStmt); ok && len(as.Rhs) == 1 && ast.Unparen(as.Rhs[0]) == h && len(as.Lhs) == 2 {
			okVar, errVar = objOf(fn, as.Lhs[0]), objOf(fn, as.Lhs[1])
		}
		return true
	})
	if okVar == nil || errVar == nil {
		r.Ob("C04.R1.guard", "HasDataFor results are bound", p.Position(h.Pos()), false, "the (hasData, err) results are not both bound to variables")
		return
	}
	// edges that establish "no data": hasOverlap == false ; and err == nil
	noData := c.EdgesEstablishing(func(atom ast.Expr, val bool) bool {
		return !val && objOf(fn, atom) == okVar
	})
	noErr := errNilEdges(c, errVar)
	for name, edges := range map[string]map[edge]bool{"hasData==false": noData, "err==nil": noErr} {
		q, vis := c.ReachAvoiding([]Point{hp}, edges, func(n ast.Node) bool { return contains(n, h) })
		var path []string
		if vis[dp] {
			path = q.PathTo(dp)
		}
		r.ObPath("C04.R1.guard", "index Delete is reachable from the dependants test only across "+name, p.Position(idxDel.Pos()), len(edges) > 0 && !vis[dp], "deleting index timestamps a data channel still uses makes that data unreadable", path)
	}
	// (b) the range passed is the same parameter
	trParam := paramNamed(fn, "tr")
	sameTr := trParam != nil && len(h.Args) == 2 && objOf(fn, h.Args[1]) == trParam && len(idxDel.Args) == 2 && objOf(fn, idxDel.Args[1]) == trParam
	r.Ob("C04.R1.guard", "the dependants test and the index delete use the same time range", p.Position(h.Pos()), sameTr, "HasDataFor(ctx, tr) and Delete(ctx, tr) must see the caller's tr")
	// (c) the only ways to skip a channel in the dependants loop: it is the index itself, or it is not indexed by it
	var loop *ast.RangeStmt
	ast.Inspect(fn.Body, func(n ast.Node) bool {
		if rs, ok := n.(*ast.RangeStmt); ok && contains(rs.Body, h) {
			loop = rs // innermost wins (visited last)
		}
		return true
	})
	if loop == nil {
		r.Ob("C04.R1.guard", "dependants are enumerated by a loop over the unary channels", p.Position(h.Pos()), false, "HasDataFor is not inside a range loop")
	} else {
		unaryField := p.FieldOf("cesium", "DB", "mu.dbs.unary")
		overUnary := false
		if sel, ok := ast.Unparen(loop.X).(*ast.SelectorExpr); ok && fieldVar(fn, sel) == unaryField {
			overUnary = true
		}
		// from the loop body entry, reach the loop head again without calling HasDataFor and without a legitimate skip edge
		var head, body *Point
		for _, b := range c.G.Blocks {
			if b.Stmt == loop && b.Kind.String() == "RangeLoop" {
				head = &Point{b, -1}
				if len(b.Succs) > 0 {
					body = &Point{b.Succs[0], -1}
				}
			}
		}
		keyVar := objOf(fn, loop.Key)
		var idxKeyVar types.Object // the outer loop's channel variable
		ast.Inspect(fn.Body, func(n ast.Node) bool {
			if rs, ok := n.(*ast.RangeStmt); ok && rs != loop && contains(rs.Body, loop) {
				idxKeyVar = objOf(fn, rs.Value)
			}
			return true
		})
		legit := func(atom ast.Expr) bool {
			be, ok := ast.Unparen(atom).(*ast.BinaryExpr)
			if !ok || idxKeyVar == nil || !exprMentions(fn, be, idxKeyVar) {
				return false
			}
			// otherDBKey == ch   |   otherDB.Channel().Index != ch
			if be.Op == token.EQL && keyVar != nil && exprMentions(fn, be, keyVar) {
				return true
			}
			if be.Op == token.NEQ {
				isIndexSel := false
				ast.Inspect(be, func(x ast.Node) bool {
					if s, ok := x.(*ast.SelectorExpr); ok && s.Sel.Name == "Index" {
						isIndexSel = true
					}
					return true
				})
				return isIndexSel
			}
			return false
		}
		skip := c.TrueEdgesOfDisjunctionOf(legit)
		for e := range c.EdgesEstablishing(func(atom ast.Expr, val bool) bool { return val && legit(atom) }) {
			skip[e] = true
		}
		// the same test extracted into a package-local predicate "is a dependant of ch": its
		// false result is "the index itself or not indexed by it" when every conjunct of its
		// one return, negated, is one of the two legitimate atoms (parameters stand for the
		// arguments)
		legitIn := func(h *FuncNode, idx, key types.Object, atom ast.Expr) bool {
			be, ok := ast.Unparen(atom).(*ast.BinaryExpr)
			if !ok || idx == nil || !exprMentions(h, be, idx) {
				return false
			}
			switch be.Op {
			case token.NEQ: // negated: ==
				return key != nil && exprMentions(h, be, key)
			case token.EQL: // negated: !=
				isIndexSel := false
				ast.Inspect(be, func(x ast.Node) bool {
					if sl, ok := x.(*ast.SelectorExpr); ok && sl.Sel.Name == "Index" {
						isIndexSel = true
					}
					return true
				})
				return isIndexSel
			}
			return false
		}
		for e := range c.EdgesEstablishing(func(atom ast.Expr, val bool) bool {
			call, ok := ast.Unparen(atom).(*ast.CallExpr)
			if !ok || val {
				return false
			}
			h := p.ByObj[CalleeFunc(fn, call)]
			if h == nil || h.Body == nil || h.Pkg != fn.Pkg || len(h.Body.List) != 1 {
				return false
			}
			ret, ok := h.Body.List[0].(*ast.ReturnStmt)
			if !ok || len(ret.Results) != 1 {
				return false
			}
			var hIdx, hKey types.Object
			for i, a := range call.Args {
				switch objOf(fn, a) {
				case idxKeyVar:
					hIdx = paramObj(h, i)
				case keyVar:
					hKey = paramObj(h, i)
				}
			}
			for _, cj := range conjuncts(ret.Results[0]) {
				if !legitIn(h, hIdx, hKey, cj) {
					return false
				}
			}
			return hIdx != nil
		}) {
			skip[e] = true
		}
		ok := overUnary && head != nil && body != nil
		var path []string
		if ok {
			q, vis := c.ReachAvoiding([]Point{*body}, skip, func(n ast.Node) bool { return contains(n, h) })
			// reaching the head block again means an iteration ended without the test
			for pt := range vis {
				if pt.B == head.B {
					ok = false
					path = q.PathTo(pt)
				}
			}
		}
		r.ObPath("C04.R1.guard", "the dependants loop ranges over every unary channel and skips only the index itself or channels it does not index", p.Position(loop.Pos()), ok, "any other way to finish an iteration leaves a dependant untested", path)
	}
	// (e) exclusivity
	r.Ob("C04.R1.guard", "DB.mu is held exclusively at the dependants test and at the index delete", p.Position(h.Pos()), la.HeldAt(h, "cesium.DB.mu", ModeW) && la.HeldAt(idxDel, "cesium.DB.mu", ModeW), "writer opens take DB.mu shared: under a shared lock a writer on a dependant can open and commit between the test and the delete")
}

func checkDomainDelete(r *Run, p *Prog, la *LockAnalysis) {
	fn := p.Func(domainPkg, "DB", "Delete")
	prepare := p.Func(domainPkg, "indexPersist", "prepare")
	search := p.Func(domainPkg, "index", "unprotectedSearch")
	if fn == nil || prepare == nil || search == nil {
		r.Undecide("C04.R2: domain.DB.Delete / prepare / unprotectedSearch not resolved")
		return
	}
	c := p.CFG(fn)
	ptrField := p.FieldOf(domainPkg, "index", "mu.pointers")
	const dl = "cesium/internal/domain.index.deleteLock"
	// deleteLock at every search, resolver call, store and the persist
	nodes := c.NodesWhere(func(n ast.Node) bool {
		if isStoreTo(fn, n, ptrField) {
			return true
		}
		return nodeHasCall(fn, n, func(o types.Object, call *ast.CallExpr) bool {
			if IsFunc(o, search) || IsFunc(o, prepare) {
				return true
			}
			_, isVar := o.(*types.Var) // offset resolvers (parameters) and the persist closure
			return isVar
		})
	})
	okDL := len(nodes) >= 6
	bad := ""
	for _, pt := range nodes {
		n := pt.B.Nodes[pt.I]
		if !la.HeldAtNode(n, dl, ModeW) {
			okDL = false
			bad = p.Position(n.Pos())
		}
	}
	r.Ob("C04.R2.atomic", "deleteLock (W) is held at every search, offset resolution, table store and persist in Delete", p.Position(fn.Pos()), okDL, fmt.Sprintf("%d site(s) examined %s", len(nodes), bad))
	// idx.mu W at stores, prepare and the persist call
	stores := c.NodesWhere(func(n ast.Node) bool { return isStoreTo(fn, n, ptrField) })
	okW := len(stores) >= 2
	for _, s := range stores {
		if !la.HeldAtNode(s.B.Nodes[s.I], idxMuClass, ModeW) {
			okW = false
		}
	}
	r.Ob("C04.R2.atomic", "every splice of the pointer table in Delete holds idx.mu (W)", p.Position(fn.Pos()), okW, fmt.Sprintf("%d store(s)", len(stores)))
	pcalls := CallsIn(fn, calleeIs(prepare))
	okP := len(pcalls) == 1 && la.HeldAt(pcalls[0], idxMuClass, ModeW)
	r.Ob("C04.R2.atomic", "prepare in Delete runs under idx.mu (W)", p.Position(fn.Pos()), okP, "the persisted snapshot must be the spliced table")
	// the persist closure is called under the same lock section
	okPersist := false
	inspectNoLit(fn.Body, func(n ast.Node) bool {
		call, ok := n.(*ast.CallExpr)
		if !ok {
			return true
		}
		if v, ok := Callee(fn, call).(*types.Var); ok {
			if rhs, _, ok := varDefinedBy(fn, v); ok {
				if pc, ok := ast.Unparen(rhs).(*ast.CallExpr); ok && IsFunc(Callee(fn, pc), prepare) {
					okPersist = la.HeldAt(call, idxMuClass, ModeW)
				}
			}
		}
		return true
	})
	r.Ob("C04.R2.atomic", "the index persist in Delete runs before idx.mu is released", p.Position(fn.Pos()), okPersist, "a reader between unlock and persist is harmless, but a second delete could persist an older snapshot after a newer one")
	// success exits after a store all pass the persist
	if len(stores) > 0 {
		_, vis := c.ReachAvoiding([]Point{stores[0]}, nil, func(n ast.Node) bool {
			return nodeHasCall(fn, n, func(o types.Object, call *ast.CallExpr) bool {
				v, ok := o.(*types.Var)
				if !ok {
					return false
				}
				rhs, _, ok := varDefinedBy(fn, v)
				if !ok {
					return false
				}
				pc, ok := ast.Unparen(rhs).(*ast.CallExpr)
				return ok && IsFunc(Callee(fn, pc), prepare)
			})
		})
		okExit := true
		for _, ex := range c.Exits() {
			if vis[ex.P] {
				okExit = false
				if ex.Return != nil && nodeHasCall(fn, ex.Return, func(o types.Object, _ *ast.CallExpr) bool { _, isVar := o.(*types.Var); return isVar }) {
					okExit = true // the return itself is the persist call
				}
			}
		}
		r.Ob("C04.R2.atomic", "after splicing the table every exit of Delete goes through the persist", p.Position(fn.Pos()), okExit, "returning without persisting leaves the deleted range readable after reopen")
	}
	// repêchage
	var lockCall *ast.CallExpr
	nRUnlockBefore := 0
	inspectNoLit(fn.Body, func(n ast.Node) bool {
		if call, ok := n.(*ast.CallExpr); ok {
			if op, h, ok := la.lockOp(fn, call); ok && h.Class == idxMuClass {
				if op == "Lock" {
					lockCall = call
				}
				if op == "RUnlock" && lockCall == nil {
					nRUnlockBefore++
				}
			}
		}
		return true
	})
	if lockCall == nil {
		r.Ob("C04.R2.atomic", "Delete takes idx.mu exclusively", p.Position(fn.Pos()), false, "no idx.mu.Lock() in Delete")
		return
	}
	if nRUnlockBefore == 0 {
		r.Ob("C04.R2.atomic", "remembered positions are re-validated after re-locking", p.Position(lockCall.Pos()), true, "idx.mu is never released between the lookups and the splice: nothing to re-validate")
		return
	}
	// variables holding the remembered pointers: locals of type pointer assigned from pointers[i]
	remembered := map[types.Object]bool{}
	inspectNoLit(fn.Body, func(n ast.Node) bool {
		as, ok := n.(*ast.AssignStmt)
		if !ok || len(as.Lhs) != 1 || len(as.Rhs) != 1 {
			return true
		}
		if ix, ok := ast.Unparen(as.Rhs[0]).(*ast.IndexExpr); ok {
			if sel, ok := ast.Unparen(ix.X).(*ast.SelectorExpr); ok && fieldVar(fn, sel) == ptrField {
				if o := objOf(fn, as.Lhs[0]); o != nil {
					remembered[o] = true
				}
			}
		}
		return true
	})
	lp, _ := c.Locate(lockCall)
	compared := map[types.Object]bool{}
	_, after := c.ReachAvoiding([]Point{lp}, nil, func(n ast.Node) bool { return isStoreTo(fn, n, ptrField) })
	for pt := range after {
		if pt.I < 0 || pt.I >= len(pt.B.Nodes) {
			continue
		}
		e, ok := pt.B.Nodes[pt.I].(ast.Expr)
		if !ok {
			continue
		}
		be, ok := ast.Unparen(e).(*ast.BinaryExpr)
		if !ok || (be.Op != token.NEQ && be.Op != token.EQL) {
			continue
		}
		for o := range remembered {
			if exprMentions(fn, be, o) {
				usesTable := false
				ast.Inspect(be, func(x ast.Node) bool {
					if sel, ok := x.(*ast.SelectorExpr); ok && fieldVar(fn, sel) == ptrField {
						usesTable = true
					}
					return true
				})
				if usesTable {
					compared[o] = true
				}
			}
		}
	}
	r.Ob("C04.R2.atomic", "remembered positions are re-validated after re-locking", p.Position(lockCall.Pos()), len(remembered) >= 2 && len(compared) == len(remembered),
		fmt.Sprintf("%d remembered pointer(s), %d compared with the table between the re-lock and the first splice", len(remembered), len(compared)))
	// ... and on every path: no store to the table is reachable from the re-lock without
	// passing the comparison of that remembered pointer
	isCompareOf := func(o types.Object) func(ast.Node) bool {
		return func(n ast.Node) bool {
			e, ok := n.(ast.Expr)
			if !ok {
				return false
			}
			hit := false
			ast.Inspect(e, func(x ast.Node) bool {
				be, ok := x.(*ast.BinaryExpr)
				if !ok || (be.Op != token.NEQ && be.Op != token.EQL) || !exprMentions(fn, be, o) {
					return true
				}
				ast.Inspect(be, func(y ast.Node) bool {
					if sel, ok := y.(*ast.SelectorExpr); ok && fieldVar(fn, sel) == ptrField {
						hit = true
					}
					return true
				})
				return true
			})
			return hit
		}
	}
	var names []string
	byName := map[string]types.Object{}
	for o := range remembered {
		names = append(names, o.Name())
		byName[o.Name()] = o
	}
	sort.Strings(names)
	for _, nm := range names {
		o := byName[nm]
		q, vis := c.ReachAvoiding([]Point{lp}, nil, isCompareOf(o))
		var path []string
		for pt := range vis {
			if pt.I >= 0 && pt.I < len(pt.B.Nodes) && isStoreTo(fn, pt.B.Nodes[pt.I], ptrField) {
				path = q.PathTo(pt)
			}
		}
		r.ObPath("C04.R2.atomic", "every path from the re-lock to the splice re-validates the remembered pointer '"+nm+"'", p.Position(lockCall.Pos()), path == nil,
			"an insert between the unlocked lookups and the re-lock moves this position; splicing at the stale position removes or keeps the wrong domain", path)
	}
}

func checkGCExclusion(r *Run, p *Prog, la *LockAnalysis) {
	gc := p.Func(domainPkg, "DB", "GarbageCollect")
	gcf := p.Func(domainPkg, "DB", "garbageCollectFile")
	gcw := p.Func(domainPkg, "fileController", "gcWriters")
	gcr := p.Func(domainPkg, "fileController", "gcReaders")
	prep := p.Func(domainPkg, "fileController", "prepareForGC")
	rej := p.Func(domainPkg, "fileController", "rejuvenate")
	if gc == nil || gcf == nil || gcw == nil || gcr == nil || prep == nil || rej == nil {
		r.Undecide("C04.R3: GC functions not resolved")
		return
	}
	c := p.CFG(gc)
	fcalls := callsReaching(p, gc, gcf)
	if len(fcalls) == 0 {
		r.Undecide("C04.R3: GarbageCollect does not call garbageCollectFile")
		return
	}
	fp, _ := c.Locate(fcalls[0])
	for _, pre := range []*FuncNode{gcw, gcr} {
		calls := CallsIn(gc, calleeIs(pre))
		if len(calls) == 0 {
			r.Ob("C04.R3.gc", pre.Name+" runs before any file is rewritten", p.Position(gc.Pos()), false, "not called in GarbageCollect")
			continue
		}
		path, why := c.succeededBefore(calls[0], fp)
		r.ObPath("C04.R3.gc", pre.Name+" runs (and succeeds) before any file is rewritten", p.Position(calls[0].Pos()), path == nil, why, path)
	}
	// garbageCollectFile
	cf := p.CFG(gcf)
	isMutation := func(n ast.Node) bool {
		return nodeHasCall(gcf, n, func(o types.Object, call *ast.CallExpr) bool {
			if isFSRename(o, call) || isFSRemove(o, call) {
				return true
			}
			if isFSOpen(o, call) && len(call.Args) == 2 {
				if fl, ok := constInt(gcf, call.Args[1]); ok && fl&writeFlags != 0 {
					return true
				}
			}
			return false
		}) || func() bool {
			// the rename closure is an immediately invoked literal
			hit := false
			ast.Inspect(n, func(x ast.Node) bool {
				if lit, ok := x.(*ast.FuncLit); ok {
					ln := p.LitNode(lit)
					if ln != nil && len(p.CallsDeep(ln, func(o types.Object, c *ast.CallExpr) bool { return isFSRename(o, c) })) > 0 {
						hit = true
					}
				}
				return true
			})
			return hit
		}()
	}
	muts := cf.NodesWhere(isMutation)
	if len(muts) < 3 {
		r.Undecide("C04.R3: only %d file mutations found in garbageCollectFile", len(muts))
	}
	// (1) prepareForGC refused => nothing touched
	pcalls := CallsIn(gcf, calleeIs(prep))
	if len(pcalls) != 1 {
		r.Ob("C04.R3.gc", "garbageCollectFile asks the writer pool first", p.Position(gcf.Pos()), false, fmt.Sprintf("%d prepareForGC calls", len(pcalls)))
	} else {
		var canGC types.Object
		inspectNoLit(gcf.Body, func(n ast.Node) bool {
			if as, ok := n.(*ast.AssignStmt); ok && len(as.Rhs) == 1 && ast.Unparen(as.Rhs[0]) == pcalls[0] {
				canGC = objOf(gcf, as.Lhs[0])
			}
			return true
		})
		allowed := cf.EdgesEstablishing(func(atom ast.Expr, val bool) bool { return val && canGC != nil && objOf(gcf, atom) == canGC })
		q, vis := cf.ReachAvoiding([]Point{cf.Entry()}, allowed, nil)
		ok := len(allowed) > 0
		var path []string
		for _, m := range muts {
			if vis[m] {
				ok = false
				path = q.PathTo(m)
			}
		}
		r.ObPath("C04.R3.gc", "no file mutation in garbageCollectFile unless prepareForGC allowed it", p.Position(pcalls[0].Pos()), ok, "rewriting a file a writer holds open corrupts the writer's appends", path)
	}
	// (2) open reader handle => nothing touched: explore only paths on which len(rs.open) > 0 may hold
	openField := p.FieldOf(domainPkg, "fileReaders", "open")
	noReaders := cf.EdgesEstablishing(func(atom ast.Expr, val bool) bool {
		be, ok := ast.Unparen(atom).(*ast.BinaryExpr)
		if !ok {
			return false
		}
		usesOpen := false
		ast.Inspect(be, func(x ast.Node) bool {
			if sel, ok := x.(*ast.SelectorExpr); ok && fieldVar(gcf, sel) == openField {
				usesOpen = true
			}
			return true
		})
		if !usesOpen {
			return false
		}
		// len(rs.open) > 0 false  |  len(rs.open) == 0 true
		return (be.Op == token.GTR && !val) || (be.Op == token.NEQ && !val) || (be.Op == token.EQL && val)
	})
	// also the "no entry for this file" edge
	var okVar types.Object
	filesField := p.FieldOf(domainPkg, "fileController", "readers.files")
	inspectNoLit(gcf.Body, func(n ast.Node) bool {
		if as, ok := n.(*ast.AssignStmt); ok && len(as.Lhs) == 2 && len(as.Rhs) == 1 {
			if ix, ok := ast.Unparen(as.Rhs[0]).(*ast.IndexExpr); ok {
				if sel, ok := ast.Unparen(ix.X).(*ast.SelectorExpr); ok && fieldVar(gcf, sel) == filesField {
					okVar = objOf(gcf, as.Lhs[1])
				}
			}
		}
		return true
	})
	for e := range cf.EdgesEstablishing(func(atom ast.Expr, val bool) bool { return !val && okVar != nil && objOf(gcf, atom) == okVar }) {
		noReaders[e] = true
	}
	{
		q, vis := cf.ReachAvoiding([]Point{cf.Entry()}, noReaders, nil)
		ok := len(noReaders) >= 2
		var path []string
		for _, m := range muts {
			if vis[m] {
				ok = false
				path = q.PathTo(m)
			}
		}
		r.ObPath("C04.R3.gc", "no file mutation in garbageCollectFile while a reader handle is open on the file", p.Position(gcf.Pos()), ok, "an open handle keeps reading the old inode with the new offsets", path)
	}
	// (3) fc.readers held at the renames
	renames := p.CallsDeep(gcf, func(o types.Object, c *ast.CallExpr) bool { return isFSRename(o, c) })
	okHeld := len(renames) == 2
	for _, rn := range renames {
		if !la.HeldAt(rn.Call, "cesium/internal/domain.fileController.readers", ModeR) {
			okHeld = false
		}
	}
	r.Ob("C04.R3.gc", "fc.readers stays locked from the open-handle test to the file swap", p.Position(gcf.Pos()), okHeld, "a reader created in between would open the file that is about to be replaced")
	// (4) rejuvenate after the swap on every success path
	rcalls := CallsIn(gcf, calleeIs(rej))
	if len(rcalls) == 0 {
		r.Ob("C04.R3.gc", "rejuvenate follows the swap", p.Position(gcf.Pos()), false, "rejuvenate is not called")
	} else {
		var swap *Point
		for _, m := range muts {
			n := m.B.Nodes[m.I]
			hasLit := false
			ast.Inspect(n, func(x ast.Node) bool {
				if _, ok := x.(*ast.FuncLit); ok {
					hasLit = true
				}
				return true
			})
			if hasLit {
				mm := m
				swap = &mm
			}
		}
		ok := swap != nil
		var path []string
		if swap != nil {
			errEdges := cf.EdgesEstablishing(func(atom ast.Expr, val bool) bool {
				o, trueMeansNil, ok := nilCompare(gcf, atom)
				return ok && isErrorType(o.Type()) && val != trueMeansNil
			})
			q, vis := cf.ReachAvoiding([]Point{*swap}, errEdges, func(n ast.Node) bool { return contains(n, rcalls[0]) })
			for _, ex := range cf.Exits() {
				if vis[ex.P] && !(ex.Return != nil && contains(ex.Return, rcalls[0])) {
					ok = false
					path = q.PathTo(ex.P)
				}
			}
		}
		r.ObPath("C04.R3.gc", "every success path after the swap calls rejuvenate", p.Position(rcalls[0].Pos()), ok, "otherwise a pooled writer handle keeps appending to the replaced inode", path)
	}
}

func checkCacheInvalidate(r *Run, p *Prog) {
	inv := p.Func("cesium/internal/unary", "offsetResolver", "invalidate")
	if inv == nil {
		// find by name on any type in the package
		for _, fn := range p.FuncsOfPkg("cesium/internal/unary") {
			if fn.Decl != nil && fn.Decl.Name.Name == "invalidate" {
				inv = fn
			}
		}
	}
	if inv == nil {
		r.Undecide("C04.R4: resolver invalidate not found")
		return
	}
	for _, name := range []string{"delete", "GarbageCollect"} {
		fn := p.Func("cesium/internal/unary", "DB", name)
		if fn == nil {
			r.Undecide("C04.R4: unary.DB.%s not found", name)
			continue
		}
		c := p.CFG(fn)
		ok := true
		n := 0
		_, vis := c.ReachAvoiding([]Point{c.Entry()}, nil, func(x ast.Node) bool { return nodeHasCall(fn, x, calleeIs(inv)) })
		for _, ex := range c.Exits() {
			if ex.Return == nil || !vis[ex.P] {
				continue
			}
			// a return reached without invalidate must be an error return (not the literal nil)
			for _, res := range ex.Return.Results {
				if isNilIdent(fn, res) {
					ok = false
				}
			}
			n++
		}
		r.Ob("C04.R4.cache", "unary.DB."+name+" invalidates the offset cache before returning nil", p.Position(fn.Pos()), ok && len(CallsIn(fn, calleeIs(inv))) > 0, fmt.Sprintf("%d non-nil return(s) bypass the invalidation (error paths)", n))
	}
}
