package main

import (
	"crypto/sha1"
	"encoding/hex"
	"encoding/json"
	"fmt"
	"math/rand"
	"os"
	"path/filepath"
	"sort"
	"strings"
	"time"
)

var VerifRoot = func() string {
	if v := os.Getenv("VERIF_ROOT"); v != "" {
		return v
	}
	return "/verif"
}()

// Obligation is one (rule, construct) pair decided by a run.
type Obligation struct {
	Rule       string   `json:"rule"`
	Construct  string   `json:"construct"` // no line numbers: stable across unrelated edits
	Pos        string   `json:"pos"`       // file:line on this run, for the reader
	OK         bool     `json:"discharged"`
	Nontrivial bool     `json:"nontrivial"` // needed a path/lockset/flow/table argument
	Detail     string   `json:"detail,omitempty"`
	Path       []string `json:"path,omitempty"` // for path rules: the offending path
}

func (o Obligation) Key() string { return o.Rule + " | " + o.Construct }

type Run struct {
	Prop        string
	Tier        string
	Seed        int64
	Start       time.Time
	Obs         []Obligation
	Undecided   []string
	RuleText    map[string]string
	RuleMin     map[string]int
	Explanation string
	NotDecided  string
	Assumptions []string
	Trusted     []string
	Stats       map[string]int
	Extra       map[string]any
	seen        map[string]int
}

func NewRun(prop, tier string, seed int64) *Run {
	return &Run{Prop: prop, Tier: tier, Seed: seed, Start: time.Now(), RuleText: map[string]string{}, RuleMin: map[string]int{}, Stats: map[string]int{}, Extra: map[string]any{}, seen: map[string]int{}}
}

// Rule declares a rule: its text (what is required, why it is a necessary condition)
// and the minimum number of instances confirmed by hand on the pinned tree. Matching
// fewer instances means the rule lost its anchor and the run is undecided, not passed.
func (r *Run) Rule(id, text string, min int) {
	r.RuleText[id] = text
	r.RuleMin[id] = min
}

func (r *Run) add(o Obligation) {
	// construct keys must be unique per rule; number repeated ones deterministically
	k := o.Key()
	r.seen[k]++
	if n := r.seen[k]; n > 1 {
		o.Construct = fmt.Sprintf("%s #%d", o.Construct, n)
	}
	r.Obs = append(r.Obs, o)
}

// Ob records a decided obligation.
func (r *Run) Ob(rule, construct, pos string, ok bool, detail string) {
	r.add(Obligation{Rule: rule, Construct: construct, Pos: pos, OK: ok, Nontrivial: true, Detail: detail})
}

// ObTrivial records an obligation decided by bare existence / resolution.
func (r *Run) ObTrivial(rule, construct, pos string, ok bool, detail string) {
	r.add(Obligation{Rule: rule, Construct: construct, Pos: pos, OK: ok, Nontrivial: false, Detail: detail})
}

func (r *Run) ObPath(rule, construct, pos string, ok bool, detail string, path []string) {
	r.add(Obligation{Rule: rule, Construct: construct, Pos: pos, OK: ok, Nontrivial: true, Detail: detail, Path: path})
}

// Info records an observation that is reported (stderr, evidence "informational") but
// decides nothing: used for comparisons that are worth a reader's look yet would also
// differ after a behaviour-preserving rewrite, so they must not fail a run.
func (r *Run) Info(rule, construct, pos string, same bool, detail string) {
	list, _ := r.Extra["informational"].([]map[string]any)
	list = append(list, map[string]any{"rule": rule, "construct": construct, "pos": pos, "agrees": same, "detail": detail})
	r.Extra["informational"] = list
	if !same {
		fmt.Fprintf(os.Stderr, "NOTE property=%s rule=%s %s at %s: %s\n", r.Prop, rule, construct, pos, detail)
	}
}

// Undecide records that the machinery could not decide something (unresolved anchor,
// unknown idiom). The run then exits 2: broken, never "held".
func (r *Run) Undecide(format string, a ...any) {
	r.Undecided = append(r.Undecided, fmt.Sprintf(format, a...))
}

type KnownFinding struct {
	Property  string `json:"property"`
	Rule      string `json:"rule"`
	Construct string `json:"construct"`
	What      string `json:"what"`
	Status    string `json:"status"` // known | fixed
	Commit    string `json:"commit,omitempty"`
}

func loadKnown() ([]KnownFinding, error) {
	b, err := os.ReadFile(filepath.Join(VerifRoot, "known_findings.json"))
	if err != nil {
		if os.IsNotExist(err) {
			return nil, nil
		}
		return nil, err
	}
	var f struct {
		Findings []KnownFinding `json:"findings"`
	}
	if err := json.Unmarshal(b, &f); err != nil {
		return nil, err
	}
	return f.Findings, nil
}

func hashKey(s string) string {
	h := sha1.Sum([]byte(s))
	return hex.EncodeToString(h[:6])
}

// Finish writes evidence, prints the protocol lines and returns the exit code.
func (r *Run) Finish() int {
	// instance minimums
	counts := map[string]int{}
	for _, o := range r.Obs {
		counts[o.Rule]++
	}
	var rules []string
	for id := range r.RuleText {
		rules = append(rules, id)
	}
	sort.Strings(rules)
	for _, id := range rules {
		if counts[id] < r.RuleMin[id] {
			r.Undecide("rule %s matched %d instance(s), fewer than the %d confirmed by hand: anchor lost", id, counts[id], r.RuleMin[id])
		}
	}
	for _, o := range r.Obs {
		if _, ok := r.RuleText[o.Rule]; !ok {
			r.Undecide("obligation for undeclared rule %s", o.Rule)
		}
	}
	known, err := loadKnown()
	if err != nil {
		r.Undecide("known_findings.json unreadable: %v", err)
	}
	knownIdx := map[string]KnownFinding{}
	for _, k := range known {
		if k.Property == r.Prop && k.Status == "known" {
			knownIdx[k.Rule+" | "+k.Construct] = k
		}
	}
	sort.SliceStable(r.Obs, func(i, j int) bool { return r.Obs[i].Key() < r.Obs[j].Key() })
	var failed, knownHit []Obligation
	discharged, nontrivial := 0, map[string]bool{}
	for _, o := range r.Obs {
		if o.Nontrivial {
			nontrivial[o.Key()] = true
		}
		if o.OK {
			discharged++
			continue
		}
		if _, ok := knownIdx[o.Key()]; ok {
			knownHit = append(knownHit, o)
			continue
		}
		failed = append(failed, o)
	}
	outDir := filepath.Join(VerifRoot, "out", r.Prop)
	violations := 0
	for _, o := range knownHit {
		fmt.Printf("KNOWN-FINDING: property=%s %s [%s at %s] %s\n", r.Prop, knownIdx[o.Key()].What, o.Key(), o.Pos, o.Detail)
	}
	for _, o := range failed {
		violations++
		_ = os.MkdirAll(outDir, 0o755)
		path := filepath.Join(outDir, hashKey(o.Key())+".json")
		b, _ := json.MarshalIndent(map[string]any{"property": r.Prop, "obligation": o, "rule_text": r.RuleText[o.Rule], "module": r.Extra["module"]}, "", " ")
		_ = os.WriteFile(path, b, 0o644)
		fmt.Printf("FINDING property=%s rule=%s construct=%q at %s: %s\n", r.Prop, o.Rule, o.Construct, o.Pos, o.Detail)
		for _, s := range o.Path {
			fmt.Printf("    path: %s\n", s)
		}
		fmt.Printf("VIOLATION property=%s replay=%s\n", r.Prop, path)
	}
	for _, u := range r.Undecided {
		fmt.Fprintf(os.Stderr, "UNDECIDED property=%s %s\n", r.Prop, u)
	}
	r.writeEvidence(counts, discharged, len(nontrivial), failed, knownHit)
	fmt.Printf("property=%s tier=%s obligations=%d discharged=%d known=%d violations=%d undecided=%d wall=%.1fs\n",
		r.Prop, r.Tier, len(r.Obs), discharged, len(knownHit), violations, len(r.Undecided), time.Since(r.Start).Seconds())
	if violations > 0 {
		return 1
	}
	if len(r.Undecided) > 0 {
		return 2
	}
	return 0
}

func (r *Run) writeEvidence(counts map[string]int, discharged, nontrivial int, failed, knownHit []Obligation) {
	if r.Assumptions == nil {
		r.Assumptions = []string{}
	}
	if r.Trusted == nil {
		r.Trusted = []string{}
	}
	if r.Undecided == nil {
		r.Undecided = []string{}
	}
	rng := rand.New(rand.NewSource(r.Seed))
	var samples []any
	for _, o := range failed {
		samples = append(samples, map[string]any{"finding": o})
	}
	for _, o := range knownHit {
		samples = append(samples, map[string]any{"known_finding": o})
	}
	// a seed-chosen handful of discharged obligations, at least one per rule
	byRule := map[string][]Obligation{}
	for _, o := range r.Obs {
		if o.OK {
			byRule[o.Rule] = append(byRule[o.Rule], o)
		}
	}
	var rules []string
	for k := range byRule {
		rules = append(rules, k)
	}
	sort.Strings(rules)
	for _, k := range rules {
		l := byRule[k]
		n := 2
		if len(l) < n {
			n = len(l)
		}
		for _, i := range rng.Perm(len(l))[:n] {
			samples = append(samples, l[i])
		}
	}
	ruleTexts := map[string]string{}
	for k, v := range r.RuleText {
		ruleTexts[k] = v
	}
	cov := map[string]any{
		"explanation":         r.Explanation,
		"not_decided":         r.NotDecided,
		"rules":               ruleTexts,
		"rule_instances":      counts,
		"obligations":         len(r.Obs),
		"discharged":          discharged,
		"evaluations":         len(r.Obs),
		"distinct_nontrivial": nontrivial,
		"rule":                "one evaluation = one (rule, construct) obligation decided on the type-checked source of /repo on this run; distinct = distinct obligation key; non-trivial = its discharge needed a CFG path, lockset, dataflow or table-agreement argument (not a bare existence/resolution check)",
		"samples":             samples,
		"exhaustive":          true,
		"checker_cmd":         strings.Join(os.Args, " "),
		"trusted_base":        r.Trusted,
		"known_findings_hit":  len(knownHit),
		"undecided":           r.Undecided,
	}
	for k, v := range r.Stats {
		cov[k] = v
	}
	for k, v := range r.Extra {
		cov[k] = v
	}
	ev := map[string]any{
		"property_id": r.Prop,
		"tier":        r.Tier,
		"seed":        r.Seed,
		"level":       "other",
		"coverage":    cov,
		"assumptions": r.Assumptions,
		"wall_s":      time.Since(r.Start).Seconds(),
		"violations":  len(failed),
	}
	b, _ := json.MarshalIndent(ev, "", " ")
	// the matrix tools analyse deliberately modified trees: their runs must not replace
	// the evidence of the registered checks
	if dir := os.Getenv("VERIF_EVIDENCE_DIR"); dir != "" {
		_ = os.MkdirAll(dir, 0o755)
		_ = os.WriteFile(filepath.Join(dir, r.Prop+".json"), b, 0o644)
		return
	}
	_ = os.MkdirAll(filepath.Join(VerifRoot, "evidence"), 0o755)
	if err := os.WriteFile(filepath.Join(VerifRoot, "evidence", r.Prop+".json"), b, 0o644); err != nil {
		fmt.Fprintf(os.Stderr, "UNDECIDED property=%s cannot write evidence: %v\n", r.Prop, err)
	}
}
