package main

import (
	"go/ast"
	"go/types"
	"sort"
)

// RefSite is one syntactic use of a repository function: a call or a value reference
// (method value, callback).
type RefSite struct {
	From   *FuncNode
	Node   ast.Node
	IsCall bool
	Call   *ast.CallExpr // set when IsCall
}

// Refs indexes every use of every repository function object in the loaded program.
type Refs struct {
	P     *Prog
	ByObj map[*FuncNode][]RefSite
}

func (p *Prog) BuildRefs() *Refs {
	if p.refs != nil {
		return p.refs
	}
	r := &Refs{P: p, ByObj: map[*FuncNode][]RefSite{}}
	for _, fn := range p.Funcs {
		callFun := map[*ast.Ident]*ast.CallExpr{}
		inspectNoLit(fn.Body, func(n ast.Node) bool {
			if c, ok := n.(*ast.CallExpr); ok {
				switch f := ast.Unparen(c.Fun).(type) {
				case *ast.Ident:
					callFun[f] = c
				case *ast.SelectorExpr:
					callFun[f.Sel] = c
				case *ast.IndexExpr: // generic instantiation f[T](...)
					switch g := ast.Unparen(f.X).(type) {
					case *ast.Ident:
						callFun[g] = c
					case *ast.SelectorExpr:
						callFun[g.Sel] = c
					}
				case *ast.IndexListExpr:
					switch g := ast.Unparen(f.X).(type) {
					case *ast.Ident:
						callFun[g] = c
					case *ast.SelectorExpr:
						callFun[g.Sel] = c
					}
				}
			}
			return true
		})
		inspectNoLit(fn.Body, func(n ast.Node) bool {
			id, ok := n.(*ast.Ident)
			if !ok {
				return true
			}
			f, ok := fn.Pkg.TypesInfo.Uses[id].(*types.Func)
			if !ok {
				return true
			}
			target, ok := p.ByObj[f.Origin()]
			if !ok {
				return true
			}
			if c, isCall := callFun[id]; isCall {
				r.ByObj[target] = append(r.ByObj[target], RefSite{From: fn, Node: c, IsCall: true, Call: c})
			} else {
				r.ByObj[target] = append(r.ByObj[target], RefSite{From: fn, Node: id})
			}
			return true
		})
	}
	p.refs = r
	return r
}

// UsersOf lists the declared functions (literals folded into their enclosing
// declaration) that call or reference target, sorted by name.
func (r *Refs) UsersOf(target *FuncNode) []*FuncNode {
	seen := map[*FuncNode]bool{}
	var out []*FuncNode
	for _, s := range r.ByObj[target] {
		t := s.From.Top()
		if !seen[t] {
			seen[t] = true
			out = append(out, t)
		}
	}
	sort.Slice(out, func(i, j int) bool { return out[i].Name < out[j].Name })
	return out
}

// ReachableOnlyFrom reports whether every static use chain leading to fn starts in one
// of the allowed functions: fn itself is allowed, or every user of fn is (recursively)
// allowed or reachable only from allowed functions. A function nobody uses is not
// reachable at all (ok). The returned chain names an offending user.
func (r *Refs) ReachableOnlyFrom(fn *FuncNode, allowed map[*FuncNode]bool, seen map[*FuncNode]bool) (bool, []string) {
	fn = fn.Top()
	if allowed[fn] {
		return true, nil
	}
	if seen[fn] {
		return true, nil
	}
	seen[fn] = true
	users := r.UsersOf(fn)
	if len(users) == 0 {
		if isEntryDefault(fn) {
			return false, []string{fn.Name + " (exported, callable from outside)"}
		}
		return true, nil
	}
	for _, u := range users {
		if ok, chain := r.ReachableOnlyFrom(u, allowed, seen); !ok {
			return false, append(chain, fn.Name)
		}
	}
	return true, nil
}
