package main

import (
	"fmt"
	"go/ast"
	"go/types"
	"sort"
	"strings"
)

func init() { checks["C17"] = checkC17 }

const gorpPkg = "x/gorp"

// passesLoopOver reports a path from start to an exit that does not pass the evaluation
// of a "range <recv>.<field>" loop header (go/cfg places the ranged expression as a node
// right before the loop), and whether that loop's body can finish an iteration without
// a call matched by isStage.
func rangeOverField(fn *FuncNode, field *types.Var) *ast.RangeStmt {
	var out *ast.RangeStmt
	inspectNoLit(fn.Body, func(n ast.Node) bool {
		if rs, ok := n.(*ast.RangeStmt); ok {
			if sel, ok := ast.Unparen(rs.X).(*ast.SelectorExpr); ok && fieldVar(fn, sel) == field {
				out = rs
			}
		}
		return true
	})
	return out
}

func checkC17(r *Run) {
	r.Explanation = "Structural necessary conditions of 'indexed queries equal scans; transactions isolate': (R1) gorp.Writer.set/delete stage every index of the writer after the row write succeeded, on every path that returns nil; (R2) Table.NewCreate/NewUpdate/NewDelete hand the table's index list to the builders and each builder's Exec passes it to the writer it constructs; (R3) entry types whose table is opened with secondary indexes are never written through a free (table-less) gorp.NewCreate/NewUpdate/NewDelete/WrapWriter instantiation; (R4) tx.Commit runs the cleanups with the commit's success flag after the underlying commit, tx.Close runs them with false, and the overlay's cleanup drops the tx's delta and flushes only when committed; (R5) committed index state is lock-guarded (lockset), and OpenTable calls every index's populate before it attaches the change observer; (R6) delta.stageSet/stageDelete record the key on every path, and the change observer applies sets and deletes inside the one loop over the batch (in batch order)."
	r.NotDecided = "Equality of index answers and scan answers for arbitrary filter trees and histories (a differential property); cursor pagination."
	r.Trusted = []string{"go/types, go/cfg, lockset engine"}
	r.Extra["module"] = "core"
	p, err := Load("core")
	if err != nil {
		r.Undecide("%v", err)
		return
	}
	r.Stats["packages"] = len(p.Repo)
	r.Rule("C17.R1.stage", "Writer.set and Writer.delete reach 'return nil' only through a loop over w.indexes whose every iteration stages the mutation, and only after the row write returned nil", 2)
	r.Rule("C17.R2.propagate", "Table.NewCreate/NewUpdate/NewDelete copy t.indexes into the builder and the builder's Exec passes its indexes to wrapWriter", 6)
	r.Rule("C17.R3.tableonly", "no free gorp.NewCreate/NewUpdate/NewDelete/WrapWriter is instantiated with an entry type whose table has secondary indexes", 3)
	r.Rule("C17.R4.hooks", "tx.Commit runs cleanups(err == nil) after the underlying commit, tx.Close runs cleanups(false); the overlay cleanup deletes the tx's delta and flushes only on commit", 4)
	r.Rule("C17.R5.GUARD", "committed index state (LookupIndex.forward/reverse, SortedIndex.entries/reverse, deltaOverlay.txDeltas, txState.cleanups) is accessed under its mutex", 20)
	r.Rule("C17.R5.populate", "OpenTable starts every index's populate (which takes the index lock) before attaching the change observer, and opens the bulk scan / starts the populate routine only after it", 2)
	r.Rule("C17.ERR", "no error returned by a call is discarded in x/gorp except the tabled sites (a swallowed row or index error desynchronises table and index)", 1)
	r.Rule("C17.R8.fresh", "every value gorp decodes a stored or observed entry into is fresh for that entry (declared inside the per-entry loop, never a longer-lived field): the codecs merge into their target, so an entry with an empty indexed field would inherit the previous entry's value and land in the wrong index bucket", 3)
	r.Rule("C17.R9.append", "no append in x/gorp extends a slice held in a field of a shared object (table key prefix, builder state) unless the result is stored back into that field: otherwise concurrent scans write their key prefixes into one backing array and read each other's rows", 1)
	r.Rule("C17.R7.alias", "no exported method of LookupIndex / SortedIndex returns a slice that aliases lock-guarded index storage (forward buckets, entries): what leaves the lock is a copy, because a concurrent set/delete shifts the bucket in place", 2)
	r.Rule("C17.R6.delta", "delta.stageSet/stageDelete store d.state[key] on every path; attachIndexObserver applies set/delete inside the single loop over the change batch", 3)

	checkWriterStaging(r, p)
	checkIndexPropagation(r, p)
	checkTableOnly(r, p)
	checkTxHooks(r, p)
	checkIndexGuards(r, p)
	checkIndexAliasEscape(r, p)
	checkAppendAliasing(r, p, "C17.R9.append", func(fn *FuncNode) bool { return fn.InPkgs(gorpPkg) })
	checkFreshDecodeTargets(r, p, "C17.R8.fresh", func(fn *FuncNode) bool { return fn.InPkgs(gorpPkg) }, 3)
	checkErrDrop(r, p, "C17.ERR", func(fn *FuncNode) bool { return fn.InPkgs(gorpPkg) }, 150)
	checkDeltaAndObserver(r, p)
}

func checkWriterStaging(r *Run, p *Prog) {
	idxField := p.FieldOf(gorpPkg, "Writer", "indexes")
	if idxField == nil {
		r.Undecide("C17.R1: Writer.indexes not found")
		return
	}
	for _, spec := range [][3]string{{"set", "Set", "stageSet"}, {"delete", "Delete", "stageDelete"}} {
		fn := p.Func(gorpPkg, "Writer", spec[0])
		if fn == nil {
			r.Undecide("C17.R1: Writer.%s not found", spec[0])
			continue
		}
		c := p.CFG(fn)
		// the row write: w.tx.Set / w.tx.Delete
		var row *ast.CallExpr
		inspectNoLit(fn.Body, func(n ast.Node) bool {
			if call, ok := n.(*ast.CallExpr); ok {
				if f := CalleeFunc(fn, call); f != nil && f.Name() == spec[1] && f.Pkg() != nil && strings.HasSuffix(f.Pkg().Path(), "x/kv") {
					row = call
				}
			}
			return true
		})
		loop := rangeOverField(fn, idxField)
		if row == nil || loop == nil {
			r.Ob("C17.R1.stage", "Writer."+spec[0]+" writes the row and stages the indexes", p.Position(fn.Pos()), false, fmt.Sprintf("row write found: %v, loop over w.indexes found: %v", row != nil, loop != nil))
			continue
		}
		// success exits
		ok := true
		var path []string
		why := ""
		isLoopEval := func(n ast.Node) bool { return n == ast.Node(loop.X) }
		q, vis := c.ReachAvoiding([]Point{c.Entry()}, nil, isLoopEval)
		nSucc := 0
		for _, ex := range c.Exits() {
			if ex.Return == nil || !mayReturnNilError(fn, ex.Return) {
				continue
			}
			nSucc++
			if vis[ex.P] {
				ok, path, why = false, q.PathTo(ex.P), "a nil return is reachable without entering the loop over w.indexes"
			}
			if pth, w := c.succeededBefore(row, ex.P); pth != nil {
				ok, path, why = false, pth, w
			}
		}
		// every iteration stages
		stageObj := objOf(fn, loop.Value)
		isStage := func(n ast.Node) bool {
			return nodeHasCall(fn, n, func(o types.Object, call *ast.CallExpr) bool {
				f, ok := o.(*types.Func)
				if !ok || f.Name() != spec[2] {
					return false
				}
				s, ok := ast.Unparen(call.Fun).(*ast.SelectorExpr)
				return ok && objOf(fn, s.X) == stageObj
			})
		}
		for _, b := range c.G.Blocks {
			if b.Stmt == loop && b.Kind.String() == "RangeBody" {
				q2, vis2 := c.ReachAvoiding([]Point{{b, -1}}, nil, isStage)
				for pt := range vis2 {
					if pt.B.Stmt == loop && (pt.B.Kind.String() == "RangeLoop" || pt.B.Kind.String() == "RangeDone") {
						ok, path, why = false, q2.PathTo(pt), "an index can be skipped inside the loop"
					}
				}
			}
		}
		// the loop runs after the row write
		if lp, found := c.Locate(loop.X); found {
			if pth, w := c.succeededBefore(row, lp); pth != nil {
				ok, path, why = false, pth, "staging starts before the row write succeeded: "+w
			}
		}
		r.ObPath("C17.R1.stage", "Writer."+spec[0]+" stages every index after a successful row write", p.Position(row.Pos()), ok && nSucc > 0, why+" (an index that misses a write answers queries differently from a scan)", path)
	}
}

func checkIndexPropagation(r *Run, p *Prog) {
	tIdx := p.FieldOf(gorpPkg, "Table", "indexes")
	wrap := p.Func(gorpPkg, "", "wrapWriter")
	if tIdx == nil || wrap == nil {
		r.Undecide("C17.R2: Table.indexes / wrapWriter not found")
		return
	}
	for _, b := range []string{"Create", "Update", "Delete"} {
		fn := p.Func(gorpPkg, "Table", "New"+b)
		bIdx := p.FieldOf(gorpPkg, b, "indexes")
		if fn == nil || bIdx == nil {
			r.Undecide("C17.R2: Table.New%s / %s.indexes not found", b, b)
			continue
		}
		ok := false
		inspectNoLit(fn.Body, func(n ast.Node) bool {
			as, isAs := n.(*ast.AssignStmt)
			if !isAs || len(as.Lhs) != 1 || len(as.Rhs) != 1 {
				return true
			}
			l, okL := ast.Unparen(as.Lhs[0]).(*ast.SelectorExpr)
			rr, okR := ast.Unparen(as.Rhs[0]).(*ast.SelectorExpr)
			if okL && okR && fieldVar(fn, l) == bIdx && fieldVar(fn, rr) == tIdx {
				ok = true
			}
			return true
		})
		r.Ob("C17.R2.propagate", "Table.New"+b+" hands the table's indexes to the builder", p.Position(fn.Pos()), ok, "a builder without the index list writes rows the indexes never see until the observer replays them")
		// the builder passes them on
		okW := false
		for _, f := range p.FuncsOfPkg(gorpPkg) {
			if f.Decl == nil || f.Decl.Recv == nil || !strings.Contains(recvName(f.Decl), b) {
				continue
			}
			for _, call := range CallsIn(f, calleeIs(wrap)) {
				if len(call.Args) == 3 {
					if s, isSel := ast.Unparen(call.Args[2]).(*ast.SelectorExpr); isSel && fieldVar(f, s) == bIdx {
						okW = true
					}
				}
			}
		}
		r.Ob("C17.R2.propagate", b+".Exec builds its writer with the builder's indexes", p.Position(fn.Pos()), okW, "wrapWriter(tx, prefix, <builder>.indexes)")
	}
}

func checkTableOnly(r *Run, p *Prog) {
	// entry types of tables opened with a non-empty index list
	indexed := map[string]string{}
	openTable := p.Func(gorpPkg, "", "OpenTable")
	if openTable == nil {
		r.Undecide("C17.R3: gorp.OpenTable not found")
		return
	}
	for _, cs := range p.AllCalls(func(o types.Object, _ *ast.CallExpr) bool { return IsFunc(o, openTable) }) {
		if len(cs.Call.Args) != 2 {
			continue
		}
		cl, ok := ast.Unparen(cs.Call.Args[1]).(*ast.CompositeLit)
		if !ok {
			continue
		}
		if litField(cl, "Indexes") == nil {
			continue
		}
		n, ok := derefNamed(cs.Fn.Pkg.TypesInfo.TypeOf(cl))
		if !ok || n.TypeArgs() == nil || n.TypeArgs().Len() < 2 {
			continue
		}
		if e, ok := derefNamed(n.TypeArgs().At(1)); ok {
			indexed[namedClass(e)] = p.Position(cs.Call.Pos())
		}
	}
	var names []string
	for k := range indexed {
		names = append(names, k)
	}
	sort.Strings(names)
	if len(indexed) < 3 {
		r.Undecide("C17.R3: only %d indexed tables found (expected channel, user, ontology relationship): %v", len(indexed), names)
	}
	free := map[string]bool{"NewCreate": true, "NewUpdate": true, "NewDelete": true, "WrapWriter": true}
	violations := map[string][]string{}
	nFree := 0
	for _, fn := range p.Funcs {
		if fn.InPkgs(gorpPkg) {
			continue
		}
		inspectNoLit(fn.Body, func(x ast.Node) bool {
			call, ok := x.(*ast.CallExpr)
			if !ok {
				return true
			}
			f, ok := Callee(fn, call).(*types.Func)
			if !ok || f.Pkg() == nil || !strings.HasSuffix(f.Pkg().Path(), gorpPkg) || !free[f.Name()] {
				return true
			}
			sig, _ := f.Type().(*types.Signature)
			if sig == nil || sig.Recv() != nil {
				return true
			}
			nFree++
			// instantiation type args
			inst, ok := fn.Pkg.TypesInfo.Instances[identOfFun(call.Fun)]
			if !ok || inst.TypeArgs == nil || inst.TypeArgs.Len() < 2 {
				return true
			}
			if e, ok := derefNamed(inst.TypeArgs.At(1)); ok {
				if _, isIdx := indexed[namedClass(e)]; isIdx {
					violations[namedClass(e)] = append(violations[namedClass(e)], fn.Top().Name+" at "+p.Position(call.Pos()))
				}
			}
			return true
		})
	}
	for _, n := range names {
		r.ObPath("C17.R3.tableonly", "rows of indexed entry type "+n+" are written only through their table", indexed[n], len(violations[n]) == 0, "a table-less writer does not stage the per-transaction index delta: the transaction's own equality queries miss its writes", violations[n])
	}
	r.Stats["free_gorp_writers_seen"] = nFree
	if nFree == 0 {
		r.Undecide("C17.R3: no free gorp writer instantiation seen at all (positive control lost)")
	}
}

func checkTxHooks(r *Run, p *Prog) {
	run := p.Func(gorpPkg, "txState", "runCleanups")
	if run == nil {
		r.Undecide("C17.R4: txState.runCleanups not found")
		return
	}
	for _, spec := range [][2]string{{"Commit", "commit"}, {"Close", "close"}} {
		fn := p.Func(gorpPkg, "tx", spec[0])
		if fn == nil {
			r.Undecide("C17.R4: tx.%s not found", spec[0])
			continue
		}
		c := p.CFG(fn)
		var under *ast.CallExpr
		inspectNoLit(fn.Body, func(n ast.Node) bool {
			if call, ok := n.(*ast.CallExpr); ok {
				if f := CalleeFunc(fn, call); f != nil && f.Name() == spec[0] && f != fn.Obj && f.Pkg() != nil && strings.HasSuffix(f.Pkg().Path(), "x/kv") {
					under = call
				}
			}
			return true
		})
		calls := CallsIn(fn, calleeIs(run))
		if under == nil || len(calls) != 1 {
			r.Ob("C17.R4.hooks", "tx."+spec[0]+" runs the cleanups after the underlying "+spec[1], p.Position(fn.Pos()), false, fmt.Sprintf("underlying call found: %v, runCleanups calls: %d", under != nil, len(calls)))
			continue
		}
		// on every path: underlying call, then runCleanups, before any exit
		up, _ := c.Locate(under)
		rp, _ := c.Locate(calls[0])
		q, vis := c.ReachAvoiding([]Point{c.Entry()}, nil, func(n ast.Node) bool { return contains(n, under) })
		ok := !vis[rp]
		var path []string
		if vis[rp] {
			path = q.PathTo(rp)
		}
		q2, vis2 := c.ReachAvoiding([]Point{up}, nil, func(n ast.Node) bool { return contains(n, calls[0]) })
		for _, ex := range c.Exits() {
			if vis2[ex.P] {
				ok = false
				path = q2.PathTo(ex.P)
			}
		}
		// argument
		arg := ast.Unparen(calls[0].Args[0])
		// a named local or constant stands for its single definition
		if o := objOf(fn, arg); o != nil {
			if c, isConst := o.(*types.Const); isConst && c.Val().String() == "false" {
				arg = ast.NewIdent("false")
			} else if rhs, _, d := varDefinedBy(fn, o); d {
				arg = ast.Unparen(rhs)
			}
		}
		argOK := false
		if spec[0] == "Commit" {
			ev := errVarOfCall(fn, under)
			if o, trueMeansNil, isCmp := nilCompare(fn, arg); isCmp && o == ev && trueMeansNil {
				argOK = true
			}
		} else if id, isID := arg.(*ast.Ident); isID && id.Name == "false" {
			argOK = true
		}
		r.ObPath("C17.R4.hooks", "tx."+spec[0]+" runs the cleanups after the underlying "+spec[1]+" with the right flag", p.Position(calls[0].Pos()), ok && argOK, "flag: "+types.ExprString(arg)+" (flushing an aborted transaction's delta, or dropping a committed one, makes the index disagree with the table)", path)
	}
	// overlay cleanup
	loc := p.Func(gorpPkg, "deltaOverlay", "loadOrCreate")
	if loc == nil || len(loc.Lits) == 0 {
		r.Undecide("C17.R4: deltaOverlay.loadOrCreate cleanup not found")
		return
	}
	txDeltas := p.FieldOf(gorpPkg, "deltaOverlay", "txDeltas")
	flushF := p.FieldOf(gorpPkg, "deltaOverlay", "flush")
	for _, l := range loc.Lits {
		if l.Type.Params == nil || len(l.Type.Params.List) != 1 {
			continue
		}
		committed := paramObj(l, 0)
		c := p.CFG(l)
		// delete(o.txDeltas, state) on every path
		isDrop := func(n ast.Node) bool { return isStoreTo(l, n, txDeltas) }
		q, vis := c.ReachAvoiding([]Point{c.Entry()}, nil, isDrop)
		ok := len(c.NodesWhere(isDrop)) > 0
		var path []string
		for _, ex := range c.Exits() {
			if vis[ex.P] {
				ok = false
				path = q.PathTo(ex.P)
			}
		}
		r.ObPath("C17.R4.hooks", "the overlay cleanup forgets the transaction's delta on every path", p.Position(l.Pos()), ok, "a delta kept after the transaction ended keeps answering queries of a recycled tx state", path)
		// flush only behind committed
		isFlush := func(n ast.Node) bool {
			return nodeHasCall(l, n, func(_ types.Object, call *ast.CallExpr) bool {
				s, ok := ast.Unparen(call.Fun).(*ast.SelectorExpr)
				return ok && fieldVar(l, s) == flushF
			})
		}
		// truth table over "the transaction committed" (E17) with the flush call as an
		// event of the path: never flushed when not committed, flushed on some path when
		// committed - whether the test is written in the cleanup or in a predicate
		classify := func(ev *ttEval, st *ttState, f *FuncNode, e ast.Expr) (string, bool, bool) {
			if id, ok := ast.Unparen(e).(*ast.Ident); ok && f == l && objOf(f, id) == committed {
				return "committed", false, true
			}
			return "", false, false
		}
		event := func(f *FuncNode, s ast.Stmt) string {
			if f == l && isFlush(s) {
				return "flush"
			}
			return ""
		}
		outcome := func(*FuncNode, *ast.ReturnStmt, []ttVal) string { return "end" }
		table, bad := ttTableEv(p, l, []string{"committed"}, classify, outcome, false, event)
		if bad != "" {
			r.Undecide("C17.R4: the overlay cleanup could not be evaluated: %s", bad)
			continue
		}
		ok2 := false
		var p2 []string
		for o := range table[1] {
			if strings.Contains(o, "+flush") {
				ok2 = true
			}
		}
		for o := range table[0] {
			if strings.Contains(o, "+flush") {
				ok2 = false
				p2 = []string{"flush reached with committed == false"}
			}
		}
		r.ObPath("C17.R4.hooks", "the overlay flushes a delta only when its transaction committed", p.Position(l.Pos()), ok2, "an aborted transaction must leave nothing in the index", p2)
	}
}

func checkIndexGuards(r *Run, p *Prog) {
	base := gorpPkg + ".baseIndex.mu"
	guards := []guardRow{
		{gorpPkg, "LookupIndex", "forward", []string{base}, []string{base}, "value -> keys"},
		{gorpPkg, "LookupIndex", "reverse", []string{base}, []string{base}, "key -> value"},
		{gorpPkg, "SortedIndex", "entries", []string{base}, []string{base}, "sorted entries"},
		{gorpPkg, "SortedIndex", "reverse", []string{base}, []string{base}, "key -> value"},
		{gorpPkg, "deltaOverlay", "txDeltas", []string{gorpPkg + ".deltaOverlay.deltaMu"}, []string{gorpPkg + ".deltaOverlay.deltaMu"}, "per-tx deltas"},
		{gorpPkg, "txState", "cleanups", []string{gorpPkg + ".txState.mu"}, []string{gorpPkg + ".txState.mu"}, "cleanup hooks"},
	}
	applyLockRules(r, p, lockRuleSet{Prefix: "C17.R5", Scope: func(fn *FuncNode) bool { return fn.InPkgs(gorpPkg) }, Guards: guards, MinOps: 20, MinAcc: 30, Entry: exportedEntry})
	// populate before observer
	open := p.Func(gorpPkg, "", "OpenTable")
	attach := p.Func(gorpPkg, "", "attachIndexObserver")
	if open == nil || attach == nil {
		r.Undecide("C17.R5: OpenTable / attachIndexObserver not found")
		return
	}
	c := p.CFG(open)
	acalls := CallsIn(open, calleeIs(attach))
	var pop *ast.CallExpr
	inspectNoLit(open.Body, func(n ast.Node) bool {
		if call, ok := n.(*ast.CallExpr); ok {
			if f := CalleeFunc(open, call); f != nil && f.Name() == "populate" {
				pop = call
			}
		}
		return true
	})
	if len(acalls) != 1 || pop == nil {
		r.Ob("C17.R5.populate", "OpenTable populates before observing", p.Position(open.Pos()), false, fmt.Sprintf("attachIndexObserver calls=%d, populate call found=%v", len(acalls), pop != nil))
		return
	}
	ap, _ := c.Locate(acalls[0])
	loop, _ := enclosingLoop(open, pop).(*ast.RangeStmt)
	ok := loop != nil
	var path []string
	if loop != nil {
		// the loop over cfg.Indexes precedes the attach on every path, and every iteration calls populate
		q, vis := c.ReachAvoiding([]Point{c.Entry()}, nil, func(n ast.Node) bool { return n == ast.Node(loop.X) })
		if vis[ap] {
			ok = false
			path = q.PathTo(ap)
		}
		for _, b := range c.G.Blocks {
			if b.Stmt == loop && b.Kind.String() == "RangeBody" {
				q2, vis2 := c.ReachAvoiding([]Point{{b, -1}}, nil, func(n ast.Node) bool { return contains(n, pop) })
				for pt := range vis2 {
					if pt.B.Stmt == loop && (pt.B.Kind.String() == "RangeLoop" || pt.B.Kind.String() == "RangeDone") {
						ok = false
						path = q2.PathTo(pt)
					}
				}
			}
		}
	}
	r.ObPath("C17.R5.populate", "OpenTable starts every index's populate before it attaches the change observer", p.Position(acalls[0].Pos()), ok, "populate takes the index lock: an observer attached first could apply a replicated write that the bulk scan then overwrites with the older row", path)
	// ... and the bulk scan is opened only after the observer is attached: a snapshot taken
	// before the subscription misses every write committed in between, and so does the
	// observer
	isScanOpen := func(fn *FuncNode, n ast.Node) bool {
		return nodeHasCall(fn, n, func(o types.Object, _ *ast.CallExpr) bool {
			f, ok := o.(*types.Func)
			return ok && (f.Name() == "OpenNexter" || f.Name() == "OpenIterator") && f.Pkg() != nil && strings.HasSuffix(f.Pkg().Path(), gorpPkg)
		})
	}
	runPop := p.Func(gorpPkg, "Table", "runPopulate")
	startsScan := func(n ast.Node) bool {
		if isScanOpen(open, n) {
			return true
		}
		hit := false
		ast.Inspect(n, func(y ast.Node) bool {
			switch v := y.(type) {
			case *ast.CallExpr:
				if f := CalleeFunc(open, v); f != nil && runPop != nil && f == runPop.Obj {
					hit = true
				}
				if f := CalleeFunc(open, v); f != nil && (f.Name() == "OpenNexter" || f.Name() == "OpenIterator") {
					hit = true
				}
			}
			return true
		})
		return hit
	}
	starts := c.NodesWhere(startsScan)
	q3, vis3 := c.ReachAvoiding([]Point{c.Entry()}, nil, func(n ast.Node) bool { return contains(n, acalls[0]) })
	okScan := len(starts) > 0
	var pathScan []string
	for _, sp := range starts {
		if vis3[sp] {
			okScan = false
			pathScan = q3.PathTo(sp)
		}
	}
	if runPop != nil {
		scanInPop := false
		inspectNoLit(runPop.Body, func(n ast.Node) bool {
			if isScanOpen(runPop, n) {
				scanInPop = true
			}
			return true
		})
		for _, l := range runPop.Lits {
			inspectNoLit(l.Body, func(n ast.Node) bool {
				if isScanOpen(l, n) {
					scanInPop = true
				}
				return true
			})
		}
		_ = scanInPop
	}
	r.ObPath("C17.R5.populate", "the populate scan is opened (or the populate routine started) only after the change observer is attached", p.Position(acalls[0].Pos()), okScan,
		"a scan snapshot taken before the subscription: a write committed in between is in neither the snapshot nor the observer's stream and never reaches the index", pathScan)
}

func checkDeltaAndObserver(r *Run, p *Prog) {
	state := p.FieldOf(gorpPkg, "delta", "state")
	if state == nil {
		r.Undecide("C17.R6: delta.state not found")
		return
	}
	for _, name := range []string{"stageSet", "stageDelete"} {
		fn := p.Func(gorpPkg, "delta", name)
		if fn == nil {
			r.Undecide("C17.R6: delta.%s not found", name)
			continue
		}
		c := p.CFG(fn)
		key := paramObj(fn, 0)
		isStore := func(n ast.Node) bool {
			as, ok := n.(*ast.AssignStmt)
			if !ok || len(as.Lhs) != 1 {
				return false
			}
			ix, ok := ast.Unparen(as.Lhs[0]).(*ast.IndexExpr)
			if !ok {
				return false
			}
			s, ok := ast.Unparen(ix.X).(*ast.SelectorExpr)
			return ok && fieldVar(fn, s) == state && objOf(fn, ix.Index) == key
		}
		q, vis := c.ReachAvoiding([]Point{c.Entry()}, nil, isStore)
		ok := len(c.NodesWhere(isStore)) > 0
		var path []string
		for _, ex := range c.Exits() {
			if vis[ex.P] {
				ok = false
				path = q.PathTo(ex.P)
			}
		}
		r.ObPath("C17.R6.delta", "delta."+name+" records the key on every path", p.Position(fn.Pos()), ok, "a staged write that is skipped makes the transaction's own view (and the flush at commit) miss it", path)
	}
	attach := p.Func(gorpPkg, "", "attachIndexObserver")
	if attach == nil || len(attach.Lits) == 0 {
		r.Undecide("C17.R6: attachIndexObserver handler not found")
		return
	}
	for _, l := range attach.Lits {
		if l.Type.Params == nil || len(l.Type.Params.List) != 2 {
			continue
		}
		changes := paramObj(l, 1)
		var loop *ast.RangeStmt
		inspectNoLit(l.Body, func(n ast.Node) bool {
			if rs, ok := n.(*ast.RangeStmt); ok && objOf(l, rs.X) == changes {
				loop = rs
			}
			return true
		})
		nIn, nOut := 0, 0
		inspectNoLit(l.Body, func(n ast.Node) bool {
			call, ok := n.(*ast.CallExpr)
			if !ok {
				return true
			}
			f := CalleeFunc(l, call)
			if f == nil || (f.Name() != "set" && f.Name() != "delete") || f.Pkg() == nil || !strings.HasSuffix(f.Pkg().Path(), gorpPkg) {
				return true
			}
			if loop != nil && contains(loop.Body, call) {
				nIn++
			} else {
				nOut++
			}
			return true
		})
		r.Ob("C17.R6.delta", "the change observer applies sets and deletes in batch order", p.Position(l.Pos()), loop != nil && nIn >= 2 && nOut == 0,
			fmt.Sprintf("index set/delete calls inside the loop over the batch: %d, outside: %d (buffering sets and deletes separately turns 'delete k; set k' into 'set k; delete k')", nIn, nOut))
	}
}

// ---------------------------------------------------------------------------------
// C17.R7: which API can hand out a reference to shared storage. A small summary-based
// may-alias analysis over package gorp: an expression aliases guarded storage when it
// indexes/slices a guarded field, is a local assigned from such an expression, is the
// result of a function whose summary says "returns storage" or "returns parameter i" with
// an aliasing argument, or append(alias, ...). slices.Clone, make+copy and
// append(<non-alias>, alias...) produce fresh storage.
// ---------------------------------------------------------------------------------

type aliasSummary struct {
	storage bool         // may return guarded storage
	params  map[int]bool // may return parameter i (slices only)
}

func checkIndexAliasEscape(r *Run, p *Prog) {
	guarded := map[*types.Var]bool{}
	for _, spec := range [][2]string{{"LookupIndex", "forward"}, {"SortedIndex", "entries"}} {
		if f := p.FieldOf(gorpPkg, spec[0], spec[1]); f != nil {
			guarded[f] = true
		}
	}
	if len(guarded) < 2 {
		r.Undecide("C17.R7: LookupIndex.forward / SortedIndex.entries not found")
		return
	}
	funcs := p.FuncsOfPkg(gorpPkg)
	sum := map[*FuncNode]*aliasSummary{}
	for _, fn := range funcs {
		if fn.Decl != nil && fn.Body != nil {
			sum[fn] = &aliasSummary{params: map[int]bool{}}
		}
	}
	isSliceT := func(t types.Type) bool {
		if t == nil {
			return false
		}
		_, ok := t.Underlying().(*types.Slice)
		return ok
	}
	type env struct {
		fn      *FuncNode
		storage map[types.Object]bool
		param   map[types.Object]map[int]bool
	}
	var aliasOf func(e *env, x ast.Expr) (bool, map[int]bool)
	aliasOf = func(e *env, x ast.Expr) (bool, map[int]bool) {
		x = ast.Unparen(x)
		fn := e.fn
		switch v := x.(type) {
		case *ast.Ident:
			o := objOf(fn, v)
			if o == nil {
				return false, nil
			}
			return e.storage[o], e.param[o]
		case *ast.SelectorExpr:
			if f := fieldVar(fn, v); f != nil && guarded[f] && isSliceT(f.Type()) {
				return true, nil
			}
		case *ast.IndexExpr:
			if sel, ok := ast.Unparen(v.X).(*ast.SelectorExpr); ok {
				if f := fieldVar(fn, sel); f != nil && guarded[f] {
					if tv, ok := fn.Pkg.TypesInfo.Types[x]; ok && isSliceT(tv.Type) {
						return true, nil
					}
				}
			}
		case *ast.SliceExpr:
			return aliasOf(e, v.X)
		case *ast.CallExpr:
			if tv, ok := fn.Pkg.TypesInfo.Types[v.Fun]; ok && tv.IsType() && len(v.Args) == 1 {
				return aliasOf(e, v.Args[0])
			}
			switch c := Callee(fn, v).(type) {
			case *types.Builtin:
				if c.Name() == "append" && len(v.Args) > 0 {
					return aliasOf(e, v.Args[0])
				}
				return false, nil
			case *types.Func:
				f := c.Origin()
				if f.Pkg() != nil && (f.Pkg().Path() == "slices" || f.Pkg().Path() == "maps") {
					return false, nil // Clone, Collect, Sorted ... allocate
				}
				callee, ok := p.ByObj[f]
				if !ok {
					return false, nil
				}
				cs := sum[callee]
				if cs == nil {
					return false, nil
				}
				st, pm := cs.storage, map[int]bool{}
				for i := range cs.params {
					if i < len(v.Args) {
						a, ap := aliasOf(e, v.Args[i])
						st = st || a
						for k := range ap {
							pm[k] = true
						}
					}
				}
				return st, pm
			}
		}
		return false, nil
	}
	analyse := func(fn *FuncNode) (bool, map[int]bool, []*ast.ReturnStmt) {
		e := &env{fn: fn, storage: map[types.Object]bool{}, param: map[types.Object]map[int]bool{}}
		for i := 0; ; i++ {
			po := paramObj(fn, i)
			if po == nil {
				break
			}
			if isSliceT(po.Type()) {
				e.param[po] = map[int]bool{i: true}
			}
		}
		// flow-insensitive closure over assignments
		for changed, iter := true, 0; changed && iter < 10; iter++ {
			changed = false
			inspectNoLit(fn.Body, func(x ast.Node) bool {
				as, ok := x.(*ast.AssignStmt)
				if !ok {
					return true
				}
				for i, l := range as.Lhs {
					o := objOf(fn, l)
					if o == nil || !isSliceT(o.Type()) {
						continue
					}
					var rhs ast.Expr
					if len(as.Lhs) == len(as.Rhs) {
						rhs = as.Rhs[i]
					} else if len(as.Rhs) == 1 && i == 0 {
						rhs = as.Rhs[0]
					}
					if rhs == nil {
						continue
					}
					st, pm := aliasOf(e, rhs)
					if st && !e.storage[o] {
						e.storage[o] = true
						changed = true
					}
					for k := range pm {
						if e.param[o] == nil {
							e.param[o] = map[int]bool{}
						}
						if !e.param[o][k] {
							e.param[o][k] = true
							changed = true
						}
					}
				}
				return true
			})
		}
		storage, params := false, map[int]bool{}
		var bad []*ast.ReturnStmt
		inspectNoLit(fn.Body, func(x ast.Node) bool {
			ret, ok := x.(*ast.ReturnStmt)
			if !ok {
				return true
			}
			for _, res := range ret.Results {
				if tv, ok := fn.Pkg.TypesInfo.Types[res]; !ok || !isSliceT(tv.Type) {
					continue
				}
				st, pm := aliasOf(e, res)
				if st {
					storage = true
					bad = append(bad, ret)
				}
				for k := range pm {
					params[k] = true
				}
			}
			return true
		})
		return storage, params, bad
	}
	for changed, iter := true, 0; changed && iter < 12; iter++ {
		changed = false
		for fn, s := range sum {
			st, pm, _ := analyse(fn)
			if st != s.storage {
				s.storage = st
				changed = true
			}
			for k := range pm {
				if !s.params[k] {
					s.params[k] = true
					changed = true
				}
			}
		}
	}
	n := 0
	var names []string
	byName := map[string]*FuncNode{}
	for fn := range sum {
		names = append(names, fn.Name)
		byName[fn.Name] = fn
	}
	sort.Strings(names)
	for _, nm := range names {
		fn := byName[nm]
		rn := recvName(fn.Decl)
		if !(strings.Contains(rn, "LookupIndex") || strings.Contains(rn, "SortedIndex")) || !fn.Decl.Name.IsExported() {
			continue
		}
		returnsSlice := false
		if fn.Type.Results != nil {
			for _, f := range fn.Type.Results.List {
				if tv, ok := fn.Pkg.TypesInfo.Types[f.Type]; ok && isSliceT(tv.Type) {
					returnsSlice = true
				}
			}
		}
		if !returnsSlice {
			continue
		}
		n++
		st, _, bad := analyse(fn)
		pos := p.Position(fn.Pos())
		if len(bad) > 0 {
			pos = posOf(p, bad[0])
		}
		r.Ob("C17.R7.alias", fn.Name+" returns fresh storage", pos, !st, "a returned slice may alias a lock-guarded index bucket; after the lock is released a concurrent set/delete rewrites it under the caller (an indexed query then skips rows the scan returns)")
	}
	if n < 2 {
		r.Undecide("C17.R7: only %d exported slice-returning index methods found (expected 2)", n)
	}
}
