package main

import (
	"go/ast"
	"strings"
)

// ---------------------------------------------------------------------------------
// E16: a validator that is filled must be read. x/validate accumulates failures in a
// *Validator and reports them through Error(); a function that creates one, records
// checks on it and then returns nil without reading Error() accepts every input. Every
// path from validate.New to an exit that can report success passes a use of the
// validator that can carry its verdict: v.Error(), v returned, stored or handed on.
// ---------------------------------------------------------------------------------

func checkValidatorUse(r *Run, p *Prog, rule string, scope func(*FuncNode) bool, min int) {
	n := 0
	for _, fn := range p.Funcs {
		if fn.Body == nil || !scope(fn) {
			continue
		}
		c := p.CFG(fn)
		for _, b := range c.G.Blocks {
			if !b.Live {
				continue
			}
			for i, node := range b.Nodes {
				as, ok := node.(*ast.AssignStmt)
				if !ok || len(as.Lhs) != 1 || len(as.Rhs) != 1 {
					continue
				}
				call, ok := ast.Unparen(as.Rhs[0]).(*ast.CallExpr)
				if !ok {
					continue
				}
				f := CalleeFunc(fn, call)
				if f == nil || f.Name() != "New" || f.Pkg() == nil || !strings.HasSuffix(f.Pkg().Path(), "/x/validate") {
					continue
				}
				v := objOf(fn, as.Lhs[0])
				if v == nil {
					continue
				}
				n++
				consumes := func(x ast.Node) bool {
					hit := false
					ast.Inspect(x, func(y ast.Node) bool {
						switch e := y.(type) {
						case *ast.CallExpr:
							if sel, ok := ast.Unparen(e.Fun).(*ast.SelectorExpr); ok && objOf(fn, sel.X) == v && sel.Sel.Name == "Error" {
								hit = true
							}
							// handed to a function outside the validate package
							if g := CalleeFunc(fn, e); g != nil && g.Pkg() != nil && !strings.HasSuffix(g.Pkg().Path(), "/x/validate") {
								for _, a := range e.Args {
									if objOf(fn, a) == v {
										hit = true
									}
								}
							}
						case *ast.ReturnStmt:
							for _, res := range e.Results {
								if objOf(fn, res) == v {
									hit = true
								}
							}
						case *ast.AssignStmt:
							for _, rh := range e.Rhs {
								if objOf(fn, rh) == v && x != node {
									hit = true
								}
							}
						case *ast.FuncLit:
							ast.Inspect(e, func(z ast.Node) bool {
								if id, ok := z.(*ast.Ident); ok && objOf(fn, id) == v {
									hit = true
								}
								return true
							})
						}
						return true
					})
					return hit
				}
				// a check recorded with its verdict ignored (a call statement on v) makes the
				// validator "dirty"; a check used as a condition leaves it clean on its false edge
				records := func(x ast.Node) bool {
					hit := false
					ast.Inspect(x, func(y ast.Node) bool {
						if e, ok := y.(*ast.CallExpr); ok {
							if sel, ok := ast.Unparen(e.Fun).(*ast.SelectorExpr); ok && objOf(fn, sel.X) == v && sel.Sel.Name != "Error" {
								hit = true
							}
							for _, a := range e.Args {
								if objOf(fn, a) == v {
									hit = true
								}
							}
						}
						return true
					})
					return hit
				}
				path := c.boolStateSearch([]Point{{b, i}}, false,
					func(x ast.Node, dirty bool) (bool, bool) {
						if x == node {
							return dirty, false
						}
						if consumes(x) {
							return dirty, true
						}
						if _, isStmt := x.(*ast.ExprStmt); isStmt && records(x) {
							return true, false
						}
						if as2, isAs := x.(*ast.AssignStmt); isAs && records(as2) {
							return true, false
						}
						return dirty, false
					},
					func(cond ast.Expr, val bool, dirty bool) bool {
						if records(cond) && val {
							return true
						}
						return dirty
					},
					func(x ast.Node, dirty bool) bool {
						ret, isRet := x.(*ast.ReturnStmt)
						return isRet && dirty && !consumes(x) && mayReturnNilError(fn, ret)
					})
				r.ObPath(rule, "the validator built in "+fn.Name+" is read before the function can report success", posOf(p, as), path == nil,
					"the checks recorded on it are never reported: the function accepts whatever it was given", path)
			}
		}
	}
	r.Stats["validators_"+rule] = n
	if n < min {
		r.Undecide("%s: only %d validators found in scope (expected >= %d)", rule, n, min)
	}
}
