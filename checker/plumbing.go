package main

import (
	"go/ast"
	"go/types"
	"sort"
	"strings"
)

// Topology is the confluence/plumber pipeline assembled by one function: nodes bound
// to constant addresses and the routes between them, read off the constant-address
// plumbing calls (plumber.SetSource/SetSegment/SetSink, MultiRouter/UnaryRouter
// literals, plumber.MustConnect).
type Topology struct {
	Nodes map[string]*TopoNode
	Edges []TopoEdge
	Fn    *FuncNode
}

type TopoNode struct {
	Addr string
	Kind string // source | segment | sink
	Ctor ast.Expr
	Pos  ast.Node
}

type TopoEdge struct {
	From, To string
	Pos      ast.Node
}

func isPlumberFunc(o types.Object, names ...string) bool {
	f, ok := o.(*types.Func)
	if !ok || f.Pkg() == nil || !strings.HasSuffix(f.Pkg().Path(), "x/confluence/plumber") {
		return false
	}
	for _, n := range names {
		if f.Name() == n {
			return true
		}
	}
	return false
}

// addrConst evaluates an address expression to its constant string value.
func addrConst(fn *FuncNode, e ast.Expr) (string, bool) {
	e = ast.Unparen(e)
	if call, ok := e.(*ast.CallExpr); ok && len(call.Args) == 1 {
		// address.Address("x") conversion
		if tv, ok := fn.Pkg.TypesInfo.Types[call.Fun]; ok && tv.IsType() {
			return addrConst(fn, call.Args[0])
		}
	}
	return constString(fn, e)
}

// ExtractTopology reads the pipeline built in fn (including its literals).
func (p *Prog) ExtractTopology(fn *FuncNode) (*Topology, []string) {
	t := &Topology{Nodes: map[string]*TopoNode{}, Fn: fn}
	var problems []string
	var visit func(f *FuncNode)
	seen := map[*FuncNode]bool{}
	isPipeline := func(t types.Type) bool {
		tn, ok := derefNamed(t)
		return ok && tn.Obj().Pkg() != nil && strings.HasSuffix(tn.Obj().Pkg().Path(), "x/confluence/plumber") && tn.Obj().Name() == "Pipeline"
	}
	visit = func(f *FuncNode) {
		if seen[f] {
			return
		}
		seen[f] = true
		inspectNoLit(f.Body, func(n ast.Node) bool {
			switch x := n.(type) {
			case *ast.CallExpr:
				callee := Callee(f, x)
				// a package-local helper that is handed the pipeline assembles part of it
				if cf, ok := callee.(*types.Func); ok {
					if g := p.ByObj[cf.Origin()]; g != nil && g.Body != nil && g.Pkg == f.Pkg {
						for _, a := range x.Args {
							if t := f.Pkg.TypesInfo.TypeOf(a); t != nil && isPipeline(t) {
								visit(g)
								break
							}
						}
					}
				}
				switch {
				case isPlumberFunc(callee, "SetSource", "SetSegment", "SetSink"):
					if len(x.Args) < 3 {
						return true
					}
					addr, ok := addrConst(f, x.Args[1])
					if !ok {
						problems = append(problems, "non-constant address at "+p.Position(x.Pos()))
						return true
					}
					kind := strings.ToLower(strings.TrimPrefix(callee.Name(), "Set"))
					t.Nodes[addr] = &TopoNode{Addr: addr, Kind: kind, Ctor: x.Args[2], Pos: x}
				case isPlumberFunc(callee, "MustConnect", "Connect"):
					if len(x.Args) < 3 {
						return true
					}
					from, ok1 := addrConst(f, x.Args[1])
					to, ok2 := addrConst(f, x.Args[2])
					if !ok1 || !ok2 {
						problems = append(problems, "non-constant address in connect at "+p.Position(x.Pos()))
						return true
					}
					t.Edges = append(t.Edges, TopoEdge{from, to, x})
				}
			case *ast.CompositeLit:
				tn, ok := derefNamed(f.Pkg.TypesInfo.TypeOf(x))
				if !ok || tn.Obj().Pkg() == nil || !strings.HasSuffix(tn.Obj().Pkg().Path(), "x/confluence/plumber") {
					return true
				}
				name := tn.Origin().Obj().Name()
				if name != "MultiRouter" && name != "UnaryRouter" {
					return true
				}
				var srcs, sinks []string
				list := func(e ast.Expr) []string {
					var out []string
					if cl, ok := ast.Unparen(e).(*ast.CompositeLit); ok {
						for _, el := range cl.Elts {
							if a, ok := addrConst(f, el); ok {
								out = append(out, a)
							} else {
								problems = append(problems, "non-constant address in router at "+p.Position(el.Pos()))
							}
						}
						return out
					}
					if a, ok := addrConst(f, e); ok {
						return []string{a}
					}
					problems = append(problems, "unrecognised router target at "+p.Position(e.Pos()))
					return nil
				}
				for _, el := range x.Elts {
					kv, ok := el.(*ast.KeyValueExpr)
					if !ok {
						continue
					}
					key, _ := kv.Key.(*ast.Ident)
					if key == nil {
						continue
					}
					switch key.Name {
					case "SourceTargets", "SourceTarget":
						srcs = list(kv.Value)
					case "SinkTargets", "SinkTarget":
						sinks = list(kv.Value)
					}
				}
				for _, s := range srcs {
					for _, k := range sinks {
						t.Edges = append(t.Edges, TopoEdge{s, k, x})
					}
				}
			}
			return true
		})
		for _, l := range f.Lits {
			visit(l)
		}
	}
	visit(fn)
	return t, problems
}

func (t *Topology) In(addr string) []string {
	set := map[string]bool{}
	for _, e := range t.Edges {
		if e.To == addr {
			set[e.From] = true
		}
	}
	return sortedKeys(set)
}

func (t *Topology) Out(addr string) []string {
	set := map[string]bool{}
	for _, e := range t.Edges {
		if e.From == addr {
			set[e.To] = true
		}
	}
	return sortedKeys(set)
}

func sortedKeys(m map[string]bool) []string {
	var out []string
	for k := range m {
		out = append(out, k)
	}
	sort.Strings(out)
	return out
}

func sameSet(a []string, b ...string) bool {
	if len(a) != len(b) {
		return false
	}
	bb := append([]string{}, b...)
	sort.Strings(bb)
	for i := range a {
		if a[i] != bb[i] {
			return false
		}
	}
	return true
}

// Reaches reports whether to is reachable from from along routes.
func (t *Topology) Reaches(from, to string) bool {
	seen := map[string]bool{from: true}
	work := []string{from}
	for len(work) > 0 {
		c := work[0]
		work = work[1:]
		for _, n := range t.Out(c) {
			if n == to {
				return true
			}
			if !seen[n] {
				seen[n] = true
				work = append(work, n)
			}
		}
	}
	return false
}
