package main

func init() {
	const fcgo = "cesium/internal/domain/file_controller.go"
	const idxgo = "cesium/internal/domain/index.go"
	const ctlgo = "cesium/internal/control/controller.go"
	const wrgo = "cesium/internal/domain/writer.go"
	const delgo = "cesium/internal/domain/delete.go"
	const ipgo = "cesium/internal/domain/index_persist.go"
	const metago = "cesium/internal/meta/meta.go"
	const cdel = "cesium/delete.go"

	// ---------------- C09
	mut("C09", "acquireWriter leaks writers.RLock on Stat error", fcgo,
		"		if err != nil {\n			fc.writers.RUnlock()\n			return 0, 0, nil, err\n		}",
		"		if err != nil {\n			return 0, 0, nil, err\n		}", "C09.PAIR")
	mut("C09", "insert prepares the persist after unlocking", idxgo,
		"	defer idx.mu.Unlock()\n	return idx.indexPersist.prepare(idx.persistHead)()\n}\n\nfunc (idx *index) overlap",
		"	idx.mu.Unlock()\n	persistPointers := idx.indexPersist.prepare(idx.persistHead)\n	return persistPointers()\n}\n\nfunc (idx *index) overlap", "C09.GUARD")
	mut("C09", "close holds writers while taking readers", fcgo,
		"	fc.writers.RUnlock()\n	fc.readers.RLock()\n	for _, f := range fc.readers.files {\n		f.Lock()",
		"	defer fc.writers.RUnlock()\n	fc.readers.RLock()\n	for _, f := range fc.readers.files {\n		f.Lock()", "C09.ORDER")
	mut("C09", "LeadingState reads region state without the region lock", ctlgo,
		"	r.RLock()\n	defer r.RUnlock()\n	if len(r.gates) != 0 {",
		"	if len(r.gates) != 0 {", "C09.GUARD")
	mut("C09", "gcWriters deletes from the pool under a read lock", fcgo,
		"func (fc *fileController) gcWriters() (bool, error) {\n	fc.writers.Lock()\n	defer fc.writers.Unlock()",
		"func (fc *fileController) gcWriters() (bool, error) {\n	fc.writers.RLock()\n	defer fc.writers.RUnlock()", "C09.GUARD")
	mut("C09", "RetrieveChannel reads the channel map unlocked", "cesium/channel.go",
		"		return Channel{}, ErrDBClosed\n	}\n	db.mu.RLock()\n	defer db.mu.RUnlock()\n	return db.retrieveChannel(ctx, key)",
		"		return Channel{}, ErrDBClosed\n	}\n	return db.retrieveChannel(ctx, key)", "C09.GUARD")
	mut("C09", "update unlocks twice on the conflict path", idxgo,
		"	if overlapsWithPrev {\n		idx.mu.Unlock()\n		return",
		"	if overlapsWithPrev {\n		idx.mu.Unlock()\n		idx.mu.Unlock()\n		return", "C09.PAIR")
	mut("C09", "Delete releases idx.mu before the persist and keeps reading", delgo,
		"	db.idx.mu.RLock()\n	endDomain, exact = db.idx.unprotectedSearch(tr.End.SpanRange(0))",
		"	endDomain, exact = db.idx.unprotectedSearch(tr.End.SpanRange(0))\n	db.idx.mu.RLock()", "C09.GUARD")

	// ---------------- C03
	mut("C03", "insert drops the overlap rejection", idxgo,
		"			if overlap {\n				conflict := idx.mu.pointers[i].TimeRange\n				idx.mu.Unlock()\n				return span.Error(NewRangeWriteConflictError(p.TimeRange, conflict))\n			}\n",
		"			_ = overlap\n", "C03.R2.insert")
	mut("C03", "insert fast path tests the wrong bound", idxgo,
		"if idx.afterLast(p.Start) {", "if idx.afterLast(p.End) {", "C03.R2.insert")
	mut("C03", "update ignores the next neighbour", idxgo,
		"	} else if overlapsWithNext {\n		idx.mu.Unlock()\n		return span.Error(NewRangeWriteConflictError(p.TimeRange, ptrs[updateAt+1].TimeRange))\n	} else {",
		"	} else {\n		_ = overlapsWithNext", "C03.R2.update")
	mut("C03", "update checks the next neighbour by stamp instead of range overlap", idxgo,
		"ptrs[updateAt+1].OverlapsWith(p.TimeRange)", "ptrs[updateAt+1].ContainsStamp(p.End-1)", "C03.R2.update")
	mut("C03", "OpenWriter acquires the file before the overlap test", wrgo,
		"	if db.idx.overlap(cfg.Domain()) {", "	if false && db.idx.overlap(cfg.Domain()) {", "C03.R3.open")
	mut("C03", "commit skips range validation", wrgo,
		"	if err := w.validateCommitRange(commitEnd, switchingFile); err != nil {\n		return span.Error(err)\n	}",
		"	if err := w.validateCommitRange(commitEnd, switchingFile); err != nil {\n		w.L.Warn(err.Error())\n	}", "C03.R3.commit")
	mut("C03", "commit records prevCommit before the index accepted the pointer", wrgo,
		"	f := lo.Ternary(w.prevCommit.IsZero(), w.idx.insert, w.idx.update)\n",
		"	f := lo.Ternary(w.prevCommit.IsZero(), w.idx.insert, w.idx.update)\n	w.prevCommit = commitEnd\n", "C03.R4.advance")
	mut("C03", "Writer.Close rewrites the pointer table", wrgo,
		"	defer w.onClose()\n	w.closed = true",
		"	defer w.onClose()\n	w.closed = true\n	w.idx.mu.Lock()\n	w.idx.mu.pointers = w.idx.mu.pointers[:0:0]\n	w.idx.mu.Unlock()", "C03.R1.writers")
	mut("C03", "search reports overlap without testing it", idxgo,
		"		if ptr.OverlapsWith(tr) {\n			return mid, true\n		}",
		"		if ptr.ContainsStamp(tr.Start) {\n			return mid, true\n		}", "C03.R2.search")
	mut("C03", "commit ignores the preset end", wrgo,
		"	if w.presetEnd && end.After(w.End) {", "	if w.presetEnd && !w.presetEnd && end.After(w.End) {", "C03.R3.commit")

	// ---------------- C02
	mut("C02", "meta.Create writes meta.json in place", metago,
		"	return fs.Rename(metaTempFile, metaFile)\n}",
		"	f, err := fs.Open(metaFile, os.O_CREATE|os.O_WRONLY|os.O_TRUNC)\n	if err != nil {\n		return err\n	}\n	if err = codec.EncodeStream(ctx, f, ch); err != nil {\n		return err\n	}\n	return f.Close()\n}", "C02.R1.meta")
	mut("C02", "meta.Create renames without checking Close", metago,
		"	if err = tempMetaF.Close(); err != nil {\n		return err\n	}\n	return fs.Rename",
		"	_ = tempMetaF.Close()\n	return fs.Rename", "C02.R1.meta")
	mut("C02", "persist closure writes before truncating", ipgo,
		"		err := ip.p.Truncate(int64(lenOfPointers) * pointerByteSize)\n		if err != nil {\n			return err\n		}\n		_, err = ip.p.WriteAt(pointerEncoded, int64(start*pointerByteSize))\n		return err",
		"		_, err := ip.p.WriteAt(pointerEncoded, int64(start*pointerByteSize))\n		if err != nil {\n			return err\n		}\n		return ip.p.Truncate(int64(lenOfPointers) * pointerByteSize)", "C02.R2.order")
	mut("C02", "persist closure takes the length when it runs, not when prepared", ipgo,
		"	lenOfPointers := len(ip.idx.mu.pointers)\n\n	return func() error {\n		ip.p.Lock()\n		defer ip.p.Unlock()\n\n		err := ip.p.Truncate(int64(lenOfPointers) * pointerByteSize)",
		"	return func() error {\n		ip.p.Lock()\n		defer ip.p.Unlock()\n\n		err := ip.p.Truncate(int64(len(ip.idx.mu.pointers)) * pointerByteSize)", "C02.R2.order")
	mut("C02", "decoder reads fileKey from the wrong bytes", ipgo,
		"fileKey: byteOrder.Uint16(b[base+16 : base+18]),", "fileKey: byteOrder.Uint16(b[base+18 : base+20]),", "C02.R2.codec")
	mut("C02", "commit takes the offset from the file size field instead of the tracked writer", wrgo,
		"		offset:    uint32(w.internal.Offset()),", "		offset:    uint32(w.fileSize),", "C02.R3.provenance")
	mut("C02", "OpenWriter pre-publishes a pointer", wrgo,
		"	db.resourceCount.Add(1)\n	w := &Writer{",
		"	db.resourceCount.Add(1)\n	_ = pointer{fileKey: key, offset: uint32(size)}\n	w := &Writer{", "C02.R3.provenance")
	mut("C02", "DeleteChannel removes the live directory directly", cdel,
		"	return db.fs.Remove(newName)\n}", "	_ = newName\n	return db.fs.Remove(oldName)\n}", "C02.R4.delete")
	mut("C02", "DeleteChannels renames before removing the channel from the map", cdel,
		"		err = db.removeChannel(ch)\n		if err != nil {\n			return\n		}\n\n		// Rename the files first, so we can avoid hogging the mutex while deleting the\n		// directory, which may take a longer time.\n		oldName := keyToDirName(ch)\n		newName := oldName + \"-DELETE-\" + strconv.Itoa(rand.Int())\n		err = db.fs.Rename(oldName, newName)\n		if err != nil {\n			return\n		}\n",
		"		oldName := keyToDirName(ch)\n		newName := oldName + \"-DELETE-\" + strconv.Itoa(rand.Int())\n		err = db.fs.Rename(oldName, newName)\n		if err != nil {\n			return\n		}\n		err = db.removeChannel(ch)\n		if err != nil {\n			return\n		}\n", "C02.R4.delete")
	mut("C02", "GarbageCollect returns early without persisting when nothing failed", delgo,
		"	db.idx.mu.Lock()\n	defer db.idx.mu.Unlock()\n	persist := db.idx.indexPersist.prepare(0)",
		"	if db.closed.Load() {\n		return nil\n	}\n	db.idx.mu.Lock()\n	defer db.idx.mu.Unlock()\n	persist := db.idx.indexPersist.prepare(0)", "C02.R5.gc")
	mut("C02", "garbageCollectFile renames outside the index lock", delgo,
		"		if err = db.cfg.FS.Rename(name, name+\"_temp\"); err != nil {\n			return err\n		}\n		return db.cfg.FS.Rename(copyName, name)\n	}(); err != nil {\n		return err\n	}\n",
		"		return nil\n	}(); err != nil {\n		return err\n	}\n	if err = db.cfg.FS.Rename(name, name+\"_temp\"); err != nil {\n		return err\n	}\n	if err = db.cfg.FS.Rename(copyName, name); err != nil {\n		return err\n	}\n", "C02.R5.gc")
	mut("C02", "a second opener of index.domain", fcgo,
		"	fc.release = make(chan struct{}, cfg.MaxDescriptors)\n",
		"	fc.release = make(chan struct{}, cfg.MaxDescriptors)\n	if f, ferr := cfg.FS.Open(indexFile, os.O_RDWR); ferr == nil {\n		_ = f.Close()\n	}\n", "C02.R2.order")

	mut("C02", "update persists only from the updated position", idxgo,
		"	if persist {\n		return idx.indexPersist.prepare(idx.persistHead)()\n	}",
		"	if persist {\n		return idx.indexPersist.prepare(updateAt)()\n	}", "C02.R2.start")

	// ---------------- C04
	mut("C04", "DeleteTimeRange ignores a positive HasDataFor", cdel,
		"			if err != nil || hasOverlap {", "			_ = hasOverlap\n			if err != nil {", "C04.R1.guard")
	mut("C04", "DeleteTimeRange swallows the HasDataFor error", cdel,
		"			if err != nil || hasOverlap {", "			_ = err\n			if hasOverlap {", "C04.R1.guard")
	mut("C04", "DeleteTimeRange takes the channel map lock shared", cdel,
		"	tr telem.TimeRange,\n) error {\n	db.mu.Lock()\n	defer db.mu.Unlock()", "	tr telem.TimeRange,\n) error {\n	db.mu.RLock()\n	defer db.mu.RUnlock()", "C04.R1.guard")
	mut("C04", "dependants loop skips virtual-index lookalikes", cdel,
		"			if otherDBKey == ch || otherDB.Channel().Index != ch {", "			if otherDBKey == ch || otherDB.Channel().Index != ch || otherDB.Channel().Virtual {", "C04.R1.guard")
	mut("C04", "domain Delete drops deleteLock early", delgo,
		"	db.idx.deleteLock.Lock()\n	defer db.idx.deleteLock.Unlock()\n", "	db.idx.deleteLock.Lock()\n	db.idx.deleteLock.Unlock()\n", "C04.R2.atomic")
	mut("C04", "domain Delete persists after releasing idx.mu", delgo,
		"	persist := db.idx.indexPersist.prepare(db.idx.persistHead)\n	// We choose to keep the mutex locked while persisting to index.\n	return span.Error(persist())",
		"	persist := db.idx.indexPersist.prepare(db.idx.persistHead)\n	db.idx.mu.Unlock()\n	err = span.Error(persist())\n	db.idx.mu.Lock()\n	return err", "C04.R2.atomic")
	mut("C04", "domain Delete forgets to re-validate the end pointer", delgo,
		"	if db.idx.mu.pointers[endDomain] != end {\n		endDomain, _ = db.idx.unprotectedSearch(end.TimeRange)\n	}\n", "", "C04.R2.atomic")
	mut("C04", "GarbageCollect rewrites files before closing idle readers", delgo,
		"	if _, err := db.fc.gcReaders(); err != nil {\n		return span.Error(err)\n	}\n", "", "C04.R3.gc")
	mut("C04", "garbageCollectFile proceeds although a reader handle is open", delgo,
		"		if len(rs.open) > 0 {\n			restore()\n			return nil\n		}", "		if len(rs.open) > 0 {\n			restore()\n		}", "C04.R3.gc")
	mut("C04", "garbageCollectFile ignores the writer pool's refusal", delgo,
		"	if !canGC {\n		return nil\n	}", "	_ = canGC", "C04.R3.gc")
	mut("C04", "garbageCollectFile skips rejuvenate", delgo,
		"	if err = db.fc.rejuvenate(key); err != nil {\n		return err\n	}\n", "", "C04.R3.gc")
	mut("C04", "unary delete keeps the stale offset cache", "cesium/internal/unary/delete.go",
		"		return err\n	}\n	db.resolver.invalidate()\n	return nil\n}\n\n// calculateStartOffset", "		return err\n	}\n	return nil\n}\n\n// calculateStartOffset", "C04.R4.cache")

	// ---------------- C05
	const uwr = "cesium/internal/unary/writer.go"
	const reggo = "cesium/internal/control/region.go"
	const wsgo = "cesium/writer_stream.go"
	mut("C05", "unary write uses the resource before testing the Authorize error", uwr,
		"	dw, err := w.control.Authorize()\n	if err != nil {\n		return 0, w.wrapError(err)\n	}\n	if w.Channel.IsIndex {",
		"	dw, err := w.control.Authorize()\n	if w.Channel.IsIndex {", "C05.R1.authorize")
	mut("C05", "commitWithEnd ignores the Authorize error", uwr,
		"	dw, err := w.control.Authorize()\n	if err != nil {\n		return 0, err\n	}\n\n	if end.IsZero() {",
		"	dw, err := w.control.Authorize()\n	_ = err\n\n	if end.IsZero() {", "C05.R1.authorize")
	mut("C05", "unary writer keeps a raw domain writer", uwr,
		"	control *control.Gate[*controlledWriter]\n", "	control *control.Gate[*controlledWriter]\n	raw     *domain.Writer\n", "C05.R1.authorize")
	mut("C05", "Controller.remove checks emptiness before taking the controller lock", ctlgo,
		"	c.mu.Lock()\n	defer c.mu.Unlock()\n	// Re-check that the region is still empty.",
		"	r.RLock()\n	stillHasGates := len(r.gates) > 0\n	r.RUnlock()\n	if stillHasGates {\n		return\n	}\n	c.mu.Lock()\n	defer c.mu.Unlock()\n	if true {\n		for i, reg := range c.regions {\n			if reg == r {\n				c.regions = slices.Delete(c.regions, i, i+1)\n				break\n			}\n		}\n		return\n	}\n	// Re-check that the region is still empty.", "C05.R2.atomic")
	mut("C05", "gate position taken from the current number of gates", reggo,
		"		position:  r.counter,", "		position:  uint(len(r.gates)),", "C05.R2.atomic")
	mut("C05", "region counter decremented on release", reggo,
		"	r.gates.Remove(g)\n	if r.curr != g {", "	r.gates.Remove(g)\n	r.counter--\n	if r.curr != g {", "C05.R2.atomic")
	mut("C05", "region.update mutates without the region lock", reggo,
		"func (r *region[R]) update(g *Gate[R], auth control.Authority) (t Transfer) {\n	r.Lock()\n	defer r.Unlock()\n",
		"func (r *region[R]) update(g *Gate[R], auth control.Authority) (t Transfer) {\n", "C05.R2.GUARD")
	mut("C05", "setAuthority drops transfers of virtual channels", wsgo,
		"			if t := chW.SetAuthority(auth); t.Occurred() {\n				u.Transfers = append(u.Transfers, t)\n			}\n		}\n	}\n\n	for _, idx := range w.internal {",
		"			_ = chW.SetAuthority(auth)\n		}\n	}\n\n	for _, idx := range w.internal {", "C05.R3.transfers")
	mut("C05", "close never publishes the release transfers", wsgo,
		"	if len(parentUpdate.Transfers) > 0 {\n		_ = w.updateDBControl(ctx, parentUpdate)\n	}\n", "", "C05.R3.transfers")
	mut("C05", "open forgets the transfer of data channels", "cesium/writer_open.go",
		"		if transfer.Occurred() {\n			controlUpdate.Transfers = append(controlUpdate.Transfers, transfer)\n		}\n		idxW.internal[key] = &unaryWriterState{Writer: *uW}",
		"		_ = transfer\n		idxW.internal[key] = &unaryWriterState{Writer: *uW}", "C05.R3.transfers")
	mut("C05", "idxWriter.Close collects only transfers of failed closes", wsgo,
		"		} else if transfer.Occurred() {\n			update.Transfers = append(update.Transfers, transfer)\n		}\n	}\n	return update, err\n}\n\nfunc invalidDataTypeError",
		"			if transfer.Occurred() {\n				update.Transfers = append(update.Transfers, transfer)\n			}\n		}\n	}\n	return update, err\n}\n\nfunc invalidDataTypeError", "C05.R3.transfers")

	// ---------------- C20
	mut("C20", "relay receives the unfiltered frame", wsgo,
		"			frame: req.Frame.ExcludeKeys(excludeUnauthorized),", "			frame: req.Frame,", "C20.R1.relay")
	mut("C20", "virtual writes use their own exclusion list", wsgo,
		"		if req.Frame, err = w.virtual.write(&excludeUnauthorized, req.Frame); err != nil {",
		"		var scratch []ChannelKey\n		if req.Frame, err = w.virtual.write(&scratch, req.Frame); err != nil {", "C20.R1.relay")
	mut("C20", "relay fed regardless of writer mode", wsgo,
		"	if w.Mode.Stream() {\n		w.relay.Inlet() <- relayResponse{", "	if w.Mode.Stream() || true {\n		w.relay.Inlet() <- relayResponse{", "C20.R1.relay")
	mut("C20", "unauthorized data series not excluded", wsgo,
		"				return fr, accumulatedErr\n			}\n			*excludeUnauthorized = append(*excludeUnauthorized, key)\n			continue\n		}\n		if !incrementedSampleCount {",
		"				return fr, accumulatedErr\n			}\n			continue\n		}\n		if !incrementedSampleCount {", "C20.R1.exclude")
	mut("C20", "lost index no longer excludes its data channels", wsgo,
		"		if idxUnauthorized {\n			*excludeUnauthorized = append(*excludeUnauthorized, key)\n			continue\n		}", "		if idxUnauthorized {\n			continue\n		}", "C20.R1.exclude")
	mut("C20", "virtual unauthorized series not excluded", wsgo,
		"			*filterUnauthorized = append(*filterUnauthorized, k)\n			continue", "			continue", "C20.R1.exclude")
	mut("C20", "streamer forwards the whole relay frame", "cesium/streamer.go",
		"s.translateResponse(StreamerResponse{Frame: filtered, Group: rf.group}),", "s.translateResponse(StreamerResponse{Frame: rf.frame, Group: rf.group}),", "C20.R2.filter")
	mut("C20", "streamer sends empty frames", "cesium/streamer.go",
		"if filtered := rf.frame.KeepKeys(s.Channels); !filtered.Empty() {", "if filtered := rf.frame.KeepKeys(s.Channels); true {", "C20.R2.filter")
	mut("C20", "streamer forgets to disconnect", "cesium/streamer.go",
		"		defer disconnect()\n", "		_ = disconnect\n", "C20.R3.pairing")
	mut("C20", "disconnect drains after Disconnect", "cesium/relay.go",
		"		wg.Go(func() {\n			confluence.Drain(frames)\n		})\n		r.delta.Disconnect(frames)\n		wg.Wait()",
		"		r.delta.Disconnect(frames)\n		wg.Go(func() {\n			confluence.Drain(frames)\n		})\n		wg.Wait()", "C20.R3.pairing")
	mut("C20", "Disconnect edits the fan-out list directly", "x/go/confluence/delta.go",
		"func (d *DynamicDeltaMultiplier[V]) Disconnect(inlets ...Inlet[V]) {\n	d.disconnections <- inlets\n}",
		"func (d *DynamicDeltaMultiplier[V]) Disconnect(inlets ...Inlet[V]) {\n	d.disconnect(inlets)\n}", "C20.R4.confine")
	mut("C20", "timer re-armed only once per value", "x/go/confluence/source.go",
		"		case <-timer.C:\n			timer.Reset(t)\n			timedOutInlet = i", "		case <-timer.C:\n			timedOutInlet = i", "C20.R5.rearm")

	// ---------------- C04.R5
	mut("C04", "the nothing-to-delete test measures the start offset against the end domain", "cesium/internal/domain/delete.go",
		"*startOffset == startPtrLen && *endOffset == endPtrLen", "*startOffset == endPtrLen && *endOffset == endPtrLen", "C04.R5.roles")
	mut("C04", "the end offset is clamped to the start domain's length", "cesium/internal/domain/delete.go",
		"	if *endOffset > endPtrLen {\n		*endOffset = endPtrLen\n	}", "	if *endOffset > startPtrLen {\n		*endOffset = startPtrLen\n	}", "C04.R5.roles")

	// ---------------- C02.R6 / R7, C04.R3 loop
	mut("C02", "Close flushes only when the last commit did not", "cesium/internal/domain/writer.go",
		"	if *w.EnableAutoCommit && w.AutoIndexPersistInterval > 0 {\n		// Hold the lock", "	if *w.EnableAutoCommit && w.AutoIndexPersistInterval > 0 && w.lastIndexPersist.IsZero() {\n		// Hold the lock", "C02.R6.close")
	mut("C02", "Close never flushes the index", "cesium/internal/domain/writer.go",
		"	if *w.EnableAutoCommit && w.AutoIndexPersistInterval > 0 {\n		// Hold the lock across the persist: a snapshot written after the lock is\n		// released can overwrite the newer one of a commit that ran in between.\n		w.idx.mu.RLock()\n		defer w.idx.mu.RUnlock()\n		return w.idx.indexPersist.prepare(w.idx.persistHead)()\n	}\n	return nil", "	return nil", "C02.R6.close")
	mut("C02", "the data-file scan fails on a key without a file", "cesium/internal/domain/file_controller.go",
		"		if !e {\n			continue\n		}\n", "		_ = e\n", "C02.R7.scan")
	mut("C04", "the offset rewrite stops at the first pointer of another file", "cesium/internal/domain/delete.go",
		"			if ptr.fileKey == key {\n				if deltaOffset, ok := resolvePointerOffset(ptr.TimeRange, offsetDeltaMap); ok {", "			if ptr.fileKey > key {\n				break\n			}\n			if ptr.fileKey == key {\n				if deltaOffset, ok := resolvePointerOffset(ptr.TimeRange, offsetDeltaMap); ok {", "C04.R3.gc")

	// ---------------- C05.R4, C04.R2 path rule
	mut("C05", "a rejected data-channel write keeps the uncommitted flag", "cesium/writer_stream.go",
		"	if errors.Is(accumulatedErr, xcontrol.ErrUnauthorized) {\n		w.hasUncommittedData = false\n	}\n	return fr, accumulatedErr", "	if idxUnauthorized {\n		w.hasUncommittedData = false\n	}\n	return fr, accumulatedErr", "C05.R4.rejected")
	mut("C04", "the end pointer is re-validated only when the start moved", "cesium/internal/domain/delete.go",
		"			startDomain += 1\n		}\n	}\n	if db.idx.mu.pointers[endDomain] != end {\n		endDomain, _ = db.idx.unprotectedSearch(end.TimeRange)\n	}", "			startDomain += 1\n		}\n		if db.idx.mu.pointers[endDomain] != end {\n			endDomain, _ = db.idx.unprotectedSearch(end.TimeRange)\n		}\n	}", "C04.R2.atomic")

	mut("C02", "a writer whose last commit rolled over skips the flush", "cesium/internal/domain/writer.go",
		"	if *w.EnableAutoCommit && w.AutoIndexPersistInterval > 0 {\n		// Hold the lock", "	if w.prevCommit.IsZero() {\n		return nil\n	}\n	if *w.EnableAutoCommit && w.AutoIndexPersistInterval > 0 {\n		// Hold the lock", "C02.R6.close")

	// ---------------- C20.R6
	mut("C20", "re-subscription recycles the configured key slice", "cesium/streamer.go",
		"				s.Channels = s.translateRequest(req).Channels", "				s.Channels = append(s.Channels[:0], s.translateRequest(req).Channels...)", "C20.R6.own")

	mut("C02", "batch delete leaves the directory of a virtual channel in place", "cesium/delete.go",
		"		err = db.removeChannel(ch)\n		if err != nil {\n			return\n		}\n\n		// Rename the files first, so we can avoid hogging the mutex while deleting the", "		err = db.removeChannel(ch)\n		if err != nil {\n			return\n		}\n		if vok {\n			continue\n		}\n\n		// Rename the files first, so we can avoid hogging the mutex while deleting the", "C02.R4.delete")

	// ---------------- C03.R2.direction
	mut("C03", "the search compares the end of the range with the probed start", "cesium/internal/domain/index.go",
		"		if tr.Start.Before(ptr.Start) {\n			end = mid - 1", "		if tr.End.Before(ptr.Start) {\n			end = mid - 1", "C03.R2.direction")
	mut("C03", "the search turns right when the range starts before the probe", "cesium/internal/domain/index.go",
		"		if tr.Start.Before(ptr.Start) {\n			end = mid - 1\n		} else {\n			start = mid + 1\n		}", "		if tr.Start.Before(ptr.Start) {\n			start = mid + 1\n		} else {\n			end = mid - 1\n		}", "C03.R2.direction")

	// ---------------- ERR
	mut("C02", "a failed directory rename is ignored in the batch delete", "cesium/delete.go",
		"		err = db.fs.Rename(oldName, newName)\n		if err != nil {\n			return\n		}\n\n		directoriesToRemove = append(directoriesToRemove, newName)\n	}\n\n	// Do another pass", "		_ = db.fs.Rename(oldName, newName)\n\n		directoriesToRemove = append(directoriesToRemove, newName)\n	}\n\n	// Do another pass", "C02.ERR")

	// ---------------- C10
	const uit = "cesium/internal/unary/iterator.go"
	mut("C10", "the Prev command steps forward", "cesium/iterator_stream.go",
		"func(i *unary.Iterator) bool { return i.Prev(ctx, req.Span) }", "func(i *unary.Iterator) bool { return i.Next(ctx, req.Span) }", "C10.R2.dispatch")

	// ---------------- C02.R2.inorder
	mut("C02", "insert writes its index snapshot after releasing the index lock", "cesium/internal/domain/index.go",
		"	defer idx.mu.Unlock()\n	return idx.indexPersist.prepare(idx.persistHead)()\n}\n\nfunc (idx *index) overlap", "	persistPointers := idx.indexPersist.prepare(idx.persistHead)\n	idx.mu.Unlock()\n	return persistPointers()\n}\n\nfunc (idx *index) overlap", "C02.R2.inorder")
	mut("C02", "Close writes its index snapshot after releasing the index lock", "cesium/internal/domain/writer.go",
		"		w.idx.mu.RLock()\n		defer w.idx.mu.RUnlock()\n		return w.idx.indexPersist.prepare(w.idx.persistHead)()", "		w.idx.mu.RLock()\n		persistPointers := w.idx.indexPersist.prepare(w.idx.persistHead)\n		w.idx.mu.RUnlock()\n		return persistPointers()", "C02.R2.inorder")

	// ---------------- C04.R3 reader registration
	mut("C04", "the read handle is opened before the reader pool lock is taken", "cesium/internal/domain/file_controller.go",
		"	fc.readers.Lock()\n	defer fc.readers.Unlock()\n	file, err := fc.FS.Open(\n		fileKeyToName(key),\n		os.O_RDONLY,\n	)\n	if err != nil {\n		return nil, span.Error(err)\n	}\n", "	file, err := fc.FS.Open(\n		fileKeyToName(key),\n		os.O_RDONLY,\n	)\n	if err != nil {\n		return nil, span.Error(err)\n	}\n	fc.readers.Lock()\n	defer fc.readers.Unlock()\n", "C04.R3.gc")

	// ---------------- round-3 rules
	mut("C02", "load rejects an index with an empty last record", "cesium/internal/domain/index_persist.go",
		"	return p.decode(b), nil\n}", "	ptrs := p.decode(b)\n	if n := len(ptrs); n > 0 && ptrs[n-1].size == 0 {\n		return nil, os.ErrInvalid\n	}\n	return ptrs, nil\n}", "C02.R8.load")
	mut("C03", "a writer that committed before is not checked against its start", "cesium/internal/domain/writer.go",
		"	if !w.Start.Before(end) {", "	if w.prevCommit.IsZero() && !w.Start.Before(end) {", "C03.R3.validate")
	mut("C05", "the last index group decides the reported error", "cesium/writer_stream.go",
		"		if req.Frame, err = idx.write(&excludeUnauthorized, req.Frame); err != nil {\n			accumulatedErr = err\n", "		req.Frame, err = idx.write(&excludeUnauthorized, req.Frame)\n		accumulatedErr = err\n		if err != nil {\n", "C05.ERR")

	mut("C05", "a stream-only write returns before asking the gate", "cesium/internal/unary/writer.go",
		"		return 0, w.wrapError(err)\n	}\n	dw, err := w.control.Authorize()\n", "		return 0, w.wrapError(err)\n	}\n	if !*w.cfg.Persist && series.Len() == 0 {\n		return 0, nil\n	}\n	dw, err := w.control.Authorize()\n", "C05.R1.authorize")
	mut("C20", "frames are shed when the relay pipe is full", "cesium/writer_stream.go",
		"		w.relay.Inlet() <- relayResponse{", "		select {\n		case w.relay.Inlet() <- relayResponse{}:\n		default:\n		}\n		w.relay.Inlet() <- relayResponse{", "C20.R7.blocking")
	// ---------------- E14 (error flow)
	mut("C02", "commit goes on after a failed index update when the file is being switched", "cesium/internal/domain/writer.go",
		"	err := span.Error(f(ctx, ptr, shouldPersist))\n	if err != nil {", "	err := span.Error(f(ctx, ptr, shouldPersist))\n	if err != nil && !switchingFile {", "C02.ERR")
	mut("C02", "zeroStamp ignores a failed search", "cesium/internal/index/domain.go",
		"	startApprox, err := i.search(ref, r)\n	if err != nil {\n		return\n	}\n	readStamp := newStampReader()\n	if !startApprox.Exact() {\n		approx.Upper, err", "	startApprox, err := i.search(ref, r)\n	readStamp := newStampReader()\n	if !startApprox.Exact() {\n		approx.Upper, err", "C02.ERR")
	mut("C05", "an invalid frame is written anyway after the first call", "cesium/writer_stream.go",
		"	err := w.validateWrite(fr)\n	if err != nil {", "	err := w.validateWrite(fr)\n	if err != nil && w.numWriteCalls == 1 {", "C05.ERR")
	mut("C05", "a gate that takes control on open does not grow the region", "cesium/internal/control/region.go",
		"	r.timeRange = r.timeRange.Union(cfg.TimeRange)\n", "	if r.curr != nil && g.authority <= r.curr.authority {\n		r.timeRange = r.timeRange.Union(cfg.TimeRange)\n	}\n", "C05.R5.range")
	mut("C10", "SetBounds leaves the domain iterator on the open-time bounds", "cesium/internal/unary/iterator.go",
		"	i.internal.SetBounds(tr)\n", "	i.internal.SetBounds(i.domainIteratorConfig().Bounds)\n", "C10.R3.bounds")
	mut("C20", "the relay queues connect requests instead of meeting them", "cesium/relay.go",
		"		cfg.SlowConsumerTimeout,\n		ins,\n	)", "		cfg.SlowConsumerTimeout,\n		ins,\n		16,\n	)", "C20.R8.rendezvous")
	mut("C02", "a failed file ends the GC pass before the index is persisted", "cesium/internal/domain/delete.go",
		"		if err = db.garbageCollectFile(fileKey, s.Size()); err != nil {\n			gcErr = err\n			break\n		}", "		if err = db.garbageCollectFile(fileKey, s.Size()); err != nil {\n			return span.Error(err)\n		}", "C02.R5.gc")
	mut("C05", "under exclusive concurrency a gate with enough authority is authorized without being the holder", "cesium/internal/control/gate.go",
		"		if g.region.curr == g {\n			return g.region.resource, nil\n		}", "		if g.region.curr == g || g.authority >= g.region.curr.authority {\n			return g.region.resource, nil\n		}", "C05.R6.decide")
	mut("C05", "absolute authority is authorized regardless of the holder", "cesium/internal/control/gate.go",
		"	} else if g.authority >= g.region.curr.authority {", "	} else if g.authority >= g.region.curr.authority || g.authority == control.AuthorityAbsolute {", "C05.R6.decide")
	mut("C05", "OpenGate opens a fresh region although one overlapped when the transfer is empty", "cesium/internal/control/controller.go",
		"	if exists {\n		return g, t, err\n	}", "	if exists && t.Occurred() {\n		return g, t, err\n	}", "C05.R6.decide")
	mut("C09", "oversize writers are hard-closed even when in use", "cesium/internal/domain/file_controller.go",
		"		if s.Size() >= int64(fc.FileSize) && w.tryAcquire() {", "		if s.Size() >= int64(fc.FileSize) || w.tryAcquire() {", "C09.HARDCLOSE")
	mut("C09", "gcReaders closes readers it could not acquire", "cesium/internal/domain/file_controller.go",
		"				if !r.tryAcquire() {\n					// If file is held by someone else, we can't gc.\n					return true\n				}", "				_ = r.tryAcquire()", "C09.HARDCLOSE")
	mut("C09", "a small enough file's writer is handed out without being acquired", "cesium/internal/domain/file_controller.go",
		"		if size < int64(fc.FileSize) && w.tryAcquire() {", "		if size < int64(fc.FileSize)/2 || w.tryAcquire() {", "C09.HARDCLOSE")
}
