package main

import (
	"fmt"
	"go/ast"
	"go/constant"
	"go/token"
	"go/types"
	"os"
	"sort"
	"strings"
)

func init() { checks["C02"] = checkC02 }

func constString(fn *FuncNode, e ast.Expr) (string, bool) {
	tv, ok := fn.Pkg.TypesInfo.Types[e]
	if !ok || tv.Value == nil || tv.Value.Kind() != constant.String {
		return "", false
	}
	return constant.StringVal(tv.Value), true
}

func constInt(fn *FuncNode, e ast.Expr) (int64, bool) {
	tv, ok := fn.Pkg.TypesInfo.Types[e]
	if !ok || tv.Value == nil || tv.Value.Kind() != constant.Int {
		return 0, false
	}
	v, exact := constant.Int64Val(tv.Value)
	return v, exact
}

func pkgConstString(p *Prog, pkgShort, name string) (string, bool) {
	pk := p.Pkg(pkgShort)
	if pk == nil {
		return "", false
	}
	c, ok := pk.Types.Scope().Lookup(name).(*types.Const)
	if !ok || c.Val().Kind() != constant.String {
		return "", false
	}
	return constant.StringVal(c.Val()), true
}

const writeFlags = int64(os.O_WRONLY | os.O_RDWR | os.O_CREATE | os.O_TRUNC | os.O_APPEND)

var isFSOpen = calleeNamed("x/io/fs", "FS", "Open")
var isFSRename = calleeNamed("x/io/fs", "FS", "Rename")
var isFSRemove = calleeNamed("x/io/fs", "FS", "Remove")

func checkC02(r *Run) {
	r.Explanation = "Structural necessary conditions of crash consistency, decided on the CFG/AST of the functions that mutate the on-disk state of a channel: (R1) meta.json is only ever replaced by rename from meta.json.tmp, after the temp file was encoded and closed successfully, and nothing opens meta.json for writing; (R2) the index file is rewritten Truncate-then-WriteAt under the persist mutex with length and payload taken from the same snapshot, index.domain is opened in one place, and encoder/decoder of the 26-byte pointer agree field by field; (R3) domain pointers are constructed only by commit (from the tracked writer's Offset/Len, i.e. bytes already appended), by Delete (from fields of existing pointers) and by the index decoder; (R4) channel deletion renames the directory to a name the open-time scanner cannot parse before removing that renamed directory, and crash-intermediate names are disjoint from the names the scanners accept; (R5) garbage collection persists the index after the last file rewrite on every success path and swaps offsets and files in one index write-locked section."
	r.NotDecided = "Whether every prefix of the filesystem mutation log reopens consistently (a crash-point enumeration); the window between GC's rename and the index persist is visible by reading but not certifiable without a journal; torn writes and fsync policy."
	r.Trusted = []string{"go/types constant evaluation of file names and open flags", "go/cfg"}
	r.Extra["module"] = "cesium"
	p, err := Load("cesium")
	if err != nil {
		r.Undecide("%v", err)
		return
	}
	r.Stats["packages"] = len(p.Repo)
	r.Rule("C02.R1.meta", "meta.json is never opened with a write/create/truncate flag and is only the destination of Rename(meta.json.tmp, meta.json); in meta.Create that rename runs only after EncodeStream and Close of the temp file succeeded", 4)
	r.Rule("C02.R2.order", "in the closure returned by indexPersist.prepare, Truncate precedes WriteAt on every path, both with the persist mutex held; the truncate length and the written bytes come from the same pointer snapshot; index.domain is opened only in openPointerPersist", 4)
	r.Rule("C02.R2.start", "every call of indexPersist.prepare starts the rewrite at the index's lowest dirty position (idx.persistHead) or at 0: commits with a lazy persist interval leave lower positions dirty on disk, so rewriting only a tail leaves a stale prefix next to it", 5)
	r.Rule("C02.R2.inorder", "the closure returned by indexPersist.prepare is invoked while idx.mu - under which the snapshot was taken - is still held: snapshots then reach index.domain in the order of the mutations they reflect (an older snapshot written after a newer one drops a committed domain)", 5)
	r.Rule("C02.R2.codec", "pointerCodec.encode and decode lay the five pointer fields out at the same byte ranges, the ranges tile [0, pointerByteSize) exactly", 3)
	r.Rule("C02.R3.provenance", "composite literals of domain.pointer occur only in Writer.commit, DB.Delete and pointerCodec.decode; in commit offset/size come from the tracked writer's Offset()/Len(); in Delete from fields of existing pointers and the clamped offsets", 5)
	r.Rule("C02.R4.delete", "channel deletion: removeChannel, then Rename(dir, dir+'-DELETE-'+n) under DB.mu, then Remove of exactly that renamed name; crash-intermediate names are not accepted by the open-time scanners", 6)
	r.Rule("C02.ERR", "no error returned by a call is discarded anywhere in cesium (result unbound or bound to _), except the tabled sites: a swallowed file-system, index or codec error makes a failed step look successful", 1)
	r.Rule("C02.R6.close", "Writer.Close flushes the index whenever lazily persisted commits are possible: the flush is unconditional or guarded only by configuration fields, or by a writer flag that is never cleared outside Close (a commit that is later rejected must not be able to cancel the flush of earlier commits)", 1)
	r.Rule("C02.R8.load", "pointerPersist.load fails only when the index file cannot be read: it never rejects what it decoded (a crash between Truncate and WriteAt leaves zeroed or stale records behind, and reopening must still succeed)", 1)
	r.Rule("C02.R7.scan", "the open-time scan of data files tolerates a key that has no file yet (the file counter is bumped before the file is created): Stat is reached only behind Exists == true, or its error is filtered before it fails Open", 1)
	r.Rule("C02.R5.gc", "DB.GarbageCollect persists the whole index after the last garbageCollectFile on every success path; garbageCollectFile rewrites offsets and renames both files inside one idx.mu write section, and removes only the _temp name", 5)

	la := NewLockAnalysis(p, cesiumScope)
	la.Run()
	for _, u := range la.Unknown {
		r.Undecide("lockset: %s", u)
	}

	metaName, ok1 := pkgConstString(p, "cesium/internal/meta", "metaFile")
	metaTmp, ok2 := pkgConstString(p, "cesium/internal/meta", "metaTempFile")
	indexName, ok3 := pkgConstString(p, domainPkg, "indexFile")
	if !ok1 || !ok2 || !ok3 {
		r.Undecide("C02: file name constants not resolved")
		return
	}

	// ---------------- R1
	nOpen := 0
	for _, cs := range p.AllCalls(func(o types.Object, c *ast.CallExpr) bool { return isFSOpen(o, c) }) {
		if !cs.Fn.InPkgs("cesium") || cs.Fn.InPkgs("cesium/internal/testutil") || len(cs.Call.Args) != 2 {
			continue
		}
		nOpen++
		name, isConst := constString(cs.Fn, cs.Call.Args[0])
		flags, fok := constInt(cs.Fn, cs.Call.Args[1])
		if !fok {
			r.Ob("C02.R1.meta", "open flags constant in "+cs.Fn.Name, p.Position(cs.Call.Pos()), false, "open flags are not a compile-time constant: cannot decide whether this opens for writing")
			continue
		}
		if isConst && name == metaName {
			r.Ob("C02.R1.meta", "open of meta.json in "+cs.Fn.Name+" is read-only", p.Position(cs.Call.Pos()), flags&writeFlags == 0, fmt.Sprintf("flags=%#x", flags))
		}
		if isConst && name == indexName {
			owner := p.Func(domainPkg, "", "openPointerPersist")
			r.Ob("C02.R2.order", "index.domain opened in "+cs.Fn.Name, p.Position(cs.Call.Pos()), cs.Fn.Top() == owner, "index.domain may be opened only by openPointerPersist (single writer of the index file)")
		}
	}
	if nOpen < 8 {
		r.Undecide("C02: only %d FS.Open call sites found in cesium (expected >= 8)", nOpen)
	}
	nRename := 0
	for _, cs := range p.AllCalls(func(o types.Object, c *ast.CallExpr) bool { return isFSRename(o, c) }) {
		if !cs.Fn.InPkgs("cesium") || cs.Fn.InPkgs("cesium/internal/testutil") || len(cs.Call.Args) != 2 {
			continue
		}
		nRename++
		dst, dc := constString(cs.Fn, cs.Call.Args[1])
		src, sc := constString(cs.Fn, cs.Call.Args[0])
		if dc && dst == metaName {
			r.Ob("C02.R1.meta", "rename onto meta.json in "+cs.Fn.Name+" comes from meta.json.tmp", p.Position(cs.Call.Pos()), sc && src == metaTmp, "source="+src)
		}
		if sc && src == metaName {
			r.Ob("C02.R1.meta", "meta.json renamed away in "+cs.Fn.Name, p.Position(cs.Call.Pos()), false, "meta.json must never be the source of a rename")
		}
	}
	for _, cs := range p.AllCalls(func(o types.Object, c *ast.CallExpr) bool { return isFSRemove(o, c) }) {
		if !cs.Fn.InPkgs("cesium") || len(cs.Call.Args) != 1 {
			continue
		}
		if n, ok := constString(cs.Fn, cs.Call.Args[0]); ok && n == metaName {
			r.Ob("C02.R1.meta", "meta.json removed in "+cs.Fn.Name, p.Position(cs.Call.Pos()), false, "meta.json must not be removed in place")
		}
	}
	checkMetaCreate(r, p, metaName)
	checkPrepare(r, p, la)
	checkPrepareStart(r, p)
	checkPersistInOrder(r, p, la)
	checkPointerCodec(r, p)
	checkPointerProvenance(r, p)
	checkChannelDelete(r, p, la)
	checkGCOrder(r, p, la)
	checkNameDisjointness(r, p, metaName, metaTmp)
	checkCloseFlush(r, p)
	checkErrDrop(r, p, "C02.ERR", func(fn *FuncNode) bool { return fn.InPkgs("cesium") && !fn.InPkgs("cesium/internal/testutil") }, 500)
	checkScanTolerance(r, p)
	checkLoadTolerance(r, p)
	r.Stats["fs_open_sites"] = nOpen
	r.Stats["fs_rename_sites"] = nRename
}

func checkMetaCreate(r *Run, p *Prog, metaName string) {
	fn := p.Func("cesium/internal/meta", "", "Create")
	if fn == nil {
		r.Undecide("C02.R1: meta.Create not found")
		return
	}
	c := p.CFG(fn)
	var rename *ast.CallExpr
	for _, call := range CallsIn(fn, func(o types.Object, c *ast.CallExpr) bool { return isFSRename(o, c) }) {
		if d, ok := constString(fn, call.Args[1]); ok && d == metaName {
			rename = call
		}
	}
	if rename == nil {
		r.Ob("C02.R1.meta", "meta.Create replaces meta.json by rename", p.Position(fn.Pos()), false, "no Rename(..., meta.json) in meta.Create: the file is not replaced atomically")
		return
	}
	rp, _ := c.Locate(rename)
	enc := CallsIn(fn, func(o types.Object, c *ast.CallExpr) bool {
		f, ok := o.(*types.Func)
		return ok && f.Name() == "EncodeStream"
	})
	// Close of the temp file: a Close call on the variable bound to the Open result
	var tmpVar types.Object
	for _, call := range CallsIn(fn, func(o types.Object, c *ast.CallExpr) bool { return isFSOpen(o, c) }) {
		inspectNoLit(fn.Body, func(n ast.Node) bool {
			if as, ok := n.(*ast.AssignStmt); ok && len(as.Rhs) == 1 && ast.Unparen(as.Rhs[0]) == call {
				tmpVar = objOf(fn, as.Lhs[0])
			}
			return true
		})
	}
	var closes []*ast.CallExpr
	for _, call := range CallsIn(fn, func(o types.Object, c *ast.CallExpr) bool {
		f, ok := o.(*types.Func)
		return ok && f.Name() == "Close"
	}) {
		if sel, ok := call.Fun.(*ast.SelectorExpr); ok && objOf(fn, sel.X) == tmpVar {
			closes = append(closes, call)
		}
	}
	if len(enc) != 1 || len(closes) == 0 {
		r.Ob("C02.R1.meta", "meta.Create encodes and closes the temp file", p.Position(fn.Pos()), false, fmt.Sprintf("EncodeStream calls=%d, Close calls on the temp file=%d", len(enc), len(closes)))
		return
	}
	path, why := c.succeededBefore(enc[0], rp)
	r.ObPath("C02.R1.meta", "Rename in meta.Create runs only after EncodeStream succeeded", p.Position(rename.Pos()), path == nil, why, path)
	// the close on the success path is the one whose error is tested
	okClose := false
	var lastPath []string
	lastWhy := ""
	for _, cl := range closes {
		if errVarOfCall(fn, cl) == nil {
			continue
		}
		pth, why := c.succeededBefore(cl, rp)
		if pth == nil {
			okClose = true
		} else {
			lastPath, lastWhy = pth, why
		}
	}
	if okClose {
		lastPath, lastWhy = nil, "the temp file's Close error is tested before the rename"
	} else if lastWhy == "" {
		lastWhy = "no Close of the temp file whose error is checked precedes the rename"
	}
	r.ObPath("C02.R1.meta", "Rename in meta.Create runs only after the temp file was closed successfully", p.Position(rename.Pos()), okClose, lastWhy, lastPath)
}

func methodNameIs(name string) func(types.Object, *ast.CallExpr) bool {
	return func(o types.Object, _ *ast.CallExpr) bool {
		f, ok := o.(*types.Func)
		return ok && f.Name() == name
	}
}

func checkPrepare(r *Run, p *Prog, la *LockAnalysis) {
	fn := p.Func(domainPkg, "indexPersist", "prepare")
	if fn == nil {
		r.Undecide("C02.R2: indexPersist.prepare not found")
		return
	}
	lits := la.returnedLits(fn)
	if len(lits) != 1 {
		r.Undecide("C02.R2: prepare returns %d literals (expected 1)", len(lits))
		return
	}
	lit := lits[0]
	c := p.CFG(lit)
	trunc := CallsIn(lit, methodNameIs("Truncate"))
	wat := CallsIn(lit, methodNameIs("WriteAt"))
	if len(trunc) != 1 || len(wat) != 1 {
		r.Ob("C02.R2.order", "persist closure truncates once and writes once", p.Position(lit.Pos()), false, fmt.Sprintf("Truncate calls=%d WriteAt calls=%d", len(trunc), len(wat)))
		return
	}
	wp, _ := c.Locate(wat[0])
	q, vis := c.ReachAvoiding([]Point{c.Entry()}, nil, func(n ast.Node) bool { return contains(n, trunc[0]) })
	var path []string
	if vis[wp] {
		path = q.PathTo(wp)
	}
	r.ObPath("C02.R2.order", "Truncate precedes WriteAt in the persist closure", p.Position(wat[0].Pos()), !vis[wp], "writing before truncating leaves stale pointers behind the new table on a crash", path)
	const cls = "cesium/internal/domain.pointerPersist"
	r.Ob("C02.R2.order", "Truncate and WriteAt run under the pointerPersist mutex", p.Position(trunc[0].Pos()), la.HeldAt(trunc[0], cls, ModeW) && la.HeldAt(wat[0], cls, ModeW), "two persists must not interleave their truncate/write pairs")
	// same snapshot: the truncate length derives from len(pointers) and the payload from encode(start, pointers), both evaluated in prepare itself
	ptrField := p.FieldOf(domainPkg, "index", "mu.pointers")
	// derivesFrom: arg contains an expression accepted by isSrc, directly or through the
	// single definitions (in prepare) of the variables it mentions
	allowDirect := false
	var derives func(arg ast.Expr, isSrc func(rhs ast.Expr) bool, depth int) bool
	derives = func(arg ast.Expr, isSrc func(rhs ast.Expr) bool, depth int) bool {
		ok := false
		ast.Inspect(arg, func(n ast.Node) bool {
			if ok {
				return false
			}
			// inside the closure itself (depth 0) only variables count: an expression
			// evaluated there is evaluated when the closure runs, not when it was prepared
			if e, isExpr := n.(ast.Expr); isExpr && (depth > 0 || allowDirect) && isSrc(e) {
				ok = true
				return false
			}
			id, isID := n.(*ast.Ident)
			if !isID || depth >= 3 {
				return true
			}
			o := lit.Pkg.TypesInfo.Uses[id]
			if o == nil {
				return true
			}
			if rhs, _, d := varDefinedBy(fn, o); d && derives(rhs, isSrc, depth+1) {
				ok = true
			}
			return true
		})
		return ok
	}
	derivesFrom := func(arg ast.Expr, isSrc func(rhs ast.Expr) bool) bool { return derives(arg, isSrc, 0) }
	mentionsPointers := func(e ast.Expr) bool {
		m := false
		ast.Inspect(e, func(n ast.Node) bool {
			if sel, ok := n.(*ast.SelectorExpr); ok && fieldVar(fn, sel) == ptrField {
				m = true
			}
			return true
		})
		return m
	}
	lenOK := derivesFrom(trunc[0].Args[0], func(rhs ast.Expr) bool {
		call, ok := ast.Unparen(rhs).(*ast.CallExpr)
		if !ok {
			return false
		}
		bi, ok := Callee(fn, call).(*types.Builtin)
		return ok && bi.Name() == "len" && mentionsPointers(call.Args[0])
	})
	encFn := p.Func(domainPkg, "pointerCodec", "encode")
	startParam := paramObj(fn, 0)
	payloadOK := derivesFrom(wat[0].Args[0], func(rhs ast.Expr) bool {
		call, ok := ast.Unparen(rhs).(*ast.CallExpr)
		return ok && IsFunc(Callee(fn, call), encFn) && len(call.Args) == 2 && objOf(fn, call.Args[0]) == startParam && mentionsPointers(call.Args[1])
	})
	allowDirect = true // the start parameter cannot change between prepare and the run
	offsetOK := len(wat[0].Args) == 2 && derivesFrom(wat[0].Args[1], func(e ast.Expr) bool { return objOf(fn, e) == startParam && startParam != nil })
	r.Ob("C02.R2.order", "truncate length and payload come from one snapshot taken in prepare", p.Position(trunc[0].Pos()), lenOK && payloadOK && offsetOK,
		fmt.Sprintf("truncate length from len(pointers): %v; payload from encode(start, pointers): %v; write offset from start: %v", lenOK, payloadOK, offsetOK))
}

// codecLayout extracts field -> [lo,hi) byte range from encode (PutUintN(b[base+lo:base+hi], ...ptr.F...))
// or decode (F: UintN(b[base+lo:base+hi])).
func sliceBounds(fn *FuncNode, e ast.Expr) (int64, int64, bool) {
	se, ok := ast.Unparen(e).(*ast.SliceExpr)
	if !ok || se.Low == nil || se.High == nil {
		return 0, 0, false
	}
	off := func(x ast.Expr) (int64, bool) {
		x = ast.Unparen(x)
		if be, ok := x.(*ast.BinaryExpr); ok && be.Op == token.ADD {
			if v, ok := constInt(fn, be.Y); ok {
				if _, isID := ast.Unparen(be.X).(*ast.Ident); isID {
					return v, true
				}
			}
			return 0, false
		}
		if _, isID := x.(*ast.Ident); isID {
			return 0, true
		}
		return 0, false
	}
	lo, ok1 := off(se.Low)
	hi, ok2 := off(se.High)
	return lo, hi, ok1 && ok2
}

func widthOfName(name string) int64 {
	switch {
	case strings.HasSuffix(name, "Uint64"):
		return 8
	case strings.HasSuffix(name, "Uint32"):
		return 4
	case strings.HasSuffix(name, "Uint16"):
		return 2
	}
	return 0
}

func checkPointerCodec(r *Run, p *Prog) {
	enc := p.Func(domainPkg, "pointerCodec", "encode")
	dec := p.Func(domainPkg, "pointerCodec", "decode")
	pk := p.Pkg(domainPkg)
	if enc == nil || dec == nil || pk == nil {
		r.Undecide("C02.R2: pointerCodec.encode/decode not found")
		return
	}
	sizeC, _ := pk.Types.Scope().Lookup("pointerByteSize").(*types.Const)
	if sizeC == nil {
		r.Undecide("C02.R2: pointerByteSize not found")
		return
	}
	size, _ := constant.Int64Val(sizeC.Val())
	type rng struct{ lo, hi int64 }
	encL, decL := map[string]rng{}, map[string]rng{}
	bad := ""
	// encode: PutUintN(b[lo:hi], conv(ptr.F))
	inspectNoLit(enc.Body, func(n ast.Node) bool {
		call, ok := n.(*ast.CallExpr)
		if !ok || len(call.Args) != 2 {
			return true
		}
		f := CalleeFunc(enc, call)
		if f == nil || !strings.HasPrefix(f.Name(), "PutUint") {
			return true
		}
		lo, hi, ok := sliceBounds(enc, call.Args[0])
		if !ok {
			bad = "unrecognised slice bounds in encode at " + p.Position(call.Pos())
			return true
		}
		if hi-lo != widthOfName(f.Name()) {
			bad = fmt.Sprintf("encode writes %s into %d bytes at %s", f.Name(), hi-lo, p.Position(call.Pos()))
		}
		field := ""
		ast.Inspect(call.Args[1], func(x ast.Node) bool {
			if sel, ok := x.(*ast.SelectorExpr); ok {
				if v := fieldVar(enc, sel); v != nil {
					field = v.Name()
				}
			}
			return true
		})
		encL[field] = rng{lo, hi}
		return true
	})
	// decode: composite literal fields
	inspectNoLit(dec.Body, func(n ast.Node) bool {
		kv, ok := n.(*ast.KeyValueExpr)
		if !ok {
			return true
		}
		key, ok := kv.Key.(*ast.Ident)
		if !ok {
			return true
		}
		if _, nested := ast.Unparen(kv.Value).(*ast.CompositeLit); nested {
			return true // TimeRange: telem.TimeRange{Start: ..., End: ...}
		}
		var call *ast.CallExpr
		ast.Inspect(kv.Value, func(x ast.Node) bool {
			if c, ok := x.(*ast.CallExpr); ok && call == nil {
				if f := CalleeFunc(dec, c); f != nil && strings.HasPrefix(f.Name(), "Uint") && len(c.Args) == 1 {
					call = c
				}
			}
			return true
		})
		if call == nil {
			return true
		}
		f := CalleeFunc(dec, call)
		lo, hi, ok := sliceBounds(dec, call.Args[0])
		if !ok {
			bad = "unrecognised slice bounds in decode at " + p.Position(call.Pos())
			return true
		}
		if hi-lo != widthOfName(f.Name()) {
			bad = fmt.Sprintf("decode reads %s from %d bytes at %s", f.Name(), hi-lo, p.Position(call.Pos()))
		}
		decL[key.Name] = rng{lo, hi}
		return false
	})
	if bad != "" {
		r.Ob("C02.R2.codec", "pointer codec primitives match their slice widths", p.Position(enc.Pos()), false, bad)
	} else {
		r.Ob("C02.R2.codec", "pointer codec primitives match their slice widths", p.Position(enc.Pos()), len(encL) > 0 && len(decL) > 0, fmt.Sprintf("%d encoded fields, %d decoded fields", len(encL), len(decL)))
	}
	same := len(encL) == len(decL) && len(encL) >= 5
	var desc []string
	for f, a := range encL {
		b, ok := decL[f]
		if !ok || a != b {
			same = false
		}
		desc = append(desc, fmt.Sprintf("%s:[%d,%d)/[%d,%d)", f, a.lo, a.hi, b.lo, b.hi))
	}
	sort.Strings(desc)
	r.Ob("C02.R2.codec", "encode and decode agree on the byte range of every pointer field", p.Position(dec.Pos()), same, strings.Join(desc, " "))
	// tiling
	var rs []rng
	for _, a := range encL {
		rs = append(rs, a)
	}
	sort.Slice(rs, func(i, j int) bool { return rs[i].lo < rs[j].lo })
	tiles := len(rs) > 0 && rs[0].lo == 0
	for i := 1; i < len(rs); i++ {
		if rs[i].lo != rs[i-1].hi {
			tiles = false
		}
	}
	if len(rs) > 0 && rs[len(rs)-1].hi != size {
		tiles = false
	}
	r.Ob("C02.R2.codec", "field ranges tile [0, pointerByteSize)", p.Position(enc.Pos()), tiles, fmt.Sprintf("pointerByteSize=%d", size))
}

func checkPointerProvenance(r *Run, p *Prog) {
	pk := p.Pkg(domainPkg)
	tn, _ := pk.Types.Scope().Lookup("pointer").(*types.TypeName)
	if tn == nil {
		r.Undecide("C02.R3: type domain.pointer not found")
		return
	}
	allowed := map[*FuncNode]string{}
	for _, a := range [][2]string{{"Writer", "commit"}, {"DB", "Delete"}, {"pointerCodec", "decode"}} {
		if fn := p.Func(domainPkg, a[0], a[1]); fn != nil {
			allowed[fn] = a[1]
		} else {
			r.Undecide("C02.R3: %s.%s not found", a[0], a[1])
		}
	}
	refs := p.BuildRefs()
	allowedSet := map[*FuncNode]bool{}
	for f := range allowed {
		allowedSet[f] = true
	}
	n := 0
	for _, fn := range p.Funcs {
		if !fn.InPkgs("cesium") {
			continue
		}
		inspectNoLit(fn.Body, func(x ast.Node) bool {
			cl, ok := x.(*ast.CompositeLit)
			if !ok {
				return true
			}
			t := fn.Pkg.TypesInfo.TypeOf(cl)
			named, ok := t.(*types.Named)
			if !ok || named.Obj() != tn || len(cl.Elts) == 0 {
				return true // pointer{} zero values carry no location
			}
			n++
			top := fn.Top()
			okOwner, chain := refs.ReachableOnlyFrom(top, allowedSet, map[*FuncNode]bool{})
			r.ObPath("C02.R3.provenance", "pointer literal in "+top.Name, p.Position(cl.Pos()), okOwner, "a pointer constructed elsewhere can reference bytes that were never appended", chain)
			switch allowed[top] {
			case "commit":
				checkCommitLiteral(r, p, fn, cl)
			case "Delete":
				checkDeleteLiteral(r, p, fn, cl, tn)
			}
			return true
		})
	}
	if n < 4 {
		r.Undecide("C02.R3: only %d non-empty pointer literals found (expected 4)", n)
	}
}

func litField(cl *ast.CompositeLit, name string) ast.Expr {
	for _, e := range cl.Elts {
		if kv, ok := e.(*ast.KeyValueExpr); ok {
			if id, ok := kv.Key.(*ast.Ident); ok && id.Name == name {
				return kv.Value
			}
		}
	}
	return nil
}

func checkCommitLiteral(r *Run, p *Prog, fn *FuncNode, cl *ast.CompositeLit) {
	// offset: derives from <tracked writer>.Offset(); size: from a value defined by <tracked writer>.Len()
	fromMethod := func(e ast.Expr, method string) bool {
		if e == nil {
			return false
		}
		found := false
		var visit func(x ast.Expr, depth int)
		visit = func(x ast.Expr, depth int) {
			ast.Inspect(x, func(n ast.Node) bool {
				switch y := n.(type) {
				case *ast.CallExpr:
					if f := CalleeFunc(fn, y); f != nil && f.Name() == method && f.Pkg() != nil && strings.HasSuffix(f.Pkg().Path(), "x/io") {
						found = true
					}
				case *ast.Ident:
					if depth < 2 {
						if o := fn.Pkg.TypesInfo.Uses[y]; o != nil {
							if rhs, _, ok := varDefinedBy(fn, o); ok {
								visit(rhs, depth+1)
							}
						}
					}
				}
				return true
			})
		}
		visit(e, 0)
		return found
	}
	r.Ob("C02.R3.provenance", "commit's pointer offset comes from TrackedWriteCloser.Offset()", p.Position(cl.Pos()), fromMethod(litField(cl, "offset"), "Offset"), "the offset must be the counter advanced by completed writes")
	r.Ob("C02.R3.provenance", "commit's pointer size comes from TrackedWriteCloser.Len()", p.Position(cl.Pos()), fromMethod(litField(cl, "size"), "Len"), "the size must be the number of bytes already handed to the file")
}

func checkDeleteLiteral(r *Run, p *Prog, fn *FuncNode, cl *ast.CompositeLit, ptrType *types.TypeName) {
	// fileKey and offset leaves must be fields of pointer-typed locals or Size-typed locals
	ok := true
	why := ""
	for _, name := range []string{"fileKey", "offset", "size"} {
		e := litField(cl, name)
		if e == nil {
			ok, why = false, "field "+name+" missing"
			continue
		}
		ast.Inspect(e, func(n ast.Node) bool {
			switch y := n.(type) {
			case *ast.SelectorExpr:
				t := fn.Pkg.TypesInfo.TypeOf(y.X)
				if nt, isN := t.(*types.Named); !isN || nt.Obj() != ptrType {
					ok, why = false, name+" uses "+types.ExprString(y)
				}
				return false
			case *ast.CallExpr:
				if tv, isT := fn.Pkg.TypesInfo.Types[y.Fun]; !isT || !tv.IsType() {
					ok, why = false, name+" calls "+types.ExprString(y.Fun)
				}
			case *ast.Ident:
				if v, isV := fn.Pkg.TypesInfo.Uses[y].(*types.Var); isV {
					if nt, isN := v.Type().(*types.Named); !isN || nt.Obj().Name() != "Size" {
						ok, why = false, name+" uses variable "+y.Name
					}
				}
			case *ast.BasicLit:
				ok, why = false, name+" uses literal "+y.Value
			}
			return true
		})
	}
	if why == "" {
		why = "fileKey/offset/size are built only from fields of existing pointers and the clamped sample offsets"
	}
	r.Ob("C02.R3.provenance", "Delete's split pointer is built from existing pointers", p.Position(cl.Pos()), ok, why)
}

func checkChannelDelete(r *Run, p *Prog, la *LockAnalysis) {
	remove := p.Func("cesium", "DB", "removeChannel")
	if remove == nil {
		r.Undecide("C02.R4: removeChannel not found")
		return
	}
	for _, name := range []string{"DeleteChannel", "DeleteChannels"} {
		top := p.Func("cesium", "DB", name)
		if top == nil {
			r.Undecide("C02.R4: %s not found", name)
			continue
		}
		// top itself plus the package-local helpers it calls directly (a loop body extracted
		// into a method keeps the same obligations, now inside the helper)
		scopeFns := []*FuncNode{top}
		helperSites := map[*FuncNode][]*ast.CallExpr{}
		for _, cs := range p.CallsDeep(top, func(o types.Object, _ *ast.CallExpr) bool {
			f, ok := o.(*types.Func)
			if !ok {
				return false
			}
			h, ok := p.ByObj[f.Origin()]
			return ok && h.Pkg == top.Pkg && h != remove && h != top && h.Body != nil
		}) {
			h := p.ByObj[CalleeFunc(cs.Fn, cs.Call)]
			touches := len(p.CallsDeep(h, func(o types.Object, c *ast.CallExpr) bool {
				return isFSRename(o, c) || isFSRemove(o, c) || IsFunc(o, remove)
			})) > 0
			if !touches {
				continue
			}
			if _, seen := helperSites[h]; !seen {
				scopeFns = append(scopeFns, h)
			}
			helperSites[h] = append(helperSites[h], cs.Call)
		}
		var renames, removes []CallSite
		for _, sf := range scopeFns {
			renames = append(renames, p.CallsDeep(sf, func(o types.Object, c *ast.CallExpr) bool { return isFSRename(o, c) })...)
			removes = append(removes, p.CallsDeep(sf, func(o types.Object, c *ast.CallExpr) bool { return isFSRemove(o, c) })...)
		}
		if len(renames) == 0 || len(removes) == 0 {
			r.Ob("C02.R4.delete", name+" renames then removes", p.Position(top.Pos()), false, fmt.Sprintf("renames=%d removes=%d", len(renames), len(removes)))
			continue
		}
		// every channel that left the map also leaves the file system: after a successful
		// removeChannel the iteration (or the function) does not end without the rename
		nFollow := 0
		for _, sf := range scopeFns {
			for _, rc := range CallsIn(sf, calleeIs(remove)) {
				nFollow++
				i := nFollow - 1
				top := sf
				c := p.CFG(top)
				rp, ok := c.Locate(rc)
				if !ok {
					continue
				}
				errObj := errVarOfCall(top, rc)
				var blocked map[edge]bool
				if errObj != nil {
					// only the nil edge of the call's error continues
					blocked = c.EdgesEstablishing(func(atom ast.Expr, val bool) bool {
						o, trueMeansNil, ok := nilCompare(top, atom)
						return ok && o == errObj && val != trueMeansNil
					})
				}
				pth := c.leavesWithout(rp, enclosingLoop(top, rc), blocked, func(n ast.Node) bool {
					return nodeHasCall(top, n, func(o types.Object, cc *ast.CallExpr) bool { return isFSRename(o, cc) })
				})
				r.ObPath("C02.R4.delete", fmt.Sprintf("%s: removeChannel #%d is followed by the directory rename", name, i+1), p.Position(rc.Pos()), pth == nil,
					"a channel removed from the maps whose directory keeps its numeric name is rebuilt from that directory by the next Open", pth)
			}
		}
		newNames := map[types.Object]bool{}
		for i, rn := range renames {
			c := p.CFG(rn.Fn)
			rp, _ := c.Locate(rn.Call)
			// removeChannel precedes the rename in the same function body
			q, vis := c.ReachAvoiding([]Point{c.Entry()}, nil, func(n ast.Node) bool { return nodeHasCall(rn.Fn, n, calleeIs(remove)) })
			var path []string
			if vis[rp] {
				path = q.PathTo(rp)
			}
			r.ObPath("C02.R4.delete", fmt.Sprintf("%s rename #%d follows removeChannel", name, i+1), p.Position(rn.Call.Pos()), !vis[rp], "the directory must leave its name only after the channel left the map (and its handles were closed)", path)
			underLock := la.HeldAt(rn.Call, "cesium.DB.mu", ModeW)
			if !underLock {
				if sites, isHelper := helperSites[rn.Fn.Top()]; isHelper && len(sites) > 0 {
					underLock = true
					for _, hc := range sites {
						if !la.HeldAt(hc, "cesium.DB.mu", ModeW) {
							underLock = false
						}
					}
				}
			}
			r.Ob("C02.R4.delete", fmt.Sprintf("%s rename #%d runs under DB.mu (W)", name, i+1), p.Position(rn.Call.Pos()), underLock, "a concurrent create of the same key must not see the old directory")
			// the new name is old + infix + ...; infix is a constant that Atoi cannot parse
			dst := objOf(rn.Fn, rn.Call.Args[1])
			src := objOf(rn.Fn, rn.Call.Args[0])
			infixOK := false
			if dst != nil {
				newNames[dst] = true
				if rhs, _, ok := varDefinedByUp(rn.Fn, dst); ok {
					mentionsSrc := src != nil && exprMentions(rn.Fn, rhs, src)
					ast.Inspect(rhs, func(n ast.Node) bool {
						if bl, ok := n.(*ast.BasicLit); ok && bl.Kind == token.STRING {
							if s, ok := constString(rn.Fn, bl); ok && strings.ContainsAny(s, "abcdefghijklmnopqrstuvwxyzABCDEFGHIJKLMNOPQRSTUVWXYZ_") {
								infixOK = mentionsSrc
							}
						}
						return true
					})
				}
			}
			r.Ob("C02.R4.delete", fmt.Sprintf("%s rename #%d targets dir+non-numeric infix", name, i+1), p.Position(rn.Call.Pos()), infixOK, "cesium.Open parses directory names with strconv.Atoi: a name with letters is skipped after a crash between rename and remove")
		}
		for i, rm := range removes {
			// the removed name is the rename target itself, or an element of a slice that only receives rename targets
			arg := objOf(rm.Fn, rm.Call.Args[0])
			ok := arg != nil && newNames[arg]
			if !ok && arg != nil {
				// range variable over a slice appended with rename targets
				ok = removesRenamed(p, top, rm, newNames)
			}
			r.Ob("C02.R4.delete", fmt.Sprintf("%s remove #%d deletes only a renamed directory", name, i+1), p.Position(rm.Call.Pos()), ok, "removing the live directory name directly leaves a half-deleted channel that reopens after a crash")
		}
	}
}

// removesRenamed: "for _, name := range dirs { Remove(name) }" where dirs only ever
// receives append(dirs, <rename target>).
func removesRenamed(p *Prog, top *FuncNode, rm CallSite, newNames map[types.Object]bool) bool {
	arg := objOf(rm.Fn, rm.Call.Args[0])
	var slice types.Object
	ast.Inspect(rm.Fn.Body, func(n ast.Node) bool {
		rs, ok := n.(*ast.RangeStmt)
		if !ok || rs.Value == nil {
			return true
		}
		if objOf(rm.Fn, rs.Value) == arg {
			slice = objOf(rm.Fn, rs.X)
		}
		return true
	})
	if slice == nil {
		return false
	}
	ok, n := true, 0
	ast.Inspect(top.Body, func(x ast.Node) bool {
		as, isAs := x.(*ast.AssignStmt)
		if !isAs {
			return true
		}
		for i, l := range as.Lhs {
			id, isID := l.(*ast.Ident)
			if !isID {
				continue
			}
			o := top.Pkg.TypesInfo.Uses[id]
			if o == nil {
				o = top.Pkg.TypesInfo.Defs[id]
			}
			if o != slice || i >= len(as.Rhs) {
				continue
			}
			call, isCall := ast.Unparen(as.Rhs[i]).(*ast.CallExpr)
			if !isCall {
				ok = false
				continue
			}
			if bi, isB := top.Pkg.TypesInfo.Uses[identOf(call.Fun)].(*types.Builtin); isB && bi.Name() == "append" {
				for _, a := range call.Args[1:] {
					n++
					ao := top.Pkg.TypesInfo.Uses[identOf(a)]
					if ao == nil || !(newNames[ao] || renamedByHelper(p, top, ao, newNames)) {
						ok = false
					}
				}
			}
		}
		return true
	})
	// appends made by a package-local helper that receives &slice:
	// "*param = append(*param, <rename target>)"
	ast.Inspect(top.Body, func(x ast.Node) bool {
		call, isCall := x.(*ast.CallExpr)
		if !isCall {
			return true
		}
		for i, a := range call.Args {
			u, isAddr := ast.Unparen(a).(*ast.UnaryExpr)
			if !isAddr || u.Op != token.AND || objOf(top, u.X) != slice {
				continue
			}
			f := CalleeFunc(top, call)
			if f == nil {
				ok = false
				continue
			}
			h, known := p.ByObj[f]
			if !known || h.Body == nil {
				ok = false
				continue
			}
			po := paramObj(h, i)
			inspectNoLit(h.Body, func(y ast.Node) bool {
				as, isAs := y.(*ast.AssignStmt)
				if !isAs || len(as.Lhs) != 1 || len(as.Rhs) != 1 {
					return true
				}
				st, isStar := ast.Unparen(as.Lhs[0]).(*ast.StarExpr)
				if !isStar || objOf(h, st.X) != po {
					return true
				}
				ac, isAppend := ast.Unparen(as.Rhs[0]).(*ast.CallExpr)
				if !isAppend {
					ok = false
					return true
				}
				if bi, isB := Callee(h, ac).(*types.Builtin); isB && bi.Name() == "append" {
					for _, el := range ac.Args[1:] {
						n++
						if eo := objOf(h, el); eo == nil || !newNames[eo] {
							ok = false
						}
					}
				} else {
					ok = false
				}
				return true
			})
		}
		return true
	})
	return ok && n > 0
}

func identOf(e ast.Expr) *ast.Ident {
	id, _ := ast.Unparen(e).(*ast.Ident)
	return id
}

func checkGCOrder(r *Run, p *Prog, la *LockAnalysis) {
	gc := p.Func(domainPkg, "DB", "GarbageCollect")
	gcf := p.Func(domainPkg, "DB", "garbageCollectFile")
	prepare := p.Func(domainPkg, "indexPersist", "prepare")
	if gc == nil || gcf == nil || prepare == nil {
		r.Undecide("C02.R5: GarbageCollect / garbageCollectFile / prepare not found")
		return
	}
	c := p.CFG(gc)
	calls := callsReaching(p, gc, gcf)
	if len(calls) == 0 {
		r.Undecide("C02.R5: GarbageCollect does not call garbageCollectFile")
		return
	}
	// persist call: call of a variable defined by prepare(0)
	isPersist := func(n ast.Node) bool {
		found := false
		inspectNoLit(n, func(x ast.Node) bool {
			call, ok := x.(*ast.CallExpr)
			if !ok {
				return true
			}
			if v, ok := Callee(gc, call).(*types.Var); ok {
				if rhs, _, ok := varDefinedBy(gc, v); ok {
					if pc, ok := ast.Unparen(rhs).(*ast.CallExpr); ok && IsFunc(Callee(gc, pc), prepare) && len(pc.Args) == 1 {
						if v, ok := constInt(gc, pc.Args[0]); ok && v == 0 {
							found = true
						}
					}
				}
			}
			return true
		})
		return found
	}
	errEdges := c.EdgesEstablishing(func(atom ast.Expr, val bool) bool {
		o, trueMeansNil, ok := nilCompare(gc, atom)
		return ok && isErrorType(o.Type()) && val != trueMeansNil
	})
	cp, _ := c.Locate(calls[0])
	q, vis := c.ReachAvoiding([]Point{cp}, errEdges, isPersist)
	ok := true
	var path []string
	n := 0
	for _, ex := range c.Exits() {
		if !vis[ex.P] {
			continue
		}
		n++
		if ex.Return == nil || !isPersist(ex.Return) {
			ok = false
			path = q.PathTo(ex.P)
		}
	}
	r.ObPath("C02.R5.gc", "every success exit of GarbageCollect after a file rewrite persists the index from position 0", p.Position(calls[0].Pos()), ok && n > 0, "a success return that skips the persist leaves old offsets on disk next to compacted files", path)
	// ... and so does every exit reached after some file was rewritten: a pass that fails on
	// a later file has already compacted the earlier ones
	{
		// from the step itself: whatever it returned, every exit afterwards persists
		q2, vis2 := c.ReachAvoiding([]Point{cp}, nil, isPersist)
		var p2 []string
		for _, ex := range c.Exits() {
			if vis2[ex.P] && (ex.Return == nil || !isPersist(ex.Return)) {
				p2 = q2.PathTo(ex.P)
			}
		}
		r.ObPath("C02.R5.gc", "every exit of GarbageCollect reached after a file was rewritten persists the index, error exits included", p.Position(calls[0].Pos()), p2 == nil,
			"a pass that fails on a later file returns with the earlier files compacted on disk and their old offsets still in index.domain: after a restart those domains read the wrong bytes or EOF", p2)
	}
	// persist under idx.mu W
	for _, pt := range c.NodesWhere(isPersist) {
		n := pt.B.Nodes[pt.I]
		held := false
		inspectNoLit(n, func(x ast.Node) bool {
			if call, ok := x.(*ast.CallExpr); ok && la.HeldAt(call, "cesium/internal/domain.index.mu", ModeW) {
				held = true
			}
			return true
		})
		r.Ob("C02.R5.gc", "GarbageCollect persists while holding idx.mu (W)", p.Position(n.Pos()), held, "the persisted table must be the one the offset rewrite produced, in GC order")
	}
	// garbageCollectFile: renames and the offset store in one idx.mu W section
	ptrField := p.FieldOf(domainPkg, "index", "mu.pointers")
	renames := p.CallsDeep(gcf, func(o types.Object, c *ast.CallExpr) bool { return isFSRename(o, c) })
	if len(renames) != 2 {
		r.Ob("C02.R5.gc", "garbageCollectFile swaps the file with two renames", p.Position(gcf.Pos()), false, fmt.Sprintf("%d renames found", len(renames)))
	}
	var section *FuncNode
	sameSection := true
	for _, rn := range renames {
		if section == nil {
			section = rn.Fn
		} else if section != rn.Fn {
			sameSection = false
		}
		r.Ob("C02.R5.gc", "rename in garbageCollectFile runs under idx.mu (W)", p.Position(rn.Call.Pos()), la.HeldAt(rn.Call, "cesium/internal/domain.index.mu", ModeW), "readers must not see new offsets with the old file or the reverse")
	}
	if section != nil {
		stores := p.CFG(section).NodesWhere(func(n ast.Node) bool { return isStoreTo(section, n, ptrField) })
		okStore := len(stores) > 0 && sameSection
		for _, s := range stores {
			if !la.HeldAtNode(s.B.Nodes[s.I], "cesium/internal/domain.index.mu", ModeW) {
				okStore = false
			}
		}
		// the section never unlocks between the store and the renames: it has exactly one Lock and a deferred unlock
		r.Ob("C02.R5.gc", "offset rewrite and both renames share one idx.mu write section", p.Position(section.Pos()), okStore, fmt.Sprintf("%d offset store(s) in the same closure as the renames", len(stores)))
	}
	// only the _temp name is removed, and the second rename's destination is the first rename's source
	if len(renames) == 2 {
		a, b := renames[0].Call, renames[1].Call
		if a.Pos() > b.Pos() {
			a, b = b, a
		}
		src0 := objOf(renames[0].Fn, a.Args[0])
		dst1 := objOf(renames[0].Fn, b.Args[1])
		r.Ob("C02.R5.gc", "the compacted copy is renamed onto the original name after the original was moved aside", p.Position(b.Pos()), src0 != nil && src0 == dst1, "move-aside then rename-over keeps a complete file under the live name at every crash point but one rename")
		removes := p.CallsDeep(gcf, func(o types.Object, c *ast.CallExpr) bool { return isFSRemove(o, c) })
		okRm := len(removes) == 1
		for _, rm := range removes {
			if types.ExprString(rm.Call.Args[0]) != types.ExprString(a.Args[1]) {
				okRm = false
			}
		}
		r.Ob("C02.R5.gc", "garbageCollectFile removes only the moved-aside original", p.Position(gcf.Pos()), okRm, fmt.Sprintf("%d Remove call(s)", len(removes)))
	}
}

// checkNameDisjointness decides on constants that crash-intermediate names cannot be
// mistaken for live names by the open-time scanners.
func checkNameDisjointness(r *Run, p *Prog, metaName, metaTmp string) {
	ext, ok := pkgConstString(p, domainPkg, "extension")
	if !ok {
		r.Undecide("C02.R4: domain.extension not found")
		return
	}
	r.Ob("C02.R4.delete", "meta.json.tmp is not meta.json", "cesium/internal/meta/meta.go", metaTmp != metaName && metaTmp != "", "meta.Open only looks for the exact name meta.json")
	// GC intermediates: name + "_gc", name + "_temp" — constant suffixes appended to fileKeyToName(key)
	gcf := p.Func(domainPkg, "DB", "garbageCollectFile")
	var suffixes []string
	if gcf != nil {
		ast.Inspect(gcf.Body, func(n ast.Node) bool {
			be, ok := n.(*ast.BinaryExpr)
			if !ok || be.Op != token.ADD {
				return true
			}
			if s, ok := constString(gcf, be.Y); ok {
				if _, isStr := gcf.Pkg.TypesInfo.TypeOf(be.X).Underlying().(*types.Basic); isStr {
					suffixes = append(suffixes, s)
				}
			}
			return true
		})
	}
	okSuf := len(suffixes) >= 2
	for _, s := range suffixes {
		if s == "" || strings.HasSuffix(s, ext) {
			okSuf = false
		}
	}
	r.Ob("C02.R4.delete", "GC intermediate names do not end in the domain file extension", "cesium/internal/domain/delete.go", okSuf, fmt.Sprintf("suffixes %q vs extension %q: scanUnopenedFiles probes exactly fileKeyToName(i)", suffixes, ext))
}

// checkPrepareStart: the start argument of every prepare call is the persistHead field of
// the index or the constant 0.
func checkPrepareStart(r *Run, p *Prog) {
	prepare := p.Func(domainPkg, "indexPersist", "prepare")
	head := p.FieldOf(domainPkg, "index", "persistHead")
	if prepare == nil || head == nil {
		r.Undecide("C02.R2: prepare / index.persistHead not resolved")
		return
	}
	for _, cs := range p.AllCalls(func(o types.Object, _ *ast.CallExpr) bool { return IsFunc(o, prepare) }) {
		if len(cs.Call.Args) != 1 {
			continue
		}
		arg := ast.Unparen(cs.Call.Args[0])
		ok := false
		if v, isConst := constInt(cs.Fn, arg); isConst && v == 0 {
			ok = true
		}
		if sel, isSel := arg.(*ast.SelectorExpr); isSel && fieldVar(cs.Fn, sel) == head {
			ok = true
		}
		r.Ob("C02.R2.start", "prepare start in "+cs.Fn.Top().Name, p.Position(cs.Call.Pos()), ok, "start argument is "+types.ExprString(arg)+"; must be idx.persistHead or 0")
	}
}

// checkCloseFlush decides C02.R6 on domain.Writer.Close.
func checkCloseFlush(r *Run, p *Prog) {
	fn := p.Func(domainPkg, "Writer", "Close")
	prep := p.Func(domainPkg, "indexPersist", "prepare")
	if fn == nil || prep == nil {
		r.Undecide("C02.R6: Writer.Close / indexPersist.prepare not found")
		return
	}
	calls := CallsIn(fn, calleeIs(prep))
	if len(calls) == 0 {
		r.Ob("C02.R6.close", "Writer.Close flushes the index", p.Position(fn.Pos()), false, "no call to indexPersist.prepare in Close: commits inside the persist interval are never written")
		return
	}
	// flush guards: two-way blocks from which the flush is reachable and from which a
	// success return is also reachable without the flush
	c := p.CFG(fn)
	isPrep := func(n ast.Node) bool { return contains(n, calls[0]) }
	var conds []ast.Expr
	for _, b := range c.G.Blocks {
		cond := Cond(b)
		if cond == nil || !b.Live {
			continue
		}
		start := []Point{{b, len(b.Nodes) - 1}}
		_, all := c.ReachAvoiding(start, nil, nil)
		reachesPrep := false
		for _, pt := range c.NodesWhere(isPrep) {
			if all[pt] {
				reachesPrep = true
			}
		}
		if !reachesPrep {
			continue
		}
		// an edge of this block leads to a region that cannot flush but can return success
		skips := false
		for si := range b.Succs {
			_, vis := c.ReachAvoiding([]Point{{b.Succs[si], -1}}, nil, nil)
			canPrep := false
			for _, pt := range c.NodesWhere(isPrep) {
				if vis[pt] {
					canPrep = true
				}
			}
			if canPrep {
				continue
			}
			for _, ex := range c.Exits() {
				if !vis[ex.P] {
					continue
				}
				if ex.Return == nil || mayReturnNilError(fn, ex.Return) {
					skips = true
				}
			}
		}
		if skips {
			conds = append(conds, cond)
		}
	}
	cfgType := p.Pkg(domainPkg).Types.Scope().Lookup("WriterConfig")
	isConfigField := func(v *types.Var) bool {
		if cfgType == nil {
			return false
		}
		st, ok := cfgType.Type().Underlying().(*types.Struct)
		if !ok {
			return false
		}
		for i := 0; i < st.NumFields(); i++ {
			if st.Field(i) == v {
				return true
			}
		}
		return false
	}
	for _, cond := range conds {
		for _, atom := range conjuncts(cond) {
			var fields []*types.Var
			other := false
			var collect func(in *FuncNode, e ast.Node, depth int)
			collect = func(in *FuncNode, e ast.Node, depth int) {
				ast.Inspect(e, func(x ast.Node) bool {
					switch v := x.(type) {
					case *ast.SelectorExpr:
						if f, ok := in.Pkg.TypesInfo.Uses[v.Sel].(*types.Var); ok && f.IsField() {
							fields = append(fields, f)
						}
					case *ast.CallExpr:
						// a method call on a field reads that field
						if sel, ok := ast.Unparen(v.Fun).(*ast.SelectorExpr); ok {
							if inner, ok := ast.Unparen(sel.X).(*ast.SelectorExpr); ok {
								if f, ok := in.Pkg.TypesInfo.Uses[inner.Sel].(*types.Var); ok && f.IsField() {
									return true
								}
							}
						}
						// a package-local predicate whose body is one return: read through it
						if h := p.ByObj[CalleeFunc(in, v)]; h != nil && h.Body != nil && h.Pkg == in.Pkg && depth < 2 && len(h.Body.List) == 1 {
							if ret, ok := h.Body.List[0].(*ast.ReturnStmt); ok && len(ret.Results) == 1 {
								collect(h, ret.Results[0], depth+1)
								return false
							}
						}
						other = true
					}
					return true
				})
			}
			collect(fn, atom, 0)
			good, detail := true, "configuration only"
			if other || len(fields) == 0 {
				r.Undecide("C02.R6: the flush guard %s in Writer.Close is not a test of fields (unknown idiom)", types.ExprString(atom))
				continue
			}
			for _, f := range fields {
				if isConfigField(f) {
					continue
				}
				// a writer state flag: every assignment outside Close must be '= true'
				for _, g := range p.FuncsOfPkg(domainPkg) {
					if g.Body == nil || g.Top() == fn {
						continue
					}
					inspectNoLit(g.Body, func(x ast.Node) bool {
						as, ok := x.(*ast.AssignStmt)
						if !ok {
							return true
						}
						for i, l := range as.Lhs {
							sel, ok := ast.Unparen(l).(*ast.SelectorExpr)
							if !ok || g.Pkg.TypesInfo.Uses[sel.Sel] != f || i >= len(as.Rhs) {
								continue
							}
							if id, ok := ast.Unparen(as.Rhs[i]).(*ast.Ident); ok && id.Name == "true" {
								continue
							}
							good = false
							detail = fmt.Sprintf("the flush is guarded by the state flag %s, which %s assigns %s at %s: a commit that is due to persist but is then rejected clears the flag and Close skips flushing the earlier commits", f.Name(), g.Name, types.ExprString(as.Rhs[i]), posOf(p, as))
						}
						return true
					})
				}
			}
			r.Ob("C02.R6.close", "flush guard "+types.ExprString(atom)+" of Writer.Close", p.Position(atom.Pos()), good, detail)
		}
	}
}

// checkScanTolerance decides C02.R7 on fileController.scanUnopenedFiles.
func checkScanTolerance(r *Run, p *Prog) {
	fn := p.Func(domainPkg, "fileController", "scanUnopenedFiles")
	if fn == nil {
		r.Undecide("C02.R7: fileController.scanUnopenedFiles not found")
		return
	}
	c := p.CFG(fn)
	var stats []*ast.CallExpr
	var existsVars = map[types.Object]bool{}
	inspectNoLit(fn.Body, func(x ast.Node) bool {
		switch v := x.(type) {
		case *ast.CallExpr:
			if f := CalleeFunc(fn, v); f != nil && f.Name() == "Stat" {
				stats = append(stats, v)
			}
		case *ast.AssignStmt:
			if len(v.Rhs) == 1 {
				if call, ok := ast.Unparen(v.Rhs[0]).(*ast.CallExpr); ok {
					if f := CalleeFunc(fn, call); f != nil && f.Name() == "Exists" && len(v.Lhs) >= 1 {
						if o := objOf(fn, v.Lhs[0]); o != nil {
							existsVars[o] = true
						}
					}
				}
			}
		}
		return true
	})
	if len(stats) == 0 {
		r.ObTrivial("C02.R7.scan", "scanUnopenedFiles does not Stat files", p.Position(fn.Pos()), true, "")
		return
	}
	hasFilter := false
	inspectNoLit(fn.Body, func(x ast.Node) bool {
		if call, ok := x.(*ast.CallExpr); ok {
			if f := CalleeFunc(fn, call); f != nil && (f.Name() == "Is" || f.Name() == "IsNotExist") {
				hasFilter = true
			}
		}
		return true
	})
	established := c.EdgesEstablishing(func(atom ast.Expr, val bool) bool {
		o := objOf(fn, atom)
		return o != nil && existsVars[o] && val
	})
	// edges leaving the "exists" tests the other way are blocked; a Stat reachable without
	// crossing an established edge is unguarded
	for i, st := range stats {
		sp, ok := c.Locate(st)
		if !ok {
			r.Undecide("C02.R7: Stat call not located")
			continue
		}
		guarded := false
		if len(established) > 0 {
			_, vis := c.ReachAvoiding([]Point{c.Entry()}, established, nil)
			guarded = !vis[sp]
		}
		r.Ob("C02.R7.scan", fmt.Sprintf("Stat #%d in scanUnopenedFiles is reached only for files that exist", i+1), p.Position(st.Pos()), guarded || hasFilter,
			"newWriter persists the bumped file counter before it creates the file; after a crash between the two a key <= counter has no file, and an unguarded Stat error makes every later Open of the channel fail")
	}
}

// checkPersistInOrder decides C02.R2.inorder.
func checkPersistInOrder(r *Run, p *Prog, la *LockAnalysis) {
	prepare := p.Func(domainPkg, "indexPersist", "prepare")
	if prepare == nil {
		r.Undecide("C02.R2.inorder: indexPersist.prepare not found")
		return
	}
	const cls = "cesium/internal/domain.index.mu"
	n := 0
	for _, cs := range p.AllCalls(func(o types.Object, _ *ast.CallExpr) bool { return IsFunc(o, prepare) }) {
		fn := cs.Fn
		// the invocation: prepare(..)() directly, or a call of the variable bound to prepare(..)
		var invocations []*ast.CallExpr
		var bound types.Object
		inspectNoLit(fn.Body, func(x ast.Node) bool {
			switch v := x.(type) {
			case *ast.CallExpr:
				if inner, ok := ast.Unparen(v.Fun).(*ast.CallExpr); ok && inner == cs.Call {
					invocations = append(invocations, v)
				}
			case *ast.AssignStmt:
				if len(v.Rhs) == 1 && ast.Unparen(v.Rhs[0]) == ast.Expr(cs.Call) && len(v.Lhs) == 1 {
					bound = objOf(fn, v.Lhs[0])
				}
			}
			return true
		})
		if bound != nil {
			inspectNoLit(fn.Body, func(x ast.Node) bool {
				if call, ok := x.(*ast.CallExpr); ok && objOf(fn, call.Fun) == bound {
					invocations = append(invocations, call)
				}
				return true
			})
		}
		if len(invocations) == 0 {
			r.Ob("C02.R2.inorder", "persist prepared in "+fn.Top().Name+" is invoked in the same function", p.Position(cs.Call.Pos()), false, "the closure escapes: its invocation cannot be ordered against other persists")
			continue
		}
		for i, inv := range invocations {
			n++
			held := la.HeldAt(inv, cls, ModeR)
			r.Ob("C02.R2.inorder", fmt.Sprintf("persist #%d prepared in %s runs under idx.mu", i+1, fn.Top().Name), p.Position(inv.Pos()), held,
				"the snapshot is written after idx.mu was released: a commit that runs in between persists a newer snapshot first and this older one then overwrites it")
		}
	}
	if n < 5 {
		r.Undecide("C02.R2.inorder: only %d persist invocations found (expected 5)", n)
	}
}

// checkLoadTolerance decides C02.R8.
func checkLoadTolerance(r *Run, p *Prog) {
	fn := p.Func(domainPkg, "pointerPersist", "load")
	if fn == nil {
		r.Undecide("C02.R8: pointerPersist.load not found")
		return
	}
	ioErr := map[types.Object]bool{}
	inspectNoLit(fn.Body, func(x ast.Node) bool {
		as, ok := x.(*ast.AssignStmt)
		if !ok || len(as.Rhs) != 1 {
			return true
		}
		call, ok := ast.Unparen(as.Rhs[0]).(*ast.CallExpr)
		if !ok {
			return true
		}
		f := CalleeFunc(fn, call)
		if f == nil || (f.Name() != "Stat" && f.Name() != "ReadAt" && f.Name() != "Read") {
			return true
		}
		for _, l := range as.Lhs {
			if o := objOf(fn, l); o != nil && isErrorType(o.Type()) {
				ioErr[o] = true
			}
		}
		return true
	})
	good, detail, n := true, "", 0
	inspectNoLit(fn.Body, func(x ast.Node) bool {
		ret, ok := x.(*ast.ReturnStmt)
		if !ok || len(ret.Results) != 2 {
			return true
		}
		n++
		e := ret.Results[1]
		if isNilIdent(fn, e) {
			return true
		}
		if o := objOf(fn, e); o != nil && ioErr[o] {
			return true
		}
		good = false
		detail = "returns " + types.ExprString(e) + " at " + posOf(p, ret)
		return true
	})
	r.Ob("C02.R8.load", "pointerPersist.load returns only Stat/ReadAt errors", p.Position(fn.Pos()), good && n > 0, detail+": an index image left by a crash inside the truncate/write pair must load (its odd records are harmless empty domains), otherwise every later Open of the channel fails")
}

// renamedByHelper: every assignment of o in top takes result k of a package-local helper
// whose returns hand out, at position k, a rename target (or, next to a non-nil error,
// anything).
func renamedByHelper(p *Prog, top *FuncNode, o types.Object, newNames map[types.Object]bool) bool {
	n, ok := 0, true
	ast.Inspect(top.Body, func(x ast.Node) bool {
		as, isAs := x.(*ast.AssignStmt)
		if !isAs {
			return true
		}
		for k, l := range as.Lhs {
			if objOf(top, l) != o {
				continue
			}
			n++
			if len(as.Rhs) != 1 {
				ok = false
				continue
			}
			call, isCall := ast.Unparen(as.Rhs[0]).(*ast.CallExpr)
			if !isCall {
				ok = false
				continue
			}
			h := p.ByObj[CalleeFunc(top, call)]
			if h == nil || h.Body == nil || h.Pkg != top.Pkg {
				ok = false
				continue
			}
			inspectNoLit(h.Body, func(y ast.Node) bool {
				ret, isRet := y.(*ast.ReturnStmt)
				if !isRet {
					return true
				}
				if k >= len(ret.Results) {
					ok = false
					return true
				}
				if newNames[objOf(h, ret.Results[k])] {
					return true
				}
				// an error return: the last result is not the nil literal
				last := ret.Results[len(ret.Results)-1]
				if t := h.Pkg.TypesInfo.TypeOf(last); t != nil && isErrorType(t) && !isNilIdent(h, last) {
					return true
				}
				ok = false
				return true
			})
		}
		return true
	})
	return ok && n > 0
}
