package main

import (
	"fmt"
	"go/token"
	"os"
	"sort"
	"strings"
)

// guardRow is one row of a frozen guarded-field table.
type guardRow struct {
	Pkg, Type, Field string
	ReadAny          []string
	WriteAll         []string
	Reason           string
}

// lockRuleSet drives the lockset engine for one property: the guarded-field table, the
// scope, and which of PAIR / GUARD / ORDER are armed.
type lockRuleSet struct {
	Prefix  string // rule id prefix, e.g. "C09"
	Scope   func(*FuncNode) bool
	Guards  []guardRow
	Pair    bool
	Order   bool
	MinOps  int // minimum number of lock operations expected in scope
	MinAcc  int // minimum number of guarded accesses
	Entry   func(*FuncNode) bool
	PairIDs string
}

func isEntryDefault(fn *FuncNode) bool {
	if fn.Decl == nil {
		return false
	}
	if strings.Contains(fn.Pkg.PkgPath, "/internal/") || strings.HasSuffix(fn.Pkg.PkgPath, "/internal") {
		return false
	}
	return fn.Decl.Name.IsExported()
}

// applyLockRules runs the engine and turns its results into obligations.
func applyLockRules(r *Run, p *Prog, rs lockRuleSet) *LockAnalysis {
	la := NewLockAnalysis(p, rs.Scope)
	for _, g := range rs.Guards {
		if err := la.Guard(g.Pkg, g.Type, g.Field, g.ReadAny, g.WriteAll, g.Reason); err != nil {
			r.Undecide("guard table anchor unresolved: %v", err)
		}
	}
	la.Run()
	for _, u := range la.Unknown {
		r.Undecide("lockset: %s", u)
	}
	r.Stats["functions_analysed"] += la.funcsAnalysed
	r.Stats["lock_operations"] += la.LockOps
	if la.LockOps < rs.MinOps {
		r.Undecide("%s: only %d lock operations found in scope (expected at least %d)", rs.Prefix, la.LockOps, rs.MinOps)
	}
	entry := rs.Entry
	if entry == nil {
		entry = isEntryDefault
	}
	la.isEntry = entry

	// ---- PAIR
	if rs.Pair {
		type pk struct {
			fn    *FuncNode
			class string
		}
		bad := map[pk][]pairFinding{}
		for _, f := range la.Pairs {
			k := pk{f.Fn.Top(), f.Class}
			dup := false
			for _, e := range bad[k] {
				if e.Pos == f.Pos && e.Kind == f.Kind {
					dup = true
				}
			}
			if !dup {
				bad[k] = append(bad[k], f)
			}
		}
		seen := map[pk]bool{}
		for _, a := range la.Acqs {
			k := pk{a.Fn.Top(), a.Class}
			if seen[k] {
				continue
			}
			seen[k] = true
			construct := fmt.Sprintf("%s acquires %s", k.fn.Name, k.class)
			if fs := bad[k]; len(fs) > 0 {
				var ds []string
				for _, f := range fs {
					ds = append(ds, f.Kind+": "+f.Detail)
				}
				r.Ob(rs.Prefix+".PAIR", construct, p.Position(fs[0].Pos), false, strings.Join(ds, "; "))
			} else {
				r.Ob(rs.Prefix+".PAIR", construct, p.Position(a.Pos), true, "released exactly once on every exit (explicit unlock before each return, deferred unlock, or deferred closure)")
			}
		}
		// findings in functions without a direct acquisition (unlock of a caller's lock)
		for k, fs := range bad {
			if !seen[k] {
				r.Ob(rs.Prefix+".PAIR", fmt.Sprintf("%s releases %s", k.fn.Name, k.class), p.Position(fs[0].Pos), false, fs[0].Kind+": "+fs[0].Detail)
			}
		}
	}

	// ---- GUARD
	type gk struct {
		fn    *FuncNode
		field string
		write bool
	}
	groups := map[gk][]accessSite{}
	var order []gk
	for _, a := range la.Accesses {
		k := gk{a.Fn, a.Spec.Name, a.Write}
		if _, ok := groups[k]; !ok {
			order = append(order, k)
		}
		groups[k] = append(groups[k], a)
	}
	sort.Slice(order, func(i, j int) bool {
		a, b := order[i], order[j]
		if a.fn.Name != b.fn.Name {
			return a.fn.Name < b.fn.Name
		}
		if a.field != b.field {
			return a.field < b.field
		}
		return !a.write && b.write
	})
	nAcc := 0
	for _, k := range order {
		sites := groups[k]
		nAcc += len(sites)
		mode := "read"
		if k.write {
			mode = "write"
		}
		construct := fmt.Sprintf("%s of %s in %s", mode, k.field, k.fn.Name)
		allHeld := true
		var firstBad *accessSite
		for i := range sites {
			if !sites[i].Held {
				allHeld = false
				if firstBad == nil {
					firstBad = &sites[i]
				}
			}
		}
		spec := sites[0].Spec
		if allHeld {
			r.Ob(rs.Prefix+".GUARD", construct, p.Position(sites[0].Pos), true, fmt.Sprintf("%d site(s), lock held on every path (must-lockset)", len(sites)))
			continue
		}
		// not held locally: every caller chain must supply it
		var need []reqKey
		if k.write {
			for _, c := range spec.WriteAll {
				need = append(need, reqKey{c, ModeW})
			}
		} else {
			need = append(need, reqKey{strings.Join(spec.ReadAny, "|"), ModeR})
		}
		var chain []string
		var missing reqKey
		for _, nk := range need {
			if len(la.summary(k.fn).Requires[nk]) == 0 {
				continue
			}
			if ch := la.Unsatisfied(k.fn, nk, map[*FuncNode]bool{}); ch != nil {
				chain, missing = ch, nk
				break
			}
		}
		if chain == nil && os.Getenv("VERIF_DEBUG") != "" {
			for _, nk := range need {
				fmt.Printf("DEBUG need %v in %s: requires=%d callers=%d\n", nk, k.fn.Name, len(la.summary(k.fn).Requires[nk]), len(la.callers[k.fn]))
				for _, cs := range la.callers[k.fn] {
					fmt.Printf("DEBUG   caller %s lit=%v seen=%v parentReq=%d\n", cs.Caller.Name, cs.Caller.Lit != nil, la.litSeen[cs.Caller], func() int {
						if cs.Caller.Parent != nil {
							return len(la.summary(cs.Caller.Parent).Requires[nk])
						}
						return -1
					}())
				}
			}
		}
		if chain == nil {
			r.Ob(rs.Prefix+".GUARD", construct, p.Position(firstBad.Pos), true, "lock not taken here; every call chain from an entry point holds it at the call (caller-held summary)")
			continue
		}
		// name the first hop that fails to hold the lock so that distinct broken callers are distinct findings
		via := chain[0]
		if len(chain) > 1 {
			via = chain[len(chain)-2]
			if i := strings.Index(via, " ["); i > 0 {
				via = via[:i]
			}
		}
		if i := strings.Index(via, " ("); i > 0 {
			via = via[:i]
		}
		r.ObPath(rs.Prefix+".GUARD", construct+" via "+via, p.Position(firstBad.Pos), false,
			fmt.Sprintf("%s of %s without %s(%s): reachable from an entry point with the lock not held", mode, k.field, missing.Class, missing.Mode), chain)
	}
	if nAcc < rs.MinAcc {
		r.Undecide("%s: only %d guarded accesses found (expected at least %d): table anchors lost", rs.Prefix, nAcc, rs.MinAcc)
	}
	r.Stats["guarded_accesses"] += nAcc

	// ---- ORDER
	if rs.Order {
		cycles := la.Cycles()
		inCycle := map[string][]string{}
		for _, cyc := range cycles {
			var desc []string
			for _, e := range cyc {
				desc = append(desc, fmt.Sprintf("%s -> %s in %s at %s%s", e.From, e.To, e.Fn.Name, p.Position(e.Pos), viaStr(e.Via)))
			}
			for _, e := range cyc {
				inCycle[e.From+" -> "+e.To] = desc
			}
		}
		seen := map[string]bool{}
		var edges []orderEdge
		for _, e := range la.Edges {
			k := e.From + " -> " + e.To
			if !seen[k] {
				seen[k] = true
				edges = append(edges, e)
			}
		}
		sort.Slice(edges, func(i, j int) bool { return edges[i].From+edges[i].To < edges[j].From+edges[j].To })
		for _, e := range edges {
			k := e.From + " -> " + e.To
			if desc, bad := inCycle[k]; bad {
				r.ObPath(rs.Prefix+".ORDER", "edge "+k, p.Position(e.Pos), false, "lock-order edge lies on a cycle: some schedule deadlocks (RWMutex read acquisitions count: a queued writer blocks new readers)", desc)
			} else {
				r.Ob(rs.Prefix+".ORDER", "edge "+k, p.Position(e.Pos), true, fmt.Sprintf("acquired while holding, in %s%s; on no cycle", e.Fn.Name, viaStr(e.Via)))
			}
		}
		r.Stats["lock_order_edges"] += len(edges)
	}
	return la
}

func viaStr(v string) string {
	if v == "" {
		return ""
	}
	return " via " + v
}

var _ = token.NoPos

// exportedEntry treats every exported function or method as an entry point: used when
// the analysed scope is a single (internal) package whose callers are not analysed.
func exportedEntry(fn *FuncNode) bool { return fn.Decl != nil && fn.Decl.Name.IsExported() }
