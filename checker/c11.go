package main

import (
	"fmt"
	"go/ast"
	"go/token"
	"go/types"
	"golang.org/x/tools/go/cfg"
	"sort"
	"strings"
)

func init() { checks["C11"] = checkC11 }

const pledgePkg = "aspen/internal/cluster/pledge"

// sectionUnbroken reports a path from `from` to `to` on which a call matched by
// isRelease occurs: the critical section is interrupted between the two points.
func (c *FuncCFG) sectionBroken(from, to Point, isRelease func(ast.Node) bool) []string {
	q, vis := c.ReachAvoiding([]Point{from}, nil, func(n ast.Node) bool { return false })
	if !vis[to] {
		return nil
	}
	// a release node that is reachable from `from` and from which `to` is reachable
	for pt := range vis {
		if pt.I < 0 || pt.I >= len(pt.B.Nodes) || !isRelease(pt.B.Nodes[pt.I]) {
			continue
		}
		_, v2 := c.ReachAvoiding([]Point{pt}, nil, nil)
		if v2[to] {
			return q.PathTo(pt)
		}
	}
	return nil
}

func checkC11(r *Run) {
	r.Explanation = "Structural necessary conditions of unique node keys: (R1) juror.approvals is accessed only under juror.mu, the membership test and the recording append happen in one uninterrupted critical section, one juror per member is captured by the handler (not allocated per request), and verdict records the key on every path that does not reject; (R2) responsible.propose returns (res, nil) only after consultQuorum(ctx, res.Key, quorum) returned nil for a quorum that buildQuorum produced without error in the same iteration that assigned res.Key from idToPropose, with res.ClusterKey taken from the configuration; (R3) in consultQuorum every quorum member is sent the request, each goroutine returns exactly the Send error, and the function returns the group's Wait(); (R4) _proposedKey is written only in idToPropose, by 'highest+1' or '++'."
	r.NotDecided = "Quorum-intersection arithmetic (len/2+1 over stale views) and interleavings of two coordinators (values/schedules)."
	r.Trusted = []string{"go/types, go/cfg, lockset engine", "errgroup.Group.Wait returns the first non-nil goroutine error"}
	r.Extra["module"] = "aspen"
	p, err := Load("aspen")
	if err != nil {
		r.Undecide("%v", err)
		return
	}
	r.Stats["packages"] = len(p.Repo)
	r.Rule("C11.R1.GUARD", "juror.approvals is read and written only with juror.mu held", 2)
	r.Rule("C11.R1.memory", "one juror per member; the already-approved test and the recording append share one critical section; every non-rejecting path records the key", 3)
	r.Rule("C11.R2.quorum", "propose returns a key with a nil error only behind a nil consultQuorum(ctx, res.Key, quorum) on a quorum built without error in the same iteration, after res.Key = idToPropose() and res.ClusterKey = cfg.ClusterKey", 5)
	r.Rule("C11.R2.failure", "every iteration of the proposal loop that does not return stores a non-nil error in the named result (so the trailing 'return res, err' cannot report success), and the loop runs at least once", 2)
	r.Rule("C11.R5.clusterkey", "cluster.Open hands pledge.Arbitrate a configuration whose ClusterKey was assigned from the cluster's key on every path; a joining node adopts the ClusterKey of the pledge response", 3)
	r.Rule("C11.ERR", "no error returned by a call is discarded in the pledge and cluster-open code except the tabled sites (a swallowed juror or arbitration error admits a node without its quorum)", 1)
	r.Rule("C11.R6.search", "a binary search is applied only to slices that are kept ordered (inserted at the found position or sorted after appending); juror.approvals is append-only, so membership must be tested linearly", 1)
	r.Rule("C11.R7.verdict", "juror.verdict approves (returns a nil error) only across the edge on which the key is not among its earlier approvals and the edge on which the key is above every key it knows: weakening either test lets one juror approve the same key for two pledges, or a key a member already holds", 2)
	r.Rule("C11.R3.failures", "consultQuorum asks every quorum member, each goroutine returns the Send error unchanged, and the result is wg.Wait()", 3)
	r.Rule("C11.R4.monotone", "responsible._proposedKey is assigned only in idToPropose, by highestNodeID(snapshot)+1 or by ++", 2)

	scope := func(fn *FuncNode) bool { return fn.InPkgs("aspen/internal/cluster/pledge") }
	la := applyLockRules(r, p, lockRuleSet{Prefix: "C11.R1", Scope: scope, Guards: []guardRow{
		{pledgePkg, "juror", "approvals", []string{pledgePkg + ".juror.mu"}, []string{pledgePkg + ".juror.mu"}, "keys this member voted for"},
	}, MinOps: 2, MinAcc: 2, Entry: exportedEntry})

	// ---- R1 memory
	verdict := p.Func(pledgePkg, "juror", "verdict")
	arbitrate := p.Func(pledgePkg, "", "arbitrate")
	approvals := p.FieldOf(pledgePkg, "juror", "approvals")
	if verdict == nil || arbitrate == nil || approvals == nil {
		r.Undecide("C11.R1: juror.verdict / arbitrate / approvals not resolved")
		return
	}
	// one juror per member
	okJuror := false
	detail := "verdict is not called from the handler closure"
	for _, l := range arbitrate.Lits {
		for _, call := range CallsIn(l, calleeIs(verdict)) {
			sel, _ := ast.Unparen(call.Fun).(*ast.SelectorExpr)
			if sel == nil {
				continue
			}
			o := objOf(l, sel.X)
			if o == nil {
				detail = "verdict receiver is not a variable"
				continue
			}
			// defined in the enclosing function, not in the literal
			_, _, inLit := varDefinedBy(l, o)
			_, _, inOuter := varDefinedBy(arbitrate, o)
			okJuror = inOuter && !inLit
			detail = fmt.Sprintf("juror variable %s: defined in arbitrate=%v, in the handler=%v", o.Name(), inOuter, inLit)
		}
	}
	r.Ob("C11.R1.memory", "the handler shares one juror across requests", p.Position(arbitrate.Pos()), okJuror, detail+": a juror allocated per request forgets what it approved")

	c := p.CFG(verdict)
	// a package-local helper that only reads the field (no store to it, no lock
	// operation of its own) reads it on behalf of its caller: "j.alreadyApproved(key)"
	readsOnly := func(g *FuncNode) bool {
		if g == nil || g.Body == nil || g.Pkg != verdict.Pkg || g == verdict {
			return false
		}
		reads, clean := false, true
		inspectNoLit(g.Body, func(x ast.Node) bool {
			switch v := x.(type) {
			case *ast.SelectorExpr:
				if fieldVar(g, v) == approvals {
					reads = true
				}
			case *ast.CallExpr:
				if _, _, isLock := la.lockOp(g, v); isLock {
					clean = false
				}
			case ast.Stmt:
				if isStoreTo(g, v, approvals) {
					clean = false
				}
			}
			return true
		})
		return reads && clean
	}
	reads := c.NodesWhere(func(n ast.Node) bool {
		if isStoreTo(verdict, n, approvals) {
			return false
		}
		found := false
		inspectNoLit(n, func(x ast.Node) bool {
			if s, ok := x.(*ast.SelectorExpr); ok && fieldVar(verdict, s) == approvals {
				found = true
			}
			if call, ok := x.(*ast.CallExpr); ok {
				if f := CalleeFunc(verdict, call); f != nil && readsOnly(p.ByObj[f.Origin()]) {
					found = true
				}
			}
			return true
		})
		return found
	})
	stores := c.NodesWhere(func(n ast.Node) bool { return isStoreTo(verdict, n, approvals) })
	if len(reads) == 0 || len(stores) == 0 {
		r.Ob("C11.R1.memory", "verdict tests and records approvals", p.Position(verdict.Pos()), false, fmt.Sprintf("membership tests=%d, recording stores=%d", len(reads), len(stores)))
	} else {
		isRelease := func(n ast.Node) bool {
			hit := false
			inspectNoLit(n, func(x ast.Node) bool {
				if call, ok := x.(*ast.CallExpr); ok {
					if op, h, ok := la.lockOp(verdict, call); ok && (op == "Unlock" || op == "RUnlock") && h.Class == pledgePkg+".juror.mu" {
						if _, isDefer := n.(*ast.DeferStmt); !isDefer {
							hit = true
						}
					}
				}
				return true
			})
			return hit
		}
		var path []string
		for _, rd := range reads {
			for _, st := range stores {
				if pth := c.sectionBroken(rd, st, isRelease); pth != nil {
					path = pth
				}
			}
		}
		r.ObPath("C11.R1.memory", "the already-approved test and the recording append are in one critical section", p.Position(reads[0].B.Nodes[reads[0].I].Pos()), path == nil, "if the lock is released in between, two proposals for one key can both pass the test on the same juror", path)
		// every non-rejecting path records the key
		var named types.Object
		if verdict.Type.Results != nil {
			for _, f := range verdict.Type.Results.List {
				for _, nm := range f.Names {
					named = verdict.Pkg.TypesInfo.Defs[nm]
				}
			}
		}
		stop := func(n ast.Node) bool {
			if isStoreTo(verdict, n, approvals) {
				return true
			}
			// err = <non-nil>
			if as, ok := n.(*ast.AssignStmt); ok && named != nil {
				for i, l := range as.Lhs {
					if objOf(verdict, l) == named && i < len(as.Rhs) && !isNilIdent(verdict, as.Rhs[i]) {
						return true
					}
				}
			}
			// return <expr> with explicit non-nil result
			if ret, ok := n.(*ast.ReturnStmt); ok && len(ret.Results) > 0 && !isNilIdent(verdict, ret.Results[0]) {
				return true
			}
			return false
		}
		q, vis := c.ReachAvoiding([]Point{c.Entry()}, nil, stop)
		ok := true
		var p2 []string
		for _, ex := range c.Exits() {
			if vis[ex.P] && !(ex.P.I >= 0 && ex.P.I < len(ex.P.B.Nodes) && stop(ex.P.B.Nodes[ex.P.I])) {
				ok = false
				p2 = q.PathTo(ex.P)
			}
		}
		r.ObPath("C11.R1.memory", "verdict records the key on every path that approves", p.Position(verdict.Pos()), ok, "an approval that is not remembered can be given again to another coordinator", p2)
	}

	checkPropose(r, p)
	checkClusterKey(r, p)
	checkPledgeKey(r, p)
	checkSortedSearch(r, p)
	checkErrDrop(r, p, "C11.ERR", func(fn *FuncNode) bool {
		return fn.InPkgs("aspen/internal/cluster/pledge") || (fn.InPkgs("aspen/internal/cluster") && !fn.InPkgs("aspen/internal/cluster/gossip", "aspen/internal/cluster/store"))
	}, 40)
	checkConsultQuorum(r, p)
	checkVerdictGuards(r, p)

	// ---- R4
	pk := p.FieldOf(pledgePkg, "responsible", "_proposedKey")
	idTo := p.Func(pledgePkg, "responsible", "idToPropose")
	if pk == nil || idTo == nil {
		r.Undecide("C11.R4: _proposedKey / idToPropose not resolved")
		return
	}
	okOwner, okForm, n := true, true, 0
	where := ""
	for _, fn := range p.FuncsOfPkg(pledgePkg) {
		inspectNoLit(fn.Body, func(x ast.Node) bool {
			switch s := x.(type) {
			case *ast.AssignStmt:
				for i, l := range s.Lhs {
					if !lhsSpineHasField(fn, l, pk) {
						continue
					}
					n++
					if fn.Top() != idTo {
						okOwner = false
						where = fn.Top().Name
					}
					// highestNodeID(...) + 1
					be, ok := ast.Unparen(s.Rhs[i]).(*ast.BinaryExpr)
					form := false
					if ok && be.Op == token.ADD && s.Tok == token.ASSIGN {
						if lit, ok := ast.Unparen(be.Y).(*ast.BasicLit); ok && lit.Value == "1" {
							if call, ok := ast.Unparen(be.X).(*ast.CallExpr); ok {
								if f := CalleeFunc(fn, call); f != nil && f.Name() == "highestNodeID" {
									form = true
								}
							}
						}
					}
					if !form {
						okForm = false
						where = types.ExprString(s.Rhs[i])
					}
				}
			case *ast.IncDecStmt:
				if lhsSpineHasField(fn, s.X, pk) {
					n++
					if fn.Top() != idTo {
						okOwner = false
						where = fn.Top().Name
					}
					if s.Tok != token.INC {
						okForm = false
						where = "decrement"
					}
				}
			case *ast.KeyValueExpr:
				if id, ok := s.Key.(*ast.Ident); ok {
					if v, ok := fn.Pkg.TypesInfo.Uses[id].(*types.Var); ok && v.Origin() == pk {
						n++
						okOwner = false
						where = "initialised in " + fn.Top().Name
					}
				}
			}
			return true
		})
	}
	r.Ob("C11.R4.monotone", "_proposedKey is written only in idToPropose", p.Position(idTo.Pos()), okOwner && n >= 2, fmt.Sprintf("%d write(s) %s", n, where))
	r.Ob("C11.R4.monotone", "_proposedKey only grows: highest known key + 1, then ++", p.Position(idTo.Pos()), okForm && n >= 2, where+": a retry that reuses a key is rejected by jurors that already approved it; a lower key can collide with a member")
}

func checkPropose(r *Run, p *Prog) {
	fn := p.Func(pledgePkg, "responsible", "propose")
	consult := p.Func(pledgePkg, "responsible", "consultQuorum")
	build := p.Func(pledgePkg, "responsible", "buildQuorum")
	idTo := p.Func(pledgePkg, "responsible", "idToPropose")
	if fn == nil || consult == nil || build == nil || idTo == nil {
		r.Undecide("C11.R2: propose / consultQuorum / buildQuorum / idToPropose not resolved")
		return
	}
	c := p.CFG(fn)
	cc := CallsIn(fn, calleeIs(consult))
	bc := CallsIn(fn, calleeIs(build))
	if len(cc) != 1 || len(bc) != 1 {
		r.Ob("C11.R2.quorum", "propose consults one quorum per iteration", p.Position(fn.Pos()), false, fmt.Sprintf("consultQuorum calls=%d buildQuorum calls=%d", len(cc), len(bc)))
		return
	}
	cp, _ := c.Locate(cc[0])
	// success returns
	n := 0
	for _, ex := range c.Exits() {
		if ex.Return == nil || len(ex.Return.Results) != 2 || !isNilIdent(fn, ex.Return.Results[1]) { // the loop-exit return of the accumulated error is C11.R2.failure's subject
			continue
		}
		n++
		path, why := c.succeededBefore(cc[0], ex.P)
		r.ObPath("C11.R2.quorum", "a key is returned with a nil error only after the quorum approved", p.Position(ex.Return.Pos()), path == nil, why, path)
	}
	if n == 0 {
		r.Ob("C11.R2.quorum", "a key is returned with a nil error only after the quorum approved", p.Position(fn.Pos()), false, "no 'return res, nil' found")
	}
	// arguments of consultQuorum
	var res types.Object
	if fn.Type.Results != nil && len(fn.Type.Results.List) > 0 && len(fn.Type.Results.List[0].Names) > 0 {
		res = fn.Pkg.TypesInfo.Defs[fn.Type.Results.List[0].Names[0]]
	}
	keyOK := false
	if len(cc[0].Args) == 3 {
		if f, ok := isFieldOfObj(fn, cc[0].Args[1], res); ok && f == "Key" {
			keyOK = true
		}
	}
	qObj := objOf(fn, cc[0].Args[2])
	quorumOK := false
	if qObj != nil {
		if rhs, _, ok := varDefinedBy(fn, qObj); ok && ast.Unparen(rhs) == bc[0] {
			quorumOK = true
		}
	}
	r.Ob("C11.R2.quorum", "the consulted key is the one returned and the quorum is the one just built", p.Position(cc[0].Pos()), keyOK && quorumOK, fmt.Sprintf("key argument is res.Key: %v; quorum argument comes from buildQuorum(): %v", keyOK, quorumOK))
	path, why := c.succeededBefore(bc[0], cp)
	r.ObPath("C11.R2.quorum", "consultQuorum runs only on a quorum built without error", p.Position(cc[0].Pos()), path == nil, why, path)
	// res.Key = idToPropose() in the same iteration before consulting
	keyField := p.FieldOf(pledgePkg, "Response", "Key")
	isKeyStore := func(n ast.Node) bool {
		as, ok := n.(*ast.AssignStmt)
		if !ok || len(as.Lhs) != 1 || len(as.Rhs) != 1 || !isStoreTo(fn, n, keyField) {
			return false
		}
		call, ok := ast.Unparen(as.Rhs[0]).(*ast.CallExpr)
		return ok && IsFunc(Callee(fn, call), idTo)
	}
	okIter := false
	var p3 []string
	if loop := enclosingLoop(fn, cc[0]); loop != nil {
		for _, b := range c.G.Blocks {
			if b.Stmt == loop && (b.Kind.String() == "RangeBody" || b.Kind.String() == "ForBody") {
				q, vis := c.ReachAvoiding([]Point{{b, -1}}, nil, isKeyStore)
				okIter = !vis[cp]
				if vis[cp] {
					p3 = q.PathTo(cp)
				}
			}
		}
	}
	r.ObPath("C11.R2.quorum", "every iteration proposes a fresh key before consulting", p.Position(cc[0].Pos()), okIter, "re-consulting with the previous key is rejected by jurors that already approved it; consulting without assigning proposes key 0", p3)
	// ClusterKey
	ckField := p.FieldOf(pledgePkg, "Response", "ClusterKey")
	isCK := func(n ast.Node) bool { return ckField != nil && isStoreTo(fn, n, ckField) }
	q, vis := c.ReachAvoiding([]Point{c.Entry()}, nil, isCK)
	okCK := len(c.NodesWhere(isCK)) > 0
	var p4 []string
	for _, ex := range c.Exits() {
		if ex.Return != nil && len(ex.Return.Results) == 2 && isNilIdent(fn, ex.Return.Results[1]) && vis[ex.P] {
			okCK = false
			p4 = q.PathTo(ex.P)
		}
	}
	r.ObPath("C11.R2.quorum", "the response carries the coordinator's cluster key", p.Position(fn.Pos()), okCK, "a joining node must receive that cluster's key", p4)

	// ---- R2.failure: an iteration that did not return leaves a non-nil error behind
	var errObj types.Object
	if fn.Type.Results != nil {
		for _, f := range fn.Type.Results.List {
			for _, nm := range f.Names {
				if o := fn.Pkg.TypesInfo.Defs[nm]; o != nil && isErrorType(o.Type()) {
					errObj = o
				}
			}
		}
	}
	loop := enclosingLoop(fn, cc[0])
	varReturn := false
	for _, ex := range c.Exits() {
		if ex.Return != nil && len(ex.Return.Results) == 2 && objOf(fn, ex.Return.Results[1]) == errObj && errObj != nil {
			varReturn = true
		}
	}
	switch {
	case !varReturn:
		// every return states its error explicitly: nothing to decide
		r.ObTrivial("C11.R2.failure", "propose has no return of a variable error after the proposal loop", p.Position(fn.Pos()), true, "")
	case errObj == nil || loop == nil:
		r.Undecide("C11.R2.failure: propose returns a variable error but the named result / proposal loop was not identified")
	default:
		path := c.leavesIterationWithNilErr(loop, errObj)
		r.ObPath("C11.R2.failure", "every iteration of propose that does not return leaves a non-nil error in the named result", p.Position(loop.Pos()), path == nil,
			"the final 'return res, err' then reports success for a key no quorum approved", path)
		// the loop runs at least once: MaxProposals is validated non-zero
		val := p.Func(pledgePkg, "Config", "Validate")
		okVal := false
		if val != nil {
			inspectNoLit(val.Body, func(x ast.Node) bool {
				if call, ok := x.(*ast.CallExpr); ok {
					if f := CalleeFunc(val, call); f != nil && (f.Name() == "NonZero" || f.Name() == "Positive" || f.Name() == "GreaterThan") {
						for _, a := range call.Args {
							if sel, ok := ast.Unparen(a).(*ast.SelectorExpr); ok && sel.Sel.Name == "MaxProposals" {
								okVal = true
							}
						}
					}
				}
				return true
			})
		}
		r.Ob("C11.R2.failure", "Config.Validate rejects MaxProposals == 0 (the proposal loop runs at least once)", p.Position(fn.Pos()), okVal, "with zero iterations propose returns (zero key, nil)")
	}
}

// leavesIterationWithNilErr searches the body of loop for a path from the start of an
// iteration to its end (back edge, break) on which the error variable errObj is not known
// to be non-nil: known means assigned from a value tested non-nil on the path (directly,
// or through errors.Combine), or itself tested non-nil after its last assignment.
func (c *FuncCFG) leavesIterationWithNilErr(loop ast.Stmt, errObj types.Object) []string {
	fn := c.Fn
	var body *cfg.Block
	for _, b := range c.G.Blocks {
		if b.Stmt == loop && (b.Kind.String() == "RangeBody" || b.Kind.String() == "ForBody") {
			body = b
		}
	}
	if body == nil {
		return []string{"loop body block not found"}
	}
	type state struct {
		b      *cfg.Block
		known  string // sorted object names known non-nil (small)
		errSet bool
	}
	seen := map[state]bool{}
	var found []string
	var walk func(b *cfg.Block, nonNil map[types.Object]bool, errKnown bool, trail []string) bool
	key := func(m map[types.Object]bool) string {
		var ks []string
		for o, v := range m {
			if v {
				ks = append(ks, o.Name())
			}
		}
		sort.Strings(ks)
		return strings.Join(ks, ",")
	}
	walk = func(b *cfg.Block, nonNil map[types.Object]bool, errKnown bool, trail []string) bool {
		st := state{b, key(nonNil), errKnown}
		if seen[st] {
			return false
		}
		seen[st] = true
		nn := map[types.Object]bool{}
		for k, v := range nonNil {
			nn[k] = v
		}
		for _, n := range b.Nodes {
			if _, ok := n.(*ast.ReturnStmt); ok {
				return false
			}
			as, ok := n.(*ast.AssignStmt)
			if !ok {
				continue
			}
			for i, l := range as.Lhs {
				o := objOf(fn, l)
				if o == nil {
					continue
				}
				var rhs ast.Expr
				if len(as.Lhs) == len(as.Rhs) {
					rhs = as.Rhs[i]
				}
				val := false
				if rhs != nil {
					if ro := objOf(fn, rhs); ro != nil && nn[ro] {
						val = true
					}
					if call, ok := ast.Unparen(rhs).(*ast.CallExpr); ok {
						if f := CalleeFunc(fn, call); f != nil && f.Name() == "Combine" {
							for _, a := range call.Args {
								if ao := objOf(fn, a); ao != nil && nn[ao] {
									val = true
								}
							}
						}
					}
				}
				nn[o] = val
				if o == errObj {
					errKnown = val
					trail = append(trail, fmt.Sprintf("%s assigned at %s (known non-nil: %v)", o.Name(), posOf(c.P, as), val))
				}
			}
		}
		cond := Cond(b)
		for si, s := range b.Succs {
			nn2, ek := nn, errKnown
			if cond != nil {
				if o, trueMeansNil, ok := nilCompare(fn, cond); ok {
					isNil := (si == 0) == trueMeansNil
					nn2 = map[types.Object]bool{}
					for k, v := range nn {
						nn2[k] = v
					}
					nn2[o] = !isNil
					if o == errObj {
						ek = !isNil
					}
				}
			}
			if s.Stmt == loop && s != body {
				// leaving the iteration: loop head (back edge / continue), post, or done (break)
				if !ek {
					found = append(trail, fmt.Sprintf("iteration left through block %q with %s possibly nil", s.Kind.String(), errObj.Name()))
					return true
				}
				continue
			}
			if walk(s, nn2, ek, trail) {
				return true
			}
		}
		return false
	}
	if walk(body, map[types.Object]bool{}, false, nil) {
		return found
	}
	return nil
}

func checkConsultQuorum(r *Run, p *Prog) {
	fn := p.Func(pledgePkg, "responsible", "consultQuorum")
	if fn == nil {
		r.Undecide("C11.R3: consultQuorum not found")
		return
	}
	c := p.CFG(fn)
	quorum := paramObj(fn, 2)
	// wg.Go(...) inside a range over the quorum parameter, reached on every iteration
	var goCall *ast.CallExpr
	var wg types.Object
	inspectNoLit(fn.Body, func(x ast.Node) bool {
		if call, ok := x.(*ast.CallExpr); ok {
			if f := CalleeFunc(fn, call); f != nil && f.Name() == "Go" && f.Pkg() != nil && strings.HasSuffix(f.Pkg().Path(), "errgroup") {
				goCall = call
				if s, ok := ast.Unparen(call.Fun).(*ast.SelectorExpr); ok {
					wg = objOf(fn, s.X)
				}
			}
		}
		return true
	})
	if goCall == nil {
		r.Ob("C11.R3.failures", "consultQuorum fans out through an errgroup", p.Position(fn.Pos()), false, "no errgroup.Group.Go call")
		return
	}
	loop, _ := enclosingLoop(fn, goCall).(*ast.RangeStmt)
	okAll := loop != nil && objOf(fn, loop.X) == quorum
	var path []string
	if okAll {
		for _, b := range c.G.Blocks {
			if b.Stmt == loop && b.Kind.String() == "RangeBody" {
				q, vis := c.ReachAvoiding([]Point{{b, -1}}, nil, func(n ast.Node) bool { return contains(n, goCall) })
				for pt := range vis {
					if pt.B.Stmt == loop && (pt.B.Kind.String() == "RangeLoop" || pt.B.Kind.String() == "RangeDone") {
						okAll = false
						path = q.PathTo(pt)
					}
				}
			}
		}
	}
	r.ObPath("C11.R3.failures", "every member of the quorum is asked", p.Position(goCall.Pos()), okAll, "a member that is skipped never records the key", path)
	// the goroutine returns exactly the Send error
	lit, _ := ast.Unparen(goCall.Args[0]).(*ast.FuncLit)
	okRet := false
	why := "the errgroup function is not a literal"
	if lit != nil {
		l := p.LitNode(lit)
		var send *ast.CallExpr
		inspectNoLit(l.Body, func(x ast.Node) bool {
			if call, ok := x.(*ast.CallExpr); ok {
				if f := CalleeFunc(l, call); f != nil && f.Name() == "Send" {
					send = call
				}
			}
			return true
		})
		if send == nil {
			why = "no Send call in the goroutine"
		} else {
			ev := errVarOfCall(l, send)
			okRet = ev != nil
			why = "every return is the Send error"
			nRet := 0
			lc := p.CFG(l)
			var nilVis map[Point]bool
			if ev != nil {
				_, nilVis = lc.ReachAvoiding([]Point{lc.Entry()}, errNilEdges(lc, ev), nil)
			}
			inspectNoLit(l.Body, func(x ast.Node) bool {
				if ret, ok := x.(*ast.ReturnStmt); ok {
					nRet++
					good := len(ret.Results) == 1 && objOf(l, ret.Results[0]) == ev
					// "return nil" on the edge where the Send error is nil is the same value
					if !good && len(ret.Results) == 1 && isNilIdent(l, ret.Results[0]) && nilVis != nil {
						if rp, found := lc.Locate(ret); found && !nilVis[rp] {
							good = true
						}
					}
					if !good {
						okRet = false
						why = "a goroutine path returns " + types.ExprString(ret.Results[0]) + " instead of the Send error"
					}
				}
				// the error variable must not be reassigned
				if as, ok := x.(*ast.AssignStmt); ok && ev != nil {
					for _, lh := range as.Lhs {
						if objOf(l, lh) == ev && !contains(as, send) {
							okRet = false
							why = "the Send error is overwritten"
						}
					}
				}
				return true
			})
			if nRet == 0 {
				okRet = false
				why = "no return in the goroutine"
			}
		}
	}
	r.Ob("C11.R3.failures", "each juror request reports its own Send error, unchanged", p.Position(goCall.Pos()), okRet, why+": a juror that timed out or failed must not count as an approval")
	// return wg.Wait()
	okWait := true
	nRet := 0
	inspectNoLit(fn.Body, func(x ast.Node) bool {
		if ret, ok := x.(*ast.ReturnStmt); ok {
			nRet++
			call, isCall := ast.Unparen(ret.Results[0]).(*ast.CallExpr)
			if !isCall {
				okWait = false
				return true
			}
			f := CalleeFunc(fn, call)
			s, _ := ast.Unparen(call.Fun).(*ast.SelectorExpr)
			if f == nil || f.Name() != "Wait" || s == nil || objOf(fn, s.X) != wg {
				okWait = false
			}
		}
		return true
	})
	r.Ob("C11.R3.failures", "consultQuorum returns the group's Wait() result", p.Position(fn.Pos()), okWait && nRet > 0, "swallowing a juror failure approves a key without a full quorum")
}

// checkClusterKey decides C11.R5 in cluster.Open.
func checkClusterKey(r *Run, p *Prog) {
	const clusterPkg = "aspen/internal/cluster"
	fn := p.Func(clusterPkg, "", "Open")
	arb := p.Func(pledgePkg, "", "Arbitrate")
	pledgeFn := p.Func(pledgePkg, "", "Pledge")
	keyFn := p.Func(clusterPkg, "Cluster", "Key")
	if fn == nil || arb == nil || pledgeFn == nil || keyFn == nil {
		r.Undecide("C11.R5: cluster.Open / pledge.Arbitrate / pledge.Pledge / Cluster.Key not resolved")
		return
	}
	c := p.CFG(fn)
	isKeyValue := func(e ast.Expr) bool {
		e = ast.Unparen(e)
		if call, ok := e.(*ast.CallExpr); ok {
			return IsFunc(Callee(fn, call), keyFn)
		}
		if o := objOf(fn, e); o != nil {
			if rhs, _, ok := varDefinedBy(fn, o); ok {
				if call, ok := ast.Unparen(rhs).(*ast.CallExpr); ok {
					return IsFunc(Callee(fn, call), keyFn)
				}
			}
		}
		return false
	}
	calls := CallsIn(fn, calleeIs(arb))
	for i, call := range calls {
		if len(call.Args) != 1 {
			continue
		}
		want := types.ExprString(call.Args[0]) + ".ClusterKey"
		isAssign := func(n ast.Node) bool {
			as, ok := n.(*ast.AssignStmt)
			if !ok || len(as.Lhs) != 1 || len(as.Rhs) != 1 {
				return false
			}
			return types.ExprString(as.Lhs[0]) == want && isKeyValue(as.Rhs[0])
		}
		cp, ok := c.Locate(call)
		if !ok {
			r.Undecide("C11.R5: Arbitrate call not located")
			continue
		}
		q, vis := c.ReachAvoiding([]Point{c.Entry()}, nil, isAssign)
		var path []string
		if vis[cp] {
			path = q.PathTo(cp)
		}
		r.ObPath("C11.R5.clusterkey", fmt.Sprintf("Arbitrate call #%d in cluster.Open receives %s = c.Key()", i+1, want), p.Position(call.Pos()), !vis[cp],
			"the jurors and the responsible of this member answer pledges with the configuration they were given; without the assignment on the same configuration value a joiner receives the zero cluster key", path)
	}
	if len(calls) < 2 {
		r.Undecide("C11.R5: expected two Arbitrate calls in cluster.Open (restart and bootstrap), found %d", len(calls))
	}
	// the joiner adopts the key of the pledge response
	n := 0
	inspectNoLit(fn.Body, func(x ast.Node) bool {
		call, ok := x.(*ast.CallExpr)
		if !ok {
			return true
		}
		f := CalleeFunc(fn, call)
		if f == nil || f.Name() != "SetClusterKey" || len(call.Args) != 2 {
			return true
		}
		n++
		arg := ast.Unparen(call.Args[1])
		good, what := false, types.ExprString(arg)
		if sel, ok := arg.(*ast.SelectorExpr); ok && sel.Sel.Name == "ClusterKey" {
			if o := objOf(fn, sel.X); o != nil {
				if rhs, _, ok := varDefinedBy(fn, o); ok {
					if pc, ok := ast.Unparen(rhs).(*ast.CallExpr); ok && IsFunc(Callee(fn, pc), pledgeFn) {
						good = true
					}
				}
			}
		} else if o := objOf(fn, arg); o != nil {
			if rhs, _, ok := varDefinedBy(fn, o); ok {
				if gc, ok := ast.Unparen(rhs).(*ast.CallExpr); ok {
					if g := CalleeFunc(fn, gc); g != nil && g.Name() == "New" && g.Pkg() != nil && strings.HasSuffix(g.Pkg().Path(), "uuid") {
						good = true
					}
				}
			}
		}
		r.Ob("C11.R5.clusterkey", fmt.Sprintf("SetClusterKey call #%d in cluster.Open", n), p.Position(call.Pos()), good, "the cluster key is either the one the pledge response carried or a fresh uuid for a bootstrapped cluster; got "+what)
		return true
	})
}

// checkPledgeKey: the pledging node arbitrates future pledges with the cluster key it
// was just given: in pledge.Pledge every arbitrate(cfg) is preceded, on every path, by
// "cfg.ClusterKey = <response>.ClusterKey" on that very variable (a helper that receives
// the configuration by value cannot do it).
func checkPledgeKey(r *Run, p *Prog) {
	fn := p.Func(pledgePkg, "", "Pledge")
	arb := p.Func(pledgePkg, "", "arbitrate")
	if fn == nil || arb == nil {
		r.Undecide("C11.R5: pledge.Pledge / pledge.arbitrate not found")
		return
	}
	c := p.CFG(fn)
	calls := CallsIn(fn, calleeIs(arb))
	if len(calls) == 0 {
		r.Undecide("C11.R5: pledge.Pledge does not call arbitrate")
		return
	}
	for i, call := range calls {
		if len(call.Args) != 1 {
			continue
		}
		want := types.ExprString(call.Args[0]) + ".ClusterKey"
		isAssign := func(n ast.Node) bool {
			as, ok := n.(*ast.AssignStmt)
			if !ok || len(as.Lhs) != 1 || len(as.Rhs) != 1 || types.ExprString(as.Lhs[0]) != want {
				return false
			}
			sel, ok := ast.Unparen(as.Rhs[0]).(*ast.SelectorExpr)
			return ok && sel.Sel.Name == "ClusterKey"
		}
		cp, ok := c.Locate(call)
		if !ok {
			r.Undecide("C11.R5: arbitrate call not located")
			continue
		}
		q, vis := c.ReachAvoiding([]Point{c.Entry()}, nil, isAssign)
		var path []string
		if vis[cp] {
			path = q.PathTo(cp)
		}
		r.ObPath("C11.R5.clusterkey", fmt.Sprintf("arbitrate call #%d in pledge.Pledge receives %s = response.ClusterKey", i+1, want), p.Position(call.Pos()), !vis[cp],
			"the freshly admitted node answers later pledges with the configuration it arbitrates with; without the assignment on that variable it hands out the zero cluster key", path)
	}
}

// checkSortedSearch decides C11.R6 over the pledge and cluster packages.
func checkSortedSearch(r *Run, p *Prog) {
	n := 0
	for _, fn := range p.Funcs {
		if fn.Body == nil || !fn.InPkgs("aspen/internal/cluster") {
			continue
		}
		inspectNoLit(fn.Body, func(x ast.Node) bool {
			call, ok := x.(*ast.CallExpr)
			if !ok || len(call.Args) < 2 {
				return true
			}
			f := CalleeFunc(fn, call)
			if f == nil || f.Pkg() == nil || !(f.Pkg().Path() == "slices" && strings.HasPrefix(f.Name(), "BinarySearch") || f.Pkg().Path() == "sort" && strings.HasPrefix(f.Name(), "Search")) {
				return true
			}
			n++
			sel, ok := ast.Unparen(call.Args[0]).(*ast.SelectorExpr)
			if !ok {
				r.Ob("C11.R6.search", "binary search in "+fn.Name, posOf(p, call), true, "not on a field")
				return true
			}
			fld := fieldVar(fn, sel)
			appendOnly, ordered := false, false
			for _, g := range p.Funcs {
				if g.Body == nil || g.Pkg != fn.Pkg {
					continue
				}
				inspectNoLit(g.Body, func(y ast.Node) bool {
					switch v := y.(type) {
					case *ast.AssignStmt:
						for i, l := range v.Lhs {
							ls, ok := ast.Unparen(l).(*ast.SelectorExpr)
							if !ok || fieldVar(g, ls) != fld || i >= len(v.Rhs) {
								continue
							}
							if c2, ok := ast.Unparen(v.Rhs[i]).(*ast.CallExpr); ok {
								if bi, ok := Callee(g, c2).(*types.Builtin); ok && bi.Name() == "append" {
									appendOnly = true
								}
								if f2 := CalleeFunc(g, c2); f2 != nil && f2.Pkg() != nil && f2.Pkg().Path() == "slices" && f2.Name() == "Insert" {
									ordered = true
								}
							}
						}
					case *ast.CallExpr:
						if f2 := CalleeFunc(g, v); f2 != nil && f2.Pkg() != nil && (f2.Pkg().Path() == "slices" || f2.Pkg().Path() == "sort") && strings.HasPrefix(f2.Name(), "Sort") && len(v.Args) > 0 {
							if s2, ok := ast.Unparen(v.Args[0]).(*ast.SelectorExpr); ok && fieldVar(g, s2) == fld {
								ordered = true
							}
						}
					}
					return true
				})
			}
			r.Ob("C11.R6.search", "binary search on "+types.ExprString(call.Args[0])+" in "+fn.Name, posOf(p, call), !appendOnly || ordered, "the slice is only ever appended to (retries propose keys out of order), so a binary search misses recorded keys and the juror approves a key twice")
			return true
		})
	}
	r.Ob("C11.R6.search", "binary searches in the cluster packages run on ordered slices", "", true, fmt.Sprintf("%d binary search call(s) examined", n))
}

// checkVerdictGuards decides C11.R7 by truth table (E17): over the four combinations of
// "the key is among the juror's approvals" and "the key is not above every known key",
// verdict may return a nil error only when both are false.
func checkVerdictGuards(r *Run, p *Prog) {
	fn := p.Func(pledgePkg, "juror", "verdict")
	approvals := p.FieldOf(pledgePkg, "juror", "approvals")
	if fn == nil || approvals == nil {
		r.Undecide("C11.R7: juror.verdict / juror.approvals not found")
		return
	}
	req := paramObj(fn, 1)
	classify := func(ev *ttEval, st *ttState, f *FuncNode, e ast.Expr) (string, bool, bool) {
		isReqKey := func(x ast.Expr) bool {
			f2, x2 := ev.resolve(st, f, x)
			sel, ok := ast.Unparen(x2).(*ast.SelectorExpr)
			if !ok || sel.Sel.Name != "Key" {
				return false
			}
			f3, x3 := ev.resolve(st, f2, sel.X)
			return objOf(f3, x3) == req
		}
		switch v := ast.Unparen(e).(type) {
		case *ast.CallExpr:
			if g := CalleeFunc(f, v); g != nil && g.Name() == "Contains" && len(v.Args) == 2 {
				_, a0 := ev.resolve(st, f, v.Args[0])
				if sel, ok := ast.Unparen(a0).(*ast.SelectorExpr); ok && sel.Sel.Name == "approvals" && isReqKey(v.Args[1]) {
					return "seen", false, true
				}
			}
		case *ast.BinaryExpr:
			highest := func(x ast.Expr) bool {
				_, x2 := ev.resolve(st, f, x)
				call, ok := ast.Unparen(x2).(*ast.CallExpr)
				if !ok {
					return false
				}
				g := CalleeFunc(f, call)
				return g != nil && g.Name() == "highestNodeID"
			}
			switch {
			case isReqKey(v.X) && highest(v.Y):
				switch v.Op {
				case token.LEQ:
					return "low", false, true
				case token.GTR:
					return "low", true, true
				}
			case highest(v.X) && isReqKey(v.Y):
				switch v.Op {
				case token.GEQ:
					return "low", false, true
				case token.LSS:
					return "low", true, true
				}
			}
		}
		return "", false, false
	}
	outcome := func(f *FuncNode, ret *ast.ReturnStmt, results []ttVal) string {
		switch ttErrOutcome(ret, results) {
		case "ok":
			return "approved"
		case "fail":
			return "rejected"
		}
		return "delegated"
	}
	table, bad := ttTable(p, fn, []string{"seen", "low"}, classify, outcome, false)
	if bad != "" {
		r.Undecide("C11.R7: juror.verdict could not be evaluated: %s", bad)
		return
	}
	okSeen, okLow, approves := true, true, false
	for mask, outs := range table {
		if !outs["approved"] {
			continue
		}
		if mask == 0 {
			approves = true
		}
		if mask&1 != 0 {
			okSeen = false
		}
		if mask&2 != 0 {
			okLow = false
		}
	}
	r.Ob("C11.R7.verdict", "juror.verdict approves only when the key is not among the juror's earlier approvals", p.Position(fn.Pos()), okSeen && approves,
		"an approval is possible for a key the juror already approved (truth table over the two tests)")
	r.Ob("C11.R7.verdict", "juror.verdict approves only when the key is above every key the juror knows", p.Position(fn.Pos()), okLow && approves,
		"an approval is possible for a key that is not above the highest known key (truth table over the two tests)")
}
