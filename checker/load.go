package main

import (
	"fmt"
	"go/ast"
	"go/token"
	"go/types"
	"os"
	"path/filepath"
	"sort"
	"strings"

	"golang.org/x/tools/go/packages"
)

// RepoRoot is the tree every check analyses. It can be redirected (VERIF_REPO) so
// that the self-test tier can analyse a scratch copy with one instance broken; the
// registered commands never set it.
var RepoRoot = func() string {
	if v := os.Getenv("VERIF_REPO"); v != "" {
		return v
	}
	return "/repo"
}()

const modPrefix = "github.com/synnaxlabs/"

// Prog is one loaded, type-checked program: the packages of one module of the
// repository plus (as source, because of the replace directives) every in-repo module it
// depends on.
type Prog struct {
	Fset     *token.FileSet
	All      map[string]*packages.Package
	Repo     []*packages.Package // packages whose sources live under RepoRoot, sorted by path
	Funcs    []*FuncNode         // every function declaration and literal in Repo packages
	ByObj    map[*types.Func]*FuncNode
	byLit    map[*ast.FuncLit]*FuncNode
	Root     string
	NumFiles int
	ssa      *SSAInfo
	refs     *Refs
}

// goEnv is the offline environment for the go command that go/packages shells out to:
// the pre-installed go1.26.8 first on PATH (the modules require go >= 1.26.3 and the
// toolchain auto-switch needs the checksum database).
func init() {
	// go/packages resolves "go" through this process's PATH
	const tc = "/opt/veriftools/go1.26.8/bin"
	if _, err := os.Stat(tc); err == nil {
		os.Setenv("PATH", tc+string(os.PathListSeparator)+os.Getenv("PATH"))
	}
	for _, kv := range [][2]string{{"GOWORK", "off"}, {"GOFLAGS", "-mod=readonly"}, {"GOPROXY", "off"}, {"GOSUMDB", "off"}, {"GOTOOLCHAIN", "local"}} {
		os.Setenv(kv[0], kv[1])
	}
}

func goEnv() []string {
	env := os.Environ()
	path := os.Getenv("PATH")
	const tc = "/opt/veriftools/go1.26.8/bin"
	if _, err := os.Stat(tc); err == nil {
		path = tc + string(os.PathListSeparator) + path
	}
	return append(env, "PATH="+path, "GOWORK=off", "GOFLAGS=-mod=readonly", "GOPROXY=off", "GOSUMDB=off", "GOTOOLCHAIN=local")
}

// FuncNode is a function declaration or a function literal of a repository package.
type FuncNode struct {
	Pkg    *packages.Package
	Decl   *ast.FuncDecl
	Lit    *ast.FuncLit
	Obj    *types.Func
	Body   *ast.BlockStmt
	Type   *ast.FuncType
	Parent *FuncNode // enclosing function for literals
	Name   string    // pkgname.(*T).m or pkgname.(*T).m$1
	Lits   []*FuncNode
	File   *ast.File
}

func (f *FuncNode) Pos() token.Pos {
	if f.Decl != nil {
		return f.Decl.Pos()
	}
	return f.Lit.Pos()
}

// Top returns the enclosing declared function.
func (f *FuncNode) Top() *FuncNode {
	for f.Parent != nil {
		f = f.Parent
	}
	return f
}

// Load loads module directory dir (relative to RepoRoot) with full syntax and types.
func Load(dir string, patterns ...string) (*Prog, error) {
	if len(patterns) == 0 {
		patterns = []string{"./..."}
	}
	fset := token.NewFileSet()
	cfg := &packages.Config{
		Mode:    packages.LoadAllSyntax,
		Dir:     filepath.Join(RepoRoot, dir),
		Fset:    fset,
		Tests:   false,
		Env:     goEnv(),
		Overlay: LoadOverlay,
	}
	roots, err := packages.Load(cfg, patterns...)
	if err != nil {
		return nil, fmt.Errorf("load %s: %w", dir, err)
	}
	if len(roots) == 0 {
		return nil, fmt.Errorf("load %s: zero packages", dir)
	}
	p := &Prog{Fset: fset, All: map[string]*packages.Package{}, ByObj: map[*types.Func]*FuncNode{}, byLit: map[*ast.FuncLit]*FuncNode{}, Root: dir}
	var errs []string
	packages.Visit(roots, nil, func(pk *packages.Package) {
		p.All[pk.PkgPath] = pk
		if !strings.HasPrefix(pk.PkgPath, modPrefix) {
			return
		}
		for _, e := range pk.Errors {
			errs = append(errs, e.Error())
		}
		if len(pk.Syntax) == 0 {
			if len(pk.GoFiles) > 0 {
				errs = append(errs, "no syntax for "+pk.PkgPath)
			}
			return // no buildable files under the default build constraints
		}
		p.Repo = append(p.Repo, pk)
	})
	if len(errs) > 0 {
		sort.Strings(errs)
		if len(errs) > 8 {
			errs = errs[:8]
		}
		return nil, fmt.Errorf("load %s: type errors in repository packages: %s", dir, strings.Join(errs, "; "))
	}
	sort.Slice(p.Repo, func(i, j int) bool { return p.Repo[i].PkgPath < p.Repo[j].PkgPath })
	for _, pk := range p.Repo {
		for _, f := range pk.Syntax {
			p.NumFiles++
			p.indexFile(pk, f)
		}
	}
	return p, nil
}

func recvName(fd *ast.FuncDecl) string {
	if fd.Recv == nil || len(fd.Recv.List) == 0 {
		return ""
	}
	t := fd.Recv.List[0].Type
	star := ""
	if s, ok := t.(*ast.StarExpr); ok {
		star = "*"
		t = s.X
	}
	switch x := t.(type) {
	case *ast.IndexExpr:
		t = x.X
	case *ast.IndexListExpr:
		t = x.X
	}
	if id, ok := t.(*ast.Ident); ok {
		if star != "" {
			return "(*" + id.Name + ")"
		}
		return id.Name
	}
	return "?"
}

func (p *Prog) indexFile(pk *packages.Package, file *ast.File) {
	for _, d := range file.Decls {
		fd, ok := d.(*ast.FuncDecl)
		if !ok || fd.Body == nil {
			continue
		}
		obj, _ := pk.TypesInfo.Defs[fd.Name].(*types.Func)
		name := pk.Name + "." + fd.Name.Name
		if r := recvName(fd); r != "" {
			name = pk.Name + "." + r + "." + fd.Name.Name
		}
		fn := &FuncNode{Pkg: pk, Decl: fd, Obj: obj, Body: fd.Body, Type: fd.Type, Name: name, File: file}
		p.Funcs = append(p.Funcs, fn)
		if obj != nil {
			p.ByObj[obj] = fn
		}
		p.indexLits(fn)
	}
	// function literals in package-level var initialisers
	for _, d := range file.Decls {
		gd, ok := d.(*ast.GenDecl)
		if !ok {
			continue
		}
		holder := &FuncNode{Pkg: pk, Name: pk.Name + ".<init>", File: file}
		n := 0
		ast.Inspect(gd, func(nd ast.Node) bool {
			if l, ok := nd.(*ast.FuncLit); ok {
				n++
				fn := &FuncNode{Pkg: pk, Lit: l, Body: l.Body, Type: l.Type, Name: fmt.Sprintf("%s.<init>$%d@%d", pk.Name, n, p.Fset.Position(l.Pos()).Line), File: file}
				_ = holder
				p.Funcs = append(p.Funcs, fn)
				p.byLit[l] = fn
				p.indexLits(fn)
				return false
			}
			return true
		})
	}
}

func (p *Prog) indexLits(parent *FuncNode) {
	n := 0
	var walk func(nd ast.Node) bool
	walk = func(nd ast.Node) bool {
		if l, ok := nd.(*ast.FuncLit); ok {
			n++
			fn := &FuncNode{Pkg: parent.Pkg, Lit: l, Body: l.Body, Type: l.Type, Parent: parent, Name: fmt.Sprintf("%s$%d", parent.Name, n), File: parent.File}
			parent.Lits = append(parent.Lits, fn)
			p.Funcs = append(p.Funcs, fn)
			p.byLit[l] = fn
			p.indexLits(fn)
			return false
		}
		return true
	}
	ast.Inspect(parent.Body, walk)
}

// LitNode returns the FuncNode of a function literal.
func (p *Prog) LitNode(l *ast.FuncLit) *FuncNode { return p.byLit[l] }

// Pkg returns the repository package with the given path suffix after
// github.com/synnaxlabs/ (e.g. "cesium/internal/domain").
func (p *Prog) Pkg(short string) *packages.Package {
	return p.All[modPrefix+short]
}

// Func looks a function up by package (short path), receiver type name ("" for plain
// functions) and name. It resolves through the type checker, never by text position.
func (p *Prog) Func(pkgShort, recv, name string) *FuncNode {
	pk := p.Pkg(pkgShort)
	if pk == nil {
		return nil
	}
	if recv == "" {
		if o, ok := pk.Types.Scope().Lookup(name).(*types.Func); ok {
			return p.ByObj[o]
		}
		return nil
	}
	tn, ok := pk.Types.Scope().Lookup(recv).(*types.TypeName)
	if !ok {
		return nil
	}
	named, ok := tn.Type().(*types.Named)
	if !ok {
		return nil
	}
	for i := 0; i < named.NumMethods(); i++ {
		m := named.Method(i)
		if m.Name() == name {
			return p.ByObj[m.Origin()]
		}
	}
	return nil
}

// Position formats a position relative to the repository root.
func (p *Prog) Position(pos token.Pos) string {
	ps := p.Fset.Position(pos)
	f := ps.Filename
	if rel, err := filepath.Rel(RepoRoot, f); err == nil && !strings.HasPrefix(rel, "..") {
		f = rel
	}
	return fmt.Sprintf("%s:%d", f, ps.Line)
}

// FuncsOfPkg returns all function nodes (declarations and literals) of one package.
func (p *Prog) FuncsOfPkg(pkgShort string) []*FuncNode {
	var out []*FuncNode
	for _, f := range p.Funcs {
		if f.Pkg.PkgPath == modPrefix+pkgShort {
			out = append(out, f)
		}
	}
	return out
}

// InPkgs reports whether fn's package path (short) has one of the prefixes.
func (f *FuncNode) InPkgs(prefixes ...string) bool {
	sp := strings.TrimPrefix(f.Pkg.PkgPath, modPrefix)
	for _, pre := range prefixes {
		if sp == pre || strings.HasPrefix(sp, pre+"/") {
			return true
		}
	}
	return false
}
