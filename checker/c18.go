package main

import (
	"fmt"
	"go/ast"
	"go/token"
	"go/types"
	"strings"

	"golang.org/x/tools/go/cfg"
)

func init() { checks["C18"] = checkC18 }

const rbacPkg = "synnax/pkg/service/access/rbac"

// checkC18 decides the "only if" half of the RBAC biconditional in its structural form:
// permission is granted only through allowRequest, and allowRequest grants only when every
// requested object went through a positive match that required the action, the type and
// (a type-wide policy object or the exact key).
func checkC18(r *Run) {
	r.Explanation = "Structural necessary conditions of 'a request is permitted exactly when every requested object is covered by a policy granting the action': (R1) Enforcer.Enforce returns nil only across the true edge of allowRequest(req, policies) where the policies were retrieved, without error, for req.Subject, in the enforcer's transaction; allowRequest has no other caller and Service.Enforce only delegates; (R2) allowRequest returns true only after its loop over req.Objects has finished, an iteration of that loop can hand over to the next object only when the per-object flag is set, the flag is fresh (false) in every iteration, and it is set only across edges that establish: the policy lists the requested action, the policy object's type equals the requested object's type, and the policy object is type-wide or its key equals the requested key."
	r.NotDecided = "The 'if' half (every covered request is permitted), which policies ResolveSubjects returns for a subject (role assignment, deleted policies, transactional visibility), and the equality semantics of ontology IDs."
	r.Trusted = []string{"go/types, go/cfg", "lo.Contains(list, x) is membership"}
	r.Extra["module"] = "core"
	p, err := Load("core", "./pkg/service/access/...")
	if err != nil {
		r.Undecide("%v", err)
		return
	}
	r.Stats["packages"] = len(p.Repo)
	r.Rule("C18.R1.gate", "Enforce returns nil only across allowRequest(req, policies) == true on policies retrieved for req.Subject; allowRequest is called only there", 3)
	r.Rule("C18.R3.resource", "the role and policy writers delete the ontology resource they defined (with its edges) when they delete the table row: access checks resolve a subject's policies through those edges, so a role or policy that only loses its row keeps (or, when its key is reused, regains) its grants", 2)
	r.Rule("C18.R2.cover", "allowRequest returns true only after every requested object set a per-iteration flag across edges establishing action membership, type equality and (type-wide or key equality)", 4)

	enforce := p.Func(rbacPkg, "Enforcer", "Enforce")
	allow := p.Func(rbacPkg, "", "allowRequest")
	retrieve := p.Func(rbacPkg, "Enforcer", "retrievePolicies")
	if enforce == nil || allow == nil || retrieve == nil {
		r.Undecide("C18: Enforcer.Enforce / allowRequest / Enforcer.retrievePolicies not found")
		return
	}
	checkEnforceGate(r, p, enforce, allow, retrieve)
	checkAllowCover(r, p, allow)
	checkResourceLifecycle(r, p)
	r.Rule("C18.ERR", "no error returned by a call is discarded or left neither ruled out nor used on some path in the rbac packages: a policy or role lookup whose failure is swallowed decides access from an incomplete set", 1)
	checkErrDrop(r, p, "C18.ERR", func(fn *FuncNode) bool {
		return fn.InPkgs(rbacPkg) && !fn.InPkgs(rbacPkg+"/policy/migrations", rbacPkg+"/role/migrations", rbacPkg+"/migrations")
	}, 40)
}

func checkEnforceGate(r *Run, p *Prog, enforce, allow, retrieve *FuncNode) {
	c := p.CFG(enforce)
	req := paramObj(enforce, 1)
	calls := CallsIn(enforce, calleeIs(allow))
	rcalls := CallsIn(enforce, calleeIs(retrieve))
	if len(calls) != 1 || len(rcalls) != 1 {
		r.Ob("C18.R1.gate", "Enforce decides with one allowRequest on one retrieval", p.Position(enforce.Pos()), false, fmt.Sprintf("allowRequest calls: %d, retrievePolicies calls: %d", len(calls), len(rcalls)))
		return
	}
	call := calls[0]
	// arguments: the request itself and the retrieved policies
	argsOK := len(call.Args) == 2 && objOf(enforce, call.Args[0]) == req
	var pol types.Object
	if len(call.Args) == 2 {
		pol = objOf(enforce, call.Args[1])
	}
	fromRetrieve := false
	if pol != nil {
		if rhs, _, ok := varDefinedBy(enforce, pol); ok && ast.Unparen(rhs) == ast.Expr(rcalls[0]) {
			fromRetrieve = true
		}
	}
	subjOK := false
	if len(rcalls[0].Args) == 2 {
		if f, ok := isFieldOfObj(enforce, rcalls[0].Args[1], req); ok && f == "Subject" {
			subjOK = true
		}
	}
	r.Ob("C18.R1.gate", "allowRequest is evaluated on the request and on the policies retrieved for req.Subject", p.Position(call.Pos()), argsOK && fromRetrieve && subjOK,
		fmt.Sprintf("first argument is the request: %v; policies come from retrievePolicies: %v; retrieved for req.Subject: %v", argsOK, fromRetrieve, subjOK))
	// nil is returned only across the true edge of the call, after the retrieval succeeded
	gate := c.EdgesEstablishing(func(atom ast.Expr, val bool) bool { return val && ast.Unparen(atom) == ast.Expr(call) })
	q, vis := c.ReachAvoiding([]Point{c.Entry()}, gate, nil)
	var path []string
	n := 0
	for _, ex := range c.Exits() {
		if ex.Return == nil || !mayReturnNilError(enforce, ex.Return) {
			continue
		}
		n++
		if vis[ex.P] {
			path = q.PathTo(ex.P)
		}
		if pth, why := c.succeededBefore(rcalls[0], ex.P); pth != nil {
			path = append(pth, why)
		}
	}
	r.ObPath("C18.R1.gate", "Enforce returns nil only when allowRequest said yes on successfully retrieved policies", p.Position(enforce.Pos()), path == nil && n > 0 && len(gate) > 0, "a nil (permitted) return is reachable without the positive decision", path)
	// who calls allowRequest / who else returns a permit
	refs := p.BuildRefs()
	users := refs.UsersOf(allow)
	okUsers := len(users) == 1 && users[0] == enforce
	var names []string
	for _, u := range users {
		names = append(names, u.Name)
	}
	r.Ob("C18.R1.gate", "allowRequest is used only by Enforcer.Enforce", p.Position(allow.Pos()), okUsers, "users: "+strings.Join(names, ", "))
	if se := p.Func(rbacPkg, "Service", "Enforce"); se != nil {
		deleg := false
		if len(se.Body.List) == 1 {
			if ret, ok := se.Body.List[0].(*ast.ReturnStmt); ok && len(ret.Results) == 1 {
				if cc, ok := ast.Unparen(ret.Results[0]).(*ast.CallExpr); ok && IsFunc(Callee(se, cc), enforce) {
					deleg = true
				}
			}
		}
		r.Ob("C18.R1.gate", "Service.Enforce only delegates to Enforcer.Enforce", p.Position(se.Pos()), deleg, "")
	}
}

func checkAllowCover(r *Run, p *Prog, fn *FuncNode) {
	c := p.CFG(fn)
	req := paramObj(fn, 0)
	// the loop over req.Objects
	var loop *ast.RangeStmt
	inspectNoLit(fn.Body, func(x ast.Node) bool {
		if rng, ok := x.(*ast.RangeStmt); ok && loop == nil {
			if f, ok := isFieldOfObj(fn, rng.X, req); ok && f == "Objects" {
				loop = rng
			}
		}
		return true
	})
	if loop == nil || loop.Value == nil {
		r.Undecide("C18.R2: allowRequest has no 'for _, obj := range req.Objects' loop (unknown decision shape)")
		return
	}
	obj := objOf(fn, loop.Value)
	var body, done, head *cfg.Block
	for _, b := range c.G.Blocks {
		if b.Stmt != ast.Stmt(loop) {
			continue
		}
		switch b.Kind {
		case cfg.KindRangeBody:
			body = b
		case cfg.KindRangeDone:
			done = b
		case cfg.KindRangeLoop:
			head = b
		}
	}
	if body == nil || done == nil || head == nil {
		r.Undecide("C18.R2: loop blocks of allowRequest not found")
		return
	}
	// (a) 'return true' only after the loop is done
	okA, nTrue := true, 0
	var pathA []string
	qa, visFromBody := c.ReachAvoiding([]Point{{body, -1}}, nil, func(n ast.Node) bool { return false })
	_ = qa
	// reachable from the body without passing through the done block
	_, visNoDone := c.reachAvoidingBlocks([]Point{{body, -1}}, map[*cfg.Block]bool{done: true})
	for _, ex := range c.Exits() {
		if ex.Return == nil || len(ex.Return.Results) != 1 {
			continue
		}
		if id, ok := ast.Unparen(ex.Return.Results[0]).(*ast.Ident); !ok || id.Name != "true" {
			if id2, ok2 := ast.Unparen(ex.Return.Results[0]).(*ast.Ident); ok2 && id2.Name == "false" {
				continue
			}
			okA = false
			pathA = []string{"a return of a computed value at " + posOf(p, ex.Return) + ": " + types.ExprString(ex.Return.Results[0])}
			continue
		}
		nTrue++
		if visNoDone[ex.P] {
			okA = false
			pathA = []string{"return true at " + posOf(p, ex.Return) + " is reachable from inside the loop over the requested objects"}
		}
	}
	_ = visFromBody
	r.ObPath("C18.R2.cover", "allowRequest returns true only after the loop over req.Objects has finished", p.Position(fn.Pos()), okA && nTrue > 0, "", pathA)
	// (b) the per-object decision. Roles of values: the request, the requested object (the
	// loop variable) and the requested action (req.Action); a package-local helper receives
	// roles through its parameters.
	roles := cvRoles{req: "req", obj: "obj"}
	needs := []struct{ key, name string }{
		{"action", "the policy lists the requested action"},
		{"type", "policy object type == requested type"},
		{"scope", "policy object is type-wide or its key == requested key"},
	}
	// an optional per-object flag (declared false at the top of the iteration)
	var flag types.Object
	for _, st := range loop.Body.List {
		if as, ok := st.(*ast.AssignStmt); ok && len(as.Lhs) == 1 && len(as.Rhs) == 1 {
			if id, ok := ast.Unparen(as.Rhs[0]).(*ast.Ident); ok && id.Name == "false" {
				flag = fn.Pkg.TypesInfo.Defs[identOf(as.Lhs[0])]
			}
		}
		break
	}
	if flag == nil {
		// a flag set inside the loop but declared outside it is carried from one object to the next
		var outer types.Object
		inspectNoLit(loop.Body, func(x ast.Node) bool {
			if as, ok := x.(*ast.AssignStmt); ok && len(as.Lhs) == 1 && len(as.Rhs) == 1 && as.Tok.String() == "=" {
				if id, ok := ast.Unparen(as.Rhs[0]).(*ast.Ident); ok && id.Name == "true" {
					if o := objOf(fn, as.Lhs[0]); o != nil && (o.Pos() < loop.Body.Pos() || o.Pos() > loop.Body.End()) {
						outer = o
					}
				}
			}
			return true
		})
		if outer != nil {
			r.Ob("C18.R2.cover", "the per-object flag is declared false at the start of every iteration", posOf(p, loop), false, "the flag "+outer.Name()+" is declared outside the loop over the requested objects: once one object is covered every later object passes")
			return
		}
	} else {
		r.Ob("C18.R2.cover", "the per-object flag is declared false at the start of every iteration", posOf(p, loop.Body.List[0]), true, "")
	}
	var sets []Point
	if flag != nil {
		sets = c.NodesWhere(func(n ast.Node) bool {
			as, ok := n.(*ast.AssignStmt)
			if !ok || len(as.Lhs) != 1 || len(as.Rhs) != 1 || objOf(fn, as.Lhs[0]) != flag {
				return false
			}
			id, ok := ast.Unparen(as.Rhs[0]).(*ast.Ident)
			return !(ok && id.Name == "false")
		})
		for i, sp := range sets {
			as := sp.B.Nodes[sp.I].(*ast.AssignStmt)
			if id, ok := ast.Unparen(as.Rhs[0]).(*ast.Ident); !ok || id.Name != "true" {
				r.Ob("C18.R2.cover", fmt.Sprintf("flag assignment #%d sets the constant true", i+1), posOf(p, as), false, "assigned "+types.ExprString(as.Rhs[0])+" (unknown decision shape)")
				return
			}
		}
	}
	for _, need := range needs {
		edges := cvNeedEdges(p, fn, roles, need.key, 0)
		// the flag's true edge stands for the need when every assignment of true lies behind it
		if flag != nil && len(sets) > 0 {
			guarded := len(edges) > 0
			if guarded {
				_, v := c.ReachAvoiding([]Point{{body, -1}}, edges, nil)
				for _, sp := range sets {
					if v[sp] {
						guarded = false
					}
				}
			}
			if guarded {
				for e := range c.EdgesEstablishing(func(atom ast.Expr, val bool) bool { return objOf(fn, atom) == flag && val }) {
					edges[e] = true
				}
			}
		}
		okN := len(edges) > 0
		var pathN []string
		if okN {
			q, vis := c.ReachAvoiding([]Point{{body, -1}}, edges, nil)
			for pt := range vis {
				if pt.B == head || pt.B == done {
					okN = false
					pathN = q.PathTo(pt)
				}
			}
		}
		r.ObPath("C18.R2.cover", "an object is passed over only across a test establishing: "+need.name, posOf(p, loop), okN,
			"the next requested object (or the end of the loop, and with it 'return true') is reachable without this test having succeeded for the current object", pathN)
	}
}

// cvRoles maps values to their role in the cover decision: "req", "obj" (the requested
// object), "action".
type cvRoles map[types.Object]string

func (ro cvRoles) of(fn *FuncNode, e ast.Expr) string {
	e = ast.Unparen(e)
	if o := objOf(fn, e); o != nil {
		if r, ok := ro[o]; ok {
			return r
		}
	}
	if sel, ok := e.(*ast.SelectorExpr); ok && sel.Sel.Name == "Action" && ro.of(fn, sel.X) == "req" {
		return "action"
	}
	return ""
}

// cvAtom: does atom (taken with truth value val) establish the need directly?
func cvAtom(fn *FuncNode, ro cvRoles, need string, atom ast.Expr, val bool) bool {
	atom = ast.Unparen(atom)
	eqOn := func(field string) bool {
		be, ok := atom.(*ast.BinaryExpr)
		if !ok || !(be.Op == token.EQL && val || be.Op == token.NEQ && !val) {
			return false
		}
		side := func(x ast.Expr) (string, bool) {
			sel, ok := ast.Unparen(x).(*ast.SelectorExpr)
			if !ok || sel.Sel.Name != field {
				return "", false
			}
			return ro.of(fn, sel.X), true
		}
		rx, okx := side(be.X)
		ry, oky := side(be.Y)
		return okx && oky && ((rx == "obj") != (ry == "obj"))
	}
	switch need {
	case "action":
		check := func(call *ast.CallExpr) bool {
			f := CalleeFunc(fn, call)
			return f != nil && f.Name() == "Contains" && len(call.Args) == 2 && ro.of(fn, call.Args[1]) == "action" && strings.HasSuffix(types.ExprString(call.Args[0]), ".Actions")
		}
		if !val {
			return false
		}
		if call, ok := atom.(*ast.CallExpr); ok {
			return check(call)
		}
		if o := objOf(fn, atom); o != nil {
			if rhs, _, ok := varDefinedBy(fn, o); ok {
				if call, ok := ast.Unparen(rhs).(*ast.CallExpr); ok {
					return check(call)
				}
			}
		}
		return false
	case "type":
		return eqOn("Type")
	case "scope":
		if call, ok := atom.(*ast.CallExpr); ok && val {
			if f := CalleeFunc(fn, call); f != nil && f.Name() == "IsType" {
				if sel, ok := ast.Unparen(call.Fun).(*ast.SelectorExpr); ok && ro.of(fn, sel.X) != "obj" {
					return true
				}
			}
		}
		return eqOn("Key")
	}
	return false
}

// cvAtomOrHelper: the atom establishes the need directly, or it is a true call of a
// package-local boolean function every true result of which lies behind the need.
func cvAtomOrHelper(p *Prog, fn *FuncNode, ro cvRoles, need string, depth int) func(atom ast.Expr, val bool) bool {
	return func(atom ast.Expr, val bool) bool {
		if cvAtom(fn, ro, need, atom, val) {
			return true
		}
		call, ok := ast.Unparen(atom).(*ast.CallExpr)
		if !ok || !val || depth >= 3 {
			return false
		}
		g := p.ByObj[CalleeFunc(fn, call)]
		if g == nil || g.Body == nil || g.Pkg != fn.Pkg {
			return false
		}
		sub := cvRoles{}
		for i, a := range call.Args {
			if role := ro.of(fn, a); role != "" {
				if po := paramObj(g, i); po != nil {
					sub[po] = role
				}
			}
		}
		if len(sub) == 0 {
			return false
		}
		return cvTrueImplies(p, g, sub, need, depth+1)
	}
}

func cvNeedEdges(p *Prog, fn *FuncNode, ro cvRoles, need string, depth int) map[edge]bool {
	c := p.CFG(fn)
	at := cvAtomOrHelper(p, fn, ro, need, depth)
	out := c.EdgesEstablishing(at)
	// a disjunction all of whose alternatives establish the need establishes it on its
	// true edge (IsType() || Key == Key)
	for _, b := range c.G.Blocks {
		if cond := Cond(b); cond != nil && exprImplies(cond, at) {
			out[edge{b, 0}] = true
		}
	}
	return out
}

// cvTrueImplies: every true result of the boolean function g lies behind the need.
func cvTrueImplies(p *Prog, g *FuncNode, ro cvRoles, need string, depth int) bool {
	sig, _ := g.Obj.Type().(*types.Signature)
	if sig == nil || sig.Results().Len() != 1 {
		return false
	}
	c := p.CFG(g)
	edges := cvNeedEdges(p, g, ro, need, depth)
	_, vis := c.ReachAvoiding([]Point{c.Entry()}, edges, nil)
	at := cvAtomOrHelper(p, g, ro, need, depth)
	for _, ex := range c.Exits() {
		if ex.Return == nil || len(ex.Return.Results) != 1 {
			return false
		}
		res := ex.Return.Results[0]
		if id, ok := ast.Unparen(res).(*ast.Ident); ok && id.Name == "false" {
			continue
		}
		if !vis[ex.P] {
			continue
		}
		if !exprImplies(res, at) {
			return false
		}
	}
	return true
}

type objAtomPred func(fn *FuncNode, obj types.Object, atom ast.Expr, val bool) bool

// exprImplies: e being true implies an atom accepted by pred (conjunction: either side;
// disjunction: both sides).
func exprImplies(e ast.Expr, pred func(atom ast.Expr, val bool) bool) bool {
	e = ast.Unparen(e)
	if be, ok := e.(*ast.BinaryExpr); ok {
		switch be.Op {
		case token.LAND:
			return exprImplies(be.X, pred) || exprImplies(be.Y, pred)
		case token.LOR:
			return exprImplies(be.X, pred) && exprImplies(be.Y, pred)
		}
	}
	return pred(e, true)
}

// predicateEstablishes reports whether every true result of the one-result boolean
// function g lies behind a test accepted by pred, with obj standing for g's parameter.
func predicateEstablishes(p *Prog, g *FuncNode, obj types.Object, pred objAtomPred) bool {
	sig, _ := g.Obj.Type().(*types.Signature)
	if sig == nil || sig.Results().Len() != 1 {
		return false
	}
	c := p.CFG(g)
	at := func(a ast.Expr, v bool) bool { return pred(g, obj, a, v) }
	edges := c.EdgesEstablishing(at)
	_, vis := c.ReachAvoiding([]Point{c.Entry()}, edges, nil)
	for _, ex := range c.Exits() {
		if ex.Return == nil || len(ex.Return.Results) != 1 {
			return false
		}
		res := ex.Return.Results[0]
		if id, ok := ast.Unparen(res).(*ast.Ident); ok && id.Name == "false" {
			continue
		}
		if !vis[ex.P] {
			continue
		}
		if !exprImplies(res, at) {
			return false
		}
	}
	return true
}

// reachAvoidingBlocks explores from starts without entering the given blocks.
func (c *FuncCFG) reachAvoidingBlocks(starts []Point, avoid map[*cfg.Block]bool) (*Query, map[Point]bool) {
	q := &Query{C: c, StopEdge: func(b *cfg.Block, s int) bool { return avoid[b.Succs[s]] }}
	return q, q.Run(starts...)
}

// checkResourceLifecycle decides C18.R3: a writer whose Create defines an ontology
// resource must delete it in Delete, on every path that returns nil. (Thirteen of the
// service writers in core/pkg/service do; the rbac role and policy writers are the ones
// the access decision depends on.)
func checkResourceLifecycle(r *Run, p *Prog) {
	for _, pk := range []string{rbacPkg + "/role", rbacPkg + "/policy"} {
		create := p.Func(pk, "Writer", "Create")
		del := p.Func(pk, "Writer", "Delete")
		if create == nil || del == nil {
			r.Undecide("C18.R3: %s Writer.Create / Delete not found", pk)
			continue
		}
		defines := len(CallsIn(create, methodNameIs("DefineResource")))+len(CallsIn(create, methodNameIs("DefineManyResources"))) > 0
		if !defines {
			r.ObTrivial("C18.R3.resource", pk+".Writer defines no ontology resource", p.Position(create.Pos()), true, "")
			continue
		}
		c := p.CFG(del)
		isDel := func(n ast.Node) bool {
			return nodeHasCall(del, n, func(o types.Object, _ *ast.CallExpr) bool {
				f, ok := o.(*types.Func)
				return ok && (f.Name() == "DeleteResource" || f.Name() == "DeleteManyResources")
			})
		}
		q, vis := c.ReachAvoiding([]Point{c.Entry()}, nil, isDel)
		var path []string
		for _, ex := range c.Exits() {
			if !vis[ex.P] || ex.Return == nil || len(ex.Return.Results) != 1 {
				continue
			}
			// a return of nil, or of a call that is not the resource deletion itself, ends the
			// function without deleting the resource
			if isDel(ex.Return) {
				continue
			}
			if isNilIdent(del, ex.Return.Results[0]) {
				path = q.PathTo(ex.P)
				continue
			}
			if _, isCall := ast.Unparen(ex.Return.Results[0]).(*ast.CallExpr); isCall {
				path = q.PathTo(ex.P)
			}
		}
		r.ObPath("C18.R3.resource", pk+".Writer.Delete removes the ontology resource it defined", p.Position(del.Pos()), path == nil,
			"Delete can succeed with only the table row removed: the resource and its role->subject / role->policy edges stay, and the next access check still resolves the grant through them", path)
	}
}
