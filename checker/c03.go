package main

import (
	"fmt"
	"go/ast"
	"go/token"
	"go/types"
	"sort"
	"strings"
)

func init() { checks["C03"] = checkC03 }

const domainPkg = "cesium/internal/domain"

// pointerWritersAllowed is the frozen set of functions that may modify the in-memory
// pointer table (confirmed by reading; each one validates or owns exclusive access).
var pointerWritersAllowed = [][2]string{
	{"index", "insert"},          // validated append/prepend/insert of a committed pointer
	{"index", "update"},          // validated in-place growth of the writer's own pointer
	{"index", "close"},           // drops the table at shutdown
	{"DB", "Delete"},             // splits/removes pointers under deleteLock + idx.mu
	{"DB", "garbageCollectFile"}, // rewrites offsets only, in the rename section
	{"", "Open"},                 // loads the persisted table before the DB is published
}

func checkC03(r *Run) {
	r.Explanation = "Structural necessary conditions of 'no overlapping domains; conflicting writes fail cleanly', decided on the CFG of the functions that own the pointer table: (R1) only the frozen set of functions (or helpers reachable only from them) writes index.mu.pointers, and every access is lock-guarded; (R2) in index.insert/update every store to the table is reachable only across an edge that established 'no overlap' (afterLast / beforeFirst / unprotectedSearch-overlap-false / neighbour OverlapsWith false), the overlap decision is taken with telem.TimeRange.OverlapsWith on the inserted range, and no conflict-error return is reachable after a store; (R3) OpenWriter acquires a file only behind idx.overlap==false, commit reaches the index only after validateCommitRange succeeded and the preset-end test, and only Writer.commit references index.insert/update; (R4) the writer's prevCommit/Start advance only on the success edge of the index call."
	r.NotDecided = "Correctness of the binary search and of half-open interval algebra on particular timestamps; that adjacent/zero-length ranges are classified correctly (values)."
	r.Trusted = []string{"go/types, go/packages, go/cfg (x/tools v0.29.0)"}
	r.Extra["module"] = "cesium"
	p, err := Load("cesium")
	if err != nil {
		r.Undecide("%v", err)
		return
	}
	r.Stats["packages"] = len(p.Repo)
	r.Rule("C03.R1.writers", "index.mu.pointers is written only by the frozen owner set {index.insert, index.update, index.close, DB.Delete, DB.garbageCollectFile, domain.Open} or by helpers reachable only from them: any other writer can publish an overlapping or dangling pointer", 6)
	r.Rule("C03.R1.GUARD", "every read of index.mu.pointers / persistHead holds idx.mu (R or W), every write holds it in W mode, locally or in every caller chain", 20)
	r.Rule("C03.R2.insert", "in index.insert every store to the pointer table is reachable only across an edge that proves no overlap for the inserted range, and after a store no conflict error is returned", 4)
	r.Rule("C03.R2.update", "in index.update the store is reachable only across the false edges of both neighbour-overlap tests, each computed with TimeRange.OverlapsWith(p.TimeRange); after the store no conflict error is returned", 4)
	r.Rule("C03.R2.direction", "the binary search of unprotectedSearch turns left exactly when the searched range lies wholly before the probed domain and right exactly when it lies wholly after it (decided on every ordering of the four end points of two non-overlapping ranges): any other direction skips the half of a sorted, disjoint table that holds the overlap or the insert position", 1)
	r.Rule("C03.R3.validate", "Writer.validateCommitRange accepts a commit (returns nil) only across an edge establishing Start < end, on every path - also for a writer that has committed before and for the commit that rolls over to a new file", 1)
	r.Rule("C03.R2.search", "unprotectedSearch reports overlap (second result true) only on the true edge of ptr.OverlapsWith(tr) for its parameter tr", 1)
	r.Rule("C03.R3.open", "DB.OpenWriter acquires a file handle only on the false edge of idx.overlap(cfg.Domain())", 1)
	r.Rule("C03.R3.commit", "Writer.commit reaches index.insert/update only after validateCommitRange returned nil and behind the preset-end test; only Writer.commit references index.insert/update", 4)
	r.Rule("C03.R4.advance", "Writer.prevCommit and Writer.Start are assigned in commit only on the success edge of the index insert/update call: a rejected commit must leave the writer believing it owns nothing new", 2)

	refs := p.BuildRefs()
	ptrField := p.FieldOf(domainPkg, "index", "mu.pointers")
	if ptrField == nil {
		r.Undecide("field index.mu.pointers not found")
		return
	}

	// ---- R1 writers
	allowed := map[*FuncNode]bool{}
	for _, a := range pointerWritersAllowed {
		fn := p.Func(domainPkg, a[0], a[1])
		if fn == nil {
			r.Undecide("C03.R1: owner %s.%s not found", a[0], a[1])
			continue
		}
		allowed[fn] = true
	}
	writers := map[*FuncNode]ast.Node{}
	for _, fn := range p.Funcs {
		if !fn.InPkgs("cesium") {
			continue
		}
		inspectNoLit(fn.Body, func(n ast.Node) bool {
			if isStoreTo(fn, n, ptrField) {
				if _, ok := writers[fn.Top()]; !ok {
					writers[fn.Top()] = n
				}
			}
			return true
		})
	}
	var ws []*FuncNode
	for w := range writers {
		ws = append(ws, w)
	}
	sort.Slice(ws, func(i, j int) bool { return ws[i].Name < ws[j].Name })
	for _, w := range ws {
		ok, chain := refs.ReachableOnlyFrom(w, allowed, map[*FuncNode]bool{})
		detail := "member of the frozen owner set"
		if !allowed[w] {
			detail = "helper reachable only from the owner set"
		}
		if !ok {
			detail = "writes the pointer table but is reachable outside the owner set"
		}
		r.ObPath("C03.R1.writers", "writer "+w.Name, p.Position(writers[w].Pos()), ok, detail, chain)
	}

	// ---- R1 guard (lockset restricted to the pointer table rows)
	applyLockRules(r, p, lockRuleSet{Prefix: "C03.R1", Scope: func(fn *FuncNode) bool { return fn.InPkgs("cesium/internal/domain") },
		Guards: cesiumGuards[:2], MinOps: 30, MinAcc: 25, Entry: exportedEntry})

	checkInsert(r, p, ptrField)
	checkUpdate(r, p, ptrField)
	checkSearch(r, p)
	checkSearchDirection(r, p)
	checkCommitRangeValidation(r, p)
	checkOpenWriterGate(r, p)
	checkCommitGate(r, p, refs)
}

func isOverlapsWithCall(fn *FuncNode, e ast.Expr, arg func(ast.Expr) bool) bool {
	call, ok := ast.Unparen(e).(*ast.CallExpr)
	if !ok {
		return false
	}
	if !calleeNamed("x/telem", "TimeRange", "OverlapsWith")(Callee(fn, call), call) {
		return false
	}
	return len(call.Args) == 1 && arg(call.Args[0])
}

func checkInsert(r *Run, p *Prog, ptrField *types.Var) {
	fn := p.Func(domainPkg, "index", "insert")
	if fn == nil {
		r.Undecide("C03.R2: index.insert not found")
		return
	}
	c := p.CFG(fn)
	pObj := paramNamed(fn, "p")
	if pObj == nil {
		// fall back to the only parameter of type pointer
		pObj = paramObj(fn, 1)
	}
	afterLast := p.Func(domainPkg, "index", "afterLast")
	beforeFirst := p.Func(domainPkg, "index", "beforeFirst")
	search := p.Func(domainPkg, "index", "unprotectedSearch")
	if afterLast == nil || beforeFirst == nil || search == nil || pObj == nil {
		r.Undecide("C03.R2: insert helpers not resolved")
		return
	}
	argIsField := func(call *ast.CallExpr, field string) bool {
		if len(call.Args) != 1 {
			return false
		}
		f, ok := isFieldOfObj(fn, call.Args[0], pObj)
		return ok && f == field
	}
	// atom "len(idx.mu.pointers) != 0" / "== 0": returns whether the atom being TRUE means empty
	lenIsZero := func(e ast.Expr) (bool, bool) {
		be, ok := ast.Unparen(e).(*ast.BinaryExpr)
		if !ok {
			return false, false
		}
		call, ok := ast.Unparen(be.X).(*ast.CallExpr)
		if !ok {
			return false, false
		}
		if bi, ok := Callee(fn, call).(*types.Builtin); !ok || bi.Name() != "len" || len(call.Args) != 1 {
			return false, false
		}
		sel, ok := ast.Unparen(call.Args[0]).(*ast.SelectorExpr)
		if !ok || fieldVar(fn, sel) != ptrField {
			return false, false
		}
		if lit, ok := ast.Unparen(be.Y).(*ast.BasicLit); !ok || lit.Value != "0" {
			return false, false
		}
		switch be.Op.String() {
		case "!=":
			return false, true
		case "==":
			return true, true
		}
		return false, false
	}
	kinds := map[string]bool{}
	safe := c.EdgesEstablishing(func(atom ast.Expr, val bool) bool {
		if trueMeansEmpty, ok := lenIsZero(atom); ok {
			if val == trueMeansEmpty {
				kinds["empty"] = true
				return true
			}
			return false
		}
		if call, ok := atom.(*ast.CallExpr); ok && val {
			callee := Callee(fn, call)
			if IsFunc(callee, afterLast) && argIsField(call, "Start") {
				kinds["afterLast"] = true
				return true
			}
			if IsFunc(callee, beforeFirst) && argIsField(call, "End") {
				kinds["beforeFirst"] = true
				return true
			}
		}
		// overlap == false, with overlap bound to the second result of unprotectedSearch(p.TimeRange)
		if id, ok := atom.(*ast.Ident); ok && !val {
			if o := objOf(fn, id); o != nil {
				if rhs, as, ok := varDefinedBy(fn, o); ok && as != nil && len(as.Lhs) == 2 && objOf(fn, as.Lhs[1]) == o {
					if call, ok := ast.Unparen(rhs).(*ast.CallExpr); ok && IsFunc(Callee(fn, call), search) && argIsField(call, "TimeRange") {
						kinds["search"] = true
						return true
					}
				}
			}
		}
		return false
	})
	nEdges := len(kinds)
	r.ObTrivial("C03.R2.insert", "no-overlap edges recognised in index.insert", p.Position(fn.Pos()), nEdges >= 4, fmt.Sprintf("%d of the 4 expected validating conditions (empty table, afterLast(p.Start), beforeFirst(p.End), unprotectedSearch(p.TimeRange) overlap) were found", nEdges))
	stores := c.NodesWhere(func(n ast.Node) bool { return isStoreTo(fn, n, ptrField) })
	if len(stores) == 0 {
		r.Undecide("C03.R2: no store to the pointer table found in index.insert")
		return
	}
	q, vis := c.ReachAvoiding([]Point{c.Entry()}, safe, nil)
	for i, s := range stores {
		ok := !vis[s]
		var path []string
		if !ok {
			path = q.PathTo(s)
		}
		r.ObPath("C03.R2.insert", fmt.Sprintf("store #%d to pointers in index.insert is behind a no-overlap edge", i+1), p.Position(s.B.Nodes[s.I].Pos()), ok, "a path from entry reaches the store without crossing any edge that proves the inserted range overlaps nothing", path)
	}
	checkNoConflictAfterStore(r, p, c, stores, "C03.R2.insert", "index.insert")
}

// checkNoConflictAfterStore: after a store to the table, the only returns reachable
// are nil or the call of a local closure (the prepared persist).
func checkNoConflictAfterStore(r *Run, p *Prog, c *FuncCFG, stores []Point, rule, name string) {
	_, vis := c.ReachAvoiding(stores, nil, nil)
	bad := ""
	var badPos ast.Node
	n := 0
	for _, ex := range c.Exits() {
		if ex.Return == nil || !vis[ex.P] {
			continue
		}
		n++
		for _, res := range ex.Return.Results {
			if isNilIdent(c.Fn, res) {
				continue
			}
			if call, ok := ast.Unparen(res).(*ast.CallExpr); ok {
				if id, ok := ast.Unparen(call.Fun).(*ast.Ident); ok {
					if v, ok := objOf(c.Fn, id).(*types.Var); ok && !v.IsField() {
						continue // persist closure
					}
				}
				// prepare(..)() invoked directly
				if inner, ok := ast.Unparen(call.Fun).(*ast.CallExpr); ok {
					if f := CalleeFunc(c.Fn, inner); f != nil && f.Name() == "prepare" && recvNamed(f) == "indexPersist" {
						continue
					}
				}
			}
			bad = types.ExprString(res)
			badPos = ex.Return
		}
	}
	if bad != "" {
		r.Ob(rule, "returns reachable after a store in "+name+" are nil or the prepared persist", p.Position(badPos.Pos()), false, "after mutating the table the function can return "+bad+": a failed call would leave committed state changed")
		return
	}
	r.Ob(rule, "returns reachable after a store in "+name+" are nil or the prepared persist", p.Position(c.Fn.Pos()), n > 0, fmt.Sprintf("%d return(s) reachable after the stores, all nil or persist()", n))
}

func checkUpdate(r *Run, p *Prog, ptrField *types.Var) {
	fn := p.Func(domainPkg, "index", "update")
	if fn == nil {
		r.Undecide("C03.R2: index.update not found")
		return
	}
	c := p.CFG(fn)
	pObj := paramNamed(fn, "p")
	if pObj == nil {
		pObj = paramObj(fn, 1)
	}
	stores := c.NodesWhere(func(n ast.Node) bool { return isStoreTo(fn, n, ptrField) })
	if len(stores) == 0 {
		r.Undecide("C03.R2: no store to the pointer table in index.update")
		return
	}
	// conditions that are (variables defined from) neighbour.OverlapsWith(p.TimeRange)
	type nb struct {
		edges map[edge]bool
		desc  string
	}
	var tests []nb
	for _, b := range c.G.Blocks {
		cond := Cond(b)
		if cond == nil {
			continue
		}
		core, neg := BoolTest(cond)
		def := core
		if id, ok := core.(*ast.Ident); ok {
			if o := objOf(fn, id); o != nil {
				if rhs, _, ok := varDefinedBy(fn, o); ok {
					def = rhs
				}
			}
		}
		hasOverlap := false
		inspectNoLit(def, func(n ast.Node) bool {
			if e, ok := n.(ast.Expr); ok && isOverlapsWithCall(fn, e, func(a ast.Expr) bool {
				f, ok := isFieldOfObj(fn, a, pObj)
				return ok && f == "TimeRange"
			}) {
				hasOverlap = true
			}
			return true
		})
		if hasOverlap {
			// the fact "no overlap with this neighbour" holds where the condition is false
			tests = append(tests, nb{map[edge]bool{{b, neg ^ 1}: true}, types.ExprString(cond)})
			continue
		}
		// both neighbour tests moved into a package-local helper that is handed p.TimeRange
		// and answers true exactly behind an OverlapsWith(<that parameter>) test
		if call, ok := ast.Unparen(def).(*ast.CallExpr); ok {
			h := p.ByObj[CalleeFunc(fn, call)]
			if h == nil || h.Body == nil || h.Pkg != fn.Pkg {
				continue
			}
			var trParam types.Object
			for i, a := range call.Args {
				if f, ok := isFieldOfObj(fn, a, pObj); ok && f == "TimeRange" {
					trParam = paramObj(h, i)
				}
			}
			if trParam == nil {
				continue
			}
			hc := p.CFG(h)
			nConds := 0
			ov := map[edge]bool{}
			for _, hb := range hc.G.Blocks {
				hcond := Cond(hb)
				if hcond == nil {
					continue
				}
				has := false
				for _, cj := range conjuncts(hcond) {
					if isOverlapsWithCall(h, cj, func(a ast.Expr) bool { return objOf(h, a) == trParam }) {
						has = true
					}
				}
				if has {
					nConds++
					ov[edge{hb, 0}] = true
				}
			}
			_, hv := hc.ReachAvoiding([]Point{hc.Entry()}, ov, nil)
			valid := nConds >= 2
			for _, ex := range hc.Exits() {
				if ex.Return == nil || len(ex.Return.Results) == 0 {
					valid = false
					continue
				}
				last := ast.Unparen(ex.Return.Results[len(ex.Return.Results)-1])
				id, isID := last.(*ast.Ident)
				switch {
				case isID && id.Name == "false":
				case isID && id.Name == "true":
					if hv[ex.P] {
						valid = false // "conflict" without an overlap test having succeeded is fine for safety, but then the false edge proves nothing either way; keep it strict
					}
				default:
					valid = false
				}
			}
			// a "false" answer must mean that no overlap test succeeded: false-returns are only
			// reachable avoiding the overlap edges
			if valid {
				for _, ex := range hc.Exits() {
					last := ast.Unparen(ex.Return.Results[len(ex.Return.Results)-1])
					if id, isID := last.(*ast.Ident); isID && id.Name == "false" && !hv[ex.P] {
						valid = false
					}
				}
			}
			if valid {
				for i := 0; i < nConds; i++ {
					tests = append(tests, nb{map[edge]bool{{b, neg ^ 1}: true}, fmt.Sprintf("%s (neighbour test #%d in %s)", types.ExprString(cond), i+1, h.Name)})
				}
			}
		}
	}
	r.ObTrivial("C03.R2.update", "neighbour tests in index.update use OverlapsWith(p.TimeRange)", p.Position(fn.Pos()), len(tests) >= 2, fmt.Sprintf("%d condition(s) derived from TimeRange.OverlapsWith(p.TimeRange) found (previous and next neighbour expected)", len(tests)))
	for _, t := range tests {
		q, vis := c.ReachAvoiding([]Point{c.Entry()}, t.edges, nil)
		for _, s := range stores {
			ok := !vis[s]
			var path []string
			if !ok {
				path = q.PathTo(s)
			}
			r.ObPath("C03.R2.update", "store in index.update is behind the false edge of "+t.desc, p.Position(s.B.Nodes[s.I].Pos()), ok, "a path reaches the store without the neighbour-overlap test having failed", path)
		}
	}
	checkNoConflictAfterStore(r, p, c, stores, "C03.R2.update", "index.update")
}

func checkSearch(r *Run, p *Prog) {
	fn := p.Func(domainPkg, "index", "unprotectedSearch")
	if fn == nil {
		r.Undecide("C03.R2: unprotectedSearch not found")
		return
	}
	c := p.CFG(fn)
	tr := paramObj(fn, 0)
	safe := c.EdgesEstablishing(func(atom ast.Expr, val bool) bool {
		return val && isOverlapsWithCall(fn, atom, func(a ast.Expr) bool { return objOf(fn, a) == tr })
	})
	_, vis := c.ReachAvoiding([]Point{c.Entry()}, safe, nil)
	bad := 0
	nTrue := 0
	var at ast.Node = fn.Body
	for _, ex := range c.Exits() {
		if ex.Return == nil || len(ex.Return.Results) != 2 {
			continue
		}
		if id, ok := ast.Unparen(ex.Return.Results[1]).(*ast.Ident); ok && id.Name == "true" {
			nTrue++
			if vis[ex.P] {
				bad++
				at = ex.Return
			}
		} else if id, ok := ast.Unparen(ex.Return.Results[1]).(*ast.Ident); !ok || id.Name != "false" {
			bad++
			at = ex.Return
		}
	}
	r.Ob("C03.R2.search", "unprotectedSearch returns overlap=true only behind ptr.OverlapsWith(tr)", p.Position(at.Pos()), bad == 0 && nTrue >= 1 && len(safe) >= 1,
		fmt.Sprintf("%d 'true' return(s), %d OverlapsWith(tr) guard(s), %d return(s) not so guarded", nTrue, len(safe), bad))
}

func checkOpenWriterGate(r *Run, p *Prog) {
	fn := p.Func(domainPkg, "DB", "OpenWriter")
	overlap := p.Func(domainPkg, "index", "overlap")
	acquire := p.Func(domainPkg, "fileController", "acquireWriter")
	if fn == nil || overlap == nil || acquire == nil {
		r.Undecide("C03.R3: OpenWriter / overlap / acquireWriter not resolved")
		return
	}
	c := p.CFG(fn)
	cfgDomain := false
	gate := c.EdgesEstablishing(func(atom ast.Expr, val bool) bool {
		call, ok := atom.(*ast.CallExpr)
		if !ok || val || !IsFunc(Callee(fn, call), overlap) || len(call.Args) != 1 {
			return false
		}
		// the argument is <cfg>.Domain() on the writer configuration
		if a, ok := ast.Unparen(call.Args[0]).(*ast.CallExpr); ok {
			if f := CalleeFunc(fn, a); f != nil && f.Name() == "Domain" {
				cfgDomain = true
			}
		}
		return true
	})
	targets := c.NodesWhere(func(n ast.Node) bool { return nodeHasCall(fn, n, calleeIs(acquire)) })
	if len(targets) == 0 {
		r.Undecide("C03.R3: OpenWriter does not call acquireWriter")
		return
	}
	q, vis := c.ReachAvoiding([]Point{c.Entry()}, gate, nil)
	ok := len(gate) > 0 && cfgDomain
	var path []string
	for _, t := range targets {
		if vis[t] {
			ok = false
			path = q.PathTo(t)
		}
	}
	r.ObPath("C03.R3.open", "acquireWriter in DB.OpenWriter is behind !idx.overlap(cfg.Domain())", p.Position(targets[0].B.Nodes[targets[0].I].Pos()), ok, "the file handle must be acquired only when the requested start does not fall into existing data", path)
}

func checkCommitGate(r *Run, p *Prog, refs *Refs) {
	fn := p.Func(domainPkg, "Writer", "commit")
	insert := p.Func(domainPkg, "index", "insert")
	update := p.Func(domainPkg, "index", "update")
	validate := p.Func(domainPkg, "Writer", "validateCommitRange")
	if fn == nil || insert == nil || update == nil || validate == nil {
		r.Undecide("C03.R3: commit / insert / update / validateCommitRange not resolved")
		return
	}
	// who may reference insert/update
	for _, t := range []*FuncNode{insert, update} {
		users := refs.UsersOf(t)
		var names []string
		ok := len(users) > 0
		for _, u := range users {
			names = append(names, u.Name)
			if u != fn {
				ok = false
			}
		}
		r.Ob("C03.R3.commit", "only Writer.commit references "+t.Name, p.Position(t.Pos()), ok, "users: "+strings.Join(names, ", "))
	}
	c := p.CFG(fn)
	// the index call: a call whose callee is insert/update directly, or a call through a
	// local function variable whose defining expression references them (lo.Ternary idiom)
	isIndexCall := func(n ast.Node) *ast.CallExpr {
		var out *ast.CallExpr
		inspectNoLit(n, func(x ast.Node) bool {
			call, ok := x.(*ast.CallExpr)
			if !ok || out != nil {
				return true
			}
			callee := Callee(fn, call)
			if IsFunc(callee, insert) || IsFunc(callee, update) {
				out = call
				return false
			}
			if v, ok := callee.(*types.Var); ok && !v.IsField() {
				// every value ever assigned to the function variable refers to insert/update
				// (lo.Ternary(.., insert, update), or "f := update; if first { f = insert }")
				nAssigned, allMention := 0, true
				inspectNoLit(fn.Body, func(z ast.Node) bool {
					as, ok := z.(*ast.AssignStmt)
					if !ok || len(as.Lhs) != len(as.Rhs) {
						return true
					}
					for i, l := range as.Lhs {
						if objOf(fn, l) != types.Object(v) {
							continue
						}
						nAssigned++
						mentions := false
						inspectNoLit(as.Rhs[i], func(y ast.Node) bool {
							if id, ok := y.(*ast.Ident); ok {
								if f, ok := fn.Pkg.TypesInfo.Uses[id].(*types.Func); ok && (f.Origin() == insert.Obj || f.Origin() == update.Obj) {
									mentions = true
								}
							}
							return true
						})
						if !mentions {
							allMention = false
						}
					}
					return true
				})
				if nAssigned > 0 && allMention {
					out = call
					return false
				}
			}
			return true
		})
		return out
	}
	var idxCall *ast.CallExpr
	var idxPoint Point
	for _, pt := range c.NodesWhere(func(n ast.Node) bool { return isIndexCall(n) != nil }) {
		idxCall = isIndexCall(pt.B.Nodes[pt.I])
		idxPoint = pt
	}
	if idxCall == nil {
		r.Undecide("C03.R3: commit does not call index.insert/update")
		return
	}
	vcalls := CallsIn(fn, calleeIs(validate))
	if len(vcalls) != 1 {
		r.Ob("C03.R3.commit", "commit validates the range before touching the index", p.Position(fn.Pos()), false, fmt.Sprintf("%d calls to validateCommitRange (expected 1)", len(vcalls)))
	} else {
		path, why := c.succeededBefore(vcalls[0], idxPoint)
		r.ObPath("C03.R3.commit", "index call in commit runs only after validateCommitRange returned nil", p.Position(idxCall.Pos()), path == nil, why, path)
	}
	// preset end test: w.presetEnd && end.After(w.End) must have been false
	presetField := p.FieldOf(domainPkg, "Writer", "presetEnd")
	endField := p.FieldOf(domainPkg, "WriterConfig", "End")
	isPreset := func(e ast.Expr) bool {
		sel, ok := ast.Unparen(e).(*ast.SelectorExpr)
		return ok && fieldVar(fn, sel) == presetField
	}
	isAfterEnd := func(e ast.Expr) bool {
		call, ok := ast.Unparen(e).(*ast.CallExpr)
		if !ok || len(call.Args) != 1 {
			return false
		}
		if f := CalleeFunc(fn, call); f == nil || f.Name() != "After" {
			return false
		}
		sel, ok := ast.Unparen(call.Args[0]).(*ast.SelectorExpr)
		return ok && endField != nil && fieldVar(fn, sel) == endField
	}
	presetSeen := false
	// edges proving "not (presetEnd and end.After(w.End))"
	gate := c.FalseEdgesOfConjunctionOf(func(e ast.Expr) bool { return isPreset(e) || isAfterEnd(e) }, func(e ast.Expr) bool {
		if isAfterEnd(e) {
			presetSeen = true
			return true
		}
		return false
	})
	for e := range c.EdgesEstablishing(func(atom ast.Expr, val bool) bool { return !val && (isPreset(atom) || isAfterEnd(atom)) }) {
		gate[e] = true
	}
	q, vis := c.ReachAvoiding([]Point{c.Entry()}, gate, nil)
	var path []string
	if vis[idxPoint] {
		path = q.PathTo(idxPoint)
	}
	r.ObPath("C03.R3.commit", "index call in commit is behind the preset-end test", p.Position(idxCall.Pos()), presetSeen && !vis[idxPoint], "with a preset End a commit beyond it must be refused before the index is touched", path)

	// ---- R4: prevCommit / Start advance only on the success edge of the index call
	for _, fld := range []string{"prevCommit", "WriterConfig.Start"} {
		v := p.FieldOf(domainPkg, "Writer", fld)
		if v == nil && fld == "WriterConfig.Start" {
			v = p.FieldOf(domainPkg, "WriterConfig", "Start")
		}
		if v == nil {
			r.Undecide("C03.R4: field Writer.%s not found", fld)
			continue
		}
		stores := c.NodesWhere(func(n ast.Node) bool { return isStoreTo(fn, n, v) })
		if len(stores) == 0 {
			r.Undecide("C03.R4: commit does not assign Writer.%s", fld)
			continue
		}
		for i, s := range stores {
			path, why := c.succeededBefore(idxCall, s)
			r.ObPath("C03.R4.advance", fmt.Sprintf("assignment #%d of Writer.%s in commit follows a successful index call", i+1, fld), p.Position(s.B.Nodes[s.I].Pos()), path == nil, why, path)
		}
	}
}

// ---------------------------------------------------------------------------------
// C03.R2.direction: finite case analysis of the binary-search direction test. The four
// end points (tr.Start, tr.End, ptr.Start, ptr.End) are given every weak ordering with
// tr.Start <= tr.End, ptr.Start < ptr.End in which the two ranges do not overlap; the
// direction condition is evaluated on the syntax tree (TimeStamp comparison methods
// inlined from their one-line bodies).
// ---------------------------------------------------------------------------------

type pointEval struct {
	p   *Prog
	fn  *FuncNode
	val map[string]int
	bad string
}

func (e *pointEval) num(x ast.Expr) (int, bool) {
	v, ok := e.val[types.ExprString(ast.Unparen(x))]
	return v, ok
}

func (e *pointEval) expr(x ast.Expr) bool {
	switch v := ast.Unparen(x).(type) {
	case *ast.UnaryExpr:
		if v.Op == token.NOT {
			return !e.expr(v.X)
		}
	case *ast.BinaryExpr:
		switch v.Op {
		case token.LAND:
			return e.expr(v.X) && e.expr(v.Y)
		case token.LOR:
			return e.expr(v.X) || e.expr(v.Y)
		}
		a, ok1 := e.num(v.X)
		b, ok2 := e.num(v.Y)
		if ok1 && ok2 {
			switch v.Op {
			case token.LSS:
				return a < b
			case token.LEQ:
				return a <= b
			case token.GTR:
				return a > b
			case token.GEQ:
				return a >= b
			case token.EQL:
				return a == b
			case token.NEQ:
				return a != b
			}
		}
	case *ast.CallExpr:
		if len(v.Args) == 1 {
			if sel, ok := ast.Unparen(v.Fun).(*ast.SelectorExpr); ok {
				if f := CalleeFunc(e.fn, v); f != nil {
					if callee, ok := e.p.ByObj[f]; ok && callee.Decl != nil && callee.Body != nil && len(callee.Body.List) == 1 && callee.Decl.Recv != nil && len(callee.Decl.Recv.List[0].Names) == 1 {
						if ret, ok := callee.Body.List[0].(*ast.ReturnStmt); ok && len(ret.Results) == 1 {
							if be, ok := ast.Unparen(ret.Results[0]).(*ast.BinaryExpr); ok {
								rv := callee.Pkg.TypesInfo.Defs[callee.Decl.Recv.List[0].Names[0]]
								pv := paramObj(callee, 0)
								a, b := objOf(callee, be.X), objOf(callee, be.Y)
								switch {
								case a == rv && b == pv:
									return e.expr(&ast.BinaryExpr{X: sel.X, Op: be.Op, Y: v.Args[0]})
								case a == pv && b == rv:
									return e.expr(&ast.BinaryExpr{X: v.Args[0], Op: be.Op, Y: sel.X})
								}
							}
						}
					}
				}
			}
		}
	}
	if e.bad == "" {
		e.bad = "expression outside the comparison fragment: " + types.ExprString(x)
	}
	return false
}

func checkSearchDirection(r *Run, p *Prog) {
	fn := p.Func(domainPkg, "index", "unprotectedSearch")
	if fn == nil {
		r.Undecide("C03.R2.direction: index.unprotectedSearch not found")
		return
	}
	tr := paramObj(fn, 0)
	// the loop "for lo <= hi"
	var loop *ast.ForStmt
	inspectNoLit(fn.Body, func(x ast.Node) bool {
		if f, ok := x.(*ast.ForStmt); ok && loop == nil {
			loop = f
		}
		return true
	})
	if loop == nil || tr == nil {
		r.Undecide("C03.R2.direction: the search loop of unprotectedSearch was not found")
		return
	}
	be, ok := ast.Unparen(loop.Cond).(*ast.BinaryExpr)
	if !ok || (be.Op != token.LEQ && be.Op != token.LSS) {
		r.Undecide("C03.R2.direction: loop condition %s is not 'low <= high'", types.ExprString(loop.Cond))
		return
	}
	lo, hi := objOf(fn, be.X), objOf(fn, be.Y)
	// ptr := <table>[mid]
	var ptr types.Object
	inspectNoLit(loop.Body, func(x ast.Node) bool {
		if as, ok := x.(*ast.AssignStmt); ok && len(as.Lhs) == 1 && len(as.Rhs) == 1 {
			if _, ok := ast.Unparen(as.Rhs[0]).(*ast.IndexExpr); ok && ptr == nil {
				ptr = objOf(fn, as.Lhs[0])
			}
		}
		return true
	})
	// the direction statement: if COND { hi = ... } else { lo = ... } (or mirrored)
	var dir *ast.IfStmt
	leftOnTrue := false
	for k, st := range loop.Body.List {
		ifs, ok := st.(*ast.IfStmt)
		if !ok {
			continue
		}
		// the other side: the else branch, or - when the body ends the iteration with
		// continue - the statements that follow the if in the loop body
		var other ast.Node = ifs.Else
		if ifs.Else == nil {
			n := len(ifs.Body.List)
			if n == 0 {
				continue
			}
			br, isBr := ifs.Body.List[n-1].(*ast.BranchStmt)
			if !isBr || br.Tok != token.CONTINUE || br.Label != nil {
				continue
			}
			other = &ast.BlockStmt{List: loop.Body.List[k+1:]}
		}
		assigns := func(b ast.Node, o types.Object) bool {
			hit := false
			inspectNoLit(b, func(y ast.Node) bool {
				if as, ok := y.(*ast.AssignStmt); ok {
					for _, l := range as.Lhs {
						if objOf(fn, l) == o {
							hit = true
						}
					}
				}
				return true
			})
			return hit
		}
		switch {
		case assigns(ifs.Body, hi) && !assigns(ifs.Body, lo) && assigns(other, lo) && !assigns(other, hi):
			dir, leftOnTrue = ifs, true
		case assigns(ifs.Body, lo) && !assigns(ifs.Body, hi) && assigns(other, hi) && !assigns(other, lo):
			dir, leftOnTrue = ifs, false
		}
	}
	if dir == nil || ptr == nil || lo == nil || hi == nil {
		r.Undecide("C03.R2.direction: the direction statement of the binary search was not recognised")
		return
	}
	e := &pointEval{p: p, fn: fn}
	var diffs []string
	cases := 0
	for a := 0; a < 4; a++ {
		for b := a; b < 4; b++ {
			for c := 0; c < 4; c++ {
				for d := c + 1; d < 4; d++ {
					left := b <= c && a != c
					right := a >= d
					if !left && !right {
						continue // overlapping (or equal starts): handled by the OverlapsWith branch
					}
					cases++
					e.val = map[string]int{
						tr.Name() + ".Start": a, tr.Name() + ".End": b,
						ptr.Name() + ".Start": c, ptr.Name() + ".End": d,
						ptr.Name() + ".TimeRange.Start": c, ptr.Name() + ".TimeRange.End": d,
					}
					got := e.expr(dir.Cond)
					if e.bad != "" {
						r.Undecide("C03.R2.direction: %s", e.bad)
						return
					}
					goesLeft := got == leftOnTrue
					if goesLeft != left {
						diffs = append(diffs, fmt.Sprintf("tr=[%d,%d) ptr=[%d,%d): turns %s, the range lies %s", a, b, c, d, map[bool]string{true: "left", false: "right"}[goesLeft], map[bool]string{true: "before", false: "after"}[left]))
					}
				}
			}
		}
	}
	detail := fmt.Sprintf("%d orderings of two non-overlapping ranges", cases)
	if len(diffs) > 0 {
		if len(diffs) > 4 {
			diffs = append(diffs[:4], fmt.Sprintf("... %d more", len(diffs)-4))
		}
		detail = strings.Join(diffs, "; ")
	}
	r.Ob("C03.R2.direction", "unprotectedSearch turns towards the side the searched range lies on", posOf(p, dir), len(diffs) == 0 && cases > 0, detail)
}

// checkCommitRangeValidation decides C03.R3.validate.
func checkCommitRangeValidation(r *Run, p *Prog) {
	fn := p.Func(domainPkg, "Writer", "validateCommitRange")
	if fn == nil {
		r.Undecide("C03.R3.validate: Writer.validateCommitRange not found")
		return
	}
	end := paramObj(fn, 0)
	c := p.CFG(fn)
	isStart := func(e ast.Expr) bool {
		sel, ok := ast.Unparen(e).(*ast.SelectorExpr)
		return ok && sel.Sel.Name == "Start"
	}
	gate := c.EdgesEstablishing(func(atom ast.Expr, val bool) bool {
		call, ok := ast.Unparen(atom).(*ast.CallExpr)
		if !ok || len(call.Args) != 1 {
			return false
		}
		sel, ok := ast.Unparen(call.Fun).(*ast.SelectorExpr)
		if !ok {
			return false
		}
		switch sel.Sel.Name {
		case "Before": // Start.Before(end) == true
			return val && isStart(sel.X) && objOf(fn, call.Args[0]) == end
		case "After": // end.After(Start) == true
			return val && objOf(fn, sel.X) == end && isStart(call.Args[0])
		case "AfterEq": // Start.AfterEq(end) == false
			return !val && isStart(sel.X) && objOf(fn, call.Args[0]) == end
		case "BeforeEq": // end.BeforeEq(Start) == false
			return !val && objOf(fn, sel.X) == end && isStart(call.Args[0])
		}
		return false
	})
	q, vis := c.ReachAvoiding([]Point{c.Entry()}, gate, nil)
	var path []string
	n := 0
	for _, ex := range c.Exits() {
		if ex.Return == nil || !mayReturnNilError(fn, ex.Return) {
			continue
		}
		n++
		if vis[ex.P] {
			path = q.PathTo(ex.P)
		}
	}
	r.ObPath("C03.R3.validate", "validateCommitRange returns nil only when the commit end lies after the writer's start", p.Position(fn.Pos()), path == nil && n > 0 && len(gate) > 0,
		"a commit at or before Start is accepted on this path: index.update then replaces the committed domain by an inverted range", path)
}
