package main

func init() {
	const fpgo = "aspen/internal/kv/filter_persist.go"
	const recgo = "aspen/internal/kv/recovery.go"
	const txgo = "aspen/internal/kv/tx.go"
	const kvgo = "aspen/internal/kv/kv.go"
	const vergo = "aspen/internal/kv/version.go"
	const leasego = "aspen/internal/kv/lease.go"
	const psgo = "aspen/internal/kv/persist.go"

	// ---------------- C06
	mut("C06", "recovery applies operations without the conflict rule", recgo,
		"			if !sup {\n				continue\n			}\n			if err = op.apply(ctx, tx); err != nil {", "			_ = sup\n			if err = op.apply(ctx, tx); err != nil {", "C06.R1.guard")
	mut("C06", "filterPersist reads the digest from the engine, not the transaction", fpgo,
		"sup, supErr := supersedes(ctx, txn, op)", "sup, supErr := supersedes(ctx, fp.db, op)", "C06.R1.guard")
	mut("C06", "filterPersist applies rejected operations too", fpgo,
		"			if !sup {\n				rejected.Operations = append(rejected.Operations, op)\n				continue\n			}", "			if !sup {\n				rejected.Operations = append(rejected.Operations, op)\n			}", "C06.R1.guard")
	mut("C06", "recovery writes the value but not the digest", recgo,
		"			if err = op.Digest().apply(ctx, tx); err != nil {\n				return err\n			}\n			count++", "			count++", "C06.R2.digest")
	mut("C06", "commitTo writes the digest of a different operation", txgo,
		"		if _err := op.Digest().apply(tr.Context, b); _err != nil {", "		if _err := tr.Operations[0].Digest().apply(tr.Context, b); _err != nil {", "C06.R2.digest")
	mut("C06", "gossip store rewrites versions", "aspen/internal/kv/store.go",
		"func newStore() *kvStore {", "func bumpVersion(op *Operation) { op.Version = op.Version + 1 }\n\nfunc newStore() *kvStore {", "C06.R3.version")
	mut("C06", "versions stamped even when the counter failed to persist", vergo,
		"		va.L.Error(\"failed to assign version\", zap.Error(err))\n		return TxRequest{}, false, nil\n	}", "		va.L.Error(\"failed to assign version\", zap.Error(err))\n	}", "C06.R3.version")
	mut("C06", "gossip ingress bypasses filterPersist", kvgo,
		"		SourceTargets: []address.Address{operationReceiverAddr, operationSenderAddr},\n		SinkTargets:   []address.Address{filterPersistAddr},",
		"		SourceTargets: []address.Address{operationReceiverAddr, operationSenderAddr},\n		SinkTargets:   []address.Address{persistAddr},", "C06.R4.topology")
	mut("C06", "lease proxy routes swapped", kvgo,
		"newLeaseProxy(cfg, versionAssignerAddr, leaseSenderAddr),", "newLeaseProxy(cfg, leaseSenderAddr, versionAssignerAddr),", "C06.R4.topology")
	mut("C06", "lease proxy sends host-led requests away", leasego,
		"lo.Ternary(b.Leaseholder == lp.Cluster.HostKey(), lp.localTo, lp.remoteTo)", "lo.Ternary(b.Leaseholder != lp.Cluster.HostKey(), lp.localTo, lp.remoteTo)", "C06.R4.topology")
	mut("C06", "filterPersist constructor swaps accepted and rejected", fpgo,
		"		acceptedTo: acceptedTo,\n		rejectedTo: rejectedTo,", "		acceptedTo: rejectedTo,\n		rejectedTo: acceptedTo,", "C06.R4.topology")
	mut("C06", "recovery server skips digests equal to the high-water mark", recgo,
		"		if dig.Version.OlderThan(req.HighWater) {", "		if !dig.Version.NewerThan(req.HighWater) {", "C06.R5.recovery")

	// ---------------- C13
	mut("C13", "observable also fed by the gossip receiver", kvgo,
		"	plumber.UnaryRouter[TxRequest]{\n		SourceTarget: persistDeltaAddr,\n		SinkTarget:   observableAddr,",
		"	plumber.UnaryRouter[TxRequest]{\n		SourceTarget: operationReceiverAddr,\n		SinkTarget:   observableAddr,\n		Capacity:     chanBuffer,\n	}.MustRoute(pipe)\n\n	plumber.UnaryRouter[TxRequest]{\n		SourceTarget: persistDeltaAddr,\n		SinkTarget:   observableAddr,", "C13.R1.topology")
	mut("C13", "recovery transform feeds the persist splitter", kvgo,
		"		SourceTargets: []address.Address{persistAddr, filterPersistAddr},\n		SinkTargets:   []address.Address{persistDeltaAddr},",
		"		SourceTargets: []address.Address{persistAddr, filterPersistAddr, recoveryTransformAddr},\n		SinkTargets:   []address.Address{persistDeltaAddr},", "C13.R1.topology")
	mut("C13", "dedup reads the committed engine", fpgo,
		"sup, supErr := supersedes(ctx, txn, op)", "sup, supErr := supersedes(ctx, fp.db, op)", "C13.R2.dedup")
	mut("C13", "accepted before the digest write", fpgo,
		"			if err := op.Digest().apply(ctx, txn); err != nil {\n				return err\n			}\n			accepted.Operations = append(accepted.Operations, op)",
		"			accepted.Operations = append(accepted.Operations, op)\n			if err := op.Digest().apply(ctx, txn); err != nil {\n				return err\n			}", "C13.R2.dedup")
	mut("C13", "accepted published although the transaction failed", fpgo,
		"	if err == nil && !accepted.empty() {", "	if !accepted.empty() {", "C13.R2.dedup")
	mut("C13", "persist forwards failed commits", psgo,
		"	return br, err == nil, nil", "	_ = err\n	return br, true, nil", "C13.R2.dedup")
	mut("C13", "commitTo loses the commit error", txgo,
		"		} else if _err := b.Commit(tr.Context); _err != nil {\n			err = _err\n		}", "		} else if _err := b.Commit(tr.Context); _err != nil {\n			tr.done(_err)\n			return\n		}", "C13.R2.dedup")
	mut("C13", "a second direct subscriber", kvgo,
		"func (d *DB) OnChange(handler func(ctx context.Context, reader xkv.TxReader)) observe.Disconnect {\n	return d.NewObservable().OnChange(handler)\n}",
		"func (d *DB) OnChange(handler func(ctx context.Context, reader xkv.TxReader)) observe.Disconnect {\n	return d.txObservable.OnChange(func(ctx context.Context, tx TxRequest) { handler(ctx, tx.reader()) })\n}", "C13.R3.wrapper")
	mut("C13", "wrapper hides host-led changes from everybody", kvgo,
		"		if o.opts.ignoreHostLeaseholder && tx.Leaseholder == o.db.config.Cluster.HostKey() {", "		if tx.Leaseholder == o.db.config.Cluster.HostKey() {", "C13.R3.wrapper")
	mut("C13", "wrapper filter inverted", kvgo,
		"		if o.opts.ignoreHostLeaseholder && tx.Leaseholder == o.db.config.Cluster.HostKey() {", "		if o.opts.ignoreHostLeaseholder && tx.Leaseholder != o.db.config.Cluster.HostKey() {", "C13.R3.wrapper")
	mut("C13", "wrapper never hides host-led requests", kvgo,
		"		if o.opts.ignoreHostLeaseholder && tx.Leaseholder == o.db.config.Cluster.HostKey() {\n			return\n		}\n", "", "C13.R3.wrapper")
	mut("C13", "wrapper hides every request from IgnoreHostLeaseholder subscribers", kvgo,
		"		if o.opts.ignoreHostLeaseholder && tx.Leaseholder == o.db.config.Cluster.HostKey() {", "		if o.opts.ignoreHostLeaseholder || tx.Leaseholder == o.db.config.Cluster.HostKey() {", "C13.R3.wrapper")

	// ---------------- C11
	const plgo = "aspen/internal/cluster/pledge/pledge.go"
	mut("C11", "verdict releases the juror lock between the test and the record", plgo,
		"	j.mu.Lock()\n	defer j.mu.Unlock()\n	if slices.Contains(j.approvals, req.Key) {",
		"	j.mu.Lock()\n	seen := slices.Contains(j.approvals, req.Key)\n	j.mu.Unlock()\n	j.mu.Lock()\n	defer j.mu.Unlock()\n	if seen {", "C11.R1.memory")
	mut("C11", "a fresh juror per request", plgo,
		"		return Response{}, j.verdict(ctx, req)", "		j = &juror{Config: cfg}\n		return Response{}, j.verdict(ctx, req)", "C11.R1.memory")
	mut("C11", "verdict approves without recording", plgo,
		"	j.approvals = append(j.approvals, req.Key)\n", "", "C11.R1.memory")
	mut("C11", "verdict logs the approvals before locking", plgo,
		"	j.L.Debug(\"juror received proposal. making verdict\", logID)", "	j.L.Debug(\"juror received proposal. making verdict\", logID, zap.Int(\"approved\", len(j.approvals)))", "C11.R1.GUARD")
	mut("C11", "propose returns the key although the quorum rejected", plgo,
		"			r.L.Error(\"quorum rejected proposal. retrying.\", zap.Error(err))\n			continue\n", "			r.L.Error(\"quorum rejected proposal. retrying.\", zap.Error(err))\n", "C11.R2.quorum")
	mut("C11", "retries reuse the proposed key", plgo,
		"		res.Key = r.idToPropose()\n", "		if res.Key == 0 {\n			res.Key = r.idToPropose()\n		}\n", "C11.R2.quorum")
	mut("C11", "an unreachable quorum is consulted anyway", plgo,
		"		if qErr != nil {\n			err = qErr\n			break\n		}", "		_ = qErr", "C11.R2.quorum")
	mut("C11", "juror timeouts count as approvals", plgo,
		"			return err\n		})\n	}\n	return wg.Wait()", "			if reqCtx.Err() != nil {\n				return nil\n			}\n			return err\n		})\n	}\n	return wg.Wait()", "C11.R3.failures")
	mut("C11", "consultQuorum ignores juror failures", plgo,
		"	return wg.Wait()\n}", "	_ = wg.Wait()\n	return nil\n}", "C11.R3.failures")
	mut("C11", "retries can go back to the highest known key", plgo,
		"		r._proposedKey++", "		r._proposedKey = highestNodeID(r.candidateSnapshot)", "C11.R4.monotone")

	// ---------------- C12
	const gogo = "aspen/internal/cluster/gossip/gossip.go"
	const csgo = "aspen/internal/cluster/store/store.go"
	const hbgo = "x/go/version/heartbeat.go"
	mut("C12", "Merge runs without the store mutex", csgo,
		"func (c *core) Merge(ctx context.Context, other node.Group) {\n	c.mu.Lock()\n	defer c.mu.Unlock()\n", "func (c *core) Merge(ctx context.Context, other node.Group) {\n", "C12.R1.atomic")
	mut("C12", "SetNode releases the mutex before publishing", csgo,
		"	snap := c.CopyState()\n	snap.Nodes[n.Key] = n\n	c.SetState(ctx, snap)\n}\n\n// Merge", "	snap := c.CopyState()\n	snap.Nodes[n.Key] = n\n	c.mu.Unlock()\n	c.SetState(ctx, snap)\n	c.mu.Lock()\n}\n\n// Merge", "C12.R1.atomic")
	mut("C12", "Merge keeps whichever record is less advanced", csgo,
		"		if !ok || n.Heartbeat.OlderThan(in.Heartbeat) {", "		if !ok || n.Heartbeat.YoungerThan(in.Heartbeat) {", "C12.R2.direction")
	mut("C12", "Merge overwrites unconditionally", csgo,
		"		if !ok || n.Heartbeat.OlderThan(in.Heartbeat) {", "		if _ = in; true || !ok {", "C12.R2.direction")
	mut("C12", "sync returns records the initiator is ahead on", gogo,
		"		if ok && n.Heartbeat.OlderThan(dig.Heartbeat) {\n			ack.Nodes[dig.Key] = n", "		if ok && dig.Heartbeat.OlderThan(n.Heartbeat) {\n			ack.Nodes[dig.Key] = n", "C12.R2.direction")
	mut("C12", "sync requests records it is ahead on", gogo,
		"		if !ok || n.Heartbeat.YoungerThan(dig.Heartbeat) {", "		if !ok || n.Heartbeat.OlderThan(dig.Heartbeat) {", "C12.R2.direction")
	mut("C12", "sync hands back the zero record of a member it does not know", gogo,
		"		if ok && n.Heartbeat.OlderThan(dig.Heartbeat) {\n			ack.Nodes[dig.Key] = n", "		if !ok || n.Heartbeat.OlderThan(dig.Heartbeat) {\n			ack.Nodes[dig.Key] = n", "C12.R2.direction")
	mut("C12", "sync volunteers the members the initiator already sent a digest for", gogo,
		"		if _, ok := sync.Digests[n.Key]; !ok {", "		if _, ok := sync.Digests[n.Key]; ok {", "C12.R2.direction")
	mut("C12", "ack answers for members it does not know", gogo,
		"		if n, ok := snap.Nodes[dig.Key]; ok && n.Heartbeat.OlderThan(dig.Heartbeat) {", "		if n, ok := snap.Nodes[dig.Key]; !ok || n.Heartbeat.OlderThan(dig.Heartbeat) {", "C12.R2.direction")
	mut("C12", "ack returns stale records", gogo,
		"		if n, ok := snap.Nodes[dig.Key]; ok && n.Heartbeat.OlderThan(dig.Heartbeat) {", "		if n, ok := snap.Nodes[dig.Key]; ok && !n.Heartbeat.OlderThan(dig.Heartbeat) {", "C12.R2.direction")
	mut("C12", "ack skips the merge when nothing was requested", gogo,
		"	snap := g.Store.CopyState()\n	g.Store.Merge(ctx, ack.Nodes)", "	if len(ack.Digests) == 0 {\n		return ack2\n	}\n	snap := g.Store.CopyState()\n	g.Store.Merge(ctx, ack.Nodes)", "C12.R2.exchange")
	mut("C12", "ack2 is dropped", gogo,
		"func (g *Gossip) ack2(ctx context.Context, ack2 Message) { g.Store.Merge(ctx, ack2.Nodes) }", "func (g *Gossip) ack2(ctx context.Context, ack2 Message) { _ = ack2 }", "C12.R2.exchange")
	mut("C12", "OlderThan falls through to the version when the generation is smaller", hbgo,
		"	return h.Generation > other.Generation ||\n		(h.Generation == other.Generation && h.Version > other.Version)", "	if h.Generation > other.Generation {\n		return true\n	}\n	return h.Version > other.Version", "C12.R3.order")
	mut("C12", "YoungerThan is not strict", hbgo,
		"(h.Generation == other.Generation && h.Version < other.Version)", "(h.Generation == other.Generation && h.Version <= other.Version)", "C12.R3.order")
	mut("C12", "Restart keeps the version", hbgo,
		"func (h Heartbeat) Restart() Heartbeat { h.Generation++; h.Version = 0; return h }", "func (h Heartbeat) Restart() Heartbeat { h.Generation++; return h }", "C12.R3.order")

	// ---------------- C12.R4
	const clu = "aspen/internal/cluster/cluster.go"
	mut("C12", "the store flush is started only on the pledge path, before the restart branch returns", clu,
		"\t// Periodically persist the Cluster state.\n\tc.goFlushStore(sCtx)\n\n\treturn c, nil", "\tif state.IsZero() {\n\t\tc.goFlushStore(sCtx)\n\t}\n\n\treturn c, nil", "C12.R4.restart")
	mut("C12", "a restarted node keeps its old generation", clu,
		"\t\thost.Heartbeat = host.Heartbeat.Restart()\n", "", "C12.R4.restart")
	mut("C12", "goFlushStore only flushes on change and at shutdown", clu,
		"\t\tflush.FlushSync(sCtx, c.CopyState())\n\t\tc.OnChange(", "\t\tc.OnChange(", "C12.R4.restart")

	// ---------------- C11.R2.failure / R5
	const plg = "aspen/internal/cluster/pledge/pledge.go"
	mut("C11", "a failed quorum build leaves the loop without recording the error", plg,
		"\t\tif qErr != nil {\n\t\t\terr = qErr\n\t\t\tbreak\n\t\t}", "\t\tif qErr != nil {\n\t\t\tr.L.Warn(\"no quorum\", zap.Error(qErr))\n\t\t\tbreak\n\t\t}", "C11.R2.failure")
	mut("C11", "the rejection is kept in a block-scoped variable", plg,
		"\t\tif err = r.consultQuorum(ctx, res.Key, quorum); err != nil {\n\t\t\tr.L.Error(\"quorum rejected proposal. retrying.\", zap.Error(err))", "\t\tif cErr := r.consultQuorum(ctx, res.Key, quorum); cErr != nil {\n\t\t\tr.L.Error(\"quorum rejected proposal. retrying.\", zap.Error(cErr))", "C11.R2.failure")
	mut("C11", "a bootstrapped member arbitrates without its cluster key", clu,
		"\t\tc.Pledge.ClusterKey = c.Key()\n\t\tif err = pledge_.Arbitrate(c.Pledge); err != nil {\n\t\t\treturn c, err", "\t\tif err = pledge_.Arbitrate(c.Pledge); err != nil {\n\t\t\treturn c, err", "C11.R5.clusterkey")
	mut("C11", "a joining node keeps a locally generated cluster key", clu,
		"\t\tc.SetClusterKey(ctx, pledgeRes.ClusterKey)", "\t\tc.SetClusterKey(ctx, uuid.New())", "C11.R5.clusterkey")

	// ---------------- C06.R1.complete / R6
	mut("C06", "superseding operations with an empty key are skipped after the conflict rule", "aspen/internal/kv/filter_persist.go",
		"			if err := op.apply(ctx, txn); err != nil {\n				return err\n			}\n			if err := op.Digest().apply(ctx, txn); err != nil {", "			if len(op.Key) == 0 {\n				continue\n			}\n			if err := op.apply(ctx, txn); err != nil {\n				return err\n			}\n			if err := op.Digest().apply(ctx, txn); err != nil {", "C06.R1.complete")
	mut("C06", "a deleted key's lease falls back to the host", "aspen/internal/kv/lease.go",
		"	return digest.Leaseholder, nil\n}", "	if digest.Variant == change.VariantDelete {\n		return la.Cluster.HostKey(), nil\n	}\n	return digest.Leaseholder, nil\n}", "C06.R6.lease")

	// ---------------- C06.R7 / C13.R4
	mut("C06", "ties go to the lower leaseholder", "aspen/internal/kv/filter_persist.go",
		"		return op.Leaseholder > dig.Leaseholder, nil", "		return op.Leaseholder < dig.Leaseholder, nil", "C06.R7.rule")
	mut("C13", "an equal version is accepted again", "aspen/internal/kv/filter_persist.go",
		"		return op.Leaseholder > dig.Leaseholder, nil", "		return op.Leaseholder >= dig.Leaseholder, nil", "C13.R4.rule")

	mut("C06", "a failed digest write is ignored for gossiped operations", "aspen/internal/kv/filter_persist.go",
		"			if err := op.Digest().apply(ctx, txn); err != nil {\n				return err\n			}", "			_ = op.Digest().apply(ctx, txn)", "C06.ERR")

	mut("C06", "commitTo reports the result of Close instead of the failure", "aspen/internal/kv/tx.go",
		"			err = errors.Combine(err, b.Close())", "			err = b.Close()", "C06.ERR")

	mut("C11", "the juror looks recorded keys up by binary search", "aspen/internal/cluster/pledge/pledge.go",
		"slices.Contains(j.approvals, req.Key)", "func() bool { _, ok := slices.BinarySearch(j.approvals, req.Key); return ok }()", "C11.R6.search")
	mut("C11", "the pledging node records the cluster key on a copy of its configuration", "aspen/internal/cluster/pledge/pledge.go",
		"				cfg.ClusterKey = res.ClusterKey\n				return res, arbitrate(cfg)", "				withKey := cfg\n				withKey.ClusterKey = res.ClusterKey\n				return res, arbitrate(cfg)", "C11.R5.clusterkey")

	mut("C06", "an operation that names the host as leaseholder skips the lease lookup", "aspen/internal/kv/lease.go",
		"	lh, err := la.getLease(ctx, op.Key)\n", "	if op.Leaseholder == la.Cluster.HostKey() {\n		return op, nil\n	}\n	lh, err := la.getLease(ctx, op.Key)\n", "C06.R6.lease")
	mut("C12", "sync returns early when the initiator knows more members", "aspen/internal/cluster/gossip/gossip.go",
		"	for _, n := range snap.Nodes {\n\n		// If we have a node that the initiator doesn't have,", "	if len(sync.Digests) > len(snap.Nodes) {\n		return ack\n	}\n	for _, n := range snap.Nodes {\n\n		// If we have a node that the initiator doesn't have,", "C12.R2.complete")
	mut("C12", "sync skips the digest of the host itself", "aspen/internal/cluster/gossip/gossip.go",
		"		n, ok := snap.Nodes[dig.Key]\n\n		// If we have a more recent", "		if dig.Key == snap.HostKey {\n			continue\n		}\n		n, ok := snap.Nodes[dig.Key]\n\n		// If we have a more recent", "C12.R2.complete")

	mut("C13", "disconnecting a subscriber waits for its handler under the observer mutex", "x/go/observe/observe.go",
		"		a.mu.Lock()\n		delete(a.handlers, h)\n		a.mu.Unlock()\n", "		a.mu.Lock()\n		defer a.mu.Unlock()\n		delete(a.handlers, h)\n", "C13.R5.nowait")
	// ---------------- E14 (error flow)
	mut("C06", "a failed lease allocation is ignored for deletes", "aspen/internal/kv/tx.go",
		"	op, err = b.lease.allocate(ctx, op)\n	if err != nil {", "	op, err = b.lease.allocate(ctx, op)\n	if err != nil && op.Variant != change.VariantDelete {", "C06.ERR")
	mut("C11", "Arbitrate starts a juror on an invalid configuration when no candidates are configured", "aspen/internal/cluster/pledge/pledge.go",
		"func Arbitrate(cfgs ...Config) error {\n	cfg, err := config.New(DefaultConfig, cfgs...)\n	if err != nil {", "func Arbitrate(cfgs ...Config) error {\n	cfg, err := config.New(DefaultConfig, cfgs...)\n	if err != nil && cfg.Candidates != nil {", "C11.ERR")
	mut("C13", "a full subscriber buffer ends the fan-out of that change", "x/go/observe/observe.go",
		"	msg := asyncMessage[T]{ctx: ctx, val: v}\n	for h := range a.handlers {\n		select {\n		case h.ch <- msg:\n		default:\n", "	msg := asyncMessage[T]{ctx: ctx, val: v}\n	for h := range a.handlers {\n		select {\n		case h.ch <- msg:\n		default:\n			return\n", "C13.R6.fanout")
	mut("C06", "deletes may name any leaseholder for a key that already has one", "aspen/internal/kv/lease.go",
		"		} else if lh != op.Leaseholder {", "		} else if lh != op.Leaseholder && op.Variant == change.VariantSet {", "C06.R6.lease")
	mut("C11", "a juror with a single approval on record approves that key again", "aspen/internal/cluster/pledge/pledge.go",
		"	if slices.Contains(j.approvals, req.Key) {", "	if slices.Contains(j.approvals, req.Key) && len(j.approvals) > 1 {", "C11.R7.verdict")
	mut("C11", "out-of-range keys are only rejected when the juror has approvals on record", "aspen/internal/cluster/pledge/pledge.go",
		"	if req.Key <= highestNodeID(j.Candidates()) {", "	if req.Key <= highestNodeID(j.Candidates()) && len(j.approvals) > 0 {", "C11.R7.verdict")
	mut("C12", "a failed sync is taken for an empty answer when no digests were sent", "aspen/internal/cluster/gossip/gossip.go",
		"	ack, err := g.TransportClient.Send(ctx, addr, sync)\n	if err != nil {", "	ack, err := g.TransportClient.Send(ctx, addr, sync)\n	if err != nil && len(sync.Digests) > 0 {", "C12.ERR")
}
