package main

import (
	"fmt"
	"go/ast"
	"go/token"
	"go/types"
	"strings"
)

func init() { checks["C20"] = checkC20 }

func checkC20(r *Run) {
	r.Explanation = "Structural necessary conditions of 'streamers see an ordered, filtered, duplicate-free view': (R1) the only value sent into the relay is built in streamWriter.write, behind Mode.Stream(), from req.Frame.ExcludeKeys(x) where x is the exclusion list handed to every per-group write; in idxWriter.write and virtualWriter.write every path on which a per-channel write failed with ErrUnauthorized and execution continues appends that key to the exclusion list, and a lost index excludes the whole group; (R2) every frame a streamer emits is rf.frame.KeepKeys(s.Channels) and is sent only if non-empty; (R3) streamer.Flow defers the disconnect returned by relay.connect in the goroutine it starts, and disconnect starts the drain goroutine before delta.Disconnect and waits after; (R4) the fan-out list DynamicDeltaMultiplier.Source.Out is touched only by functions reachable solely from the multiplier's Flow goroutine, while Connect/Disconnect only send on channels; (R5) the fan-out send loop selects on the consumer, ctx.Done and a timer, and re-arms the timer in the timeout case before the next send."
	r.NotDecided = "Completeness for an always-ready consumer (timeout semantics under scheduling jitter), cross-writer ordering, duplicate-freedom of the channel transport itself (Go channels: trusted)."
	r.Trusted = []string{"go/types, go/cfg", "Go channel FIFO semantics"}
	r.Extra["module"] = "cesium"
	p, err := Load("cesium")
	if err != nil {
		r.Undecide("%v", err)
		return
	}
	r.Stats["packages"] = len(p.Repo)
	r.Rule("C20.R1.relay", "relayResponse values carrying a frame are built only in streamWriter.write, behind Mode.Stream(), from Frame.ExcludeKeys(<the exclusion list passed by address to every idxWriter.write / virtualWriter.write call>)", 4)
	r.Rule("C20.R1.exclude", "in idxWriter.write and virtualWriter.write, after a per-channel write returned an error that is ErrUnauthorized, the key is appended to the exclusion list before the iteration or function ends; when the index itself was lost every data key of the group is appended", 4)
	r.Rule("C20.R2.filter", "every StreamerResponse with a frame sent by streamer.Flow carries rf.frame.KeepKeys(s.Channels) and is sent only when that frame is non-empty", 2)
	r.Rule("C20.R3.pairing", "streamer.Flow defers the disconnect function of relay.connect inside the goroutine it starts; disconnect starts draining before delta.Disconnect and waits for the drain afterwards", 3)
	r.Rule("C20.R4.confine", "DynamicDeltaMultiplier.Source.Out is accessed only in functions reachable solely from DynamicDeltaMultiplier.Flow; Connect and Disconnect only send on the connection channels", 4)
	r.Rule("C20.R7.blocking", "frames are handed to the relay with a blocking send: a send of a relayResponse is never a select alternative next to a default clause (shedding there drops the frame for every streamer, ready or not)", 1)
	r.Rule("C20.R6.own", "a streamer's subscribed key set is only ever replaced as a whole by a value not built on the old slice: the initial slice belongs to the caller's configuration and may be shared between streamers", 1)
	r.Rule("C20.R8.rendezvous", "the relay's multiplier takes connect and disconnect requests over unbuffered channels: relay.connect returns only once the relay goroutine has the streamer in its fan-out set, which is what makes a frame written after the streamer was opened reach it; with a buffer the request is merely queued next to frames already on their way", 2)
	r.Rule("C20.R5.rearm", "AbstractMultiSource.SendToEachWithTimeout sends inside a select with ctx.Done and the timer, and the timer case re-arms the timer before the next send", 2)

	checkRelayEntry(r, p)
	checkExclusion(r, p)
	checkStreamerFilter(r, p)
	checkConnectPairing(r, p)
	checkFanoutConfinement(r, p)
	checkRearm(r, p)
	checkSubscriptionOwnership(r, p)
	checkRelaySendBlocks(r, p)
	checkRelayRendezvous(r, p)
}

// checkSubscriptionOwnership decides C20.R6: the streamer's key set starts out as the
// caller's StreamerConfig.Channels slice, which several streamers may share. It may be
// replaced as a whole but never written in place (index store, append into it, reslice
// to zero and refill): that rewrites the subscription of every sibling streamer.
func checkSubscriptionOwnership(r *Run, p *Prog) {
	field := p.FieldOf("cesium", "StreamerConfig", "Channels")
	if field == nil {
		r.Undecide("C20.R6: cesium.StreamerConfig.Channels not found")
		return
	}
	n := 0
	seen := map[string]int{}
	for _, fn := range p.FuncsOfPkg("cesium") {
		if fn.Body == nil {
			continue
		}
		inspectNoLit(fn.Body, func(x ast.Node) bool {
			st, ok := x.(ast.Stmt)
			if !ok || !isStoreTo(fn, st, field) {
				return true
			}
			n++
			good, why := false, "in-place write"
			if as, ok := st.(*ast.AssignStmt); ok && len(as.Lhs) == 1 && len(as.Rhs) == 1 {
				if sel, ok := ast.Unparen(as.Lhs[0]).(*ast.SelectorExpr); ok && fieldVar(fn, sel) == field {
					// whole-value replacement: the new value must not be built on the old storage
					reuses := false
					ast.Inspect(as.Rhs[0], func(y ast.Node) bool {
						if s2, ok := y.(*ast.SelectorExpr); ok && fieldVar(fn, s2) == field && types.ExprString(s2.X) == types.ExprString(sel.X) {
							reuses = true
						}
						return true
					})
					good = !reuses
					if reuses {
						why = "the new key set is built on the old slice's storage (" + types.ExprString(as.Rhs[0]) + ")"
					}
				}
			}
			key := "write of the streamer's subscribed key set in " + fn.Top().Name
			seen[key]++
			if seen[key] > 1 {
				key = fmt.Sprintf("%s #%d", key, seen[key])
			}
			r.Ob("C20.R6.own", key, posOf(p, st), good, why+": the slice is the caller's configuration value and is shared by every streamer opened from it")
			return true
		})
	}
	if n < 1 {
		r.Undecide("C20.R6: no write of StreamerConfig.Channels found (re-subscription lost its anchor)")
	}
}

func namedTypeIs(t types.Type, pkgSuffix, name string) bool {
	n, ok := derefNamed(t)
	if !ok {
		return false
	}
	o := n.Origin().Obj()
	return o.Name() == name && o.Pkg() != nil && strings.HasSuffix(o.Pkg().Path(), pkgSuffix)
}

func checkRelayEntry(r *Run, p *Prog) {
	write := p.Func("cesium", "streamWriter", "write")
	idxWrite := p.Func("cesium", "idxWriter", "write")
	virtWrite := p.Func("cesium", "virtualWriter", "write")
	if write == nil || idxWrite == nil || virtWrite == nil {
		r.Undecide("C20.R1: streamWriter.write / idxWriter.write / virtualWriter.write not resolved")
		return
	}
	// every relayResponse literal with a frame
	n := 0
	for _, fn := range p.FuncsOfPkg("cesium") {
		inspectNoLit(fn.Body, func(x ast.Node) bool {
			cl, ok := x.(*ast.CompositeLit)
			if !ok || !namedTypeIs(fn.Pkg.TypesInfo.TypeOf(cl), "synnaxlabs/cesium", "relayResponse") {
				return true
			}
			fr := litField(cl, "frame")
			if fr == nil {
				return true
			}
			n++
			inWrite := fn.Top() == write
			r.Ob("C20.R1.relay", "relayResponse with a frame built in "+fn.Top().Name, p.Position(cl.Pos()), inWrite, "only streamWriter.write may feed frames to the relay")
			if !inWrite {
				return true
			}
			// frame: <X>.ExcludeKeys(excl)
			call, _ := ast.Unparen(fr).(*ast.CallExpr)
			var excl types.Object
			okForm := false
			if call != nil {
				if f := CalleeFunc(fn, call); f != nil && f.Name() == "ExcludeKeys" && len(call.Args) == 1 {
					excl = objOf(fn, call.Args[0])
					okForm = excl != nil
				}
			}
			r.Ob("C20.R1.relay", "the relayed frame is Frame.ExcludeKeys(exclusion list)", p.Position(cl.Pos()), okForm, "frame value is "+types.ExprString(fr))
			// the same list is passed by address to every group write
			okArgs, nCalls := true, 0
			for _, c := range CallsIn(fn, func(o types.Object, _ *ast.CallExpr) bool { return IsFunc(o, idxWrite) || IsFunc(o, virtWrite) }) {
				nCalls++
				if len(c.Args) < 1 {
					okArgs = false
					continue
				}
				u, ok := ast.Unparen(c.Args[0]).(*ast.UnaryExpr)
				if !ok || u.Op != token.AND || objOf(fn, u.X) != excl {
					okArgs = false
				}
			}
			r.Ob("C20.R1.relay", "every per-group write receives the address of that exclusion list", p.Position(fn.Pos()), okArgs && nCalls >= 2, fmt.Sprintf("%d group write call(s)", nCalls))
			// the send is behind Mode.Stream()
			c := p.CFG(fn)
			sp, _ := c.Locate(cl)
			gate := c.EdgesEstablishing(func(atom ast.Expr, val bool) bool {
				cc, ok := atom.(*ast.CallExpr)
				if !ok || !val {
					return false
				}
				f := CalleeFunc(fn, cc)
				return f != nil && f.Name() == "Stream"
			})
			q, vis := c.ReachAvoiding([]Point{c.Entry()}, gate, nil)
			var path []string
			if vis[sp] {
				path = q.PathTo(sp)
			}
			r.ObPath("C20.R1.relay", "the relay send is behind Mode.Stream()", p.Position(cl.Pos()), len(gate) > 0 && !vis[sp], "persist-only writers must not feed streamers", path)
			// the frame filtered is the one returned by the group writes (req.Frame reassigned)
			return true
		})
	}
	if n < 1 {
		r.Undecide("C20.R1: no relayResponse literal with a frame found")
	}
}

func isErrUnauthorizedTest(fn *FuncNode, atom ast.Expr) (types.Object, bool) {
	call, ok := atom.(*ast.CallExpr)
	if !ok || len(call.Args) != 2 {
		return nil, false
	}
	f := CalleeFunc(fn, call)
	if f == nil || f.Name() != "Is" {
		return nil, false
	}
	sel, ok := ast.Unparen(call.Args[1]).(*ast.SelectorExpr)
	if !ok || sel.Sel.Name != "ErrUnauthorized" {
		return nil, false
	}
	return objOf(fn, call.Args[0]), true
}

func checkExclusion(r *Run, p *Prog) {
	for _, spec := range [][2]string{{"idxWriter", "write"}, {"virtualWriter", "write"}} {
		fn := p.Func("cesium", spec[0], spec[1])
		if fn == nil {
			r.Undecide("C20.R1: %s.%s not found", spec[0], spec[1])
			continue
		}
		c := p.CFG(fn)
		excl := paramObj(fn, 0)
		isAppend := func(n ast.Node) bool {
			as, ok := n.(*ast.AssignStmt)
			if !ok || len(as.Lhs) != 1 || len(as.Rhs) != 1 {
				return false
			}
			st, ok := ast.Unparen(as.Lhs[0]).(*ast.StarExpr)
			if !ok || objOf(fn, st.X) != excl {
				return false
			}
			call, ok := ast.Unparen(as.Rhs[0]).(*ast.CallExpr)
			if !ok {
				return false
			}
			bi, ok := Callee(fn, call).(*types.Builtin)
			return ok && bi.Name() == "append" && len(call.Args) == 2
		}
		// per-channel writes: calls of Write/WriteAt on unary/virtual writers whose error is bound
		n := 0
		inspectNoLit(fn.Body, func(x ast.Node) bool {
			call, ok := x.(*ast.CallExpr)
			if !ok {
				return true
			}
			f := CalleeFunc(fn, call)
			if f == nil || (f.Name() != "Write" && f.Name() != "WriteAt") || f.Pkg() == nil {
				return true
			}
			if !strings.HasSuffix(f.Pkg().Path(), "cesium/internal/unary") && !strings.HasSuffix(f.Pkg().Path(), "cesium/internal/virtual") {
				return true
			}
			ev := errVarOfCall(fn, call)
			if ev == nil {
				r.Ob("C20.R1.exclude", fmt.Sprintf("%s result of %s in %s is checked", f.Name(), f.Name(), fn.Name), p.Position(call.Pos()), false, "the write error is not bound to a variable")
				return true
			}
			n++
			cp, _ := c.Locate(call)
			// explore only: err != nil, and "is ErrUnauthorized" (block the edge proving it is not)
			blocked := errNilEdges(c, ev)
			for e := range c.EdgesEstablishing(func(atom ast.Expr, val bool) bool {
				_, ok := isErrUnauthorizedTest(fn, atom)
				return ok && !val
			}) {
				blocked[e] = true
			}
			path := c.leavesWithout(cp, enclosingLoop(fn, call), blocked, isAppend)
			r.ObPath("C20.R1.exclude", fmt.Sprintf("unauthorized %s in %s adds the key to the exclusion list", f.Name(), fn.Name), p.Position(call.Pos()), path == nil, "an unauthorized series that is not excluded is relayed to streamers although it was never written", path)
			return true
		})
		if n == 0 {
			r.Undecide("C20.R1: no per-channel write found in %s", fn.Name)
		}
		if spec[0] != "idxWriter" {
			continue
		}
		// lost index: a boolean set on the index-unauthorized path; in the data pass its true edge appends before continuing
		var flag types.Object
		inspectNoLit(fn.Body, func(x ast.Node) bool {
			if as, ok := x.(*ast.AssignStmt); ok && len(as.Lhs) == 1 && len(as.Rhs) == 1 {
				if id, ok := ast.Unparen(as.Rhs[0]).(*ast.Ident); ok && id.Name == "true" {
					if o := objOf(fn, as.Lhs[0]); o != nil && strings.Contains(strings.ToLower(o.Name()), "unauthorized") {
						flag = o
					}
				}
			}
			return true
		})
		if flag == nil {
			r.Ob("C20.R1.exclude", "idxWriter.write remembers a lost index", p.Position(fn.Pos()), false, "no flag is set when the index channel write is unauthorized")
			continue
		}
		trueEdges := c.EdgesEstablishing(func(atom ast.Expr, val bool) bool { return val && objOf(fn, atom) == flag })
		okGroup := len(trueEdges) > 0
		var path []string
		for e := range trueEdges {
			succ := e.B.Succs[e.Succ]
			start := Point{succ, -1}
			var loop ast.Stmt
			if len(e.B.Nodes) > 0 {
				loop = enclosingLoop(fn, e.B.Nodes[len(e.B.Nodes)-1])
			}
			// from the start of the true branch
			q, vis := c.ReachAvoiding([]Point{{e.B, len(e.B.Nodes) - 1}}, map[edge]bool{{e.B, e.Succ ^ 1}: true}, isAppend)
			_ = start
			for pt := range vis {
				if loop != nil && pt.B.Stmt == loop && (pt.B.Kind.String() == "RangeLoop" || pt.B.Kind.String() == "RangeDone") {
					okGroup = false
					path = q.PathTo(pt)
				}
			}
			for _, ex := range c.Exits() {
				if vis[ex.P] {
					okGroup = false
					path = q.PathTo(ex.P)
				}
			}
		}
		r.ObPath("C20.R1.exclude", "a lost index excludes every data key of the group", p.Position(fn.Pos()), okGroup, "data written against an index the writer does not control must not be relayed", path)
		// the flag is set on the index-unauthorized path: reachable only across err != nil of the index write
	}
}

func checkStreamerFilter(r *Run, p *Prog) {
	flow := p.Func("cesium", "streamer", "Flow")
	if flow == nil {
		r.Undecide("C20.R2: streamer.Flow not found")
		return
	}
	channels := p.FieldOf("cesium", "StreamerConfig", "Channels")
	n := 0
	// every method of the streamer (Flow, its literals, and whatever it was split into)
	scan := append([]*FuncNode{flow}, flow.Lits...)
	for _, g := range p.FuncsOfPkg("cesium") {
		if g.Decl != nil && g != flow && strings.Contains(recvName(g.Decl), "streamer") && !strings.Contains(recvName(g.Decl), "Writer") {
			scan = append(scan, g)
			scan = append(scan, g.Lits...)
		}
	}
	for _, fn := range scan {
		c := p.CFG(fn)
		inspectNoLit(fn.Body, func(x ast.Node) bool {
			cl, ok := x.(*ast.CompositeLit)
			if !ok || !namedTypeIs(fn.Pkg.TypesInfo.TypeOf(cl), "synnaxlabs/cesium", "StreamerResponse") {
				return true
			}
			fr := litField(cl, "Frame")
			if fr == nil {
				return true
			}
			n++
			v := objOf(fn, fr)
			okFilter := false
			var filtered types.Object
			if v != nil {
				if rhs, _, ok := varDefinedBy(fn, v); ok {
					if call, ok := ast.Unparen(rhs).(*ast.CallExpr); ok {
						if f := CalleeFunc(fn, call); f != nil && f.Name() == "KeepKeys" && len(call.Args) == 1 {
							if sel, ok := ast.Unparen(call.Args[0]).(*ast.SelectorExpr); ok && fieldVar(fn, sel) == channels {
								okFilter = true
								filtered = v
							}
						}
					}
				}
			}
			r.Ob("C20.R2.filter", "streamed frame is rf.frame.KeepKeys(s.Channels)", p.Position(cl.Pos()), okFilter, "Frame value is "+types.ExprString(fr))
			if filtered == nil {
				return true
			}
			sp, _ := c.Locate(cl)
			gate := c.EdgesEstablishing(func(atom ast.Expr, val bool) bool {
				call, ok := atom.(*ast.CallExpr)
				if !ok || val {
					return false
				}
				f := CalleeFunc(fn, call)
				if f == nil || f.Name() != "Empty" {
					return false
				}
				sel, ok := ast.Unparen(call.Fun).(*ast.SelectorExpr)
				return ok && objOf(fn, sel.X) == filtered
			})
			q, vis := c.ReachAvoiding([]Point{c.Entry()}, gate, nil)
			var path []string
			if vis[sp] {
				path = q.PathTo(sp)
			}
			r.ObPath("C20.R2.filter", "a frame is sent only when the filtered frame is non-empty", p.Position(cl.Pos()), len(gate) > 0 && !vis[sp], "", path)
			return true
		})
	}
	if n < 1 {
		r.Undecide("C20.R2: no StreamerResponse with a frame in streamer.Flow")
	}
}

func checkConnectPairing(r *Run, p *Prog) {
	flow := p.Func("cesium", "streamer", "Flow")
	connect := p.Func("cesium", "relay", "connect")
	if flow == nil || connect == nil {
		r.Undecide("C20.R3: streamer.Flow / relay.connect not found")
		return
	}
	calls := CallsIn(flow, calleeIs(connect))
	if len(calls) != 1 {
		r.Ob("C20.R3.pairing", "streamer.Flow connects to the relay once", p.Position(flow.Pos()), false, fmt.Sprintf("%d connect calls", len(calls)))
		return
	}
	var disc types.Object
	inspectNoLit(flow.Body, func(x ast.Node) bool {
		if as, ok := x.(*ast.AssignStmt); ok && len(as.Rhs) == 1 && ast.Unparen(as.Rhs[0]) == calls[0] && len(as.Lhs) == 2 {
			disc = objOf(flow, as.Lhs[1])
		}
		return true
	})
	okDefer := false
	for _, l := range flow.Lits {
		c := p.CFG(l)
		// a defer of disc() that every path through the literal registers (it is in the entry block before any branch)
		entry := c.G.Blocks[0]
		for _, n := range entry.Nodes {
			if d, ok := n.(*ast.DeferStmt); ok && disc != nil && objOf(l, d.Call.Fun) == disc {
				okDefer = true
			}
		}
	}
	r.Ob("C20.R3.pairing", "the goroutine started by streamer.Flow defers the relay disconnect before anything can return", p.Position(calls[0].Pos()), okDefer, "a streamer that exits without disconnecting stays in the fan-out list and stalls every writer by the slow-consumer timeout")
	// inside disconnect: drain goroutine started before Disconnect, waited after
	lits := (&LockAnalysis{P: p}).returnedLits(connect)
	if len(lits) != 1 {
		r.Undecide("C20.R3: relay.connect returns %d literals", len(lits))
		return
	}
	d := lits[0]
	// a closure that only hands over to a package-local function is that function
	if len(d.Body.List) == 1 {
		if es, ok := d.Body.List[0].(*ast.ExprStmt); ok {
			if call, ok := es.X.(*ast.CallExpr); ok {
				if h := p.ByObj[CalleeFunc(d, call)]; h != nil && h.Body != nil && h.Pkg == d.Pkg {
					d = h
				}
			}
		}
	}
	c := p.CFG(d)
	var goNode, discNode, waitNode *Point
	for _, pt := range c.NodesWhere(func(ast.Node) bool { return true }) {
		n := pt.B.Nodes[pt.I]
		pp := pt
		if nodeHasCall(d, n, func(o types.Object, call *ast.CallExpr) bool {
			f, ok := o.(*types.Func)
			if !ok {
				return false
			}
			if f.Name() == "Go" && len(call.Args) == 1 {
				if lit, ok := call.Args[0].(*ast.FuncLit); ok {
					hasDrain := false
					ast.Inspect(lit, func(y ast.Node) bool {
						if cc, ok := y.(*ast.CallExpr); ok {
							if ff := CalleeFunc(p.LitNode(lit), cc); ff != nil && ff.Name() == "Drain" {
								hasDrain = true
							}
						}
						return true
					})
					return hasDrain
				}
			}
			return false
		}) {
			goNode = &pp
		}
		if _, isGo := n.(*ast.GoStmt); isGo {
			goNode = &pp
		}
		if nodeHasCall(d, n, calleeNamed("x/confluence", "DynamicDeltaMultiplier", "Disconnect")) {
			discNode = &pp
		}
		if nodeHasCall(d, n, func(o types.Object, _ *ast.CallExpr) bool {
			f, ok := o.(*types.Func)
			return ok && f.Name() == "Wait" && f.Pkg() != nil && f.Pkg().Path() == "sync"
		}) {
			waitNode = &pp
		}
	}
	ok := goNode != nil && discNode != nil && waitNode != nil
	if ok {
		_, v1 := c.ReachAvoiding([]Point{c.Entry()}, nil, func(n ast.Node) bool { return n == goNode.B.Nodes[goNode.I] })
		_, v2 := c.ReachAvoiding([]Point{c.Entry()}, nil, func(n ast.Node) bool { return n == discNode.B.Nodes[discNode.I] })
		ok = !v1[*discNode] && !v2[*waitNode]
	}
	r.Ob("C20.R3.pairing", "disconnect drains in a separate goroutine started before delta.Disconnect and waits after it", p.Position(d.Pos()), ok, "the relay goroutine may be blocked sending to this streamer: without a concurrent drain Disconnect deadlocks the relay and every writer behind it")
	r.Ob("C20.R3.pairing", "relay.connect registers the new stream with the multiplier", p.Position(connect.Pos()), len(CallsIn(connect, calleeNamed("x/confluence", "DynamicDeltaMultiplier", "Connect"))) == 1, "")
}

func checkFanoutConfinement(r *Run, p *Prog) {
	const cp = "x/confluence"
	flow := p.Func(cp, "DynamicDeltaMultiplier", "Flow")
	srcField := p.FieldOf(cp, "DynamicDeltaMultiplier", "Source")
	outField := p.FieldOf(cp, "AbstractMultiSource", "Out")
	if flow == nil || srcField == nil || outField == nil {
		r.Undecide("C20.R4: DynamicDeltaMultiplier.Flow / Source / Out not resolved")
		return
	}
	refs := p.BuildRefs()
	allowed := map[*FuncNode]bool{flow: true}
	n := 0
	for _, fn := range p.FuncsOfPkg(cp) {
		if fn.Decl == nil || fn.Decl.Recv == nil {
			continue
		}
		if recvName(fn.Decl) != "(*DynamicDeltaMultiplier)" {
			continue
		}
		touches := false
		ast.Inspect(fn.Body, func(x ast.Node) bool {
			if sel, ok := x.(*ast.SelectorExpr); ok && fieldVar(fn, sel) == srcField {
				touches = true
			}
			return true
		})
		if !touches {
			continue
		}
		n++
		ok, chain := refs.ReachableOnlyFrom(fn, allowed, map[*FuncNode]bool{})
		r.ObPath("C20.R4.confine", fn.Name+" (touches the fan-out list) runs only on the Flow goroutine", p.Position(fn.Pos()), ok, "the list has no lock: a second goroutine touching it races with the send loop (lost or duplicated frames)", chain)
	}
	if n < 3 {
		r.Undecide("C20.R4: only %d methods touching Source found", n)
	}
	for _, name := range []string{"Connect", "Disconnect"} {
		fn := p.Func(cp, "DynamicDeltaMultiplier", name)
		if fn == nil {
			r.Undecide("C20.R4: %s not found", name)
			continue
		}
		onlySend := len(fn.Body.List) == 1
		if onlySend {
			_, onlySend = fn.Body.List[0].(*ast.SendStmt)
		}
		r.Ob("C20.R4.confine", "DynamicDeltaMultiplier."+name+" only hands the inlets to the Flow goroutine", p.Position(fn.Pos()), onlySend, "it must not touch the list itself")
	}
}

func checkRearm(r *Run, p *Prog) {
	fn := p.Func("x/confluence", "AbstractMultiSource", "SendToEachWithTimeout")
	if fn == nil {
		r.Undecide("C20.R5: SendToEachWithTimeout not found")
		return
	}
	var sel *ast.SelectStmt
	ast.Inspect(fn.Body, func(x ast.Node) bool {
		if s, ok := x.(*ast.SelectStmt); ok {
			sel = s
		}
		return true
	})
	if sel == nil {
		r.Ob("C20.R5.rearm", "the fan-out send is inside a select", p.Position(fn.Pos()), false, "no select statement: a stalled consumer blocks the relay forever")
		return
	}
	hasSend, hasDone := false, false
	var timerClause *ast.CommClause
	for _, cc := range sel.Body.List {
		cl := cc.(*ast.CommClause)
		switch s := cl.Comm.(type) {
		case *ast.SendStmt:
			hasSend = true
		case *ast.ExprStmt:
			if u, ok := ast.Unparen(s.X).(*ast.UnaryExpr); ok && u.Op == token.ARROW {
				if call, ok := ast.Unparen(u.X).(*ast.CallExpr); ok {
					if f := CalleeFunc(fn, call); f != nil && f.Name() == "Done" {
						hasDone = true
					}
				}
				if s2, ok := ast.Unparen(u.X).(*ast.SelectorExpr); ok && s2.Sel.Name == "C" {
					if namedTypeIs(fn.Pkg.TypesInfo.TypeOf(s2.X), "time", "Timer") {
						timerClause = cl
					}
				}
			}
		}
	}
	r.Ob("C20.R5.rearm", "the fan-out send races with ctx.Done and a timer", p.Position(sel.Pos()), hasSend && hasDone && timerClause != nil, fmt.Sprintf("send=%v ctx.Done=%v timer=%v", hasSend, hasDone, timerClause != nil))
	if timerClause == nil {
		return
	}
	c := p.CFG(fn)
	isReset := func(n ast.Node) bool {
		return nodeHasCall(fn, n, func(o types.Object, _ *ast.CallExpr) bool {
			f, ok := o.(*types.Func)
			return ok && f.Name() == "Reset" && f.Pkg() != nil && f.Pkg().Path() == "time"
		})
	}
	// from the timer comm, every way to the next iteration passes Reset
	// go/cfg evaluates all comm statements in one block and then branches to the case
	// bodies, so the walk starts at the first statement of the timer case's body.
	if len(timerClause.Body) == 0 {
		r.Ob("C20.R5.rearm", "the timeout case re-arms the timer before the next consumer", p.Position(timerClause.Pos()), false, "the timer case has an empty body")
		return
	}
	first, ok := c.Locate(timerClause.Body[0])
	if !ok {
		r.Undecide("C20.R5: timer case body not in graph")
		return
	}
	start := Point{first.B, first.I - 1}
	path := c.leavesWithout(start, enclosingLoop(fn, sel), nil, isReset)
	r.ObPath("C20.R5.rearm", "the timeout case re-arms the timer before the next consumer", p.Position(timerClause.Pos()), path == nil, "after one slow consumer used up the timer the next sends would have no timeout: a second stalled consumer blocks the relay and, behind it, every writer", path)
}

// checkRelaySendBlocks decides C20.R7.
func checkRelaySendBlocks(r *Run, p *Prog) {
	n := 0
	for _, fn := range p.FuncsOfPkg("cesium") {
		if fn.Body == nil {
			continue
		}
		var stack []ast.Node
		ast.Inspect(fn.Body, func(x ast.Node) bool {
			if x == nil {
				stack = stack[:len(stack)-1]
				return true
			}
			if _, isLit := x.(*ast.FuncLit); isLit {
				return false
			}
			stack = append(stack, x)
			send, ok := x.(*ast.SendStmt)
			if !ok {
				return true
			}
			tv, ok := fn.Pkg.TypesInfo.Types[send.Value]
			if !ok || !namedTypeIs(tv.Type, "cesium", "relayResponse") {
				return true
			}
			n++
			shed := false
			for i := len(stack) - 1; i >= 0; i-- {
				if sel, ok := stack[i].(*ast.SelectStmt); ok {
					for _, cc := range sel.Body.List {
						if comm, ok := cc.(*ast.CommClause); ok && comm.Comm == nil {
							shed = true
						}
					}
					break
				}
			}
			r.Ob("C20.R7.blocking", "relay send in "+fn.Name, posOf(p, send), !shed, "the send sits next to a default clause: when the relay's pipe is full the frame is dropped for every streamer, also the ones that keep up")
			return true
		})
	}
	if n < 1 {
		r.Undecide("C20.R7: no send of a relayResponse found in package cesium")
	}
}

// checkRelayRendezvous decides C20.R8.
func checkRelayRendezvous(r *Run, p *Prog) {
	open := p.Func("cesium", "", "openRelay")
	ctor := p.Func("x/confluence", "", "NewDynamicDeltaMultiplier")
	if open == nil || ctor == nil {
		r.Undecide("C20.R8: cesium.openRelay / confluence.NewDynamicDeltaMultiplier not found")
		return
	}
	calls := CallsIn(open, calleeIs(ctor))
	ok := len(calls) == 1
	detail := fmt.Sprintf("%d constructor call(s)", len(calls))
	if ok {
		for _, a := range calls[0].Args[2:] {
			if v, isConst := constInt(open, a); !isConst || v != 0 {
				ok = false
				detail = "connection buffer " + types.ExprString(a)
			}
		}
		if calls[0].Ellipsis.IsValid() {
			ok, detail = false, "connection buffers passed as a slice"
		}
	}
	r.Ob("C20.R8.rendezvous", "openRelay builds the multiplier without connection buffers", p.Position(open.Pos()), ok, detail)
	// and the constructor sizes both request channels from that argument only
	sized := 0
	inspectNoLit(ctor.Body, func(n ast.Node) bool {
		call, isCall := n.(*ast.CallExpr)
		if !isCall {
			return true
		}
		if bi, isB := Callee(ctor, call).(*types.Builtin); isB && bi.Name() == "make" && len(call.Args) == 2 {
			if _, isChan := ctor.Pkg.TypesInfo.TypeOf(call.Args[0]).Underlying().(*types.Chan); isChan {
				if o := objOf(ctor, call.Args[1]); o != nil {
					if rhs, _, d := varDefinedBy(ctor, o); d {
						if c2, ok := ast.Unparen(rhs).(*ast.CallExpr); ok {
							if f := CalleeFunc(ctor, c2); f != nil && f.Name() == "parseBuffer" {
								sized++
							}
						}
					}
				}
			}
		}
		return true
	})
	r.Ob("C20.R8.rendezvous", "NewDynamicDeltaMultiplier sizes the connect and disconnect channels from its connectionBuffers argument", p.Position(ctor.Pos()), sized == 2, fmt.Sprintf("%d request channels sized by parseBuffer(connectionBuffers)", sized))
}
