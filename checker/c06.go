package main

import (
	"fmt"
	"go/ast"
	"go/token"
	"go/types"
	"sort"
	"strings"
)

func init() {
	checks["C06"] = checkC06
	checks["C13"] = checkC13
}

const kvPkg = "aspen/internal/kv"

type kvCtx struct {
	p        *Prog
	topo     *Topology
	addr     map[string]string // constant name -> value
	apply    *FuncNode
	digApply *FuncNode
	superF   *FuncNode
	commitTo *FuncNode
}

func loadKV(r *Run) *kvCtx {
	r.Extra["module"] = "aspen"
	p, err := Load("aspen")
	if err != nil {
		r.Undecide("%v", err)
		return nil
	}
	r.Stats["packages"] = len(p.Repo)
	k := &kvCtx{p: p, addr: map[string]string{}}
	open := p.Func(kvPkg, "", "Open")
	if open == nil {
		r.Undecide("kv.Open not found")
		return nil
	}
	topo, problems := p.ExtractTopology(open)
	for _, pr := range problems {
		r.Undecide("topology: %s", pr)
	}
	k.topo = topo
	for _, name := range []string{"filterPersistAddr", "versionAssignerAddr", "persistAddr", "persistDeltaAddr", "storeEmitterAddr", "storeSinkAddr", "observableAddr", "operationSenderAddr", "operationReceiverAddr", "feedbackSenderAddr", "feedbackReceiverAddr", "recoveryTransformAddr", "leaseSenderAddr", "leaseReceiverAddr", "leaseProxyAddr", "executorAddr"} {
		v, ok := pkgConstString(p, kvPkg, name)
		if !ok {
			r.Undecide("address constant %s not found", name)
			return nil
		}
		k.addr[name] = v
	}
	k.apply = p.Func(kvPkg, "Operation", "apply")
	k.digApply = p.Func(kvPkg, "Digest", "apply")
	k.superF = p.Func(kvPkg, "", "supersedes")
	k.commitTo = p.Func(kvPkg, "TxRequest", "commitTo")
	if k.apply == nil || k.digApply == nil || k.superF == nil || k.commitTo == nil {
		r.Undecide("Operation.apply / Digest.apply / supersedes / commitTo not resolved")
		return nil
	}
	r.Stats["pipeline_nodes"] = len(topo.Nodes)
	r.Stats["pipeline_routes"] = len(topo.Edges)
	if len(topo.Nodes) < 14 || len(topo.Edges) < 14 {
		r.Undecide("pipeline extraction found only %d nodes / %d routes", len(topo.Nodes), len(topo.Edges))
	}
	return k
}

func checkC06(r *Run) {
	r.Explanation = "Structural necessary conditions of convergence, decided on the aspen kv package: (R1) every Operation.apply on the engine happens either in TxRequest.commitTo (the local, version-assigned path, called only from persist) or on the true edge of supersedes(ctx, w, op) evaluated on the same transaction w and the same operation op; (R2) every value write is followed on each success path by the write of its digest through the same writer before the writer is committed; (R3) Operation.Version is assigned only by versionAssigner.assign (after the persisted counter advanced), by Digest.Operation and by the recovery server copying a digest; (R4) the pipeline routes every gossip ingress only into filterPersist, feeds versionAssigner only from the lease proxy's local route and persist only from versionAssigner, and filterPersist sends accepted ops to persist_delta and rejected ops to feedback; the lease proxy routes local iff Leaseholder == HostKey(); (R5) the recovery server skips a digest only when it is older than the requester's high-water mark."
	r.NotDecided = "Quiescence/liveness of SIR gossip, the arithmetic inside supersedes (a comparison on values), interleavings of recovery with live gossip beyond the conflict rule being applied."
	r.Trusted = []string{"go/types constant evaluation of pipeline addresses", "go/cfg"}
	k := loadKV(r)
	if k == nil {
		return
	}
	r.Rule("C06.R1.guard", "Operation.apply is called only from the frozen set of appliers; outside TxRequest.commitTo each call lies on the true edge of supersedes(ctx, w, op) with the same writer w and operation op", 4)
	r.Rule("C06.R1.complete", "after supersedes reported true for an operation, every path of that iteration applies it (no further filtering of superseding operations, tombstones included)", 2)
	r.Rule("C06.R6.lease", "leaseAllocator.getLease answers with the Leaseholder of the stored digest whenever one exists, whatever its variant: a deleted key keeps its leaseholder, so versions of one key always come from one counter", 1)
	r.Rule("C06.R7.rule", "the conflict rule itself: with a stored digest, supersedes(op) is true exactly when op's version is newer, or equal with a higher leaseholder (finite case analysis over the 9 orderings; an older operation never wins)", 1)
	r.Rule("C06.ERR", "no error returned by a call is discarded in aspen/internal/kv except the tabled sites (a swallowed engine or counter error lets an operation count as applied)", 1)
	r.Rule("C06.R2.digest", "after every Operation.apply each path to a normal continuation passes op.Digest().apply with the same writer; no digest is written without its value", 3)
	r.Rule("C06.R3.version", "Operation.Version is written only in versionAssigner.assign (from the counter value read before a successful counter.Add), Digest.Operation and recoveryServer.recoverPeer", 4)
	r.Rule("C06.R4.topology", "kv.Open wires gossip ingress -> filterPersist only, leaseProxy(local) -> versionAssigner -> persist, filterPersist(accepted) -> persist_delta, filterPersist(rejected) -> feedback_sender, and the lease proxy takes the local route iff Leaseholder == HostKey()", 9)
	r.Rule("C06.R5.recovery", "recoveryServer.recoverPeer skips a stored digest only on the true edge of dig.Version.OlderThan(req.HighWater) (or the mirrored NewerThan): everything at or above the requester's high-water mark is streamed", 1)
	checkApplyGuard(r, k, "C06.R1.guard")
	checkDigestPairing(r, k)
	checkVersionOwnership(r, k)
	checkKVTopologyC06(r, k)
	checkRecoveryServer(r, k)
	checkLeaseSticky(r, k)
	checkErrDrop(r, k.p, "C06.ERR", func(fn *FuncNode) bool { return fn.InPkgs("aspen/internal/kv") }, 100)
	checkConflictRule(r, k, "C06.R7")
}

// checkConflictRule decides C06.R7: after the stored digest was read, supersedes(op) is
// decided on the 9 orderings of (op.Version vs dig.Version, op.Leaseholder vs
// dig.Leaseholder) and compared with the rule of the property: higher version wins, equal
// versions go to the higher leaseholder. Case analysis on the syntax tree; the comparison
// methods of version.Counter are inlined from their bodies.
func checkConflictRule(r *Run, k *kvCtx, rule string) {
	p := k.p
	fn := k.superF
	if fn == nil || fn.Body == nil {
		r.Undecide(rule + ": supersedes not found")
		return
	}
	op := paramObj(fn, 2)
	var dig, derr types.Object
	tail := -1
	for i, st := range fn.Body.List {
		if as, ok := st.(*ast.AssignStmt); ok && len(as.Rhs) == 1 && len(as.Lhs) == 2 {
			if call, ok := ast.Unparen(as.Rhs[0]).(*ast.CallExpr); ok {
				if f := CalleeFunc(fn, call); f != nil && f.Name() == "getDigestFromKV" {
					dig, derr = objOf(fn, as.Lhs[0]), objOf(fn, as.Lhs[1])
					continue
				}
			}
		}
		// the decision starts after the last statement that looks at the read error (an if,
		// a switch, however the error cases are laid out)
		if dig != nil && derr != nil {
			mentions := false
			ast.Inspect(st, func(n ast.Node) bool {
				if id, ok := n.(*ast.Ident); ok && objOf(fn, id) == derr {
					mentions = true
				}
				return true
			})
			if mentions {
				tail = i + 1
			}
		}
	}
	if op == nil || dig == nil || tail < 0 {
		r.Undecide(rule + ": supersedes no longer has the shape 'read digest; if err != nil {...}; decide'")
		return
	}
	e := &ordEval{fn: fn, recv: op, par: dig, prog: p, boolErr: true}
	var diffs []string
	for _, v := range []int{-1, 0, 1} {
		for _, l := range []int{-1, 0, 1} {
			got, ret := e.stmts(fn.Body.List[tail:], ordCase{"Version": v, "Leaseholder": l})
			if e.bad != "" {
				r.Undecide(rule+": %s", e.bad)
				return
			}
			if !ret {
				r.Undecide(rule + ": a path of supersedes falls off the end")
				return
			}
			want := v > 0 || (v == 0 && l > 0)
			if got != want {
				diffs = append(diffs, fmt.Sprintf("(version %s, leaseholder %s): returns %v, want %v", sgn(v), sgn(l), got, want))
			}
		}
	}
	r.Ob(rule+".rule", "supersedes == (version newer) or (version equal and leaseholder higher), on all 9 orderings", p.Position(fn.Pos()), len(diffs) == 0, strings.Join(diffs, "; "))
}

// ---- R1

// checkLeaseSticky decides C06.R6.
func checkLeaseSticky(r *Run, k *kvCtx) {
	p := k.p
	fn := p.Func(kvPkg, "leaseAllocator", "getLease")
	if fn == nil {
		r.Undecide("C06.R6: leaseAllocator.getLease not found")
		return
	}
	c := p.CFG(fn)
	var dig types.Object
	var getCall *ast.CallExpr
	inspectNoLit(fn.Body, func(x ast.Node) bool {
		as, ok := x.(*ast.AssignStmt)
		if !ok || len(as.Rhs) != 1 || len(as.Lhs) != 2 {
			return true
		}
		if call, ok := ast.Unparen(as.Rhs[0]).(*ast.CallExpr); ok {
			if f := CalleeFunc(fn, call); f != nil && f.Name() == "getDigestFromKV" {
				dig = objOf(fn, as.Lhs[0])
				getCall = call
			}
		}
		return true
	})
	if dig == nil {
		r.Undecide("C06.R6: getLease no longer reads the digest with getDigestFromKV")
		return
	}
	errObj := errVarOfCall(fn, getCall)
	nilEdges := errNilEdges(c, errObj)
	var starts []Point
	for e := range nilEdges {
		starts = append(starts, Point{e.B.Succs[e.Succ], -1})
	}
	if len(starts) == 0 {
		r.Undecide("C06.R6: the success edge of getDigestFromKV was not found")
		return
	}
	_, vis := c.ReachAvoiding(starts, nil, nil)
	good, detail, n := true, "", 0
	for _, ex := range c.Exits() {
		if !vis[ex.P] || ex.Return == nil || len(ex.Return.Results) != 2 {
			continue
		}
		n++
		f, ok := isFieldOfObj(fn, ex.Return.Results[0], dig)
		if !ok || f != "Leaseholder" || !isNilIdent(fn, ex.Return.Results[1]) {
			good = false
			detail = "after the digest was read, " + posOf(p, ex.Return) + " returns " + types.ExprString(ex.Return.Results[0]) + ", " + types.ExprString(ex.Return.Results[1])
		}
	}
	r.Ob("C06.R6.lease", "getLease returns the stored digest's leaseholder on every path after a successful read", p.Position(fn.Pos()), good && n > 0, detail)
	// allocate consults the stored lease before it accepts any operation
	alloc := p.Func(kvPkg, "leaseAllocator", "allocate")
	if alloc == nil {
		r.Undecide("C06.R6: leaseAllocator.allocate not found")
		return
	}
	ac := p.CFG(alloc)
	q, avis := ac.ReachAvoiding([]Point{ac.Entry()}, nil, func(n ast.Node) bool { return nodeHasCall(alloc, n, calleeIs(fn)) })
	var path []string
	for _, ex := range ac.Exits() {
		if ex.Return != nil && mayReturnNilError(alloc, ex.Return) && avis[ex.P] {
			path = q.PathTo(ex.P)
		}
	}
	r.ObPath("C06.R6.lease", "allocate accepts an operation only after reading the key's stored lease", p.Position(alloc.Pos()), path == nil,
		"an operation naming its own node as leaseholder is accepted without the ErrLeaseNotTransferable test: two nodes then stamp versions of one key from different counters", path)
	// when a lease is stored, allocate accepts only an operation that names that leaseholder
	// (or none, in which case it is given the stored one)
	if gl := CallsIn(alloc, calleeIs(fn)); len(gl) == 1 {
		var lh, er types.Object
		inspectNoLit(alloc.Body, func(n ast.Node) bool {
			if as, ok := n.(*ast.AssignStmt); ok && len(as.Rhs) == 1 && ast.Unparen(as.Rhs[0]) == ast.Expr(gl[0]) && len(as.Lhs) == 2 {
				lh, er = objOf(alloc, as.Lhs[0]), objOf(alloc, as.Lhs[1])
			}
			return true
		})
		opParam := paramObj(alloc, 1)
		isOpLH := func(e ast.Expr) bool {
			f, ok := isFieldOfObj(alloc, e, opParam)
			return ok && f == "Leaseholder"
		}
		same := ac.EdgesEstablishing(func(atom ast.Expr, val bool) bool {
			be, ok := ast.Unparen(atom).(*ast.BinaryExpr)
			if !ok || (be.Op != token.EQL && be.Op != token.NEQ) {
				return false
			}
			if !((objOf(alloc, be.X) == lh && isOpLH(be.Y)) || (objOf(alloc, be.Y) == lh && isOpLH(be.X))) {
				return false
			}
			return (be.Op == token.EQL) == val
		})
		adopts := func(n ast.Node) bool {
			as, ok := n.(*ast.AssignStmt)
			return ok && len(as.Lhs) == 1 && len(as.Rhs) == 1 && isOpLH(as.Lhs[0]) && lh != nil && objOf(alloc, as.Rhs[0]) == lh
		}
		var starts []Point
		if er != nil {
			for e := range errNilEdges(ac, er) {
				starts = append(starts, Point{e.B.Succs[e.Succ], -1})
			}
		}
		var p2 []string
		if len(starts) > 0 && lh != nil {
			q2, v2 := ac.ReachAvoiding(starts, same, adopts)
			for _, ex := range ac.Exits() {
				if ex.Return != nil && v2[ex.P] && mayReturnNilError(alloc, ex.Return) {
					p2 = q2.PathTo(ex.P)
				}
			}
		}
		r.ObPath("C06.R6.lease", "with a lease stored, allocate accepts only an operation naming that leaseholder", p.Position(alloc.Pos()), len(starts) > 0 && len(same) > 0 && p2 == nil,
			"an operation naming another node is accepted for a key that already has a leaseholder: two nodes then stamp versions of one key from different counters and the replicas never agree", p2)
	}
}

func checkApplyGuard(r *Run, k *kvCtx, rule string) {
	p := k.p
	persist := p.Func(kvPkg, "persist", "persist")
	refs := p.BuildRefs()
	// commitTo is reached only from persist.persist
	users := refs.UsersOf(k.commitTo)
	okUsers := len(users) == 1 && users[0] == persist
	var names []string
	for _, u := range users {
		names = append(names, u.Name)
	}
	r.Ob(rule, "TxRequest.commitTo (unguarded apply) is used only by persist.persist", p.Position(k.commitTo.Pos()), okUsers, "users: "+strings.Join(names, ", "))
	sites := p.AllCalls(func(o types.Object, _ *ast.CallExpr) bool { return IsFunc(o, k.apply) })
	liftedArgs := map[*ast.CallExpr][2]ast.Expr{}
	n := 0
	for si := 0; si < len(sites); si++ {
		cs := sites[si]
		if !cs.Fn.InPkgs("aspen") {
			continue
		}
		n++
		fn := cs.Fn
		if fn.Top() == k.commitTo {
			r.Ob(rule, "apply in "+fn.Top().Name, p.Position(cs.Call.Pos()), true, "local path: versions assigned by this node's versionAssigner immediately upstream")
			continue
		}
		_, isLifted := liftedArgs[cs.Call]
		if len(cs.Call.Args) != 2 && !isLifted {
			r.Ob(rule, "apply in "+fn.Top().Name, p.Position(cs.Call.Pos()), false, "unexpected arity")
			continue
		}
		var wObj, opObj types.Object
		if !isLifted {
			wObj = objOf(fn, cs.Call.Args[1])
			if sel, _ := ast.Unparen(cs.Call.Fun).(*ast.SelectorExpr); sel != nil {
				opObj = objOf(fn, sel.X)
			}
		}
		// an apply inside a package-local helper that merely receives the writer and the
		// operation is judged where the helper is called
		if h := fn.Top(); h.Decl != nil && wObj != nil && opObj != nil && len(CallsIn(h, func(o types.Object, _ *ast.CallExpr) bool { return IsFunc(o, k.superF) })) == 0 {
			wi, oi := -1, -1
			for i := 0; i < 8; i++ {
				po := paramObj(h, i)
				if po == nil {
					break
				}
				if po == wObj {
					wi = i
				}
				if po == opObj {
					oi = i
				}
			}
			if wi >= 0 && oi >= 0 {
				hsites := p.AllCalls(func(o types.Object, _ *ast.CallExpr) bool { return IsFunc(o, h) })
				if len(hsites) > 0 {
					lifted := true
					for _, hs := range hsites {
						if wi >= len(hs.Call.Args) || oi >= len(hs.Call.Args) {
							lifted = false
						}
					}
					if lifted {
						for _, hs := range hsites {
							sites = append(sites, CallSite{Fn: hs.Fn, Call: hs.Call})
							liftedArgs[hs.Call] = [2]ast.Expr{hs.Call.Args[wi], hs.Call.Args[oi]}
						}
						n--
						continue
					}
				}
			}
		}
		if la, ok := liftedArgs[cs.Call]; ok {
			wObj, opObj = objOf(fn, la[0]), objOf(fn, la[1])
		}
		c := p.CFG(fn)
		gate := c.EdgesEstablishing(func(atom ast.Expr, val bool) bool {
			if !val {
				return false
			}
			// direct call or boolean bound to the first result of supersedes
			var call *ast.CallExpr
			if cc, ok := atom.(*ast.CallExpr); ok {
				call = cc
			} else if id, ok := atom.(*ast.Ident); ok {
				if o := objOf(fn, id); o != nil {
					if rhs, as, ok := varDefinedBy(fn, o); ok && as != nil && len(as.Lhs) >= 1 && objOf(fn, as.Lhs[0]) == o {
						call, _ = ast.Unparen(rhs).(*ast.CallExpr)
					}
				}
			}
			if call == nil || !IsFunc(Callee(fn, call), k.superF) || len(call.Args) != 3 {
				return false
			}
			return wObj != nil && opObj != nil && objOf(fn, call.Args[1]) == wObj && objOf(fn, call.Args[2]) == opObj
		})
		target, _ := c.Locate(cs.Call)
		q, vis := c.ReachAvoiding([]Point{c.Entry()}, gate, nil)
		var path []string
		if vis[target] {
			path = q.PathTo(target)
		}
		r.ObPath(rule, "apply in "+fn.Top().Name+" is behind supersedes on the same transaction and operation", p.Position(cs.Call.Pos()), len(gate) > 0 && !vis[target],
			"an operation applied without the conflict rule (or with the rule evaluated on a different reader) can replace a newer one", path)
		// completeness: once the rule said "supersedes", the operation is applied in this
		// iteration (a skipped tombstone or value leaves this replica without the digest
		// that rejects older duplicates later)
		if rule == "C06.R1.guard" && len(gate) > 0 {
			loop := enclosingLoop(fn, cs.Call)
			var bad []string
			for e := range gate {
				start := Point{e.B.Succs[e.Succ], -1}
				if pth := c.leavesWithout(start, loop, nil, func(n ast.Node) bool { return contains(n, cs.Call) }); pth != nil {
					bad = pth
				}
			}
			r.ObPath("C06.R1.complete", "an operation that supersedes is applied in "+fn.Top().Name, p.Position(cs.Call.Pos()), bad == nil,
				"a path leaves the iteration after supersedes == true without applying the operation", bad)
		}
	}
	if n < 3 {
		r.Undecide("%s: only %d Operation.apply call sites found (expected 3)", rule, n)
	}
}

// ---- R2

func checkDigestPairing(r *Run, k *kvCtx) {
	p := k.p
	for _, cs := range p.AllCalls(func(o types.Object, _ *ast.CallExpr) bool { return IsFunc(o, k.apply) }) {
		fn := cs.Fn
		if !fn.InPkgs("aspen") || len(cs.Call.Args) != 2 {
			continue
		}
		c := p.CFG(fn)
		wObj := objOf(fn, cs.Call.Args[1])
		sel, _ := ast.Unparen(cs.Call.Fun).(*ast.SelectorExpr)
		var opObj types.Object
		if sel != nil {
			opObj = objOf(fn, sel.X)
		}
		isDigest := func(n ast.Node) bool {
			return nodeHasCall(fn, n, func(o types.Object, call *ast.CallExpr) bool {
				if !IsFunc(o, k.digApply) || len(call.Args) != 2 || objOf(fn, call.Args[1]) != wObj {
					return false
				}
				// receiver: <op>.Digest()
				s, ok := ast.Unparen(call.Fun).(*ast.SelectorExpr)
				if !ok {
					return false
				}
				dc, ok := ast.Unparen(s.X).(*ast.CallExpr)
				if !ok {
					return false
				}
				ds, ok := ast.Unparen(dc.Fun).(*ast.SelectorExpr)
				return ok && ds.Sel.Name == "Digest" && objOf(fn, ds.X) == opObj
			})
		}
		cp, _ := c.Locate(cs.Call)
		blocked := map[edge]bool{}
		if ev := errVarOfCall(fn, cs.Call); ev != nil {
			for e := range c.EdgesEstablishing(func(atom ast.Expr, val bool) bool {
				o, trueMeansNil, ok := nilCompare(fn, atom)
				return ok && o == ev && val != trueMeansNil
			}) {
				blocked[e] = true
			}
		}
		path := c.leavesWithout(cp, enclosingLoop(fn, cs.Call), blocked, isDigest)
		r.ObPath("C06.R2.digest", "apply in "+fn.Top().Name+" is followed by its digest through the same writer", p.Position(cs.Call.Pos()), path == nil, "a value without its digest is overwritten by any older operation (and never recovered)", path)
	}
	// no digest write without the value write before it
	for _, cs := range p.AllCalls(func(o types.Object, _ *ast.CallExpr) bool { return IsFunc(o, k.digApply) }) {
		fn := cs.Fn
		if !fn.InPkgs("aspen") {
			continue
		}
		c := p.CFG(fn)
		dp, _ := c.Locate(cs.Call)
		q, vis := c.ReachAvoiding([]Point{c.Entry()}, nil, func(n ast.Node) bool { return nodeHasCall(fn, n, calleeIs(k.apply)) })
		// the digest of iteration i follows the apply of iteration i: check within the loop body
		ok := true
		var path []string
		if loop := enclosingLoop(fn, cs.Call); loop != nil {
			for _, b := range c.G.Blocks {
				if b.Stmt == loop && (b.Kind.String() == "RangeBody" || b.Kind.String() == "ForBody") {
					q2, vis2 := c.ReachAvoiding([]Point{{b, -1}}, nil, func(n ast.Node) bool { return nodeHasCall(fn, n, calleeIs(k.apply)) })
					if vis2[dp] {
						ok = false
						path = q2.PathTo(dp)
					}
				}
			}
		} else if vis[dp] {
			ok = false
			path = q.PathTo(dp)
		}
		r.ObPath("C06.R2.digest", "digest write in "+fn.Top().Name+" follows the value write", p.Position(cs.Call.Pos()), ok, "a digest without its value makes the node reject the real operation as stale", path)
	}
}

// ---- R3

func checkVersionOwnership(r *Run, k *kvCtx) {
	p := k.p
	verField := p.FieldOf(kvPkg, "Operation", "Version")
	if verField == nil {
		r.Undecide("C06.R3: Operation.Version not found")
		return
	}
	assign := p.Func(kvPkg, "versionAssigner", "assign")
	digOp := p.Func(kvPkg, "Digest", "Operation")
	recover := p.Func(kvPkg, "recoveryServer", "recoverPeer")
	allowed := map[*FuncNode]bool{assign: true, digOp: true, recover: true}
	n := 0
	for _, fn := range p.Funcs {
		if !fn.InPkgs("aspen") {
			continue
		}
		inspectNoLit(fn.Body, func(x ast.Node) bool {
			var at ast.Node
			switch s := x.(type) {
			case *ast.AssignStmt:
				for _, l := range s.Lhs {
					if sel, ok := ast.Unparen(l).(*ast.SelectorExpr); ok && fieldVar(fn, sel) == verField {
						at = s
					}
				}
			case *ast.KeyValueExpr:
				if id, ok := s.Key.(*ast.Ident); ok {
					if v, ok := fn.Pkg.TypesInfo.Uses[id].(*types.Var); ok && v.Origin() == verField {
						at = s
					}
				}
			}
			if at != nil {
				n++
				okW := allowed[fn.Top()] || fn.InPkgs("aspen/transport") // wire decoders copy the sender's version
				r.Ob("C06.R3.version", "Operation.Version written in "+fn.Top().Name, p.Position(at.Pos()), okW, "only the leaseholder's versionAssigner creates versions; digests, recovery and the wire decoders copy them")
			}
			return true
		})
	}
	if n < 3 {
		r.Undecide("C06.R3: only %d writers of Operation.Version found", n)
	}
	if assign == nil {
		return
	}
	// in assign: counter.Add succeeded before the versions are stamped, and the base is the value read before Add
	c := p.CFG(assign)
	adds := CallsIn(assign, func(o types.Object, _ *ast.CallExpr) bool {
		f, ok := o.(*types.Func)
		return ok && f.Name() == "Add" && f.Pkg() != nil && strings.HasSuffix(f.Pkg().Path(), "x/kv")
	})
	stores := c.NodesWhere(func(nd ast.Node) bool { return isStoreTo(assign, nd, verField) })
	if len(adds) != 1 || len(stores) == 0 {
		r.Ob("C06.R3.version", "versionAssigner.assign advances the persisted counter once", p.Position(assign.Pos()), false, fmt.Sprintf("counter.Add calls=%d, version stores=%d", len(adds), len(stores)))
		return
	}
	for _, s := range stores {
		// the Add error is tested with "if _, err := Add(); err != nil": bound in an if-init
		path, why := c.succeededBefore(adds[0], s)
		r.ObPath("C06.R3.version", "versions are stamped only after the persisted counter advanced", p.Position(s.B.Nodes[s.I].Pos()), path == nil, why, path)
		// the stamped value derives from the counter value read before Add
		as := s.B.Nodes[s.I].(*ast.AssignStmt)
		fromCounter := false
		ast.Inspect(as.Rhs[0], func(x ast.Node) bool {
			if id, ok := x.(*ast.Ident); ok {
				if o := assign.Pkg.TypesInfo.Uses[id]; o != nil {
					if rhs, _, ok := varDefinedBy(assign, o); ok {
						if call, ok := ast.Unparen(rhs).(*ast.CallExpr); ok {
							if f := CalleeFunc(assign, call); f != nil && f.Name() == "Value" {
								fromCounter = true
							}
						}
					}
				}
			}
			return true
		})
		r.Ob("C06.R3.version", "stamped versions derive from the persisted counter's value", p.Position(as.Pos()), fromCounter, "value: "+types.ExprString(as.Rhs[0]))
	}
	// an Add error emits nothing: on the error edge the function returns ok=false
	ev := errVarOfCall(assign, adds[0])
	okDrop := false
	if ev != nil {
		errEdges := c.EdgesEstablishing(func(atom ast.Expr, val bool) bool {
			o, trueMeansNil, ok := nilCompare(assign, atom)
			return ok && o == ev && val != trueMeansNil
		})
		okDrop = len(errEdges) > 0
		for e := range errEdges {
			_, vis := c.ReachAvoiding([]Point{{e.B, len(e.B.Nodes) - 1}}, map[edge]bool{{e.B, e.Succ ^ 1}: true}, nil)
			for _, ex := range c.Exits() {
				if vis[ex.P] && ex.Return != nil && len(ex.Return.Results) == 3 {
					if id, ok := ast.Unparen(ex.Return.Results[1]).(*ast.Ident); !ok || id.Name != "false" {
						okDrop = false
					}
				}
			}
		}
	}
	r.Ob("C06.R3.version", "a failed counter.Add emits no request", p.Position(adds[0].Pos()), okDrop, "emitting operations with versions that were not durably reserved can reuse versions after a restart")
}

// ---- R4

func checkKVTopologyC06(r *Run, k *kvCtx) {
	p, t, a := k.p, k.topo, k.addr
	pos := p.Position(t.Fn.Pos())
	r.Ob("C06.R4.topology", "gossip ingress (op_receiver, op_sender acks) routes only to filter_persist", pos,
		sameSet(t.Out(a["operationReceiverAddr"]), a["filterPersistAddr"]) && sameSet(t.Out(a["operationSenderAddr"]), a["filterPersistAddr"]),
		fmt.Sprintf("op_receiver -> %v, op_sender -> %v", t.Out(a["operationReceiverAddr"]), t.Out(a["operationSenderAddr"])))
	r.Ob("C06.R4.topology", "filter_persist is fed only by gossip ingress", pos, sameSet(t.In(a["filterPersistAddr"]), a["operationReceiverAddr"], a["operationSenderAddr"]), fmt.Sprintf("in: %v", t.In(a["filterPersistAddr"])))
	r.Ob("C06.R4.topology", "version_assigner is fed only by the lease proxy", pos, sameSet(t.In(a["versionAssignerAddr"]), a["leaseProxyAddr"]), fmt.Sprintf("in: %v", t.In(a["versionAssignerAddr"])))
	r.Ob("C06.R4.topology", "version_assigner feeds only persist, and persist is fed only by it", pos, sameSet(t.Out(a["versionAssignerAddr"]), a["persistAddr"]) && sameSet(t.In(a["persistAddr"]), a["versionAssignerAddr"]),
		fmt.Sprintf("out: %v; persist in: %v", t.Out(a["versionAssignerAddr"]), t.In(a["persistAddr"])))
	r.Ob("C06.R4.topology", "the lease proxy is fed by the local executor and the lease receiver and routes to version_assigner or lease_sender", pos,
		sameSet(t.In(a["leaseProxyAddr"]), a["executorAddr"], a["leaseReceiverAddr"]) && sameSet(t.Out(a["leaseProxyAddr"]), a["versionAssignerAddr"], a["leaseSenderAddr"]),
		fmt.Sprintf("in: %v out: %v", t.In(a["leaseProxyAddr"]), t.Out(a["leaseProxyAddr"])))
	// constructor arguments
	ctorArgs := func(addr string) []string {
		n := t.Nodes[addr]
		if n == nil {
			return nil
		}
		call, ok := ast.Unparen(n.Ctor).(*ast.CallExpr)
		if !ok {
			return nil
		}
		var out []string
		for _, arg := range call.Args {
			if s, ok := addrConst(t.Fn, arg); ok {
				out = append(out, s)
			} else {
				out = append(out, "")
			}
		}
		return out
	}
	lp := ctorArgs(a["leaseProxyAddr"])
	r.Ob("C06.R4.topology", "newLeaseProxy(cfg, local=version_assigner, remote=lease_sender)", pos, len(lp) == 3 && lp[1] == a["versionAssignerAddr"] && lp[2] == a["leaseSenderAddr"], fmt.Sprintf("args: %v", lp))
	fpa := ctorArgs(a["filterPersistAddr"])
	r.Ob("C06.R4.topology", "newFilterPersist(cfg, accepted=persist_delta, rejected=feedback_sender)", pos, len(fpa) == 3 && fpa[1] == a["persistDeltaAddr"] && fpa[2] == a["feedbackSenderAddr"], fmt.Sprintf("args: %v", fpa))
	// constructors bind their parameters to the fields in order
	checkCtorBinding(r, p, "C06.R4.topology", "newLeaseProxy", "leaseProxy", []string{"localTo", "remoteTo"})
	checkCtorBinding(r, p, "C06.R4.topology", "newFilterPersist", "filterPersist", []string{"acceptedTo", "rejectedTo"})
	// lease proxy switch: local iff Leaseholder == HostKey()
	sw := p.Func(kvPkg, "leaseProxy", "_switch")
	okSw := false
	detail := ""
	if sw != nil {
		localF := p.FieldOf(kvPkg, "leaseProxy", "localTo")
		remoteF := p.FieldOf(kvPkg, "leaseProxy", "remoteTo")
		inspectNoLit(sw.Body, func(x ast.Node) bool {
			call, ok := x.(*ast.CallExpr)
			if !ok || len(call.Args) != 3 {
				return true
			}
			if f := CalleeFunc(sw, call); f == nil || f.Name() != "Ternary" {
				return true
			}
			be, ok := ast.Unparen(call.Args[0]).(*ast.BinaryExpr)
			if !ok {
				return true
			}
			hasLH, hasHost := false, false
			ast.Inspect(be, func(y ast.Node) bool {
				if s, ok := y.(*ast.SelectorExpr); ok && s.Sel.Name == "Leaseholder" {
					hasLH = true
				}
				if c2, ok := y.(*ast.CallExpr); ok {
					if f := CalleeFunc(sw, c2); f != nil && f.Name() == "HostKey" {
						hasHost = true
					}
				}
				return true
			})
			s1, ok1 := ast.Unparen(call.Args[1]).(*ast.SelectorExpr)
			s2, ok2 := ast.Unparen(call.Args[2]).(*ast.SelectorExpr)
			if !ok1 || !ok2 {
				return true
			}
			a1, a2 := fieldVar(sw, s1), fieldVar(sw, s2)
			detail = types.ExprString(call)
			if be.Op == token.EQL {
				okSw = hasLH && hasHost && a1 == localF && a2 == remoteF
			} else if be.Op == token.NEQ {
				okSw = hasLH && hasHost && a1 == remoteF && a2 == localF
			}
			return true
		})
	}
	r.Ob("C06.R4.topology", "leaseProxy routes local iff b.Leaseholder == HostKey()", pos, okSw, detail)
}

// checkCtorBinding: constructor <ctor>(cfg, p1, p2) stores p_i into field f_i of the struct it builds.
func checkCtorBinding(r *Run, p *Prog, rule, ctor, typ string, fields []string) {
	fn := p.Func(kvPkg, "", ctor)
	if fn == nil {
		r.Undecide("%s: %s not found", rule, ctor)
		return
	}
	ok := true
	detail := ""
	for i, f := range fields {
		param := paramObj(fn, i+1)
		fv := p.FieldOf(kvPkg, typ, f)
		bound := false
		inspectNoLit(fn.Body, func(x ast.Node) bool {
			if kv, isKV := x.(*ast.KeyValueExpr); isKV {
				if id, isID := kv.Key.(*ast.Ident); isID {
					if v, isV := fn.Pkg.TypesInfo.Uses[id].(*types.Var); isV && v.Origin() == fv && objOf(fn, kv.Value) == param {
						bound = true
					}
				}
			}
			if as, isAs := x.(*ast.AssignStmt); isAs && len(as.Lhs) == 1 && len(as.Rhs) == 1 {
				if sel, isSel := ast.Unparen(as.Lhs[0]).(*ast.SelectorExpr); isSel && fieldVar(fn, sel) == fv && objOf(fn, as.Rhs[0]) == param {
					bound = true
				}
			}
			return true
		})
		if !bound {
			ok = false
			detail += fmt.Sprintf("parameter #%d is not stored into %s.%s; ", i+1, typ, f)
		}
	}
	r.Ob(rule, ctor+" binds its address parameters to "+strings.Join(fields, ", ")+" in order", p.Position(fn.Pos()), ok, detail)
}

// ---- R5

func checkRecoveryServer(r *Run, k *kvCtx) {
	p := k.p
	fn := p.Func(kvPkg, "recoveryServer", "recoverPeer")
	if fn == nil {
		r.Undecide("C06.R5: recoverPeer not found")
		return
	}
	c := p.CFG(fn)
	var loop *ast.ForStmt
	inspectNoLit(fn.Body, func(x ast.Node) bool {
		if f, ok := x.(*ast.ForStmt); ok {
			loop = f
		}
		return true
	})
	if loop == nil {
		r.Ob("C06.R5.recovery", "recoverPeer iterates the stored digests", p.Position(fn.Pos()), false, "no for loop")
		return
	}
	isSend := func(n ast.Node) bool {
		return nodeHasCall(fn, n, func(o types.Object, _ *ast.CallExpr) bool {
			f, ok := o.(*types.Func)
			return ok && f.Name() == "Send"
		})
	}
	hw := p.FieldOf(kvPkg, "RecoveryRequest", "HighWater")
	ver := p.FieldOf(kvPkg, "Digest", "Version")
	isSel := func(e ast.Expr, v *types.Var) bool {
		s, ok := ast.Unparen(e).(*ast.SelectorExpr)
		return ok && fieldVar(fn, s) == v
	}
	legit := c.EdgesEstablishing(func(atom ast.Expr, val bool) bool {
		call, ok := atom.(*ast.CallExpr)
		if !ok || !val || len(call.Args) != 1 {
			return false
		}
		s, ok := ast.Unparen(call.Fun).(*ast.SelectorExpr)
		if !ok {
			return false
		}
		f := CalleeFunc(fn, call)
		if f == nil {
			return false
		}
		switch f.Name() {
		case "OlderThan":
			return isSel(s.X, ver) && isSel(call.Args[0], hw)
		case "NewerThan":
			return isSel(s.X, hw) && isSel(call.Args[0], ver)
		}
		return false
	})
	var body *Point
	for _, b := range c.G.Blocks {
		if b.Stmt == loop && b.Kind.String() == "ForBody" {
			body = &Point{b, -1}
		}
	}
	if body == nil {
		r.Undecide("C06.R5: loop body block not found")
		return
	}
	q, vis := c.ReachAvoiding([]Point{*body}, legit, isSend)
	ok := len(legit) > 0
	var path []string
	for pt := range vis {
		if pt.B.Stmt == loop && (pt.B.Kind.String() == "ForPost" || pt.B.Kind.String() == "ForLoop") {
			ok = false
			path = q.PathTo(pt)
		}
	}
	r.ObPath("C06.R5.recovery", "a digest is skipped only when older than the requester's high-water mark", p.Position(loop.Pos()), ok, "per-leaseholder counters make equal versions from different leaseholders distinct operations: skipping 'not newer' loses them", path)
}

// ===================================================================== C13

func checkC13(r *Run) {
	r.Explanation = "Structural necessary conditions of 'observers see each applied change once, never a stale one': (R1) the observable sink is fed only from persist_delta, which is fed only by persist (local, version-assigned) and filterPersist's accepted route; no gossip ingress, feedback or recovery-transform route reaches persist_delta or the observable directly; (R2) filterPersist builds the accepted request only from operations that passed supersedes on the persisting transaction and whose value and digest writes both succeeded, publishes it only when the transaction committed without error; persist forwards a request iff commitTo returned nil, and commitTo's result carries the Commit error; (R3) every subscription to the internal tx observable goes through the filtering wrapper observable.OnChange, whose only way to skip a handler is ignoreHostLeaseholder && tx.Leaseholder == HostKey()."
	r.NotDecided = "'While it keeps up': persistSplitter drops on a full relay buffer by design; at-most-once across restarts; delivery order."
	r.Trusted = []string{"go/types constant evaluation of pipeline addresses", "go/cfg"}
	k := loadKV(r)
	if k == nil {
		return
	}
	r.Rule("C13.R1.topology", "observable <- persist_delta only; persist_delta <- {persist, filter_persist} only; gossip ingress, feedback and recovery routes never reach persist_delta or observable except through filter_persist", 4)
	r.Rule("C13.R2.dedup", "the dedup test runs inside the persisting transaction (shared with C06.R1); accepted ops are collected only after both writes succeeded and published only on a nil transaction error; persist forwards iff commitTo returned nil and commitTo returns the Commit error", 6)
	r.Rule("C13.R4.rule", "the dedup/staleness decision is the property's rule: supersedes is true exactly for a newer version, or an equal version from a higher leaseholder (9 orderings); an operation that lost to a stored newer one is never accepted, hence never published", 1)
	r.Rule("C13.R5.nowait", "in x/observe no blocking channel operation (a receive or send that is not a select alternative next to a default) runs while the observer mutex is held: Notify takes that mutex for every change, so waiting for a handler under it stalls the whole change stream until its buffers overflow and changes are dropped for every subscriber", 2)
	r.Rule("C13.R6.fanout", "in x/observe every notification loop over the registered handlers visits every handler: no iteration ends the loop (a break meant for a select, a return on a full buffer): a slow subscriber must not cost the others their notifications", 2)
	r.Rule("C13.R3.wrapper", "txObservable.OnChange is called only by observable.OnChange; the wrapper skips the handler only for ignoreHostLeaseholder && Leaseholder == HostKey()", 2)
	p, t, a := k.p, k.topo, k.addr
	pos := p.Position(t.Fn.Pos())
	r.Ob("C13.R1.topology", "observable is fed only by persist_delta", pos, sameSet(t.In(a["observableAddr"]), a["persistDeltaAddr"]), fmt.Sprintf("in: %v", t.In(a["observableAddr"])))
	r.Ob("C13.R1.topology", "persist_delta is fed only by persist and filter_persist", pos, sameSet(t.In(a["persistDeltaAddr"]), a["persistAddr"], a["filterPersistAddr"]), fmt.Sprintf("in: %v", t.In(a["persistDeltaAddr"])))
	// every path from an ingress to the observable passes filter_persist or persist
	okPaths := true
	detail := ""
	for _, src := range []string{"operationReceiverAddr", "operationSenderAddr", "feedbackReceiverAddr", "recoveryTransformAddr", "storeEmitterAddr"} {
		// remove filter_persist and persist from the graph, then the observable must be unreachable
		cut := &Topology{Nodes: t.Nodes, Fn: t.Fn}
		for _, e := range t.Edges {
			if e.To == a["filterPersistAddr"] || e.To == a["persistAddr"] {
				continue
			}
			cut.Edges = append(cut.Edges, e)
		}
		if cut.Reaches(a[src], a["observableAddr"]) || cut.Reaches(a[src], a["persistDeltaAddr"]) {
			okPaths = false
			detail += src + " reaches the observers without passing filter_persist/persist; "
		}
	}
	r.Ob("C13.R1.topology", "gossip, feedback and recovery routes reach observers only through filter_persist or persist", pos, okPaths, detail)
	r.Ob("C13.R1.topology", "filter_persist's accepted route is persist_delta", pos, func() bool {
		n := t.Nodes[a["filterPersistAddr"]]
		if n == nil {
			return false
		}
		call, ok := ast.Unparen(n.Ctor).(*ast.CallExpr)
		if !ok || len(call.Args) != 3 {
			return false
		}
		s, ok := addrConst(t.Fn, call.Args[1])
		return ok && s == a["persistDeltaAddr"]
	}(), "")

	// R2
	checkApplyGuard(r, k, "C13.R2.dedup")
	checkAcceptedCollection(r, k)
	checkPersistForward(r, k)
	// R3
	checkObservableWrapper(r, k)
	checkConflictRule(r, k, "C13.R4")
	checkObserverNoWait(r, k)
}

func checkAcceptedCollection(r *Run, k *kvCtx) {
	p := k.p
	sw := p.Func(kvPkg, "filterPersist", "_switch")
	if sw == nil {
		r.Undecide("C13.R2: filterPersist._switch not found")
		return
	}
	acceptedTo := p.FieldOf(kvPkg, "filterPersist", "acceptedTo")
	opsField := p.FieldOf(kvPkg, "TxRequest", "Operations")
	// the local TxRequest that is stored under acceptedTo
	var accepted types.Object
	var publish ast.Node
	for _, fn := range append([]*FuncNode{sw}, sw.Lits...) {
		inspectNoLit(fn.Body, func(x ast.Node) bool {
			if as, ok := x.(*ast.AssignStmt); ok && len(as.Lhs) == 1 && len(as.Rhs) == 1 {
				if ix, ok := ast.Unparen(as.Lhs[0]).(*ast.IndexExpr); ok {
					if s, ok := ast.Unparen(ix.Index).(*ast.SelectorExpr); ok && fieldVar(fn, s) == acceptedTo {
						accepted = objOf(fn, as.Rhs[0])
						publish = as
					}
				}
			}
			return true
		})
	}
	if accepted == nil {
		r.Ob("C13.R2.dedup", "filterPersist publishes an accepted request", p.Position(sw.Pos()), false, "no store under fp.acceptedTo")
		return
	}
	// appends to accepted.Operations: in _switch itself, its literals, or a package-local
	// helper that receives &accepted (the per-operation body extracted into a method)
	type site struct {
		fn  *FuncNode
		acc types.Object
	}
	sites := []site{}
	for _, fn := range append([]*FuncNode{sw}, sw.Lits...) {
		sites = append(sites, site{fn, accepted})
		inspectNoLit(fn.Body, func(x ast.Node) bool {
			call, ok := x.(*ast.CallExpr)
			if !ok {
				return true
			}
			for i, a := range call.Args {
				u, ok := ast.Unparen(a).(*ast.UnaryExpr)
				if !ok || u.Op != token.AND || objOf(fn, u.X) != accepted {
					continue
				}
				if f := CalleeFunc(fn, call); f != nil {
					if callee, ok := p.ByObj[f]; ok && callee.Body != nil {
						if po := paramObj(callee, i); po != nil {
							sites = append(sites, site{callee, po})
						}
					}
				}
			}
			return true
		})
	}
	n := 0
	for _, st := range sites {
		fn, accepted := st.fn, st.acc
		c := p.CFG(fn)
		for _, pt := range c.NodesWhere(func(nd ast.Node) bool {
			as, ok := nd.(*ast.AssignStmt)
			if !ok || len(as.Lhs) != 1 {
				return false
			}
			s, ok := ast.Unparen(as.Lhs[0]).(*ast.SelectorExpr)
			return ok && fieldVar(fn, s) == opsField && objOf(fn, s.X) == accepted
		}) {
			n++
			for _, target := range []*FuncNode{k.apply, k.digApply} {
				calls := CallsIn(fn, calleeIs(target))
				if len(calls) == 0 {
					// both writes wrapped in a package-local helper that succeeds only after them
					calls = wrapperCallsOf(p, fn, target, 1)
				}
				if len(calls) != 1 {
					r.Undecide("C13.R2: %d calls of %s next to the accepted-collection in %s: idiom not recognised", len(calls), target.Name, fn.Name)
					continue
				}
				path, why := c.succeededBefore(calls[0], pt)
				ok := path == nil
				r.ObPath("C13.R2.dedup", "an operation is marked accepted only after "+target.Name+" succeeded", p.Position(pt.B.Nodes[pt.I].Pos()), ok, why, path)
			}
		}
	}
	if n == 0 {
		r.Ob("C13.R2.dedup", "accepted operations are collected", p.Position(sw.Pos()), false, "nothing is appended to the accepted request")
	}
	// publish only when the transaction error is nil
	c := p.CFG(sw)
	var txCall *ast.CallExpr
	inspectNoLit(sw.Body, func(x ast.Node) bool {
		if call, ok := x.(*ast.CallExpr); ok {
			if f := CalleeFunc(sw, call); f != nil && f.Name() == "WithTx" {
				txCall = call
			}
		}
		return true
	})
	if txCall == nil || publish == nil {
		r.Ob("C13.R2.dedup", "accepted request is published only after the transaction committed", p.Position(sw.Pos()), false, "no WithTx call")
		return
	}
	pp, _ := c.Locate(publish)
	path, why := c.succeededBefore(txCall, pp)
	r.ObPath("C13.R2.dedup", "accepted request is published only after the transaction committed", p.Position(publish.Pos()), path == nil, why, path)
}

func checkPersistForward(r *Run, k *kvCtx) {
	p := k.p
	ps := p.Func(kvPkg, "persist", "persist")
	if ps == nil {
		r.Undecide("C13.R2: persist.persist not found")
		return
	}
	calls := CallsIn(ps, calleeIs(k.commitTo))
	ok := false
	detail := ""
	if len(calls) == 1 {
		// truth table (E17) over "commitTo failed": the forward flag is its negation
		ev := errVarOfCall(ps, calls[0])
		classify := func(e2 *ttEval, st *ttState, f *FuncNode, e ast.Expr) (string, bool, bool) {
			if f != ps {
				return "", false, false
			}
			if o, trueMeansNil, isCmp := nilCompare(f, e); isCmp && o == ev && ev != nil {
				return "failed", trueMeansNil, true
			}
			return "", false, false
		}
		outcome := func(f *FuncNode, ret *ast.ReturnStmt, results []ttVal) string {
			if len(results) != 3 {
				return "other"
			}
			switch results[1] {
			case ttT:
				return "forward"
			case ttF:
				return "drop"
			}
			return "unknown"
		}
		table, bad := ttTable(p, ps, []string{"failed"}, classify, outcome, false, func(f *types.Func) bool { return f == k.commitTo.Obj })
		if bad == "" {
			ok = table[0]["forward"] && !table[0]["drop"] && !table[0]["unknown"] && table[1]["drop"] && !table[1]["forward"] && !table[1]["unknown"]
			detail = fmt.Sprintf("commitTo succeeded -> %v; failed -> %v", keysOf(table[0]), keysOf(table[1]))
		} else {
			detail = bad
		}
	}
	r.Ob("C13.R2.dedup", "persist forwards a request iff commitTo returned nil", p.Position(ps.Pos()), ok, "forward flag: "+detail)
	// commitTo: named error result receives the Commit error in the deferred closure
	fn := k.commitTo
	var named types.Object
	if fn.Type.Results != nil {
		for _, f := range fn.Type.Results.List {
			for _, nm := range f.Names {
				if o := fn.Pkg.TypesInfo.Defs[nm]; o != nil && isErrorType(o.Type()) {
					named = o
				}
			}
		}
	}
	okCommit := false
	why := "commitTo has no named error result: an error raised in the deferred commit cannot reach the caller"
	if named != nil {
		why = "the deferred closure does not assign Commit's error to the named result"
		for _, l := range fn.Lits {
			inspectNoLit(l.Body, func(x ast.Node) bool {
				call, ok := x.(*ast.CallExpr)
				if !ok {
					return true
				}
				f := CalleeFunc(l, call)
				if f == nil || f.Name() != "Commit" {
					return true
				}
				// err = b.Commit() directly, or _err := b.Commit(); ...; err = _err
				ev := errVarOfCall(l, call)
				if ev == named {
					okCommit = true
				}
				if ev != nil {
					inspectNoLit(l.Body, func(y ast.Node) bool {
						if as, ok := y.(*ast.AssignStmt); ok && len(as.Lhs) == 1 && len(as.Rhs) == 1 && l.Pkg.TypesInfo.Uses[identOf(as.Lhs[0])] == named && objOf(l, as.Rhs[0]) == ev {
							okCommit = true
						}
						return true
					})
				}
				return true
			})
		}
		// the function's plain returns must return the named result; a literal nil is the same
		// value only where the named result is certainly nil (every assignment since was
		// followed by its nil edge)
		fc := p.CFG(fn)
		badRet := fc.boolStateSearch([]Point{fc.Entry()}, false,
			func(n ast.Node, maybe bool) (bool, bool) {
				if as, ok := n.(*ast.AssignStmt); ok {
					for i, l := range as.Lhs {
						if objOf(fn, l) == named {
							if len(as.Lhs) == len(as.Rhs) && isNilIdent(fn, as.Rhs[i]) {
								return false, false
							}
							return true, false
						}
					}
				}
				return maybe, false
			},
			func(cond ast.Expr, val bool, maybe bool) bool {
				for _, f := range condFacts(fn, cond, val, 0) {
					if o, trueMeansNil, ok := nilCompare(fn, f.Atom); ok && o == named {
						return f.Val != trueMeansNil
					}
				}
				return maybe
			},
			func(n ast.Node, maybe bool) bool {
				ret, ok := n.(*ast.ReturnStmt)
				if !ok || len(ret.Results) != 1 || objOf(fn, ret.Results[0]) == named {
					return false
				}
				if isNilIdent(fn, ret.Results[0]) && !maybe {
					return false
				}
				return true
			})
		if badRet != nil {
			okCommit = false
			why = "commitTo returns something other than its named result at " + badRet[len(badRet)-1]
		}
	}
	r.Ob("C13.R2.dedup", "TxRequest.commitTo returns the error of the deferred Commit", p.Position(fn.Pos()), okCommit, why)
}

func checkObservableWrapper(r *Run, k *kvCtx) {
	p := k.p
	txObs := p.FieldOf(kvPkg, "DB", "txObservable")
	wrapper := p.Func(kvPkg, "observable", "OnChange")
	if txObs == nil || wrapper == nil {
		r.Undecide("C13.R3: DB.txObservable / observable.OnChange not found")
		return
	}
	okOnly, n := true, 0
	where := ""
	for _, fn := range p.Funcs {
		if !fn.InPkgs("aspen") {
			continue
		}
		inspectNoLit(fn.Body, func(x ast.Node) bool {
			call, ok := x.(*ast.CallExpr)
			if !ok {
				return true
			}
			s, ok := ast.Unparen(call.Fun).(*ast.SelectorExpr)
			if !ok || s.Sel.Name != "OnChange" {
				return true
			}
			inner, ok := ast.Unparen(s.X).(*ast.SelectorExpr)
			if !ok || fieldVar(fn, inner) != txObs {
				return true
			}
			n++
			if fn.Top() != wrapper {
				okOnly = false
				where = fn.Top().Name
			}
			return true
		})
	}
	r.Ob("C13.R3.wrapper", "only observable.OnChange subscribes to the internal tx observable", p.Position(wrapper.Pos()), okOnly && n == 1, fmt.Sprintf("%d subscription site(s) %s", n, where))
	// inside the handler literal: the only skip is ignoreHostLeaseholder && Leaseholder == HostKey()
	if len(wrapper.Lits) != 1 {
		r.Undecide("C13.R3: observable.OnChange has %d literals", len(wrapper.Lits))
		return
	}
	l := wrapper.Lits[0]
	handler := paramObj(wrapper, 0)
	ignoreF := p.FieldOf(kvPkg, "observableOptions", "ignoreHostLeaseholder")
	// truth table over the two atoms "the subscriber asked to ignore host-led requests"
	// and "the request's leaseholder is the host": the handler is skipped exactly when
	// both hold, however the decision is written down (E17).
	classify := func(ev *ttEval, st *ttState, f *FuncNode, e ast.Expr) (string, bool, bool) {
		f1, e1 := ev.resolve(st, f, e)
		if sel, ok := ast.Unparen(e1).(*ast.SelectorExpr); ok && ignoreF != nil && fieldVar(f1, sel) == ignoreF {
			return "ignore", false, true
		}
		be, ok := ast.Unparen(e).(*ast.BinaryExpr)
		if !ok || (be.Op != token.EQL && be.Op != token.NEQ) {
			return "", false, false
		}
		isLH := func(x ast.Expr) bool {
			_, x2 := ev.resolve(st, f, x)
			sel, ok := ast.Unparen(x2).(*ast.SelectorExpr)
			return ok && sel.Sel.Name == "Leaseholder"
		}
		isHost := func(x ast.Expr) bool {
			f2, x2 := ev.resolve(st, f, x)
			c2, ok := ast.Unparen(x2).(*ast.CallExpr)
			if !ok {
				return false
			}
			g := CalleeFunc(f2, c2)
			return g != nil && g.Name() == "HostKey"
		}
		if (isLH(be.X) && isHost(be.Y)) || (isLH(be.Y) && isHost(be.X)) {
			return "hostled", be.Op == token.NEQ, true
		}
		return "", false, false
	}
	outcome := func(*FuncNode, *ast.ReturnStmt, []ttVal) string { return "end" }
	event := func(f *FuncNode, s ast.Stmt) string {
		es, ok := s.(*ast.ExprStmt)
		if !ok {
			return ""
		}
		if call, ok := ast.Unparen(es.X).(*ast.CallExpr); ok {
			if id, ok := ast.Unparen(call.Fun).(*ast.Ident); ok && objOf(f, id) == handler {
				return "handler"
			}
		}
		return ""
	}
	table, bad := ttTableEv(p, l, []string{"ignore", "hostled"}, classify, outcome, false, event)
	if bad != "" {
		r.Undecide("C13.R3: the handler literal of observable.OnChange could not be evaluated: %s", bad)
		return
	}
	ok := true
	why := ""
	for mask, outs := range table {
		for o := range outs {
			called := strings.Contains(o, "+handler")
			if called == (mask == 3) {
				ok = false
				why = fmt.Sprintf("ignoreHostLeaseholder=%v hostLed=%v: handler called=%v", mask&1 != 0, mask&2 != 0, called)
			}
		}
	}
	r.Ob("C13.R3.wrapper", "the wrapper hides exactly the host-led requests when asked to", p.Position(l.Pos()), ok,
		"any other skip hides changes from subscribers; a missing skip shows host-led changes to IgnoreHostLeaseholder subscribers ("+why+")")
}

// checkObserverNoWait decides C13.R5.
func checkObserverNoWait(r *Run, k *kvCtx) {
	p := k.p
	const opkg = "x/observe"
	if p.Pkg(opkg) == nil {
		r.Undecide("C13.R5: package x/observe not loaded")
		return
	}
	la := NewLockAnalysis(p, func(fn *FuncNode) bool { return fn.InPkgs(opkg) })
	la.Run()
	for _, u := range la.Unknown {
		r.Undecide("C13.R5 lockset: %s", u)
	}
	n := 0
	for _, fn := range p.FuncsOfPkg(opkg) {
		if fn.Body == nil {
			continue
		}
		c := p.CFG(fn)
		// select statements with a default clause never block
		nonBlocking := map[ast.Node]bool{}
		inspectNoLit(fn.Body, func(x ast.Node) bool {
			sel, ok := x.(*ast.SelectStmt)
			if !ok {
				return true
			}
			hasDefault := false
			for _, cc := range sel.Body.List {
				if comm, ok := cc.(*ast.CommClause); ok && comm.Comm == nil {
					hasDefault = true
				}
			}
			if hasDefault {
				for _, cc := range sel.Body.List {
					if comm, ok := cc.(*ast.CommClause); ok && comm.Comm != nil {
						nonBlocking[comm.Comm] = true
					}
				}
			}
			return true
		})
		for _, b := range c.G.Blocks {
			if !b.Live {
				continue
			}
			for _, node := range b.Nodes {
				blocking := false
				switch v := node.(type) {
				case *ast.SendStmt:
					blocking = true
				case *ast.ExprStmt:
					if u, ok := ast.Unparen(v.X).(*ast.UnaryExpr); ok && u.Op == token.ARROW {
						blocking = true
					}
				case *ast.AssignStmt:
					if len(v.Rhs) == 1 {
						if u, ok := ast.Unparen(v.Rhs[0]).(*ast.UnaryExpr); ok && u.Op == token.ARROW {
							blocking = true
						}
					}
				}
				if !blocking || nonBlocking[node] {
					continue
				}
				n++
				heldMu := ""
				for _, h := range la.NodeStates[node] {
					if strings.HasSuffix(h.Class, ".mu") || strings.Contains(h.Class, "observe.") {
						heldMu = h.Class
					}
				}
				r.Ob("C13.R5.nowait", "blocking channel operation in "+fn.Name+": "+describe(node), posOf(p, node), heldMu == "", "runs with "+heldMu+" held")
			}
		}
	}
	if n < 2 {
		r.Undecide("C13.R5: only %d blocking channel operations found in x/observe (expected >= 2)", n)
	}
	// R6: fan-out loops visit every handler
	nLoops := 0
	for _, fn := range p.FuncsOfPkg(opkg) {
		if fn.Body == nil || fn.Decl == nil || !strings.HasPrefix(fn.Decl.Name.Name, "Notify") {
			continue
		}
		inspectNoLit(fn.Body, func(x ast.Node) bool {
			rng, ok := x.(*ast.RangeStmt)
			if !ok {
				return true
			}
			sel, ok := ast.Unparen(rng.X).(*ast.SelectorExpr)
			if !ok || sel.Sel.Name != "handlers" {
				return true
			}
			nLoops++
			path := p.CFG(fn).loopEarlyExit(rng)
			r.ObPath("C13.R6.fanout", fn.Name+" visits every registered handler", posOf(p, rng), path == nil, "an iteration can end the loop: the handlers after it (map order: any of them) never see this change", path)
			return true
		})
	}
	if nLoops < 2 {
		r.Undecide("C13.R6: only %d handler loops found in x/observe Notify* (expected >= 2)", nLoops)
	}
}

func keysOf(m map[string]bool) []string {
	var out []string
	for k := range m {
		out = append(out, k)
	}
	sort.Strings(out)
	return out
}
