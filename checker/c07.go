package main

import (
	"fmt"
	"go/ast"
	"go/token"
	"go/types"
	"strings"
)

func init() { checks["C07"] = checkC07 }

const (
	dwPkg = "synnax/pkg/distribution/framer/writer"
	diPkg = "synnax/pkg/distribution/framer/iterator"
)

func checkC07(r *Run) {
	r.Explanation = "Structural necessary conditions of 'a cluster is one data space': (R1) the distribution writer and iterator validate that every requested channel exists before any pipeline stage or peer stream is opened; the writer accepts only when as many channels were found as keys were given, the iterator's Exists gate runs on a bare MatchKeys(keys) query (the only form for which gorp's Exists means 'every key exists'); (R2) acknowledgements come only from the synchronizer: every receiver address is routed only to it, it is sized by the number of unique leaseholders, and it emits the response merged over all leaseholders, not the last one to arrive; (R3) the per-peer sender forgets a target once it has sent it its request, like confluence.BatchSwitch does, so a peer never receives an earlier frame again; (R4) every loop over a frame's raw keys/series consults the frame's mask (ShouldExcludeRaw), so filtered-out series are not routed, validated or stored."
	r.NotDecided = "Equality with a single-node store for every placement x gateway x script (behavioural); index resolution across nodes; ordering of responses between leaseholders."
	r.Trusted = []string{"go/types, go/cfg", "gorp.Retrieve.Exists semantics as documented on the method"}
	r.Extra["module"] = "core"
	p, err := Load("core", "./pkg/distribution/framer/...", "github.com/synnaxlabs/cesium/...", "github.com/synnaxlabs/freighter/freightfluence/...")
	if err != nil {
		r.Undecide("%v", err)
		return
	}
	r.Stats["packages"] = len(p.Repo)
	r.Rule("C07.R1.exist", "NewStream validates channel existence (successfully) before it opens peers or builds stages; the validators accept only complete matches", 5)
	r.Rule("C07.R2.sync", "all receivers route only into the synchronizer, which counts unique leaseholders and emits the merged response", 8)
	r.Rule("C07.R3.sender", "BatchSwitchSender.send and confluence.BatchSwitch both remove a target's entry after sending to it", 2)
	r.Rule("C07.R5.broadcast", "the writer's peer switch addresses every peer for every command when acknowledgements are synchronous (the synchronizer counts one response per leaseholder)", 1)
	r.Rule("C07.ERR", "no error returned by a call is discarded in the distribution framer except the tabled sites (a swallowed peer or gateway error is a write or read that silently did not happen on one node)", 1)
	r.Rule("C07.R6.ack", "freeWriter.transform returns a response on every path except after an error or when acknowledgements are not synchronous (it is one of the responders the synchronizer counts)", 1)
	r.Rule("C07.R4.mask", "every range over Frame.RawKeys()/RawSeries() calls ShouldExcludeRaw on the loop index", 8)

	checkExistenceGates(r, p)
	checkSynchronizers(r, p)
	checkSenderForgets(r, p)
	checkMaskDiscipline(r, p)
	checkPeerBroadcast(r, p)
	checkFreeWriterAck(r, p)
	r.Rule("C07.R7.copy", "in the distribution framer a request or response rebuilt field by field from a value of its own type lists every field of the type: a hop that forwards 'only the fields it needs' silently zeroes the rest (bounds, keys, sequence numbers) for the nodes behind it, and the answer then depends on where the channels live", 1)
	checkPartialCopy(r, p, "C07.R7.copy", func(fn *FuncNode) bool {
		return fn.InPkgs("synnax/pkg/distribution/framer") && !fn.InPkgs("synnax/pkg/distribution/framer/pb")
	})
	checkErrDrop(r, p, "C07.ERR", func(fn *FuncNode) bool {
		return fn.InPkgs("synnax/pkg/distribution/framer") && !fn.InPkgs("synnax/pkg/distribution/framer/codec", "synnax/pkg/distribution/framer/pb")
	}, 150)
}

// checkFreeWriterAck decides C07.R6: the free (virtual-channel) writer is one of the
// responders the synchronizer counts. With synchronous acknowledgements it must answer
// every request; the only paths that return no response are an error and "not sync".
func checkFreeWriterAck(r *Run, p *Prog) {
	fn := p.Func(dwPkg, "freeWriter", "transform")
	if fn == nil {
		r.Undecide("C07.R6: writer.freeWriter.transform not found")
		return
	}
	c := p.CFG(fn)
	okAtom := func(atom ast.Expr) bool {
		atom = ast.Unparen(atom)
		if o, trueMeansNil, ok := nilCompare(fn, atom); ok && isErrorType(o.Type()) && !trueMeansNil {
			return true // err != nil
		}
		if u, ok := atom.(*ast.UnaryExpr); ok && u.Op == token.NOT {
			if sel, ok := ast.Unparen(u.X).(*ast.SelectorExpr); ok && sel.Sel.Name == "sync" {
				return true // !w.sync
			}
		}
		return false
	}
	blocked := c.TrueEdgesOfDisjunctionOf(okAtom)
	q, vis := c.ReachAvoiding([]Point{c.Entry()}, blocked, nil)
	var path []string
	nResp := 0
	for _, ex := range c.Exits() {
		silent := false
		switch {
		case ex.Return == nil, len(ex.Return.Results) == 0:
			silent = true // named results: no response was built
		case len(ex.Return.Results) == 3:
			if id, ok := ast.Unparen(ex.Return.Results[1]).(*ast.Ident); ok && id.Name == "false" {
				silent = true
			} else {
				nResp++
			}
		}
		if silent && vis[ex.P] {
			path = q.PathTo(ex.P)
		}
	}
	r.ObPath("C07.R6.ack", "the free writer answers every request unless it failed or acknowledgements are off", p.Position(fn.Pos()), path == nil && nResp > 0 && len(blocked) > 0,
		"a path returns no response with synchronous acknowledgements on: the synchronizer waits for this responder and the caller's Write never returns", path)
}

// checkPeerBroadcast decides C07.R5: the synchronizer waits for one acknowledgement per
// leaseholder; in sync mode every request - a Write with a partial frame included - must
// therefore be addressed to every peer of the writer.
func checkPeerBroadcast(r *Run, p *Prog) {
	const wpkg = "synnax/pkg/distribution/framer/writer"
	fn := p.Func(wpkg, "peerSwitchSender", "_switch")
	if fn == nil {
		r.Undecide("C07.R5: writer.peerSwitchSender._switch not found")
		return
	}
	out := paramObj(fn, 2)
	c := p.CFG(fn)
	goals := map[ast.Expr]bool{}
	inspectNoLit(fn.Body, func(x ast.Node) bool {
		rng, ok := x.(*ast.RangeStmt)
		if !ok {
			return true
		}
		sel, ok := ast.Unparen(rng.X).(*ast.SelectorExpr)
		if !ok || sel.Sel.Name != "addresses" {
			return true
		}
		stores := false
		inspectNoLit(rng.Body, func(y ast.Node) bool {
			if as, ok := y.(*ast.AssignStmt); ok {
				for _, l := range as.Lhs {
					if ix, ok := ast.Unparen(l).(*ast.IndexExpr); ok && objOf(fn, ix.X) == out {
						stores = true
					}
				}
			}
			return true
		})
		early := false
		inspectNoLit(rng.Body, func(y ast.Node) bool {
			switch v := y.(type) {
			case *ast.BranchStmt:
				if v.Tok == token.BREAK || v.Tok == token.GOTO {
					early = true
				}
			case *ast.ReturnStmt:
				early = true
			}
			return true
		})
		if stores && !early {
			goals[rng.X] = true
		}
		return true
	})
	notSync := c.EdgesEstablishing(func(atom ast.Expr, val bool) bool {
		sel, ok := ast.Unparen(atom).(*ast.SelectorExpr)
		return ok && sel.Sel.Name == "sync" && !val
	})
	isGoal := func(n ast.Node) bool {
		e, ok := n.(ast.Expr)
		return ok && goals[e]
	}
	q, vis := c.ReachAvoiding([]Point{c.Entry()}, notSync, isGoal)
	var path []string
	for _, ex := range c.Exits() {
		if vis[ex.P] {
			path = q.PathTo(ex.P)
		}
	}
	r.ObPath("C07.R5.broadcast", "every request of a synchronous writer is addressed to every peer", p.Position(fn.Pos()), path == nil && len(goals) > 0,
		"a path through _switch (with sync acknowledgements on) returns without ranging over all peer addresses: the synchronizer waits for a leaseholder that was never asked and Write blocks", path)
}

func checkExistenceGates(r *Run, p *Prog) {
	for _, pk := range []string{dwPkg, diPkg} {
		ns := p.Func(pk, "Service", "NewStream")
		val := p.Func(pk, "Service", "validateChannelKeys")
		if ns == nil || val == nil {
			r.Undecide("C07.R1: %s NewStream / validateChannelKeys not found", pk)
			continue
		}
		c := p.CFG(ns)
		vcalls := CallsIn(ns, calleeIs(val))
		if len(vcalls) != 1 {
			r.Ob("C07.R1.exist", pk+": NewStream validates the channel keys", p.Position(ns.Pos()), false, fmt.Sprintf("%d calls to validateChannelKeys", len(vcalls)))
			continue
		}
		// stage construction / peer opening / gateway opening
		stages := c.NodesWhere(func(n ast.Node) bool {
			return nodeHasCall(ns, n, func(o types.Object, call *ast.CallExpr) bool {
				if isPlumberFunc(o, "SetSource", "SetSegment", "SetSink") {
					return true
				}
				f, ok := o.(*types.Func)
				return ok && (f.Name() == "openManyPeers" || f.Name() == "newGateway" || f.Name() == "newFree")
			})
		})
		ok := len(stages) >= 3
		var path []string
		why := fmt.Sprintf("%d stage-construction sites", len(stages))
		for _, s := range stages {
			if pth, w := c.succeededBefore(vcalls[0], s); pth != nil {
				ok, path, why = false, pth, w
			}
		}
		r.ObPath("C07.R1.exist", pk+": NewStream builds nothing before validateChannelKeys succeeded", p.Position(vcalls[0].Pos()), ok, why, path)
		// the keys validated are the configured keys
		argOK := false
		if len(vcalls[0].Args) == 2 {
			if s, isSel := ast.Unparen(vcalls[0].Args[1]).(*ast.SelectorExpr); isSel && s.Sel.Name == "Keys" {
				argOK = true
			}
		}
		r.Ob("C07.R1.exist", pk+": the validated keys are the configured keys", p.Position(vcalls[0].Pos()), argOK, "")
	}
	// writer validator: success only when len(channels) == len(keys)
	if val := p.Func(dwPkg, "Service", "validateChannelKeys"); val != nil {
		c := p.CFG(val)
		keys := paramObj(val, 1)
		gate := c.EdgesEstablishing(func(atom ast.Expr, v bool) bool {
			be, ok := ast.Unparen(atom).(*ast.BinaryExpr)
			if !ok || (be.Op != token.NEQ && be.Op != token.EQL) {
				return false
			}
			lenOf := func(e ast.Expr) types.Object {
				call, ok := ast.Unparen(e).(*ast.CallExpr)
				if !ok || len(call.Args) != 1 {
					return nil
				}
				if bi, ok := Callee(val, call).(*types.Builtin); !ok || bi.Name() != "len" {
					return nil
				}
				return objOf(val, call.Args[0])
			}
			a, b := lenOf(be.X), lenOf(be.Y)
			if a == nil || b == nil || (a != keys && b != keys) {
				return false
			}
			return (be.Op == token.NEQ && !v) || (be.Op == token.EQL && v)
		})
		q, vis := c.ReachAvoiding([]Point{c.Entry()}, gate, nil)
		ok := len(gate) > 0
		var path []string
		for _, ex := range c.Exits() {
			if ex.Return != nil && mayReturnNilError(val, ex.Return) && vis[ex.P] {
				ok = false
				path = q.PathTo(ex.P)
			}
		}
		r.ObPath("C07.R1.exist", "writer validateChannelKeys succeeds only when every key was found", p.Position(val.Pos()), ok, "opening a writer on a channel that does not exist must fail", path)
	}
	// iterator validator: exists := <bare MatchKeys(keys) query>.Exists(...), nil return only behind exists
	if val := p.Func(diPkg, "Service", "validateChannelKeys"); val != nil {
		c := p.CFG(val)
		keys := paramObj(val, 1)
		var existsCall *ast.CallExpr
		inspectNoLit(val.Body, func(n ast.Node) bool {
			if call, ok := n.(*ast.CallExpr); ok {
				if f := CalleeFunc(val, call); f != nil && f.Name() == "Exists" {
					existsCall = call
				}
			}
			return true
		})
		if existsCall == nil {
			r.Ob("C07.R1.exist", "iterator validateChannelKeys checks existence", p.Position(val.Pos()), false, "no Exists call")
			return
		}
		// the query chain
		var chain ast.Expr
		if s, ok := ast.Unparen(existsCall.Fun).(*ast.SelectorExpr); ok {
			chain = s.X
			if o := objOf(val, s.X); o != nil {
				if rhs, _, d := varDefinedBy(val, o); d {
					chain = rhs
				}
			}
		}
		nWhere, bare := 0, false
		ast.Inspect(chain, func(n ast.Node) bool {
			call, ok := n.(*ast.CallExpr)
			if !ok {
				return true
			}
			f := CalleeFunc(val, call)
			if f == nil {
				return true
			}
			switch f.Name() {
			case "Where", "WherePrefix", "WhereRaw", "Limit", "Offset":
				nWhere++
				if f.Name() == "Where" && len(call.Args) == 1 {
					if mk, ok := ast.Unparen(call.Args[0]).(*ast.CallExpr); ok {
						if g := CalleeFunc(val, mk); g != nil && g.Name() == "MatchKeys" && len(mk.Args) == 1 && objOf(val, mk.Args[0]) == keys {
							bare = true
						}
					}
				}
			}
			return true
		})
		r.Ob("C07.R1.exist", "iterator existence gate is a bare MatchKeys(keys) query", p.Position(existsCall.Pos()), bare && nWhere == 1, fmt.Sprintf("%d filter clause(s) on the query: with any additional filter gorp's Exists means 'at least one match', so an unknown key passes when another key exists", nWhere))
		var ex types.Object
		inspectNoLit(val.Body, func(n ast.Node) bool {
			if as, ok := n.(*ast.AssignStmt); ok && len(as.Rhs) == 1 && ast.Unparen(as.Rhs[0]) == existsCall && len(as.Lhs) == 2 {
				ex = objOf(val, as.Lhs[0])
			}
			return true
		})
		gate := c.EdgesEstablishing(func(atom ast.Expr, v bool) bool { return v && ex != nil && objOf(val, atom) == ex })
		q, vis := c.ReachAvoiding([]Point{c.Entry()}, gate, nil)
		ok := len(gate) > 0
		var path []string
		for _, e := range c.Exits() {
			if e.Return != nil && mayReturnNilError(val, e.Return) && vis[e.P] {
				ok = false
				path = q.PathTo(e.P)
			}
		}
		r.ObPath("C07.R1.exist", "iterator validateChannelKeys succeeds only when the keys exist", p.Position(val.Pos()), ok, "", path)
	}
}

// denotesField reports whether e denotes the struct field fld of the receiver: the
// selector itself, or a local pointer taken from it once (m := &s.f; m.x, *m).
func denotesField(fn *FuncNode, e ast.Expr, fld *types.Var) bool {
	if fld == nil {
		return false
	}
	e = ast.Unparen(e)
	if st, ok := e.(*ast.StarExpr); ok {
		e = ast.Unparen(st.X)
	}
	if sel, ok := e.(*ast.SelectorExpr); ok {
		return fieldVar(fn, sel) == fld
	}
	if o := objOf(fn, e); o != nil {
		if rhs, _, ok := varDefinedBy(fn, o); ok {
			if u, ok := ast.Unparen(rhs).(*ast.UnaryExpr); ok && u.Op == token.AND {
				if sel, ok := ast.Unparen(u.X).(*ast.SelectorExpr); ok {
					return fieldVar(fn, sel) == fld
				}
			}
		}
	}
	return false
}

func checkSynchronizers(r *Run, p *Prog) {
	for _, pk := range []string{dwPkg, diPkg} {
		syncF := p.Func(pk, "synchronizer", "sync")
		newS := p.Func(pk, "", "newSynchronizer")
		ns := p.Func(pk, "Service", "NewStream")
		if syncF == nil || newS == nil || ns == nil {
			r.Undecide("C07.R2: %s synchronizer not found", pk)
			continue
		}
		// (a) the fulfilled return emits the merged field
		cycle := p.FieldOf(pk, "synchronizer", "cycle.res")
		param := paramObj(syncF, 1)
		okMerged, nRet := true, 0
		detail := ""
		inspectNoLit(syncF.Body, func(n ast.Node) bool {
			ret, ok := n.(*ast.ReturnStmt)
			if !ok || len(ret.Results) != 3 {
				return true
			}
			// returns that can report "fulfilled"
			if id, isID := ast.Unparen(ret.Results[1]).(*ast.Ident); isID && id.Name == "false" {
				return true
			}
			// data responses of the iterator pass through untouched
			if id, isID := ast.Unparen(ret.Results[1]).(*ast.Ident); isID && id.Name == "true" && objOf(syncF, ret.Results[0]) == param && pk == diPkg {
				return true
			}
			nRet++
			if !denotesField(syncF, ret.Results[0], cycle) {
				okMerged = false
				detail = "returns " + types.ExprString(ret.Results[0])
			}
			return true
		})
		r.Ob("C07.R2.sync", pk+": the synchronizer emits the response merged over all leaseholders", p.Position(syncF.Pos()), okMerged && nRet > 0 && cycle != nil, detail+" (returning the last response to arrive swallows a refusal or error of an earlier node)")
		// (b) a refusal clears the merged flag
		okClear := false
		inspectNoLit(syncF.Body, func(n ast.Node) bool {
			if as, ok := n.(*ast.AssignStmt); ok && len(as.Lhs) == 1 && len(as.Rhs) == 1 {
				if s, isSel := ast.Unparen(as.Lhs[0]).(*ast.SelectorExpr); isSel && (s.Sel.Name == "Authorized" || s.Sel.Name == "Ack") {
					if denotesField(syncF, s.X, cycle) {
						if id, ok := ast.Unparen(as.Rhs[0]).(*ast.Ident); ok && id.Name == "false" {
							okClear = true
						}
					}
				}
			}
			return true
		})
		if pk == dwPkg {
			r.Ob("C07.R2.sync", pk+": a refusal from any leaseholder clears the merged acknowledgement", p.Position(syncF.Pos()), okClear, "")
			// the commit end is merged in the direction the engine merges it across channels
			dist := accumulateDirection(syncF, func(e ast.Expr) bool {
				sel, ok := ast.Unparen(e).(*ast.SelectorExpr)
				if !ok || sel.Sel.Name != "End" {
					return false
				}
				return denotesField(syncF, sel.X, cycle)
			})
			engine := ""
			if cf := p.Func("cesium", "streamWriter", "commit"); cf != nil {
				var acc types.Object
				inspectNoLit(cf.Body, func(n ast.Node) bool {
					if ret, ok := n.(*ast.ReturnStmt); ok && len(ret.Results) == 2 && isNilIdent(cf, ret.Results[1]) {
						acc = objOf(cf, ret.Results[0])
					}
					return true
				})
				engine = accumulateDirection(cf, func(e ast.Expr) bool { return acc != nil && objOf(cf, e) == acc })
			} else {
				r.Undecide("C07.R2: cesium.streamWriter.commit not found")
			}
			r.Info("C07.R2.sync", pk+": the commit end is merged across leaseholders in the direction the engine merges it across channels", p.Position(syncF.Pos()), dist == engine && dist != "",
				fmt.Sprintf("distribution keeps the %q end, cesium.streamWriter.commit the %q end: the acknowledged commit end would depend on where the channels live", dist, engine))
		} else {
			// the iterator's acknowledgement is merged with the same connective the storage
			// engine uses across its channel iterators (sibling agreement)
			dist := ackConnective(syncF, func(sel *ast.SelectorExpr) bool {
				return sel.Sel.Name == "Ack" && denotesField(syncF, sel.X, cycle)
			})
			engine := ""
			for _, name := range []string{"execWithResponse", "execWithoutResponse"} {
				ef := p.Func("cesium", "streamIterator", name)
				if ef == nil {
					r.Undecide("C07.R2: cesium.streamIterator.%s not found", name)
					continue
				}
				var okObj types.Object
				if ef.Type.Results != nil && len(ef.Type.Results.List) == 1 && len(ef.Type.Results.List[0].Names) == 1 {
					okObj = ef.Pkg.TypesInfo.Defs[ef.Type.Results.List[0].Names[0]]
				}
				cn := ackConnective(ef, nil, okObj)
				if engine == "" {
					engine = cn
				} else if engine != cn {
					engine = "mixed"
				}
			}
			r.Ob("C07.R2.sync", pk+": per-node acknowledgements are merged with the connective the engine uses across channels", p.Position(syncF.Pos()), dist == engine && (dist == "or" || dist == "and"),
				fmt.Sprintf("distribution merges with %q, cesium.streamIterator with %q: with different connectives the result of Next/Prev/Seek*/Valid depends on where the channels live", dist, engine))
		}
		// (b2) a cycle is reported complete exactly when one response per node has arrived, and
		// completing it restarts the count
		counter := p.FieldOf(pk, "synchronizer", "cycle.counter")
		nodeCount := p.FieldOf(pk, "synchronizer", "nodeCount")
		isCompleteExpr := func(e ast.Expr) bool {
			be, ok := ast.Unparen(e).(*ast.BinaryExpr)
			if !ok || be.Op != token.EQL || counter == nil || nodeCount == nil {
				return false
			}
			fx, okx := ast.Unparen(be.X).(*ast.SelectorExpr)
			fy, oky := ast.Unparen(be.Y).(*ast.SelectorExpr)
			if !okx || !oky {
				return false
			}
			a, b := fieldVar(syncF, fx), fieldVar(syncF, fy)
			return (a == counter && b == nodeCount) || (a == nodeCount && b == counter)
		}
		var flagObj types.Object
		okFlag, nFlag := true, 0
		inspectNoLit(syncF.Body, func(n ast.Node) bool {
			ret, ok := n.(*ast.ReturnStmt)
			if !ok || len(ret.Results) != 3 {
				return true
			}
			second := ast.Unparen(ret.Results[1])
			if id, isID := second.(*ast.Ident); isID && (id.Name == "false" || id.Name == "true") {
				return true
			}
			nFlag++
			if isCompleteExpr(second) {
				return true
			}
			o := objOf(syncF, second)
			if o == nil {
				okFlag = false
				return true
			}
			if rhs, _, d := varDefinedBy(syncF, o); d && isCompleteExpr(rhs) {
				flagObj = o
				return true
			}
			okFlag = false
			return true
		})
		r.Ob("C07.R2.sync", pk+": the synchronizer reports a cycle complete exactly when counter == nodeCount", p.Position(syncF.Pos()), okFlag && nFlag > 0, "the completion flag must be the comparison of the response count with the number of leaseholders")
		if flagObj != nil && counter != nil {
			c := p.CFG(syncF)
			def := c.NodesWhere(func(n ast.Node) bool {
				as, ok := n.(*ast.AssignStmt)
				return ok && len(as.Lhs) == 1 && objOf(syncF, as.Lhs[0]) == flagObj
			})
			notComplete := c.EdgesEstablishing(func(atom ast.Expr, val bool) bool { return objOf(syncF, atom) == flagObj && !val })
			isReset := func(n ast.Node) bool {
				as, ok := n.(*ast.AssignStmt)
				if !ok || !isStoreTo(syncF, n, counter) || len(as.Rhs) != 1 {
					return false
				}
				v, isConst := constInt(syncF, as.Rhs[0])
				return isConst && v == 0
			}
			q, vis := c.ReachAvoiding(def, notComplete, isReset)
			var path []string
			for _, ex := range c.Exits() {
				if vis[ex.P] {
					path = q.PathTo(ex.P)
				}
			}
			r.ObPath("C07.R2.sync", pk+": completing a cycle restarts the response count", p.Position(syncF.Pos()), len(def) == 1 && len(notComplete) > 0 && path == nil,
				"a completed cycle that leaves the count where it is makes every later command wait for responses that were already counted", path)
		}
		// (c) sized by unique leaseholders
		okCount := false
		for _, call := range CallsIn(ns, calleeIs(newS)) {
			if len(call.Args) >= 1 {
				ast.Inspect(call.Args[0], func(n ast.Node) bool {
					if c2, ok := n.(*ast.CallExpr); ok {
						if f := CalleeFunc(ns, c2); f != nil && f.Name() == "UniqueLeaseholders" {
							okCount = true
						}
					}
					return true
				})
			}
		}
		r.Ob("C07.R2.sync", pk+": the synchronizer waits for one response per unique leaseholder", p.Position(ns.Pos()), okCount, "nodeCount must be len(cfg.Keys.UniqueLeaseholders())")
		// (d) receivers route only to the synchronizer; the stream outlet comes from the synchronizer
		syncAddr, _ := pkgConstString(p, pk, "synchronizerAddr")
		okRoute := false
		var recvVar types.Object
		inspectNoLit(ns.Body, func(n ast.Node) bool {
			cl, ok := n.(*ast.CompositeLit)
			if !ok {
				return true
			}
			tn, ok := derefNamed(ns.Pkg.TypesInfo.TypeOf(cl))
			if !ok || tn.Origin().Obj().Name() != "MultiRouter" {
				return true
			}
			src := litField(cl, "SourceTargets")
			snk := litField(cl, "SinkTargets")
			if src == nil || snk == nil {
				return true
			}
			if o := objOf(ns, src); o != nil && strings.Contains(strings.ToLower(o.Name()), "receiver") {
				recvVar = o
				if scl, ok := ast.Unparen(snk).(*ast.CompositeLit); ok && len(scl.Elts) == 1 {
					if a, ok := addrConst(ns, scl.Elts[0]); ok && a == syncAddr && syncAddr != "" {
						okRoute = true
					}
				}
			}
			return true
		})
		// no other router uses the receiver list
		uses := 0
		inspectNoLit(ns.Body, func(n ast.Node) bool {
			if kv, ok := n.(*ast.KeyValueExpr); ok {
				if id, ok := kv.Key.(*ast.Ident); ok && (id.Name == "SourceTargets" || id.Name == "SinkTargets") && recvVar != nil && objOf(ns, kv.Value) == recvVar {
					uses++
				}
			}
			return true
		})
		r.Ob("C07.R2.sync", pk+": every receiver is routed only into the synchronizer", p.Position(ns.Pos()), okRoute && uses == 1, fmt.Sprintf("receiver list used in %d router(s)", uses))
		okOut := false
		inspectNoLit(ns.Body, func(n ast.Node) bool {
			if call, ok := n.(*ast.CallExpr); ok {
				if f := CalleeFunc(ns, call); f != nil && f.Name() == "RouteOutletFrom" {
					has := false
					for _, a := range call.Args {
						if s, ok := addrConst(ns, a); ok && s == syncAddr {
							has = true
						}
					}
					okOut = has
				}
			}
			return true
		})
		r.Ob("C07.R2.sync", pk+": the stream's responses come out of the synchronizer", p.Position(ns.Pos()), okOut, "")
	}
}

func checkSenderForgets(r *Run, p *Prog) {
	forgets := func(fn *FuncNode, switchField string) (bool, string) {
		// the map handed to Switch has its entries deleted inside the send loop, or is cleared per message
		var mapObj types.Object
		var mapExpr string
		inspectNoLit(fn.Body, func(n ast.Node) bool {
			if call, ok := n.(*ast.CallExpr); ok && len(call.Args) == 3 {
				if s, ok := ast.Unparen(call.Fun).(*ast.SelectorExpr); ok && s.Sel.Name == switchField {
					mapObj = objOf(fn, call.Args[2])
					mapExpr = types.ExprString(call.Args[2])
				}
			}
			return true
		})
		if mapExpr == "" {
			return false, "no Switch(ctx, v, map) call"
		}
		ok := false
		var scan func(fn *FuncNode, mapExpr string, depth int)
		scan = func(fn *FuncNode, mapExpr string, depth int) {
			inspectNoLit(fn.Body, func(n ast.Node) bool {
				// the send loop extracted into a package-local helper that receives the map
				if call, isCall := n.(*ast.CallExpr); isCall && depth == 0 {
					for i, a := range call.Args {
						if types.ExprString(a) != mapExpr {
							continue
						}
						if h := p.ByObj[CalleeFunc(fn, call)]; h != nil && h.Body != nil && h.Pkg == fn.Pkg {
							if po := paramObj(h, i); po != nil {
								scan(h, po.Name(), depth+1)
							}
						}
					}
				}
				rs, isRange := n.(*ast.RangeStmt)
				if isRange && types.ExprString(rs.X) == mapExpr {
					ast.Inspect(rs.Body, func(y ast.Node) bool {
						if call, isCall := y.(*ast.CallExpr); isCall {
							if bi, isB := Callee(fn, call).(*types.Builtin); isB && bi.Name() == "delete" && len(call.Args) == 2 && types.ExprString(call.Args[0]) == mapExpr && objOf(fn, call.Args[1]) == objOf(fn, rs.Key) {
								ok = true
							}
						}
						return true
					})
				}
				if call, isCall := n.(*ast.CallExpr); isCall {
					if bi, isB := Callee(fn, call).(*types.Builtin); isB && bi.Name() == "clear" && len(call.Args) == 1 && types.ExprString(call.Args[0]) == mapExpr {
						ok = true
					}
				}
				return true
			})
		}
		scan(fn, mapExpr, 0)
		_ = mapObj
		return ok, "map " + mapExpr
	}
	if fn := p.Func("freighter/freightfluence", "BatchSwitchSender", "send"); fn != nil {
		ok, d := forgets(fn, "Switch")
		r.Ob("C07.R3.sender", "freightfluence.BatchSwitchSender.send forgets a target after sending", p.Position(fn.Pos()), ok, d+": the map is reused across messages; a stale entry re-sends an earlier request (frame included) to a peer the current frame does not address")
	} else {
		r.Undecide("C07.R3: BatchSwitchSender.send not found")
	}
	var sib *FuncNode
	for _, f := range p.FuncsOfPkg("x/confluence") {
		if f.Decl != nil && strings.Contains(f.Name, "BatchSwitch") && f.Decl.Name.Name == "send" {
			sib = f
		}
	}
	if sib == nil {
		for _, f := range p.FuncsOfPkg("x/confluence") {
			if f.Decl != nil && strings.Contains(recvName(f.Decl), "BatchSwitch") {
				if ok, _ := forgets(f, "Switch"); ok {
					sib = f
				}
			}
		}
	}
	if sib != nil {
		ok, d := forgets(sib, "Switch")
		r.Ob("C07.R3.sender", "confluence.BatchSwitch (sibling) forgets a target after sending", p.Position(sib.Pos()), ok, d)
	} else {
		r.Undecide("C07.R3: sibling confluence.BatchSwitch send loop not found")
	}
}

func checkMaskDiscipline(r *Run, p *Prog) {
	n := 0
	for _, fn := range p.Funcs {
		if !fn.InPkgs("cesium", "synnax/pkg/distribution/framer") {
			continue
		}
		if strings.Contains(fn.Pkg.PkgPath, "testutil") {
			continue
		}
		inspectNoLit(fn.Body, func(x ast.Node) bool {
			rs, ok := x.(*ast.RangeStmt)
			if !ok {
				return true
			}
			call, ok := ast.Unparen(rs.X).(*ast.CallExpr)
			if !ok {
				// keys := f.RawKeys(); for i, k := range keys
				if o := objOf(fn, rs.X); o != nil {
					if rhs, _, d := varDefinedByUp(fn, o); d {
						call, ok = ast.Unparen(rhs).(*ast.CallExpr)
					}
				}
			}
			if !ok {
				return true
			}
			f := CalleeFunc(fn, call)
			if f == nil || (f.Name() != "RawKeys" && f.Name() != "RawSeries") {
				return true
			}
			sig, _ := f.Type().(*types.Signature)
			if sig == nil || sig.Recv() == nil || !namedTypeIs(sig.Recv().Type(), "x/telem", "Frame") {
				return true
			}
			// the frame type that declares the mask lives next to Frame: accept any receiver named Frame
			n++
			idx := objOf(fn, rs.Key)
			ok2 := false
			ast.Inspect(rs.Body, func(y ast.Node) bool {
				if c2, isCall := y.(*ast.CallExpr); isCall {
					if g := CalleeFunc(fn, c2); g != nil && g.Name() == "ShouldExcludeRaw" && len(c2.Args) == 1 && idx != nil && objOf(fn, c2.Args[0]) == idx {
						ok2 = true
					}
				}
				return true
			})
			r.Ob("C07.R4.mask", "loop over "+f.Name()+"() in "+fn.Top().Name+" honours the frame mask", p.Position(rs.Pos()), ok2, "a loop that ignores ShouldExcludeRaw routes/stores series the caller filtered out (KeepKeys/ExcludeKeys only set a mask)")
			return true
		})
	}
	if n < 8 {
		r.Undecide("C07.R4: only %d loops over raw frame contents found (expected >= 8)", n)
	}
}

// ackConnective classifies how a function accumulates a boolean: "or" when the only
// constant it assigns is true (under a positive test), "and" when it is false, "mixed" /
// "none" otherwise. The accumulator is a selector accepted by isSel or one of objs.
func ackConnective(fn *FuncNode, isSel func(*ast.SelectorExpr) bool, objs ...types.Object) string {
	sawTrue, sawFalse := false, false
	ast.Inspect(fn.Body, func(n ast.Node) bool {
		as, ok := n.(*ast.AssignStmt)
		if !ok || len(as.Lhs) != 1 || len(as.Rhs) != 1 {
			return true
		}
		hit := false
		if sel, ok := ast.Unparen(as.Lhs[0]).(*ast.SelectorExpr); ok && isSel != nil && isSel(sel) {
			hit = true
		}
		if o := objOf(fn, as.Lhs[0]); o != nil {
			for _, want := range objs {
				if want != nil && o == want {
					hit = true
				}
			}
		}
		if !hit {
			return true
		}
		switch rhs := ast.Unparen(as.Rhs[0]).(type) {
		case *ast.Ident:
			switch rhs.Name {
			case "true":
				sawTrue = true
			case "false":
				sawFalse = true
			}
		case *ast.BinaryExpr:
			// acc = acc && x  /  acc = acc || x
			switch rhs.Op {
			case token.LAND:
				sawFalse = true
			case token.LOR:
				sawTrue = true
			}
		}
		return true
	})
	switch {
	case sawTrue && sawFalse:
		return "mixed"
	case sawTrue:
		return "or"
	case sawFalse:
		return "and"
	}
	return "none"
}

// accumulateDirection recognises "if X > ACC { ACC = X }" (max) and its mirror (min) for an
// accumulator accepted by isAcc; "" when no such statement, "mixed" when both occur.
func accumulateDirection(fn *FuncNode, isAcc func(ast.Expr) bool) string {
	dir := ""
	set := func(d string) {
		if dir == "" || dir == d {
			dir = d
		} else {
			dir = "mixed"
		}
	}
	ast.Inspect(fn.Body, func(n ast.Node) bool {
		ifs, ok := n.(*ast.IfStmt)
		if !ok {
			return true
		}
		// ACC = X in the body
		var x ast.Expr
		for _, st := range ifs.Body.List {
			if as, ok := st.(*ast.AssignStmt); ok && len(as.Lhs) == 1 && len(as.Rhs) == 1 && isAcc(as.Lhs[0]) {
				x = as.Rhs[0]
			}
		}
		if x == nil {
			return true
		}
		xs := types.ExprString(x)
		for _, atom := range conjuncts(ifs.Cond) {
			be, ok := ast.Unparen(atom).(*ast.BinaryExpr)
			if !ok {
				continue
			}
			var xLeft bool
			switch {
			case types.ExprString(be.X) == xs && isAcc(be.Y):
				xLeft = true
			case types.ExprString(be.Y) == xs && isAcc(be.X):
				xLeft = false
			default:
				continue
			}
			switch be.Op {
			case token.GTR, token.GEQ:
				if xLeft {
					set("max")
				} else {
					set("min")
				}
			case token.LSS, token.LEQ:
				if xLeft {
					set("min")
				} else {
					set("max")
				}
			}
		}
		return true
	})
	return dir
}
