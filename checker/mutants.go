package main

import (
	"encoding/json"
	"fmt"
	"os"
	"os/exec"
	"path/filepath"
	"sort"
	"strconv"
	"strings"
	"sync"
)

// Mutant is one seeded variant used to test a rule both ways: the variant must still
// type-check and the named rule must fire on it. Variants are applied as go/packages
// overlays (in memory); nothing is written to /repo.
type Mutant struct {
	Prop, Name, File, Find, Replace, ExpectRule string
}

var mutants []Mutant

func mut(prop, name, file, find, replace, rule string) {
	mutants = append(mutants, Mutant{prop, name, file, find, replace, rule})
}

// LoadOverlay is consulted by Load.
var LoadOverlay map[string][]byte

type mutantResult struct {
	Name      string   `json:"name"`
	Expect    string   `json:"expect_rule"`
	Status    string   `json:"status"` // detected | missed | stale | invalid
	Fired     []string `json:"fired,omitempty"`
	Undecided []string `json:"undecided,omitempty"`
}

// applyMutantFromEnv installs the overlay for VERIF_MUTANT=<index>; returns the mutant.
func applyMutantFromEnv() (*Mutant, string) {
	v := os.Getenv("VERIF_MUTANT")
	if v == "" {
		return nil, ""
	}
	i, err := strconv.Atoi(v)
	if err != nil {
		i = -1
		for k, m := range mutants {
			if strings.Contains(m.Name, v) {
				i = k
			}
		}
	}
	if i < 0 || i >= len(mutants) {
		return nil, "bad mutant index"
	}
	m := mutants[i]
	path := filepath.Join(RepoRoot, m.File)
	b, err := os.ReadFile(path)
	if err != nil {
		return &m, "stale: " + err.Error()
	}
	src := string(b)
	if strings.Count(src, m.Find) != 1 {
		return &m, fmt.Sprintf("stale: anchor text occurs %d times in %s", strings.Count(src, m.Find), m.File)
	}
	LoadOverlay = map[string][]byte{path: []byte(strings.Replace(src, m.Find, m.Replace, 1))}
	return &m, ""
}

// finishMutant prints the outcome of a mutant run as one JSON line.
func finishMutant(m *Mutant, r *Run, note string) int {
	res := mutantResult{Name: m.Name, Expect: m.ExpectRule}
	if strings.HasPrefix(note, "stale") {
		res.Status = "stale"
		res.Undecided = []string{note}
	} else {
		seen := map[string]bool{}
		hit := false
		for _, o := range r.Obs {
			if !o.OK {
				if !seen[o.Rule] {
					seen[o.Rule] = true
					res.Fired = append(res.Fired, o.Rule)
				}
				if strings.HasPrefix(o.Rule, m.ExpectRule) {
					hit = true
				}
			}
		}
		sort.Strings(res.Fired)
		res.Undecided = r.Undecided
		switch {
		case hit:
			res.Status = "detected"
		case len(r.Undecided) > 0 && strings.Contains(strings.Join(r.Undecided, " "), "type errors"):
			res.Status = "invalid"
		default:
			res.Status = "missed"
		}
	}
	if os.Getenv("VERIF_DEBUG") != "" {
		for _, o := range r.Obs {
			fmt.Printf("  %v %s | %s | %s\n", o.OK, o.Rule, o.Construct, o.Detail)
		}
	}
	b, _ := json.Marshal(res)
	fmt.Println("MUTANT " + string(b))
	return 0
}

// runSelfTest runs every mutant of a property in its own process (8 at a time).
func runSelfTest(prop string) ([]mutantResult, error) {
	var idx []int
	for i, m := range mutants {
		if m.Prop == prop {
			idx = append(idx, i)
		}
	}
	results := make([]mutantResult, len(idx))
	sem := make(chan struct{}, 6)
	var wg sync.WaitGroup
	self, err := os.Executable()
	if err != nil {
		return nil, err
	}
	for k, i := range idx {
		wg.Add(1)
		go func(k, i int) {
			defer wg.Done()
			sem <- struct{}{}
			defer func() { <-sem }()
			cmd := exec.Command(self, "check", prop)
			cmd.Env = append(os.Environ(), "VERIF_MUTANT="+strconv.Itoa(i), "VERIF_TIER=quick")
			out, _ := cmd.CombinedOutput()
			res := mutantResult{Name: mutants[i].Name, Expect: mutants[i].ExpectRule, Status: "invalid"}
			for _, line := range strings.Split(string(out), "\n") {
				if strings.HasPrefix(line, "MUTANT ") {
					_ = json.Unmarshal([]byte(strings.TrimPrefix(line, "MUTANT ")), &res)
				}
			}
			if res.Status == "invalid" && len(res.Undecided) == 0 {
				tail := string(out)
				if len(tail) > 400 {
					tail = tail[len(tail)-400:]
				}
				res.Undecided = []string{tail}
			}
			results[k] = res
		}(k, i)
	}
	wg.Wait()
	return results, nil
}
