package main

import (
	"go/ast"
	"go/token"
	"go/types"
	"sort"
)

// ---------------------------------------------------------------------------------
// E17: truth-table evaluation of a decision procedure. A rule names a few atoms - the
// comparisons a decision may depend on ("the gate is the holder", "the key was approved
// before") - by a classifier over expressions. For every assignment of truth values to
// the atoms the function body is interpreted: boolean and error locals carry three-valued
// values, other single-assigned locals are aliases of their defining expressions,
// conditions the classifier does not know fork the interpretation, package-local helpers
// are inlined, loops run zero or one time (or exactly once when the rule says the loop
// is over the items the atoms speak about). The rule then states which outcomes each
// assignment may have. Nothing depends on how the decision is written down: nested ifs,
// early returns, tagless switches, named booleans, De Morgan forms and extracted
// predicates all interpret to the same table.
// ---------------------------------------------------------------------------------

type ttVal int

const (
	ttF ttVal = iota
	ttT
	ttU
)

func (v ttVal) not() ttVal {
	switch v {
	case ttF:
		return ttT
	case ttT:
		return ttF
	}
	return ttU
}

// ttBound is an expression together with the function whose type information it
// belongs to (arguments of inlined calls are expressions of the caller).
type ttBound struct {
	fn *FuncNode
	e  ast.Expr
}

type ttState struct {
	vars   map[types.Object]ttVal   // bool locals; error locals (true = non-nil)
	alias  map[types.Object]ttBound // other locals with one definition, parameters of inlined calls
	events map[string]bool          // named calls passed on the way (ttEval.event)
}

func (s *ttState) clone() *ttState {
	n := &ttState{vars: map[types.Object]ttVal{}, alias: map[types.Object]ttBound{}}
	for k, v := range s.vars {
		n.vars[k] = v
	}
	for k, v := range s.alias {
		n.alias[k] = v
	}
	if len(s.events) > 0 {
		n.events = map[string]bool{}
		for k := range s.events {
			n.events[k] = true
		}
	}
	return n
}

func (s *ttState) eventSuffix() string {
	var names []string
	for k := range s.events {
		names = append(names, k)
	}
	sort.Strings(names)
	out := ""
	for _, n := range names {
		out += "+" + n
	}
	return out
}

type ttEval struct {
	p *Prog
	// atom classifies an expression (already alias-resolved through ev.resolve by the
	// classifier itself where it needs to) as a named atom, possibly negated.
	atom func(ev *ttEval, st *ttState, fn *FuncNode, e ast.Expr) (name string, neg bool, ok bool)
	// assign is the truth assignment under evaluation.
	assign map[string]bool
	// outcome classifies a return of the function under evaluation.
	outcome func(fn *FuncNode, ret *ast.ReturnStmt, results []ttVal) string
	// onceLoops: range loops run exactly once instead of zero or one time.
	onceLoops bool
	// opaque: package-local functions that are not inlined (their results are unknown and
	// a variable defined from them is an alias of the call)
	opaque func(*types.Func) bool
	// event names a statement (a call, a store) the rule wants to see in the outcome
	// ("+name" is appended to the outcome of every path that passed it).
	event    func(fn *FuncNode, s ast.Stmt) string
	outcomes map[string]bool
	steps    int
	bad      string
}

// resolve follows aliases: an identifier bound to an expression yields that expression.
func (ev *ttEval) resolve(st *ttState, fn *FuncNode, e ast.Expr) (*FuncNode, ast.Expr) {
	for i := 0; i < 6; i++ {
		e = ast.Unparen(e)
		id, ok := e.(*ast.Ident)
		if !ok {
			return fn, e
		}
		o := objOf(fn, id)
		b, ok := st.alias[o]
		if !ok {
			return fn, e
		}
		fn, e = b.fn, b.e
	}
	return fn, e
}

func isBoolType(t types.Type) bool {
	if t == nil {
		return false
	}
	b, ok := t.Underlying().(*types.Basic)
	return ok && b.Info()&types.IsBoolean != 0
}

func (ev *ttEval) expr(st *ttState, fn *FuncNode, e ast.Expr, depth int) ttVal {
	e = ast.Unparen(e)
	if name, neg, ok := ev.atom(ev, st, fn, e); ok {
		v := ttF
		if ev.assign[name] {
			v = ttT
		}
		if neg {
			return v.not()
		}
		return v
	}
	switch x := e.(type) {
	case *ast.Ident:
		switch x.Name {
		case "true":
			return ttT
		case "false":
			return ttF
		}
		o := objOf(fn, x)
		if v, ok := st.vars[o]; ok {
			return v
		}
		if b, ok := st.alias[o]; ok {
			return ev.expr(st, b.fn, b.e, depth)
		}
		return ttU
	case *ast.UnaryExpr:
		if x.Op == token.NOT {
			return ev.expr(st, fn, x.X, depth).not()
		}
	case *ast.BinaryExpr:
		switch x.Op {
		case token.LAND:
			a := ev.expr(st, fn, x.X, depth)
			if a == ttF {
				return ttF
			}
			b := ev.expr(st, fn, x.Y, depth)
			if b == ttF {
				return ttF
			}
			if a == ttT && b == ttT {
				return ttT
			}
			return ttU
		case token.LOR:
			a := ev.expr(st, fn, x.X, depth)
			if a == ttT {
				return ttT
			}
			b := ev.expr(st, fn, x.Y, depth)
			if b == ttT {
				return ttT
			}
			if a == ttF && b == ttF {
				return ttF
			}
			return ttU
		case token.EQL, token.NEQ:
			// error compared with nil; bool compared with bool
			var v ttVal = ttU
			if isNilIdent(fn, x.Y) {
				v = ev.errVal(st, fn, x.X, depth).not() // == nil is "not non-nil"
			} else if isNilIdent(fn, x.X) {
				v = ev.errVal(st, fn, x.Y, depth).not()
			} else if isBoolType(fn.Pkg.TypesInfo.TypeOf(x.X)) {
				a, b := ev.expr(st, fn, x.X, depth), ev.expr(st, fn, x.Y, depth)
				if a != ttU && b != ttU {
					v = ttF
					if a == b {
						v = ttT
					}
				}
			}
			if x.Op == token.NEQ {
				return v.not()
			}
			return v
		}
	case *ast.CallExpr:
		if rs := ev.call(st, fn, x, depth); len(rs) > 0 {
			// a single boolean result
			out := rs[0][0]
			for _, r := range rs[1:] {
				if r[0] != out {
					return ttU
				}
			}
			return out
		}
	}
	return ttU
}

// errVal: is the error expression non-nil?
func (ev *ttEval) errVal(st *ttState, fn *FuncNode, e ast.Expr, depth int) ttVal {
	e = ast.Unparen(e)
	if isNilIdent(fn, e) {
		return ttF
	}
	if o := objOf(fn, e); o != nil {
		if v, ok := st.vars[o]; ok {
			return v
		}
		if _, isVar := o.(*types.Var); isVar {
			if vr := o.(*types.Var); vr.Pkg() != nil && vr.Parent() == vr.Pkg().Scope() {
				return ttT
			}
			return ttU
		}
	}
	if call, ok := e.(*ast.CallExpr); ok {
		if rs := ev.call(st, fn, call, depth); len(rs) > 0 && len(rs[0]) > 0 {
			out := rs[0][len(rs[0])-1]
			for _, r := range rs[1:] {
				if len(r) == 0 || r[len(r)-1] != out {
					return ttU
				}
			}
			return out
		}
	}
	if certainErrLoose(fn, e) {
		return ttT
	}
	return ttU
}

// certainErrLoose is certainErr without the "guarded around the statement" clause (the
// evaluator tracks variables itself).
func certainErrLoose(fn *FuncNode, e ast.Expr) bool {
	switch ast.Unparen(e).(type) {
	case *ast.Ident:
		return false
	}
	return certainErr(fn, e, e)
}

// call inlines a package-local function; it returns the possible result tuples (empty
// when the call is not inlined).
func (ev *ttEval) call(st *ttState, fn *FuncNode, call *ast.CallExpr, depth int) [][]ttVal {
	if depth >= 3 {
		return nil
	}
	f := CalleeFunc(fn, call)
	if f == nil || (ev.opaque != nil && ev.opaque(f)) {
		return nil
	}
	g := ev.p.ByObj[f]
	if g == nil || g.Body == nil || g.Pkg != fn.Pkg {
		return nil
	}
	sub := st.clone()
	// receiver
	if sel, ok := ast.Unparen(call.Fun).(*ast.SelectorExpr); ok && g.Decl != nil && g.Decl.Recv != nil && len(g.Decl.Recv.List) == 1 && len(g.Decl.Recv.List[0].Names) == 1 {
		if ro := g.Pkg.TypesInfo.Defs[g.Decl.Recv.List[0].Names[0]]; ro != nil {
			sub.alias[ro] = ttBound{fn, sel.X}
		}
	}
	for i, a := range call.Args {
		po := paramObj(g, i)
		if po == nil {
			continue
		}
		t := po.Type()
		switch {
		case isBoolType(t):
			sub.vars[po] = ev.expr(st, fn, a, depth)
		case isErrorType(t):
			sub.vars[po] = ev.errVal(st, fn, a, depth)
		default:
			sub.alias[po] = ttBound{fn, a}
		}
	}
	var tuples [][]ttVal
	ev.block(sub, g, g.Body.List, depth+1, func(ret *ast.ReturnStmt, s2 *ttState) {
		tuples = append(tuples, ev.results(s2, g, ret, depth+1))
	})
	return tuples
}

// results evaluates the results of a return statement (bare returns read named results).
func (ev *ttEval) results(st *ttState, fn *FuncNode, ret *ast.ReturnStmt, depth int) []ttVal {
	var out []ttVal
	if ret == nil || len(ret.Results) == 0 {
		if fn.Type.Results != nil {
			for _, f := range fn.Type.Results.List {
				for _, nm := range f.Names {
					o := fn.Pkg.TypesInfo.Defs[nm]
					if v, ok := st.vars[o]; ok {
						out = append(out, v)
					} else if isBoolType(o.Type()) || isErrorType(o.Type()) {
						out = append(out, ttF) // zero value
					} else {
						out = append(out, ttU)
					}
				}
				if len(f.Names) == 0 {
					out = append(out, ttU)
				}
			}
		}
		return out
	}
	if len(ret.Results) == 1 {
		if call, ok := ast.Unparen(ret.Results[0]).(*ast.CallExpr); ok {
			if tv, ok := fn.Pkg.TypesInfo.TypeOf(call).(*types.Tuple); ok && tv.Len() > 1 {
				if rs := ev.call(st, fn, call, depth); len(rs) > 0 {
					// merge position-wise
					out = append(out, rs[0]...)
					for _, r := range rs[1:] {
						for i := range out {
							if i < len(r) && r[i] != out[i] {
								out[i] = ttU
							}
						}
					}
					return out
				}
				for i := 0; i < tv.Len(); i++ {
					out = append(out, ttU)
				}
				return out
			}
		}
	}
	for _, r := range ret.Results {
		t := fn.Pkg.TypesInfo.TypeOf(r)
		switch {
		case isNilIdent(fn, r):
			out = append(out, ttF)
		case isBoolType(t):
			out = append(out, ev.expr(st, fn, r, depth))
		case t != nil && (isErrorType(t) || types.Implements(t, errorIface)):
			out = append(out, ev.errVal(st, fn, r, depth))
		default:
			out = append(out, ttU)
		}
	}
	return out
}

type ttFlow int

const (
	ttNext ttFlow = iota
	ttBreak
	ttDone
)

// block interprets a statement list; onReturn is called for every return reached. It
// returns the states that fall off the end of the list (with how they left it).
func (ev *ttEval) block(st *ttState, fn *FuncNode, list []ast.Stmt, depth int, onReturn func(*ast.ReturnStmt, *ttState)) []struct {
	st   *ttState
	flow ttFlow
} {
	type res = struct {
		st   *ttState
		flow ttFlow
	}
	cur := []*ttState{st}
	var out []res
	for _, s := range list {
		var next []*ttState
		for _, c := range cur {
			ev.steps++
			if ev.steps > 20000 {
				ev.bad = "evaluation budget exceeded"
				return out
			}
			for _, r := range ev.stmt(c, fn, s, depth, onReturn) {
				switch r.flow {
				case ttNext:
					next = append(next, r.st)
				case ttBreak:
					out = append(out, r)
				}
			}
		}
		cur = next
		if len(cur) == 0 {
			break
		}
	}
	for _, c := range cur {
		out = append(out, res{c, ttNext})
	}
	return out
}

func (ev *ttEval) assignTo(st *ttState, fn *FuncNode, lhs ast.Expr, rhs ast.Expr, define bool, depth int) {
	id, ok := ast.Unparen(lhs).(*ast.Ident)
	if !ok || id.Name == "_" {
		return
	}
	o := objOf(fn, id)
	if o == nil {
		return
	}
	t := o.Type()
	switch {
	case isBoolType(t):
		st.vars[o] = ev.expr(st, fn, rhs, depth)
	case isErrorType(t):
		st.vars[o] = ev.errVal(st, fn, rhs, depth)
	default:
		if define {
			st.alias[o] = ttBound{fn, rhs}
		} else {
			delete(st.alias, o)
		}
	}
}

func (ev *ttEval) stmt(st *ttState, fn *FuncNode, s ast.Stmt, depth int, onReturn func(*ast.ReturnStmt, *ttState)) []struct {
	st   *ttState
	flow ttFlow
} {
	type res = struct {
		st   *ttState
		flow ttFlow
	}
	one := func(s2 *ttState) []res { return []res{{s2, ttNext}} }
	switch v := s.(type) {
	case *ast.ReturnStmt:
		onReturn(v, st)
		return nil
	case *ast.BlockStmt:
		return ev.block(st, fn, v.List, depth, onReturn)
	case *ast.LabeledStmt:
		return ev.stmt(st, fn, v.Stmt, depth, onReturn)
	case *ast.DeclStmt:
		if gd, ok := v.Decl.(*ast.GenDecl); ok {
			for _, sp := range gd.Specs {
				vs, ok := sp.(*ast.ValueSpec)
				if !ok {
					continue
				}
				for i, nm := range vs.Names {
					if len(vs.Values) == len(vs.Names) {
						ev.assignTo(st, fn, nm, vs.Values[i], true, depth)
					} else if len(vs.Values) == 0 {
						if o := fn.Pkg.TypesInfo.Defs[nm]; o != nil && (isBoolType(o.Type()) || isErrorType(o.Type())) {
							st.vars[o] = ttF
						}
					}
				}
			}
		}
		return one(st)
	case *ast.AssignStmt:
		ev.note(st, fn, v)
		if len(v.Lhs) == len(v.Rhs) {
			for i := range v.Lhs {
				ev.assignTo(st, fn, v.Lhs[i], v.Rhs[i], v.Tok == token.DEFINE, depth)
			}
			return one(st)
		}
		if len(v.Rhs) == 1 {
			switch r := ast.Unparen(v.Rhs[0]).(type) {
			case *ast.CallExpr:
				if tuples := ev.call(st, fn, r, depth); len(tuples) > 0 {
					var out []res
					for _, tu := range tuples {
						s2 := st.clone()
						for i, l := range v.Lhs {
							id, ok := ast.Unparen(l).(*ast.Ident)
							if !ok || id.Name == "_" || i >= len(tu) {
								continue
							}
							if o := objOf(fn, id); o != nil && (isBoolType(o.Type()) || isErrorType(o.Type())) {
								s2.vars[o] = tu[i]
							}
						}
						out = append(out, res{s2, ttNext})
					}
					return out
				}
			}
			// comma-ok forms and unknown calls: bool / error targets become unknown unless the
			// whole right-hand side is an atom for the second target (map lookups)
			for i, l := range v.Lhs {
				id, ok := ast.Unparen(l).(*ast.Ident)
				if !ok || id.Name == "_" {
					continue
				}
				o := objOf(fn, id)
				if o == nil {
					continue
				}
				if isBoolType(o.Type()) && i == 1 {
					if name, neg, ok := ev.atom(ev, st, fn, v.Rhs[0]); ok {
						val := ttF
						if ev.assign[name] {
							val = ttT
						}
						if neg {
							val = val.not()
						}
						st.vars[o] = val
						continue
					}
				}
				if isBoolType(o.Type()) || isErrorType(o.Type()) {
					st.vars[o] = ttU
				} else if v.Tok == token.DEFINE && i == 0 {
					st.alias[o] = ttBound{fn, v.Rhs[0]}
				}
			}
		}
		return one(st)
	case *ast.IfStmt:
		states := []*ttState{st}
		if v.Init != nil {
			states = nil
			for _, r := range ev.stmt(st, fn, v.Init, depth, onReturn) {
				if r.flow == ttNext {
					states = append(states, r.st)
				}
			}
		}
		var out []res
		for _, s0 := range states {
			c := ev.expr(s0, fn, v.Cond, depth)
			if c == ttT || c == ttU {
				s1 := s0
				if c == ttU {
					s1 = s0.clone()
					ev.assume(s1, fn, v.Cond, true)
				}
				out = append(out, ev.block(s1, fn, v.Body.List, depth, onReturn)...)
			}
			if c == ttF || c == ttU {
				s2 := s0
				if c == ttU {
					s2 = s0.clone()
					ev.assume(s2, fn, v.Cond, false)
				}
				if v.Else != nil {
					out = append(out, ev.stmt(s2, fn, v.Else, depth, onReturn)...)
				} else {
					out = append(out, res{s2, ttNext})
				}
			}
		}
		return out
	case *ast.SwitchStmt:
		states := []*ttState{st}
		if v.Init != nil {
			states = nil
			for _, r := range ev.stmt(st, fn, v.Init, depth, onReturn) {
				if r.flow == ttNext {
					states = append(states, r.st)
				}
			}
		}
		var out []res
		for _, s0 := range states {
			var def *ast.CaseClause
			live := []*ttState{s0}
			for _, cc := range v.Body.List {
				clause := cc.(*ast.CaseClause)
				if clause.List == nil {
					def = clause
					continue
				}
				var still []*ttState
				for _, sl := range live {
					c := ttF
					if v.Tag != nil {
						c = ttU
					} else {
						for _, ce := range clause.List {
							x := ev.expr(sl, fn, ce, depth)
							if x == ttT {
								c = ttT
								break
							}
							if x == ttU {
								c = ttU
							}
						}
					}
					if c == ttT || c == ttU {
						s1 := sl
						if c == ttU {
							s1 = sl.clone()
						}
						for _, r := range ev.block(s1, fn, clause.Body, depth, onReturn) {
							out = append(out, res{r.st, ttNext}) // break leaves the switch
						}
					}
					if c == ttF || c == ttU {
						still = append(still, sl)
					}
				}
				live = still
			}
			for _, sl := range live {
				if def != nil {
					for _, r := range ev.block(sl, fn, def.Body, depth, onReturn) {
						out = append(out, res{r.st, ttNext})
					}
				} else {
					out = append(out, res{sl, ttNext})
				}
			}
		}
		return out
	case *ast.ForStmt, *ast.RangeStmt:
		var body *ast.BlockStmt
		if f, ok := v.(*ast.ForStmt); ok {
			body = f.Body
		} else {
			body = v.(*ast.RangeStmt).Body
			if rs := v.(*ast.RangeStmt); rs.Value != nil && rs.Tok == token.DEFINE {
				// the range variable stands for "the item the atoms speak about"
			}
		}
		var out []res
		_, isRange := v.(*ast.RangeStmt)
		if !(ev.onceLoops && isRange) {
			out = append(out, res{st.clone(), ttNext})
		}
		for _, r := range ev.block(st.clone(), fn, body.List, depth, onReturn) {
			out = append(out, res{r.st, ttNext}) // break / continue / end of body: go on after the loop
		}
		return out
	case *ast.ExprStmt:
		ev.note(st, fn, v)
		return one(st)
	case *ast.BranchStmt:
		if v.Tok == token.BREAK || v.Tok == token.CONTINUE {
			return []res{{st, ttBreak}}
		}
		return one(st)
	case *ast.SelectStmt:
		var out []res
		for _, cc := range v.Body.List {
			clause := cc.(*ast.CommClause)
			for _, r := range ev.block(st.clone(), fn, clause.Body, depth, onReturn) {
				out = append(out, res{r.st, ttNext})
			}
		}
		return out
	case *ast.TypeSwitchStmt:
		var out []res
		for _, cc := range v.Body.List {
			clause := cc.(*ast.CaseClause)
			for _, r := range ev.block(st.clone(), fn, clause.Body, depth, onReturn) {
				out = append(out, res{r.st, ttNext})
			}
		}
		return append(out, res{st, ttNext})
	}
	return one(st)
}

func (ev *ttEval) note(st *ttState, fn *FuncNode, s ast.Stmt) {
	if ev.event == nil {
		return
	}
	if name := ev.event(fn, s); name != "" {
		if st.events == nil {
			st.events = map[string]bool{}
		}
		st.events[name] = true
	}
}

// ttTable interprets fn under every assignment of the named atoms and returns, for each
// assignment (encoded as a bit mask over atoms), the set of outcomes.
func ttTable(p *Prog, fn *FuncNode, atoms []string,
	atom func(ev *ttEval, st *ttState, fn *FuncNode, e ast.Expr) (string, bool, bool),
	outcome func(fn *FuncNode, ret *ast.ReturnStmt, results []ttVal) string,
	onceLoops bool, opaque ...func(*types.Func) bool) (map[int]map[string]bool, string) {
	return ttTableEv(p, fn, atoms, atom, outcome, onceLoops, nil, opaque...)
}

// ttTableEv is ttTable with an event classifier (see ttEval.event).
func ttTableEv(p *Prog, fn *FuncNode, atoms []string,
	atom func(ev *ttEval, st *ttState, fn *FuncNode, e ast.Expr) (string, bool, bool),
	outcome func(fn *FuncNode, ret *ast.ReturnStmt, results []ttVal) string,
	onceLoops bool, event func(fn *FuncNode, s ast.Stmt) string, opaque ...func(*types.Func) bool) (map[int]map[string]bool, string) {
	table := map[int]map[string]bool{}
	for mask := 0; mask < 1<<len(atoms); mask++ {
		ev := &ttEval{p: p, atom: atom, outcome: outcome, onceLoops: onceLoops, event: event, assign: map[string]bool{}, outcomes: map[string]bool{}}
		if len(opaque) > 0 {
			ev.opaque = opaque[0]
		}
		for i, a := range atoms {
			ev.assign[a] = mask&(1<<i) != 0
		}
		st := &ttState{vars: map[types.Object]ttVal{}, alias: map[types.Object]ttBound{}}
		falls := ev.block(st, fn, fn.Body.List, 0, func(ret *ast.ReturnStmt, s2 *ttState) {
			ev.outcomes[outcome(fn, ret, ev.results(s2, fn, ret, 0))+s2.eventSuffix()] = true
		})
		for _, f := range falls {
			ev.outcomes[outcome(fn, nil, ev.results(f.st, fn, nil, 0))+f.st.eventSuffix()] = true
		}
		if ev.bad != "" {
			return nil, ev.bad
		}
		table[mask] = ev.outcomes
	}
	return table, ""
}

// ttErrOutcome classifies a return by its last (error) result: "fail" when certainly
// non-nil, "delegated" when it is another call's result (not this function's decision),
// otherwise "ok".
func ttErrOutcome(ret *ast.ReturnStmt, results []ttVal) string {
	if len(results) == 0 {
		return "ok"
	}
	last := results[len(results)-1]
	if last == ttT {
		return "fail"
	}
	if last == ttU && ret != nil && len(ret.Results) > 0 {
		if _, isCall := ast.Unparen(ret.Results[len(ret.Results)-1]).(*ast.CallExpr); isCall {
			return "delegated"
		}
	}
	return "ok"
}

// assume refines the tracked variables with what an unknown condition says on the branch
// taken: "err != nil" makes err non-nil on its true branch, a boolean local takes the
// branch's value, conjunctions and disjunctions pass the assumption on where it is
// certain.
func (ev *ttEval) assume(st *ttState, fn *FuncNode, cond ast.Expr, val bool) {
	cond = ast.Unparen(cond)
	set := func(e ast.Expr, v ttVal) {
		if o := objOf(fn, e); o != nil {
			if cur, ok := st.vars[o]; !ok || cur == ttU {
				if isBoolType(o.Type()) || isErrorType(o.Type()) {
					st.vars[o] = v
				}
			}
		}
	}
	b2v := func(b bool) ttVal {
		if b {
			return ttT
		}
		return ttF
	}
	switch x := cond.(type) {
	case *ast.Ident:
		set(x, b2v(val))
	case *ast.UnaryExpr:
		if x.Op == token.NOT {
			ev.assume(st, fn, x.X, !val)
		}
	case *ast.BinaryExpr:
		switch x.Op {
		case token.LAND:
			if val {
				ev.assume(st, fn, x.X, true)
				ev.assume(st, fn, x.Y, true)
			}
		case token.LOR:
			if !val {
				ev.assume(st, fn, x.X, false)
				ev.assume(st, fn, x.Y, false)
			}
		case token.EQL, token.NEQ:
			nonNil := val == (x.Op == token.NEQ)
			if isNilIdent(fn, x.Y) {
				set(x.X, b2v(nonNil))
			} else if isNilIdent(fn, x.X) {
				set(x.Y, b2v(nonNil))
			}
		}
	}
}
