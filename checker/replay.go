package main

import (
	"encoding/json"
	"fmt"
	"os"
)

// replay re-runs the check that produced a finding file and reports whether the same
// obligation still fails on the current tree.
func replay(path string) int {
	b, err := os.ReadFile(path)
	if err != nil {
		fmt.Fprintln(os.Stderr, err)
		return 2
	}
	var f struct {
		Property   string     `json:"property"`
		Obligation Obligation `json:"obligation"`
		RuleText   string     `json:"rule_text"`
	}
	if err := json.Unmarshal(b, &f); err != nil {
		fmt.Fprintln(os.Stderr, err)
		return 2
	}
	fmt.Printf("replaying %s: rule %s\n  %s\n  construct: %s\n  recorded at %s: %s\n", f.Property, f.Obligation.Rule, f.RuleText, f.Obligation.Construct, f.Obligation.Pos, f.Obligation.Detail)
	for _, s := range f.Obligation.Path {
		fmt.Printf("    path: %s\n", s)
	}
	chk, ok := checks[f.Property]
	if !ok {
		return 2
	}
	r := NewRun(f.Property, "quick", 0)
	chk(r)
	for _, o := range r.Obs {
		if o.Key() == f.Obligation.Key() {
			if o.OK {
				fmt.Println("on the current tree this obligation is discharged")
				return 0
			}
			fmt.Printf("still failing at %s: %s\nVIOLATION property=%s replay=%s\n", o.Pos, o.Detail, f.Property, path)
			return 1
		}
	}
	fmt.Println("obligation no longer exists on the current tree")
	return 0
}
