package main

import "strings"

func init() { checks["C09"] = checkC09 }

func cesiumScope(fn *FuncNode) bool {
	return fn.InPkgs("cesium") && !fn.InPkgs("cesium/internal/testutil", "cesium/internal/testdata")
}

// cesiumGuards is the frozen guarded-field table of the cesium engine. Each row was
// confirmed by reading every accessor; statistics only suggested the candidates.
var cesiumGuards = []guardRow{
	{"cesium/internal/domain", "index", "mu.pointers", []string{"cesium/internal/domain.index.mu"}, []string{"cesium/internal/domain.index.mu"}, "the sorted pointer table; every reader and writer goes through idx.mu"},
	{"cesium/internal/domain", "index", "persistHead", []string{"cesium/internal/domain.index.mu"}, []string{"cesium/internal/domain.index.mu"}, "lowest dirty pointer; advanced by insert/update under idx.mu and consumed by prepare"},
	{"cesium/internal/domain", "fileController", "writers.open", []string{"cesium/internal/domain.fileController.writers"}, []string{"cesium/internal/domain.fileController.writers"}, "pool of open writer handles"},
	{"cesium/internal/domain", "fileController", "writers.unopened", []string{"cesium/internal/domain.fileController.writers"}, []string{"cesium/internal/domain.fileController.writers"}, "set of files without a handle"},
	{"cesium/internal/domain", "fileController", "readers.files", []string{"cesium/internal/domain.fileController.readers"}, []string{"cesium/internal/domain.fileController.readers"}, "map file key -> reader pool"},
	{"cesium/internal/domain", "fileReaders", "open", []string{"cesium/internal/domain.fileReaders"}, []string{"cesium/internal/domain.fileReaders"}, "reader handles of one file"},
	{"cesium/internal/control", "region", "curr", []string{"cesium/internal/control.region"}, []string{"cesium/internal/control.region"}, "gate in control; release/update write it under the region lock only"},
	{"cesium/internal/control", "region", "gates", []string{"cesium/internal/control.region"}, []string{"cesium/internal/control.region"}, "contending gates"},
	{"cesium/internal/control", "region", "counter", []string{"cesium/internal/control.region"}, []string{"cesium/internal/control.region"}, "open-order counter"},
	{"cesium/internal/control", "region", "timeRange", []string{"cesium/internal/control.region", "cesium/internal/control.Controller.mu"}, []string{"cesium/internal/control.region", "cesium/internal/control.Controller.mu"}, "written by region.open with both the controller and the region write-locked, so either lock protects a read"},
	{"cesium/internal/control", "Gate", "authority", []string{"cesium/internal/control.region"}, []string{"cesium/internal/control.region"}, "written by region.update under the region lock"},
	{"cesium/internal/control", "Controller", "regions", []string{"cesium/internal/control.Controller.mu"}, []string{"cesium/internal/control.Controller.mu"}, "sorted region list"},
	{"cesium", "DB", "mu.dbs.unary", []string{"cesium.DB.mu"}, []string{"cesium.DB.mu"}, "channel map (unary)"},
	{"cesium", "DB", "mu.dbs.virtual", []string{"cesium.DB.mu"}, []string{"cesium.DB.mu"}, "channel map (virtual)"},
	{"cesium/internal/unary", "offsetCache", "tables", []string{"cesium/internal/unary.offsetCache.mu"}, []string{"cesium/internal/unary.offsetCache.mu"}, "variable-length offset tables"},
}

func checkC09(r *Run) {
	r.Explanation = "Static lockset analysis (per-function CFG dataflow with must/may locksets, bottom-up caller-held summaries over a CHA call graph) of every function of the cesium packages: PAIR (each Lock/RLock released exactly once on every exit), GUARD (every access to a field of the frozen guarded-field table happens with its lock class held, or every call chain from an entry point holds it), ORDER (the held->acquired graph over lock classes is acyclic). These are necessary conditions of 'no data races and no deadlock for every schedule': an unguarded access is a race for some schedule, a leaked lock or an order cycle is a deadlock for some schedule."
	r.NotDecided = "Equivalence of the final content to some serial order of the operations; races on state that is not in the guarded-field table (atomics are enforced by their types; DB.mu.digests is deliberately not tabled); locks are matched by class across calls, so two objects of one class are not distinguished."
	r.Trusted = []string{"go/types, go/packages, go/cfg from golang.org/x/tools v0.29.0", "VTA call graph (x/tools callgraph/vta seeded by CHA) for interface and function-value calls", "sync.Mutex/RWMutex semantics"}
	r.Assumptions = []string{"no reflection/unsafe access to guarded fields", "a local variable initialised from a composite literal in the same function is unpublished (constructor exemption)", "literals passed to non-repository higher-order functions (lo.Filter, slices.*) run synchronously"}
	r.Extra["module"] = "cesium"
	p, err := Load("cesium")
	if err != nil {
		r.Undecide("%v", err)
		return
	}
	p.BuildSSA()
	r.Stats["packages"] = len(p.Repo)
	r.Stats["files"] = p.NumFiles
	r.Rule("C09.PAIR", "every sync.Mutex/RWMutex acquisition in cesium is released exactly once on every exit of the acquiring function (or handed back as a releaser); a leak blocks the next writer forever", 40)
	r.Rule("C09.GUARD", "every read of a guarded field holds its lock class in R or W mode, every write in W mode, either locally on every path or in every caller chain from an entry point", 80)
	r.Rule("C09.ORDER", "the lock-class order graph (held -> acquired, through calls) has no cycle", 8)
	r.Rule("C09.APPEND", "no append in cesium extends a slice held in a field of a shared object unless the result is stored back into that field (an unsynchronised write into a shared backing array is a data race even under a read lock)", 1)
	applyLockRules(r, p, lockRuleSet{Prefix: "C09", Scope: cesiumScope, Guards: cesiumGuards, Pair: true, Order: true, MinOps: 100, MinAcc: 120})
	checkAppendAliasing(r, p, "C09.APPEND", cesiumScope)
	_ = strings.TrimSpace
}
