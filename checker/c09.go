package main

import (
	"fmt"
	"go/ast"
	"go/types"
	"strings"
)

func init() { checks["C09"] = checkC09 }

func cesiumScope(fn *FuncNode) bool {
	return fn.InPkgs("cesium") && !fn.InPkgs("cesium/internal/testutil", "cesium/internal/testdata")
}

// cesiumGuards is the frozen guarded-field table of the cesium engine. Each row was
// confirmed by reading every accessor; statistics only suggested the candidates.
var cesiumGuards = []guardRow{
	{"cesium/internal/domain", "index", "mu.pointers", []string{"cesium/internal/domain.index.mu"}, []string{"cesium/internal/domain.index.mu"}, "the sorted pointer table; every reader and writer goes through idx.mu"},
	{"cesium/internal/domain", "index", "persistHead", []string{"cesium/internal/domain.index.mu"}, []string{"cesium/internal/domain.index.mu"}, "lowest dirty pointer; advanced by insert/update under idx.mu and consumed by prepare"},
	{"cesium/internal/domain", "fileController", "writers.open", []string{"cesium/internal/domain.fileController.writers"}, []string{"cesium/internal/domain.fileController.writers"}, "pool of open writer handles"},
	{"cesium/internal/domain", "fileController", "writers.unopened", []string{"cesium/internal/domain.fileController.writers"}, []string{"cesium/internal/domain.fileController.writers"}, "set of files without a handle"},
	{"cesium/internal/domain", "fileController", "readers.files", []string{"cesium/internal/domain.fileController.readers"}, []string{"cesium/internal/domain.fileController.readers"}, "map file key -> reader pool"},
	{"cesium/internal/domain", "fileReaders", "open", []string{"cesium/internal/domain.fileReaders"}, []string{"cesium/internal/domain.fileReaders"}, "reader handles of one file"},
	{"cesium/internal/control", "region", "curr", []string{"cesium/internal/control.region"}, []string{"cesium/internal/control.region"}, "gate in control; release/update write it under the region lock only"},
	{"cesium/internal/control", "region", "gates", []string{"cesium/internal/control.region"}, []string{"cesium/internal/control.region"}, "contending gates"},
	{"cesium/internal/control", "region", "counter", []string{"cesium/internal/control.region"}, []string{"cesium/internal/control.region"}, "open-order counter"},
	{"cesium/internal/control", "region", "timeRange", []string{"cesium/internal/control.region", "cesium/internal/control.Controller.mu"}, []string{"cesium/internal/control.region", "cesium/internal/control.Controller.mu"}, "written by region.open with both the controller and the region write-locked, so either lock protects a read"},
	{"cesium/internal/control", "Gate", "authority", []string{"cesium/internal/control.region"}, []string{"cesium/internal/control.region"}, "written by region.update under the region lock"},
	{"cesium/internal/control", "Controller", "regions", []string{"cesium/internal/control.Controller.mu"}, []string{"cesium/internal/control.Controller.mu"}, "sorted region list"},
	{"cesium", "DB", "mu.dbs.unary", []string{"cesium.DB.mu"}, []string{"cesium.DB.mu"}, "channel map (unary)"},
	{"cesium", "DB", "mu.dbs.virtual", []string{"cesium.DB.mu"}, []string{"cesium.DB.mu"}, "channel map (virtual)"},
	{"cesium/internal/unary", "offsetCache", "tables", []string{"cesium/internal/unary.offsetCache.mu"}, []string{"cesium/internal/unary.offsetCache.mu"}, "variable-length offset tables"},
}

func checkC09(r *Run) {
	r.Explanation = "Static lockset analysis (per-function CFG dataflow with must/may locksets, bottom-up caller-held summaries over a CHA call graph) of every function of the cesium packages: PAIR (each Lock/RLock released exactly once on every exit), GUARD (every access to a field of the frozen guarded-field table happens with its lock class held, or every call chain from an entry point holds it), ORDER (the held->acquired graph over lock classes is acyclic). These are necessary conditions of 'no data races and no deadlock for every schedule': an unguarded access is a race for some schedule, a leaked lock or an order cycle is a deadlock for some schedule."
	r.NotDecided = "Equivalence of the final content to some serial order of the operations; races on state that is not in the guarded-field table (atomics are enforced by their types; DB.mu.digests is deliberately not tabled); locks are matched by class across calls, so two objects of one class are not distinguished."
	r.Trusted = []string{"go/types, go/packages, go/cfg from golang.org/x/tools v0.29.0", "VTA call graph (x/tools callgraph/vta seeded by CHA) for interface and function-value calls", "sync.Mutex/RWMutex semantics"}
	r.Assumptions = []string{"no reflection/unsafe access to guarded fields", "a local variable initialised from a composite literal in the same function is unpublished (constructor exemption)", "literals passed to non-repository higher-order functions (lo.Filter, slices.*) run synchronously"}
	r.Extra["module"] = "cesium"
	p, err := Load("cesium")
	if err != nil {
		r.Undecide("%v", err)
		return
	}
	p.BuildSSA()
	r.Stats["packages"] = len(p.Repo)
	r.Stats["files"] = p.NumFiles
	r.Rule("C09.PAIR", "every sync.Mutex/RWMutex acquisition in cesium is released exactly once on every exit of the acquiring function (or handed back as a releaser); a leak blocks the next writer forever", 40)
	r.Rule("C09.GUARD", "every read of a guarded field holds its lock class in R or W mode, every write in W mode, either locally on every path or in every caller chain from an entry point", 80)
	r.Rule("C09.ORDER", "the lock-class order graph (held -> acquired, through calls) has no cycle", 8)
	r.Rule("C09.APPEND", "no append in cesium extends a slice held in a field of a shared object unless the result is stored back into that field (an unsynchronised write into a shared backing array is a data race even under a read lock)", 1)
	applyLockRules(r, p, lockRuleSet{Prefix: "C09", Scope: cesiumScope, Guards: cesiumGuards, Pair: true, Order: true, MinOps: 100, MinAcc: 120})
	checkAppendAliasing(r, p, "C09.APPEND", cesiumScope)
	r.Rule("C09.HARDCLOSE", "a pooled file handle of the domain file controller is hard-closed only on the edge on which tryAcquire() on that same handle succeeded: the pool hands a handle to one user at a time through that flag, and closing one that is in use pulls the file from under a writer or a reader; likewise a pooled handle is handed out (acquireWriter, acquireReader) only on that edge", 6)
	checkHardClose(r, p)
	_ = strings.TrimSpace
}

// checkHardClose decides C09.HARDCLOSE.
func checkHardClose(r *Run, p *Prog) {
	n := 0
	for _, fn := range p.Funcs {
		if fn.Body == nil || !fn.InPkgs(domainPkg) {
			continue
		}
		c := p.CFG(fn)
		for _, pt := range c.NodesWhere(func(node ast.Node) bool {
			return nodeHasCall(fn, node, func(o types.Object, _ *ast.CallExpr) bool {
				f, ok := o.(*types.Func)
				return ok && f.Name() == "HardClose"
			})
		}) {
			node := pt.B.Nodes[pt.I]
			var recv types.Object
			inspectNoLit(node, func(x ast.Node) bool {
				if call, ok := x.(*ast.CallExpr); ok {
					if sel, ok := ast.Unparen(call.Fun).(*ast.SelectorExpr); ok && sel.Sel.Name == "HardClose" {
						recv = objOf(fn, sel.X)
					}
				}
				return true
			})
			if recv == nil {
				continue // HardClose's own body (c.TrackedWriteCloser...) or a field receiver
			}
			if fn.Decl != nil && fn.Decl.Name.Name == "HardClose" {
				continue
			}
			n++
			acquired := c.EdgesEstablishing(func(atom ast.Expr, val bool) bool {
				call, ok := ast.Unparen(atom).(*ast.CallExpr)
				if !ok || !val {
					return false
				}
				sel, ok := ast.Unparen(call.Fun).(*ast.SelectorExpr)
				return ok && sel.Sel.Name == "tryAcquire" && objOf(fn, sel.X) == recv
			})
			q, vis := c.ReachAvoiding([]Point{c.Entry()}, acquired, nil)
			var path []string
			if vis[pt] {
				path = q.PathTo(pt)
			}
			r.ObPath("C09.HARDCLOSE", fmt.Sprintf("%s hard-closes %s only after acquiring it", fn.Name, recv.Name()), posOf(p, node), len(acquired) > 0 && path == nil,
				"the handle may be in use by a writer or reader when its file is closed", path)
		}
	}
	if n < 4 {
		r.Undecide("C09.HARDCLOSE: only %d HardClose call sites found (expected >= 4)", n)
	}
	// a pooled handle is handed out only after tryAcquire on it succeeded
	nPool := 0
	for _, fn := range p.Funcs {
		if fn.Body == nil || !fn.InPkgs(domainPkg) {
			continue
		}
		c := p.CFG(fn)
		inspectNoLit(fn.Body, func(x ast.Node) bool {
			rng, ok := x.(*ast.RangeStmt)
			if !ok || rng.Value == nil {
				return true
			}
			sel, ok := ast.Unparen(rng.X).(*ast.SelectorExpr)
			if !ok || sel.Sel.Name != "open" {
				return true
			}
			v := objOf(fn, rng.Value)
			if v == nil {
				return true
			}
			var rets []Point
			for _, ex := range c.Exits() {
				if ex.Return == nil || ex.Return.Pos() < rng.Body.Pos() || ex.Return.End() > rng.Body.End() {
					continue
				}
				mentions := false
				for _, res := range ex.Return.Results {
					ast.Inspect(res, func(y ast.Node) bool {
						if id, ok := y.(*ast.Ident); ok && objOf(fn, id) == v {
							// v.fileKey next to &v is fine; what matters is that the handle itself leaves
							mentions = true
						}
						return true
					})
				}
				if mentions {
					rets = append(rets, ex.P)
				}
			}
			if len(rets) == 0 {
				return true
			}
			nPool++
			acquired := c.EdgesEstablishing(func(atom ast.Expr, val bool) bool {
				call, ok := ast.Unparen(atom).(*ast.CallExpr)
				if !ok || !val {
					return false
				}
				s2, ok := ast.Unparen(call.Fun).(*ast.SelectorExpr)
				return ok && s2.Sel.Name == "tryAcquire" && objOf(fn, s2.X) == v
			})
			var path []string
			for _, b := range c.G.Blocks {
				if b.Stmt == ast.Stmt(rng) && b.Kind.String() == "RangeBody" {
					q, vis := c.ReachAvoiding([]Point{{b, -1}}, acquired, nil)
					for _, rp := range rets {
						if vis[rp] {
							path = q.PathTo(rp)
						}
					}
				}
			}
			r.ObPath("C09.HARDCLOSE", fn.Name+" hands out a pooled handle only after acquiring it", posOf(p, rng), len(acquired) > 0 && path == nil,
				"two users of one file handle: their offsets and writes interleave", path)
			return true
		})
	}
	if nPool < 2 {
		r.Undecide("C09.HARDCLOSE: only %d pool hand-out loops found (expected >= 2)", nPool)
	}
}
