package main

import (
	"fmt"
	"go/ast"
	"go/types"
	"sort"
)

// ---------------------------------------------------------------------------------
// E11: error discipline. In the packages a property anchors, no error returned by a call
// is discarded - neither by calling without binding the results nor by binding the error
// to the blank identifier - except at the tabled sites. The accepted idioms were
// enumerated from what the code does everywhere else (propagate, wrap, combine, test).
// A swallowed error from the storage, index, transport or table layer makes a failed
// step look successful, which breaks each property's "failed operations change nothing /
// are reported" clause for the inputs on which that step fails.
// ---------------------------------------------------------------------------------

// errDropAllowed is keyed "function -> callee".
var errDropAllowed = map[string]string{
	// tracing: EndWith returns the error it was given (already held by the caller)
	"index.(*Domain).Distance$1 -> EndWith":      "span.EndWith echoes the caller's own error",
	"index.(*Domain).Stamp$1 -> EndWith":         "span.EndWith echoes the caller's own error",
	"index.(*Domain).backwardStamp$1 -> EndWith": "span.EndWith echoes the caller's own error",
	"pledge.(*responsible).propose$1 -> EndWith": "span.EndWith echoes the caller's own error",
	"pledge.(*juror).verdict$1 -> EndWith":       "span.EndWith echoes the caller's own error",
	"alamos.Middleware$1 -> EndWith":             "span.EndWith echoes the caller's own error",
	// boolean command results: the error is retrievable through Error()
	"cesium.(*Iterator).Valid -> execErr":                   "Valid reports a boolean; the error stays retrievable through Error()",
	"cesium.(*Iterator).exec -> execErr":                    "exec reports a boolean; the error stays retrievable through Error()",
	"iterator.(*Iterator).exec -> execErr":                  "exec reports a boolean; the error stays retrievable through Error()",
	"cesium.(*streamWriter).close -> updateDBControl":       "best-effort control digest on close; the close error is what the caller needs",
	"kv.(*feedbackSender).send -> Node":                     "a sender unknown to the cluster view yields the zero node and the feedback is dropped by the transport",
	"gorp.(*SortedIndex).Filter$1 -> Get":                   "the filter's Keys closure cannot return an error; a failed populate is reported by the query's Exec through the same index",
	"relay.(*tapper).Flow -> tapInto":                       "opening the free-channel tap on the local node cannot fail with a transport error",
	"framer.(*controlStateSender).Flow -> SendUnderContext": "initial control-state frame is best effort; context cancellation ends the flow right after",
}

func checkErrDrop(r *Run, p *Prog, rule string, scope func(*FuncNode) bool, min int) {
	type site struct{ key, pos, how string }
	var sites []site
	total := 0
	for _, fn := range p.Funcs {
		if fn.Body == nil || !scope(fn) {
			continue
		}
		report := func(call *ast.CallExpr, how string) {
			name := "?"
			if f := CalleeFunc(fn, call); f != nil {
				name = f.Name()
			} else if sel, ok := ast.Unparen(call.Fun).(*ast.SelectorExpr); ok {
				name = sel.Sel.Name
			}
			sites = append(sites, site{fn.Name + " -> " + name, posOf(p, call), how})
		}
		returnsErr := func(call *ast.CallExpr) (int, bool) {
			tv, ok := fn.Pkg.TypesInfo.Types[call]
			if !ok || tv.Type == nil {
				return 0, false
			}
			switch t := tv.Type.(type) {
			case *types.Tuple:
				for i := 0; i < t.Len(); i++ {
					if isErrorType(t.At(i).Type()) {
						return i, true
					}
				}
			default:
				if isErrorType(t) {
					return 0, true
				}
			}
			return 0, false
		}
		inspectNoLit(fn.Body, func(x ast.Node) bool {
			switch st := x.(type) {
			case *ast.ExprStmt:
				if call, ok := ast.Unparen(st.X).(*ast.CallExpr); ok {
					total++
					if _, isErr := returnsErr(call); isErr && !errDropExcludedCallee(fn, call) {
						report(call, "result not bound")
					}
				}
			case *ast.AssignStmt:
				if len(st.Rhs) == 1 {
					if call, ok := ast.Unparen(st.Rhs[0]).(*ast.CallExpr); ok {
						total++
						if idx, isErr := returnsErr(call); isErr && idx < len(st.Lhs) {
							if id, ok := st.Lhs[idx].(*ast.Ident); ok && id.Name == "_" && !errDropExcludedCallee(fn, call) {
								report(call, "error bound to _")
							}
						} else if isErr && len(st.Lhs) == 1 {
							if id, ok := st.Lhs[0].(*ast.Ident); ok && id.Name == "_" && !errDropExcludedCallee(fn, call) {
								report(call, "error bound to _")
							}
						}
					}
				}
			}
			return true
		})
	}
	sort.Slice(sites, func(i, j int) bool { return sites[i].key < sites[j].key })
	seen := map[string]int{}
	for _, s := range sites {
		reason, ok := errDropAllowed[s.key]
		key := "discarded error: " + s.key
		seen[key]++
		if seen[key] > 1 {
			key = fmt.Sprintf("%s #%d", key, seen[key])
		}
		if ok {
			r.ObTrivial(rule, key, s.pos, true, "tabled: "+reason)
		} else {
			r.Ob(rule, key, s.pos, false, s.how+": a failure of this step is invisible to the caller")
		}
	}
	// E11b: an error replaced inside its own non-nil branch. "if err != nil { err = f() }"
	// with an f that does not take err loses the failure: the caller sees f's result.
	nBranches := 0
	for _, fn := range p.Funcs {
		if fn.Body == nil || !scope(fn) {
			continue
		}
		inspectNoLit(fn.Body, func(x ast.Node) bool {
			ifs, ok := x.(*ast.IfStmt)
			if !ok {
				return true
			}
			o, trueMeansNil, isCmp := nilCompare(fn, ifs.Cond)
			if !isCmp || trueMeansNil || !isErrorType(o.Type()) {
				return true
			}
			nBranches++
			// the failure was classified earlier in the branch: "if !errors.Is(err, X) {
			// return err }" hands every other class on, what is left is the one class the
			// branch recovers from, and replacing it is the recovery
			classified := false
			for _, st := range ifs.Body.List {
				if inner, isIf := st.(*ast.IfStmt); isIf && exprMentions(fn, inner.Cond, o) && len(inner.Body.List) > 0 {
					switch inner.Body.List[len(inner.Body.List)-1].(type) {
					case *ast.ReturnStmt, *ast.BranchStmt:
						classified = true
					}
				}
				as, ok := st.(*ast.AssignStmt)
				if !ok || classified {
					continue
				}
				for i, l := range as.Lhs {
					if objOf(fn, l) != o || as.Tok.String() != "=" {
						continue
					}
					var rhs ast.Expr
					if len(as.Lhs) == len(as.Rhs) {
						rhs = as.Rhs[i]
					} else if len(as.Rhs) == 1 {
						rhs = as.Rhs[0]
					}
					if rhs == nil || exprMentions(fn, rhs, o) || isNilIdent(fn, rhs) {
						continue
					}
					key := "error replaced in its own failure branch: " + fn.Name + " (" + o.Name() + " = " + types.ExprString(rhs) + ")"
					if reason, ok := errDropAllowed[key]; ok {
						r.ObTrivial(rule, key, posOf(p, as), true, "tabled: "+reason)
					} else {
						r.Ob(rule, key, posOf(p, as), false, "the failure that took this branch is overwritten by the result of "+types.ExprString(rhs)+" (usually nil): the caller is told the step succeeded")
					}
				}
			}
			return true
		})
	}
	// E11c: an error accumulated over a loop. A variable of type error declared outside a
	// loop and assigned inside it must only receive values known to be non-nil at that
	// point (the assignment sits in the body of "if x != nil" for the assigned x, or it
	// combines the accumulator with the new value): an unconditional "acc = err" lets a
	// later successful iteration erase an earlier failure.
	nAcc := 0
	for _, fn := range p.Funcs {
		if fn.Body == nil || !scope(fn) {
			continue
		}
		var stack []ast.Node
		ast.Inspect(fn.Body, func(x ast.Node) bool {
			if x == nil {
				stack = stack[:len(stack)-1]
				return true
			}
			if _, isLit := x.(*ast.FuncLit); isLit {
				return false
			}
			stack = append(stack, x)
			as, ok := x.(*ast.AssignStmt)
			if !ok || as.Tok.String() != "=" {
				return true
			}
			// innermost enclosing loop
			var loop ast.Node
			for i := len(stack) - 1; i >= 0; i-- {
				switch stack[i].(type) {
				case *ast.ForStmt, *ast.RangeStmt:
					loop = stack[i]
				}
				if loop != nil {
					break
				}
			}
			if loop == nil {
				return true
			}
			for i, l := range as.Lhs {
				acc := objOf(fn, l)
				if acc == nil || !isErrorType(acc.Type()) || (acc.Pos() >= loop.Pos() && acc.Pos() <= loop.End()) {
					continue
				}
				if _, isIdent := ast.Unparen(l).(*ast.Ident); !isIdent {
					continue
				}
				var rhs ast.Expr
				if len(as.Lhs) == len(as.Rhs) {
					rhs = as.Rhs[i]
				}
				if rhs == nil {
					continue // multi-value call: err reused as a plain call result, judged by the other rules
				}
				if _, isCall := ast.Unparen(rhs).(*ast.CallExpr); isCall && !exprMentions(fn, rhs, acc) {
					// acc = f(): a plain reuse of the variable as a call result
					if ro := objOf(fn, rhs); ro == nil {
						continue
					}
				}
				ro := objOf(fn, rhs)
				if ro == nil || ro == acc {
					continue
				}
				if !isErrorType(ro.Type()) {
					continue
				}
				nAcc++
				known := exprMentions(fn, rhs, acc)
				for k := len(stack) - 1; k >= 0 && !known; k-- {
					if stack[k] == loop {
						break
					}
					// a later clause of a tagless switch whose earlier clause is "x == nil"
					if sw, ok := stack[k].(*ast.SwitchStmt); ok && sw.Tag == nil {
						sawNil := false
						for _, cc := range sw.Body.List {
							clause := cc.(*ast.CaseClause)
							inClause := false
							for _, st := range clause.Body {
								if contains(st, as) {
									inClause = true
								}
							}
							if inClause && sawNil {
								known = true
							}
							for _, ce := range clause.List {
								if o, trueMeansNil, isCmp := nilCompare(fn, ce); isCmp && o == ro && trueMeansNil && len(clause.List) == 1 {
									sawNil = true
								}
							}
						}
					}
					if ifs, ok := stack[k].(*ast.IfStmt); ok && contains(ifs.Body, as) {
						for _, atom := range conjuncts(ifs.Cond) {
							if o, trueMeansNil, isCmp := nilCompare(fn, atom); isCmp && o == ro && !trueMeansNil {
								known = true
							}
						}
					}
				}
				key := "error accumulated over a loop: " + fn.Name + " (" + acc.Name() + " = " + ro.Name() + ")"
				r.Ob(rule, key, posOf(p, as), known, "the accumulator is overwritten by a value that may be nil: a later successful iteration erases the failure of an earlier one")
			}
			return true
		})
	}
	r.Stats["errdrop_accumulators_"+rule] = nAcc
	r.Stats["errdrop_branches_"+rule] = nBranches
	r.Ob(rule, "every other call in scope binds and uses its error", "", true, fmt.Sprintf("%d call statements and %d failure branches examined", total, nBranches))
	r.Stats["errdrop_calls_"+rule] = total
	if total < min {
		r.Undecide("%s: only %d call statements examined (expected >= %d)", rule, total, min)
	}
	checkErrFlow(r, p, rule, scope, min/20)
}

// errDropExcludedCallee: callees whose error result is conventionally meaningless
// (writes to in-memory buffers, hash writers) - the same default exclusions errcheck uses.
func errDropExcludedCallee(fn *FuncNode, call *ast.CallExpr) bool {
	f := CalleeFunc(fn, call)
	if f == nil || f.Pkg() == nil {
		return false
	}
	switch f.Pkg().Path() {
	case "fmt":
		return true
	case "bytes", "strings", "hash", "hash/fnv", "hash/crc32", "math/rand":
		return true
	}
	return false
}
