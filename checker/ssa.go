package main

import (
	"go/ast"
	"go/token"

	"golang.org/x/tools/go/callgraph"
	"golang.org/x/tools/go/callgraph/cha"
	"golang.org/x/tools/go/callgraph/vta"
	"golang.org/x/tools/go/packages"
	"golang.org/x/tools/go/ssa"
	"golang.org/x/tools/go/ssa/ssautil"
)

// SSAInfo holds the SSA program and the VTA call graph (the most precise one available
// with x/tools v0.29.0: there is no pointer analysis package).
type SSAInfo struct {
	Prog    *ssa.Program
	Graph   *callgraph.Graph
	bySite  map[token.Pos][]*FuncNode // call Lparen -> repository callees
	hasSite map[token.Pos]bool
	byDecl  map[ast.Node]*FuncNode
	FnOf    map[*FuncNode]*ssa.Function
}

// BuildSSA builds SSA for the whole loaded program and a VTA call graph seeded by CHA.
func (p *Prog) BuildSSA() *SSAInfo {
	if p.ssa != nil {
		return p.ssa
	}
	var roots []*packages.Package
	for _, pk := range p.All {
		roots = append(roots, pk)
	}
	prog, _ := ssautil.AllPackages(roots, ssa.InstantiateGenerics)
	prog.Build()
	all := ssautil.AllFunctions(prog)
	g := vta.CallGraph(all, cha.CallGraph(prog))
	si := &SSAInfo{Prog: prog, Graph: g, bySite: map[token.Pos][]*FuncNode{}, hasSite: map[token.Pos]bool{}, byDecl: map[ast.Node]*FuncNode{}, FnOf: map[*FuncNode]*ssa.Function{}}
	for _, fn := range p.Funcs {
		if fn.Decl != nil {
			si.byDecl[fn.Decl] = fn
		} else {
			si.byDecl[fn.Lit] = fn
		}
	}
	for f := range all {
		if syn := f.Syntax(); syn != nil {
			if n, ok := si.byDecl[syn]; ok {
				if _, dup := si.FnOf[n]; !dup || f.Origin() == nil {
					si.FnOf[n] = f
				}
			}
		}
	}
	for _, node := range g.Nodes {
		for _, e := range node.Out {
			if e.Site == nil {
				continue
			}
			pos := e.Site.Common().Pos()
			if pos == token.NoPos {
				continue
			}
			si.hasSite[pos] = true
			callee := e.Callee.Func
			syn := callee.Syntax()
			if syn == nil && callee.Origin() != nil {
				syn = callee.Origin().Syntax()
			}
			if syn == nil {
				continue
			}
			if n, ok := si.byDecl[syn]; ok {
				dup := false
				for _, x := range si.bySite[pos] {
					if x == n {
						dup = true
					}
				}
				if !dup {
					si.bySite[pos] = append(si.bySite[pos], n)
				}
			}
		}
	}
	p.ssa = si
	return si
}

// CalleesAt returns the repository functions the call may reach according to VTA, and
// whether the call site is known to the graph at all.
func (si *SSAInfo) CalleesAt(call *ast.CallExpr) ([]*FuncNode, bool) {
	return si.bySite[call.Lparen], si.hasSite[call.Lparen]
}
