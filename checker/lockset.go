package main

import (
	"fmt"
	"go/ast"
	"go/token"
	"go/types"
	"os"
	"sort"
	"strings"

	"golang.org/x/tools/go/cfg"
)

// ---------------------------------------------------------------------------------
// E2 lockset: PAIR / GUARD / ORDER over sync.Mutex and sync.RWMutex.
// Lock identity inside a function is the access path of the mutex owner ("idx.mu",
// "fc.writers", "f"); across functions it is the lock class: the named type that
// (transitively) holds the mutex plus the field path to it.
// ---------------------------------------------------------------------------------

type Mode int

const (
	ModeR Mode = 1
	ModeW Mode = 2
)

func (m Mode) String() string {
	if m == ModeW {
		return "W"
	}
	return "R"
}

type held struct {
	Expr     string
	Class    string
	Mode     Mode
	Deferred bool // a deferred unlock is registered: released at function exit
	Pos      token.Pos
}

func (h held) key() string { return h.Expr + "|" + h.Mode.String() }

type lockState struct {
	must map[string]held
	may  map[string]held
}

func newLockState() lockState { return lockState{map[string]held{}, map[string]held{}} }

func (s lockState) clone() lockState {
	n := newLockState()
	for k, v := range s.must {
		n.must[k] = v
	}
	for k, v := range s.may {
		n.may[k] = v
	}
	return n
}

func (s lockState) equal(o lockState) bool {
	if len(s.must) != len(o.must) || len(s.may) != len(o.may) {
		return false
	}
	for k, v := range s.must {
		if w, ok := o.must[k]; !ok || w.Deferred != v.Deferred {
			return false
		}
	}
	for k, v := range s.may {
		if w, ok := o.may[k]; !ok || w.Deferred != v.Deferred {
			return false
		}
	}
	return true
}

// merge joins another predecessor state into s (must: intersection, may: union).
func (s *lockState) merge(o lockState) {
	for k, v := range s.must {
		w, ok := o.must[k]
		if !ok {
			delete(s.must, k)
			continue
		}
		if !w.Deferred {
			v.Deferred = false
			s.must[k] = v
		}
	}
	for k, v := range o.may {
		if w, ok := s.may[k]; ok {
			if !v.Deferred {
				w.Deferred = false
				s.may[k] = w
			}
			continue
		}
		s.may[k] = v
	}
}

// holdsClass reports whether a lock of the class (or of one of the "|"-separated
// alternative classes) is held on every path in at least the given mode.
func (s lockState) holdsClass(class string, mode Mode) bool {
	for _, alt := range strings.Split(class, "|") {
		for _, h := range s.must {
			if h.Class == alt && h.Mode >= mode {
				return true
			}
		}
	}
	return false
}

// GuardSpec says which lock classes protect one struct field.
type GuardSpec struct {
	Field    *types.Var
	Name     string   // class of the field, e.g. cesium/internal/domain.index.mu.pointers
	ReadAny  []string // a read needs one of these classes held (R or W)
	WriteAll []string // a write needs all of these held in W mode
	Reason   string
}

type reqKey struct {
	Class string
	Mode  Mode
}

type reqWitness struct {
	Pos    token.Pos
	What   string    // "reads field X" or "calls f"
	Callee *FuncNode // nil for a direct access
	Field  *GuardSpec
	Fn     *FuncNode
}

type acqWitness struct {
	Pos token.Pos
	Via string
}

type lockSummary struct {
	Requires     map[reqKey][]*reqWitness // sites in this function that need the class while it is not held here
	Acquires     map[string]acqWitness    // lock classes acquired in the body or (transitively) in callees
	InvokesParam map[int][]held           // param index -> locks held (must) whenever the parameter is called
	ReturnsHeld  []held                   // acquire-and-return-releaser idiom
}

type orderEdge struct {
	From, To string
	Pos      token.Pos
	Fn       *FuncNode
	Via      string
	FromMode Mode
}

type pairFinding struct {
	Fn     *FuncNode
	Pos    token.Pos
	Class  string
	Expr   string
	Kind   string // leak | unheld-unlock
	Detail string
}

type accessSite struct {
	Fn    *FuncNode
	Pos   token.Pos
	Spec  *GuardSpec
	Write bool
	Held  bool
}

type LockAnalysis struct {
	P        *Prog
	Guards   map[*types.Var]*GuardSpec
	InScope  func(*FuncNode) bool
	Sum      map[*FuncNode]*lockSummary
	Prev     map[*FuncNode]*lockSummary
	litEntry map[*FuncNode]lockState
	litSeen  map[*FuncNode]bool // literal has a known calling context
	callers  map[*FuncNode][]callerSite
	rootRef  map[*FuncNode]bool // referenced as a value / go target: callers unknown
	impls    map[*types.Func][]*FuncNode
	report   bool
	changed  bool

	Acqs []acqSite
	// CallStates is the must-lockset immediately before each call (intersection over
	// the contexts a literal is analysed in).
	CallStates map[*ast.CallExpr]map[string]held
	NodeStates map[ast.Node]map[string]held
	isEntry    func(*FuncNode) bool
	Dead       map[string]bool // internal functions that need a lock but have no caller: unreachable
	Edges      []orderEdge
	Pairs      []pairFinding
	Accesses   []accessSite
	LockOps    int
	Unknown    []string
	// ExemptFresh: accesses through a local variable that was allocated in the same
	// function (constructor before publication) are exempt.
	funcsAnalysed int
}

type acqSite struct {
	Fn    *FuncNode
	Class string
	Pos   token.Pos
}

type callerSite struct {
	Caller *FuncNode
	Pos    token.Pos
	Held   lockState
	Fresh  bool // the receiver is an object allocated in the caller and not yet published
}

func isSyncMutexMethod(f *types.Func) (op string, ok bool) {
	if f == nil || f.Pkg() == nil || f.Pkg().Path() != "sync" {
		return "", false
	}
	sig, _ := f.Type().(*types.Signature)
	if sig == nil || sig.Recv() == nil {
		return "", false
	}
	t := sig.Recv().Type()
	if p, ok := t.(*types.Pointer); ok {
		t = p.Elem()
	}
	n, ok2 := t.(*types.Named)
	if !ok2 || (n.Obj().Name() != "Mutex" && n.Obj().Name() != "RWMutex") {
		return "", false
	}
	switch f.Name() {
	case "Lock", "Unlock", "RLock", "RUnlock", "TryLock", "TryRLock":
		return f.Name(), true
	}
	return "", false
}

func derefNamed(t types.Type) (*types.Named, bool) {
	for {
		switch x := t.(type) {
		case *types.Pointer:
			t = x.Elem()
			continue
		case *types.Alias:
			t = types.Unalias(x)
			continue
		case *types.Named:
			return x, true
		}
		return nil, false
	}
}

func isMutexType(t types.Type) bool {
	n, ok := derefNamed(t)
	if !ok || n.Obj().Pkg() == nil {
		return false
	}
	return n.Obj().Pkg().Path() == "sync" && (n.Obj().Name() == "Mutex" || n.Obj().Name() == "RWMutex")
}

func namedClass(n *types.Named) string {
	o := n.Origin().Obj()
	if o.Pkg() == nil {
		return o.Name()
	}
	return trimMod(o.Pkg().Path()) + "." + o.Name()
}

// classOfExpr computes the class of the object denoted by e: the named type that owns
// it and the field path below that type. ok is false if no named owner is found.
func classOfExpr(fn *FuncNode, e ast.Expr) (string, bool) {
	info := fn.Pkg.TypesInfo
	e = ast.Unparen(e)
	t := info.TypeOf(e)
	if t != nil && !isMutexType(t) {
		if n, ok := derefNamed(t); ok {
			return namedClass(n), true
		}
	}
	switch x := e.(type) {
	case *ast.SelectorExpr:
		sel := info.Selections[x]
		if sel == nil || sel.Kind() != types.FieldVal {
			return "", false
		}
		owner, ok := classOfExpr(fn, x.X)
		if !ok {
			return "", false
		}
		// implicit embedded hops: the owner class is that of the innermost embedded struct
		path := sel.Index()
		cur := info.TypeOf(x.X)
		for i := 0; i < len(path)-1; i++ {
			st := structOf(cur)
			if st == nil {
				return "", false
			}
			f := st.Field(path[i])
			cur = f.Type()
			if n, ok := derefNamed(cur); ok {
				owner = namedClass(n)
			} else {
				owner = owner + "." + f.Name()
			}
		}
		return owner + "." + sel.Obj().Name(), true
	case *ast.IndexExpr:
		return classOfExpr(fn, x.X)
	case *ast.StarExpr:
		return classOfExpr(fn, x.X)
	case *ast.UnaryExpr:
		if x.Op == token.AND {
			return classOfExpr(fn, x.X)
		}
	case *ast.Ident:
		if o := objOf(fn, x); o != nil {
			return "local:" + fn.Top().Name + ":" + o.Name(), true
		}
	}
	return "", false
}

func structOf(t types.Type) *types.Struct {
	for {
		switch x := t.(type) {
		case *types.Pointer:
			t = x.Elem()
		case *types.Named:
			t = x.Underlying()
		case *types.Alias:
			t = types.Unalias(x)
		case *types.Struct:
			return x
		default:
			return nil
		}
	}
}

// lockOp recognises X.Lock()/RLock()/Unlock()/RUnlock() on a sync mutex (direct field,
// embedded in a named struct, or embedded in an anonymous struct field).
func (la *LockAnalysis) lockOp(fn *FuncNode, call *ast.CallExpr) (op string, h held, ok bool) {
	f, _ := Callee(fn, call).(*types.Func)
	op, ok = isSyncMutexMethod(f)
	if !ok {
		return "", held{}, false
	}
	sel, isSel := ast.Unparen(call.Fun).(*ast.SelectorExpr)
	if !isSel {
		return "", held{}, false
	}
	return op, la.lockRef(fn, sel.X, op), true
}

func (la *LockAnalysis) lockRef(fn *FuncNode, x ast.Expr, op string) held {
	class, okc := classOfExpr(fn, x)
	if !okc {
		class = "unknown:" + types.ExprString(x)
		la.Unknown = append(la.Unknown, fmt.Sprintf("%s: lock owner %s has no named class", la.P.Position(x.Pos()), types.ExprString(x)))
	}
	mode := ModeW
	if strings.HasPrefix(op, "R") || op == "TryRLock" {
		mode = ModeR
	}
	return held{Expr: types.ExprString(ast.Unparen(x)), Class: class, Mode: mode, Pos: x.Pos()}
}

// fieldVar returns the (origin) field object selected by sel, if it selects a field.
func fieldVar(fn *FuncNode, sel *ast.SelectorExpr) *types.Var {
	if s := fn.Pkg.TypesInfo.Selections[sel]; s != nil {
		if s.Kind() == types.FieldVal {
			if v, ok := s.Obj().(*types.Var); ok {
				return v.Origin()
			}
		}
		return nil
	}
	return nil
}

func NewLockAnalysis(p *Prog, inScope func(*FuncNode) bool) *LockAnalysis {
	la := &LockAnalysis{P: p, Guards: map[*types.Var]*GuardSpec{}, InScope: inScope, Sum: map[*FuncNode]*lockSummary{},
		litEntry: map[*FuncNode]lockState{}, litSeen: map[*FuncNode]bool{}, callers: map[*FuncNode][]callerSite{}, rootRef: map[*FuncNode]bool{}, impls: map[*types.Func][]*FuncNode{}}
	return la
}

// Guard registers a guarded field found by walking fieldPath from the named type.
// fieldPath uses dots for nested anonymous structs ("mu.pointers").
func (la *LockAnalysis) Guard(pkgShort, typeName, fieldPath string, readAny, writeAll []string, reason string) error {
	pk := la.P.Pkg(pkgShort)
	if pk == nil {
		return fmt.Errorf("package %s not loaded", pkgShort)
	}
	tn, ok := pk.Types.Scope().Lookup(typeName).(*types.TypeName)
	if !ok {
		return fmt.Errorf("type %s.%s not found", pkgShort, typeName)
	}
	var cur types.Type = tn.Type()
	var v *types.Var
	for _, part := range strings.Split(fieldPath, ".") {
		st := structOf(cur)
		if st == nil {
			return fmt.Errorf("%s.%s: %s is not a struct on path %s", pkgShort, typeName, part, fieldPath)
		}
		v = nil
		for i := 0; i < st.NumFields(); i++ {
			if st.Field(i).Name() == part {
				v = st.Field(i)
			}
		}
		if v == nil {
			return fmt.Errorf("field %s not found in %s.%s (path %s)", part, pkgShort, typeName, fieldPath)
		}
		cur = v.Type()
	}
	la.Guards[v.Origin()] = &GuardSpec{Field: v.Origin(), Name: pkgShort + "." + typeName + "." + fieldPath, ReadAny: readAny, WriteAll: writeAll, Reason: reason}
	return nil
}

// calleeNodes resolves a call to the repository functions it may run: the static callee,
// the implementers of an interface method (CHA over the loaded repository packages), a
// local closure variable, or the literal(s) returned by a called constructor.
func (la *LockAnalysis) calleeNodes(fn *FuncNode, call *ast.CallExpr) []*FuncNode {
	fun := ast.Unparen(call.Fun)
	if lit, ok := fun.(*ast.FuncLit); ok {
		if n := la.P.LitNode(lit); n != nil {
			return []*FuncNode{n}
		}
	}
	switch o := Callee(fn, call).(type) {
	case *types.Func:
		o = o.Origin()
		if n, ok := la.P.ByObj[o]; ok {
			return []*FuncNode{n}
		}
		sig, _ := o.Type().(*types.Signature)
		if sig != nil && sig.Recv() != nil {
			if _, isIface := sig.Recv().Type().Underlying().(*types.Interface); isIface {
				if la.P.ssa != nil {
					if cs, known := la.P.ssa.CalleesAt(call); known {
						return cs
					}
				}
				return la.implementers(o)
			}
		}
		return nil
	case *types.Var:
		// local closure variable: x := func(){...}; x()   or   x := mk(...); x()
		if ts := la.closureTargets(fn, o); len(ts) > 0 {
			return ts
		}
		if _, isParam := la.paramIndex(fn, o); isParam {
			return nil // handled by the invokes-parameter summary
		}
		// function-typed field or variable: value flow resolved by VTA
		if la.P.ssa != nil {
			if cs, known := la.P.ssa.CalleesAt(call); known {
				return cs
			}
		}
	}
	return nil
}

func (la *LockAnalysis) paramIndex(fn *FuncNode, o types.Object) (int, bool) {
	if fn.Type.Params == nil {
		return 0, false
	}
	i := 0
	for _, f := range fn.Type.Params.List {
		if len(f.Names) == 0 {
			i++
			continue
		}
		for _, nm := range f.Names {
			if fn.Pkg.TypesInfo.Defs[nm] == o {
				return i, true
			}
			i++
		}
	}
	return 0, false
}

func (la *LockAnalysis) closureTargets(fn *FuncNode, v *types.Var) []*FuncNode {
	var out []*FuncNode
	top := fn.Top()
	var scan func(f *FuncNode)
	scan = func(f *FuncNode) {
		ast.Inspect(f.Body, func(n ast.Node) bool {
			as, ok := n.(*ast.AssignStmt)
			if !ok || len(as.Lhs) != len(as.Rhs) {
				return true
			}
			for i, l := range as.Lhs {
				id, ok := l.(*ast.Ident)
				if !ok {
					continue
				}
				o := f.Pkg.TypesInfo.Defs[id]
				if o == nil {
					o = f.Pkg.TypesInfo.Uses[id]
				}
				if o != v {
					continue
				}
				switch r := ast.Unparen(as.Rhs[i]).(type) {
				case *ast.FuncLit:
					if n := la.P.LitNode(r); n != nil {
						out = append(out, n)
					}
				case *ast.CallExpr:
					for _, c := range la.calleeNodes(f, r) {
						out = append(out, la.returnedLits(c)...)
					}
				}
			}
			return true
		})
	}
	scan(top)
	return out
}

// returnedLits lists the function literals that fn returns directly.
func (la *LockAnalysis) returnedLits(fn *FuncNode) []*FuncNode {
	var out []*FuncNode
	inspectNoLit(fn.Body, func(n ast.Node) bool {
		r, ok := n.(*ast.ReturnStmt)
		if !ok {
			return true
		}
		for _, e := range r.Results {
			if l, ok := ast.Unparen(e).(*ast.FuncLit); ok {
				if ln := la.P.LitNode(l); ln != nil {
					out = append(out, ln)
				}
			}
		}
		return true
	})
	return out
}

func (la *LockAnalysis) implementers(m *types.Func) []*FuncNode {
	if v, ok := la.impls[m]; ok {
		return v
	}
	var out []*FuncNode
	sig := m.Type().(*types.Signature)
	iface, _ := sig.Recv().Type().Underlying().(*types.Interface)
	if iface != nil {
		for _, pk := range la.P.Repo {
			sc := pk.Types.Scope()
			for _, name := range sc.Names() {
				tn, ok := sc.Lookup(name).(*types.TypeName)
				if !ok || tn.IsAlias() {
					continue
				}
				named, ok := tn.Type().(*types.Named)
				if !ok {
					continue
				}
				if _, isI := named.Underlying().(*types.Interface); isI {
					continue
				}
				if named.TypeParams().Len() > 0 {
					// generic implementers: match by method name and arity (CHA-like over-approximation)
					for i := 0; i < named.NumMethods(); i++ {
						mm := named.Method(i)
						if mm.Name() == m.Name() {
							if n, ok := la.P.ByObj[mm.Origin()]; ok {
								out = append(out, n)
							}
						}
					}
					continue
				}
				for _, t := range []types.Type{named, types.NewPointer(named)} {
					if types.Implements(t, iface) {
						ms := types.NewMethodSet(t)
						if s := ms.Lookup(m.Pkg(), m.Name()); s != nil {
							if f, ok := s.Obj().(*types.Func); ok {
								if n, ok := la.P.ByObj[f.Origin()]; ok {
									out = append(out, n)
								}
							}
						}
						break
					}
				}
			}
		}
	}
	la.impls[m] = out
	return out
}

func (la *LockAnalysis) summary(fn *FuncNode) *lockSummary {
	s, ok := la.Sum[fn]
	if !ok {
		s = &lockSummary{Requires: map[reqKey][]*reqWitness{}, Acquires: map[string]acqWitness{}, InvokesParam: map[int][]held{}}
		la.Sum[fn] = s
	}
	return s
}

// Run computes summaries to a fixpoint and then makes one reporting pass.
func (la *LockAnalysis) Run() {
	var fns []*FuncNode
	for _, f := range la.P.Funcs {
		if la.InScope(f) {
			fns = append(fns, f)
		}
	}
	la.funcsAnalysed = len(fns)
	la.findValueRefs(fns)
	converged := false
	for iter := 0; iter < 40; iter++ {
		la.Prev = la.Sum
		la.Sum = map[*FuncNode]*lockSummary{}
		la.litSeen = map[*FuncNode]bool{}
		for _, f := range fns {
			la.analyzeFunc(f)
		}
		if la.Prev != nil && sumDigest(la.Sum) == sumDigest(la.Prev) {
			converged = true
			break
		}
	}
	if !converged {
		la.Unknown = append(la.Unknown, "lock summaries did not converge in 40 rounds")
	}
	unknown := la.Unknown
	la.Prev = la.Sum
	la.Sum = map[*FuncNode]*lockSummary{}
	la.litSeen = map[*FuncNode]bool{}
	la.report = true
	la.Edges, la.Pairs, la.Accesses, la.Unknown, la.LockOps, la.Acqs = nil, nil, nil, nil, 0, nil
	la.callers = map[*FuncNode][]callerSite{}
	for _, f := range fns {
		la.analyzeFunc(f)
	}
	la.Unknown = dedupStrings(append(unknown, la.Unknown...))
}

func dedupStrings(in []string) []string {
	seen := map[string]bool{}
	var out []string
	for _, s := range in {
		if !seen[s] {
			seen[s] = true
			out = append(out, s)
		}
	}
	sort.Strings(out)
	return out
}

// calleeSummary is the summary of a callee as known from the previous round (or from
// this round for closures, which are analysed at their call site first).
func (la *LockAnalysis) calleeSummary(c *FuncNode) *lockSummary {
	if c.Lit != nil {
		if s, ok := la.Sum[c]; ok {
			return s
		}
	}
	if la.Prev != nil {
		if s, ok := la.Prev[c]; ok {
			return s
		}
	}
	return &lockSummary{Requires: map[reqKey][]*reqWitness{}, Acquires: map[string]acqWitness{}, InvokesParam: map[int][]held{}}
}

func sumDigest(m map[*FuncNode]*lockSummary) string {
	var lines []string
	for fn, s := range m {
		var parts []string
		for k, ws := range s.Requires {
			if len(ws) > 0 {
				parts = append(parts, fmt.Sprintf("req:%s/%s/%d", k.Class, k.Mode, len(ws)))
			}
		}
		for c := range s.Acquires {
			parts = append(parts, "acq:"+c)
		}
		for i, hs := range s.InvokesParam {
			p := fmt.Sprintf("inv:%d", i)
			for _, h := range hs {
				p += ":" + h.key()
			}
			parts = append(parts, p)
		}
		for _, h := range s.ReturnsHeld {
			parts = append(parts, "ret:"+h.key())
		}
		if len(parts) == 0 {
			continue
		}
		sort.Strings(parts)
		lines = append(lines, fn.Name+fmt.Sprint(fn.Pos())+"{"+strings.Join(parts, ",")+"}")
	}
	sort.Strings(lines)
	return strings.Join(lines, "\n")
}

// findValueRefs marks functions used as values (method values, callbacks, go targets):
// their callers are unknown, so they must satisfy their own lock requirements.
func (la *LockAnalysis) findValueRefs(fns []*FuncNode) {
	for _, fn := range fns {
		callFuns := map[ast.Expr]bool{}
		ast.Inspect(fn.Body, func(n ast.Node) bool {
			switch x := n.(type) {
			case *ast.FuncLit:
				return false
			case *ast.GoStmt:
				for _, c := range la.calleeNodes(fn, x.Call) {
					la.rootRef[c] = true
				}
			case *ast.CallExpr:
				callFuns[ast.Unparen(x.Fun)] = true
				// a named function handed to a synchronous callee outside the repository
				// (slices.BinarySearchFunc(xs, v, cmp)) runs at this call site, like a
				// literal in the same position: its callers are known
				if la.syncExternalCall(fn, x) {
					for _, a := range x.Args {
						if id, g := la.funcValueArg(fn, a); g != nil {
							callFuns[id] = true
						}
					}
				}
			case *ast.SelectorExpr:
				isCall := callFuns[x]
				callFuns[x.Sel] = true
				if !isCall {
					if f, ok := fn.Pkg.TypesInfo.Uses[x.Sel].(*types.Func); ok {
						if n, ok := la.P.ByObj[f.Origin()]; ok {
							la.rootRef[n] = true
						}
					}
				}
			case *ast.Ident:
				if !callFuns[x] {
					if f, ok := fn.Pkg.TypesInfo.Uses[x].(*types.Func); ok {
						if n, ok := la.P.ByObj[f.Origin()]; ok {
							la.rootRef[n] = true
						}
					}
				}
			}
			return true
		})
	}
}

func (la *LockAnalysis) analyzeFunc(fn *FuncNode) {
	if fn.Lit != nil {
		// literals are analysed from their creation context; one that was never seen
		// there (stored, returned) runs with nothing held.
		if la.litSeen[fn] {
			return
		}
		la.analyzeBody(fn, newLockState(), false)
		return
	}
	la.analyzeBody(fn, newLockState(), false)
}

type bodyCtx struct {
	la     *LockAnalysis
	fn     *FuncNode
	inline bool
	params map[types.Object]int
}

// analyzeBody runs the forward dataflow over fn's body from the given entry state and
// returns the merged state at normal exits (deferred releases applied).
func (la *LockAnalysis) analyzeBody(fn *FuncNode, entry lockState, inline bool) lockState {
	c := la.P.CFG(fn)
	bc := &bodyCtx{la: la, fn: fn, inline: inline, params: map[types.Object]int{}}
	if fn.Type.Params != nil {
		i := 0
		for _, f := range fn.Type.Params.List {
			if len(f.Names) == 0 {
				i++
				continue
			}
			for _, nm := range f.Names {
				if o := fn.Pkg.TypesInfo.Defs[nm]; o != nil {
					bc.params[o] = i
				}
				i++
			}
		}
	}
	in := map[*cfg.Block]lockState{}
	visited := map[*cfg.Block]bool{}
	blocks := c.G.Blocks
	in[blocks[0]] = entry.clone()
	visited[blocks[0]] = true
	work := []*cfg.Block{blocks[0]}
	outStates := map[*cfg.Block]lockState{}
	// fixpoint without reporting
	saveReport := la.report
	la.report = false
	for len(work) > 0 {
		b := work[0]
		work = work[1:]
		st := in[b].clone()
		for _, n := range b.Nodes {
			bc.node(n, &st)
		}
		outStates[b] = st
		for _, s := range b.Succs {
			if !visited[s] {
				visited[s] = true
				in[s] = st.clone()
				work = append(work, s)
				continue
			}
			old := in[s]
			merged := old.clone()
			merged.merge(st)
			if !merged.equal(old) {
				in[s] = merged
				work = append(work, s)
			}
		}
	}
	la.report = saveReport
	// final pass over blocks in index order with the fixed in-states (reports once)
	exit := lockState{}
	haveExit := false
	for _, b := range blocks {
		if !visited[b] {
			continue
		}
		st := in[b].clone()
		for _, n := range b.Nodes {
			bc.node(n, &st)
			if r, ok := n.(*ast.ReturnStmt); ok {
				bc.atExit(r.Pos(), r, &st)
				es := releaseDeferred(st)
				if !haveExit {
					exit, haveExit = es, true
				} else {
					exit.merge(es)
				}
			}
		}
		if len(b.Succs) == 0 {
			isRet := false
			isPanic := false
			if len(b.Nodes) > 0 {
				last := b.Nodes[len(b.Nodes)-1]
				_, isRet = last.(*ast.ReturnStmt)
				if es, ok := last.(*ast.ExprStmt); ok {
					if call, ok := es.X.(*ast.CallExpr); ok {
						if bi, ok := Callee(fn, call).(*types.Builtin); ok && bi.Name() == "panic" {
							isPanic = true
						}
					}
				}
			}
			if !isRet && !isPanic {
				bc.atExit(fn.Body.Rbrace, nil, &st)
				es := releaseDeferred(st)
				if !haveExit {
					exit, haveExit = es, true
				} else {
					exit.merge(es)
				}
			}
		}
	}
	if !haveExit {
		return entry.clone()
	}
	return exit
}

func releaseDeferred(st lockState) lockState {
	n := newLockState()
	for k, v := range st.must {
		if !v.Deferred {
			n.must[k] = v
		}
	}
	for k, v := range st.may {
		if !v.Deferred {
			n.may[k] = v
		}
	}
	return n
}

// atExit checks the PAIR rule at a function exit: nothing acquired in this body may
// still be held without a deferred release, unless the function hands the releaser back.
func (bc *bodyCtx) atExit(pos token.Pos, ret *ast.ReturnStmt, st *lockState) {
	la := bc.la
	for _, h := range st.may {
		if h.Deferred || h.Pos == token.NoPos || strings.HasPrefix(h.Expr, "releaser:") {
			continue
		}
		if entryHeld(bc, h) {
			continue
		}
		// acquire-and-return-releaser idiom: "return v, x.mu.RUnlock"
		if ret != nil && returnsReleaser(bc.fn, ret, h) {
			s := la.summary(bc.fn)
			found := false
			for _, r := range s.ReturnsHeld {
				if r.key() == h.key() {
					found = true
				}
			}
			if !found {
				s.ReturnsHeld = append(s.ReturnsHeld, h)
				la.changed = true
			}
			continue
		}
		if la.report {
			la.Pairs = append(la.Pairs, pairFinding{Fn: bc.fn, Pos: pos, Class: h.Class, Expr: h.Expr, Kind: "leak",
				Detail: fmt.Sprintf("%s.%sLock() acquired at %s is still held at the exit at %s with no release on this path", h.Expr, map[Mode]string{ModeR: "R", ModeW: ""}[h.Mode], la.P.Position(h.Pos), la.P.Position(pos))})
		}
	}
}

// entryHeld reports whether h was part of the entry state (held by the caller / creator).
func entryHeld(bc *bodyCtx, h held) bool {
	if e, ok := bc.la.litEntry[bc.fn]; ok {
		if _, ok := e.may[h.key()]; ok {
			return true
		}
	}
	return false
}

func returnsReleaser(fn *FuncNode, ret *ast.ReturnStmt, h held) bool {
	want := "Unlock"
	if h.Mode == ModeR {
		want = "RUnlock"
	}
	for _, e := range ret.Results {
		if sel, ok := ast.Unparen(e).(*ast.SelectorExpr); ok && sel.Sel.Name == want {
			if types.ExprString(ast.Unparen(sel.X)) == h.Expr {
				return true
			}
		}
		// "return insert, finish" where finish := func(..) { ...; x.mu.Unlock() }
		if lit := returnedClosure(fn, e); lit != nil {
			found := false
			ast.Inspect(lit.Body, func(n ast.Node) bool {
				if call, ok := n.(*ast.CallExpr); ok {
					if sel, ok := ast.Unparen(call.Fun).(*ast.SelectorExpr); ok && sel.Sel.Name == want && types.ExprString(ast.Unparen(sel.X)) == h.Expr {
						found = true
					}
				}
				return true
			})
			if found {
				return true
			}
		}
	}
	return false
}

// returnedClosure resolves a returned expression to the function literal it denotes:
// the literal itself or a local variable defined once from a literal.
func returnedClosure(fn *FuncNode, e ast.Expr) *ast.FuncLit {
	switch x := ast.Unparen(e).(type) {
	case *ast.FuncLit:
		return x
	case *ast.Ident:
		if o := objOf(fn, x); o != nil {
			if rhs, _, ok := varDefinedBy(fn, o); ok {
				if l, ok := ast.Unparen(rhs).(*ast.FuncLit); ok {
					return l
				}
			}
		}
	}
	return nil
}

// node applies the transfer function of one graph node.
func (bc *bodyCtx) node(n ast.Node, st *lockState) {
	if bc.la.report {
		if bc.la.NodeStates == nil {
			bc.la.NodeStates = map[ast.Node]map[string]held{}
		}
		bc.la.NodeStates[n] = bc.la.recordState(bc.la.NodeStates[n], st)
	}
	switch x := n.(type) {
	case *ast.DeferStmt:
		bc.deferStmt(x, st)
		return
	case *ast.GoStmt:
		// arguments are evaluated now; the call runs elsewhere with nothing held
		for _, a := range x.Call.Args {
			bc.expr(a, st, false)
		}
		if lit, ok := ast.Unparen(x.Call.Fun).(*ast.FuncLit); ok {
			bc.litContext(lit, newLockState())
		}
		return
	case *ast.AssignStmt:
		for _, r := range x.Rhs {
			bc.expr(r, st, false)
		}
		for _, l := range x.Lhs {
			bc.expr(l, st, true)
		}
		return
	case *ast.IncDecStmt:
		bc.expr(x.X, st, true)
		return
	case *ast.ReturnStmt:
		for _, r := range x.Results {
			bc.expr(r, st, false)
		}
		// acquire-and-return-releaser through closures (index populate): the returned
		// closures run while the lock taken here is still held
		handsBack := false
		for _, h := range st.may {
			if !h.Deferred && h.Pos != token.NoPos && returnsReleaser(bc.fn, x, h) {
				handsBack = true
			}
		}
		if handsBack {
			for _, r := range x.Results {
				if lit := returnedClosure(bc.fn, r); lit != nil {
					entry := st.clone()
					for k, v := range entry.must {
						v.Deferred = true
						entry.must[k] = v
					}
					for k, v := range entry.may {
						v.Deferred = true
						entry.may[k] = v
					}
					if ln := bc.la.P.LitNode(lit); ln != nil {
						bc.la.litSeen[ln] = true
						bc.la.litEntry[ln] = entry
						bc.la.analyzeBody(ln, entry, false)
					}
				}
			}
		}
		return
	case *ast.ExprStmt:
		bc.expr(x.X, st, false)
		return
	case *ast.SendStmt:
		bc.expr(x.Chan, st, false)
		bc.expr(x.Value, st, false)
		return
	case *ast.DeclStmt:
		if gd, ok := x.Decl.(*ast.GenDecl); ok {
			for _, sp := range gd.Specs {
				if vs, ok := sp.(*ast.ValueSpec); ok {
					for _, v := range vs.Values {
						bc.expr(v, st, false)
					}
				}
			}
		}
		return
	case *ast.ValueSpec:
		for _, v := range x.Values {
			bc.expr(v, st, false)
		}
		return
	case ast.Expr:
		bc.expr(x, st, false)
		return
	case *ast.RangeStmt, *ast.EmptyStmt, *ast.BranchStmt, *ast.LabeledStmt:
		return
	}
	// other statement kinds reach the graph only as their parts
	if e, ok := n.(ast.Expr); ok {
		bc.expr(e, st, false)
	}
}

func (bc *bodyCtx) deferStmt(d *ast.DeferStmt, st *lockState) {
	la := bc.la
	markDeferred := func(h held) {
		k := h.key()
		found := false
		if v, ok := st.may[k]; ok {
			v.Deferred = true
			st.may[k] = v
			found = true
		}
		if v, ok := st.must[k]; ok {
			v.Deferred = true
			st.must[k] = v
		}
		if !found {
			// "defer x.Unlock()" registered before "x.Lock()": remember it
			p := h
			p.Expr = "pending-defer:" + h.Expr
			p.Pos = token.NoPos
			st.may[p.key()] = p
			st.must[p.key()] = p
		}
	}
	for _, a := range d.Call.Args {
		bc.expr(a, st, false)
	}
	if op, h, ok := la.lockOp(bc.fn, d.Call); ok {
		la.LockOps++
		if op == "Unlock" || op == "RUnlock" {
			markDeferred(h)
		}
		return
	}
	if lit, ok := ast.Unparen(d.Call.Fun).(*ast.FuncLit); ok {
		// deferred closure: its unlock operations release at exit; the rest of its body
		// is analysed with the state at registration.
		ln := la.P.LitNode(lit)
		var unlocks []held
		inspectNoLit(lit.Body, func(n ast.Node) bool {
			if call, ok := n.(*ast.CallExpr); ok {
				if op, h, ok := la.lockOp(ln, call); ok && (op == "Unlock" || op == "RUnlock") {
					unlocks = append(unlocks, h)
				}
			}
			return true
		})
		for _, h := range unlocks {
			markDeferred(h)
		}
		bc.litContext(lit, *st)
		return
	}
	// deferred call of a releaser variable obtained from an acquire-and-return-releaser call
	if id, ok := ast.Unparen(d.Call.Fun).(*ast.Ident); ok {
		if o := objOf(bc.fn, id); o != nil {
			for k, v := range st.may {
				if v.Expr == "releaser:"+o.Name() {
					v.Deferred = true
					st.may[k] = v
					if m, ok := st.must[k]; ok {
						m.Deferred = true
						st.must[k] = m
					}
				}
			}
		}
	}
	// other deferred calls: requirements of the callee are checked against the state now
	bc.callEffects(d.Call, st, true)
}

// litContext records the lock state under which a literal's body runs and analyses it.
func (bc *bodyCtx) litContext(lit *ast.FuncLit, st lockState) {
	la := bc.la
	ln := la.P.LitNode(lit)
	if ln == nil {
		return
	}
	la.litSeen[ln] = true
	entry := st.clone()
	// everything held by the creator is "deferred" from the literal's point of view: it
	// must not be reported as leaked there.
	la.litEntry[ln] = entry
	la.analyzeBody(ln, entry, false)
	// the literal's requirements become the enclosing function's when unmet there
	sum := la.summary(ln)
	for k, ws := range sum.Requires {
		if !st.holdsClass(k.Class, k.Mode) {
			for _, w := range ws {
				bc.require(k, w.Pos, w, &st)
			}
		}
	}
	for c, w := range sum.Acquires {
		bc.acquired(c, w.Pos, "closure "+ln.Name, &st, false)
	}
}

func (bc *bodyCtx) require(k reqKey, pos token.Pos, w *reqWitness, st *lockState) {
	la := bc.la
	s := la.summary(bc.fn)
	for _, e := range s.Requires[k] {
		if e.Pos == w.Pos && e.Callee == w.Callee {
			return
		}
	}
	s.Requires[k] = append(s.Requires[k], w)
	la.changed = true
}

// acquired records lock-order edges from everything that may be held to class c.
func (bc *bodyCtx) acquired(c string, pos token.Pos, via string, st *lockState, direct bool) {
	la := bc.la
	s := la.summary(bc.fn)
	if _, ok := s.Acquires[c]; !ok {
		s.Acquires[c] = acqWitness{Pos: pos, Via: via}
		la.changed = true
	}
	if !la.report {
		return
	}
	for _, h := range st.may {
		if h.Class == c {
			continue
		}
		la.Edges = append(la.Edges, orderEdge{From: h.Class, To: c, Pos: pos, Fn: bc.fn, Via: via, FromMode: h.Mode})
	}
}

// expr walks an expression in evaluation order (operands before the operation).
func (bc *bodyCtx) expr(e ast.Expr, st *lockState, write bool) {
	if e == nil {
		return
	}
	la := bc.la
	switch x := e.(type) {
	case *ast.ParenExpr:
		bc.expr(x.X, st, write)
	case *ast.FuncLit:
		// a literal that is neither called, deferred, spawned nor passed to a known
		// synchronous callee: stored or returned; it runs with nothing held.
		if ln := la.P.LitNode(x); ln != nil && !la.litSeen[ln] {
			// analysed as a root by analyzeFunc
		}
	case *ast.CallExpr:
		bc.call(x, st)
	case *ast.SelectorExpr:
		bc.expr(x.X, st, write)
		if v := fieldVar(bc.fn, x); v != nil {
			if g, ok := la.Guards[v]; ok {
				bc.access(x, g, write, st)
			}
		}
	case *ast.IndexExpr:
		bc.expr(x.X, st, write)
		bc.expr(x.Index, st, false)
	case *ast.IndexListExpr:
		bc.expr(x.X, st, write)
	case *ast.SliceExpr:
		bc.expr(x.X, st, write)
		bc.expr(x.Low, st, false)
		bc.expr(x.High, st, false)
		bc.expr(x.Max, st, false)
	case *ast.StarExpr:
		bc.expr(x.X, st, write)
	case *ast.UnaryExpr:
		bc.expr(x.X, st, write || x.Op == token.AND && false)
	case *ast.BinaryExpr:
		bc.expr(x.X, st, false)
		bc.expr(x.Y, st, false)
	case *ast.KeyValueExpr:
		bc.expr(x.Value, st, false)
	case *ast.CompositeLit:
		for _, el := range x.Elts {
			bc.expr(el, st, false)
		}
	case *ast.TypeAssertExpr:
		bc.expr(x.X, st, false)
	}
}

func (bc *bodyCtx) access(sel *ast.SelectorExpr, g *GuardSpec, write bool, st *lockState) {
	la := bc.la
	if bc.freshLocal(sel) {
		return
	}
	ok := true
	var missing []reqKey
	if write {
		for _, c := range g.WriteAll {
			if !st.holdsClass(c, ModeW) {
				ok = false
				missing = append(missing, reqKey{c, ModeW})
			}
		}
	} else {
		any := false
		for _, c := range g.ReadAny {
			if st.holdsClass(c, ModeR) {
				any = true
			}
		}
		if !any {
			ok = false
			missing = append(missing, reqKey{strings.Join(g.ReadAny, "|"), ModeR})
		}
	}
	if la.report {
		la.Accesses = append(la.Accesses, accessSite{Fn: bc.fn, Pos: sel.Sel.Pos(), Spec: g, Write: write, Held: ok})
	}
	for _, k := range missing {
		what := "reads"
		if write {
			what = "writes"
		}
		bc.require(k, sel.Sel.Pos(), &reqWitness{Pos: sel.Sel.Pos(), What: what + " " + g.Name, Field: g, Fn: bc.fn}, st)
	}
}

// freshLocal reports whether the access goes through a local variable initialised in this
// function from a composite literal / new / &T{}: the object is not yet published.
func (bc *bodyCtx) freshLocal(sel *ast.SelectorExpr) bool { return bc.freshRoot(sel) }

// freshRoot reports whether the expression is rooted at a local variable that this
// function allocated itself (x := &T{...}): nothing else can reach the object yet.
func (bc *bodyCtx) freshRoot(e ast.Expr) bool {
	if bc.fn.Lit != nil {
		// a closure that captured the variable may run at any later time, concurrently
		return false
	}
	var root ast.Expr = e
	for {
		switch x := ast.Unparen(root).(type) {
		case *ast.SelectorExpr:
			root = x.X
			continue
		case *ast.IndexExpr:
			root = x.X
			continue
		case *ast.StarExpr:
			root = x.X
			continue
		}
		break
	}
	id, ok := ast.Unparen(root).(*ast.Ident)
	if !ok {
		return false
	}
	obj := objOf(bc.fn, id)
	v, ok := obj.(*types.Var)
	if !ok || v.IsField() {
		return false
	}
	// find the defining assignment in the enclosing declared function
	top := bc.fn.Top()
	fresh := false
	ast.Inspect(top.Body, func(n ast.Node) bool {
		as, ok := n.(*ast.AssignStmt)
		if !ok || as.Tok != token.DEFINE {
			return true
		}
		for i, l := range as.Lhs {
			lid, ok := l.(*ast.Ident)
			if !ok || top.Pkg.TypesInfo.Defs[lid] != obj {
				continue
			}
			if len(as.Rhs) == len(as.Lhs) {
				fresh = isFreshAlloc(as.Rhs[i])
			}
		}
		return true
	})
	return fresh
}

func isFreshAlloc(e ast.Expr) bool {
	switch x := ast.Unparen(e).(type) {
	case *ast.CompositeLit:
		return true
	case *ast.UnaryExpr:
		if x.Op == token.AND {
			_, ok := ast.Unparen(x.X).(*ast.CompositeLit)
			return ok
		}
	case *ast.CallExpr:
		if id, ok := x.Fun.(*ast.Ident); ok && id.Name == "new" {
			return true
		}
	}
	return false
}

func (la *LockAnalysis) recordState(m map[string]held, st *lockState) map[string]held {
	if m == nil {
		m = map[string]held{}
		for k, v := range st.must {
			m[k] = v
		}
		return m
	}
	for k := range m {
		if _, ok := st.must[k]; !ok {
			delete(m, k)
		}
	}
	return m
}

// HeldAt reports whether class is certainly held in at least the given mode just before
// the call.
func (la *LockAnalysis) HeldAt(call *ast.CallExpr, class string, mode Mode) bool {
	for _, h := range la.CallStates[call] {
		if h.Class == class && h.Mode >= mode {
			return true
		}
	}
	return false
}

// HeldAtNode is HeldAt for a statement node of the graph.
func (la *LockAnalysis) HeldAtNode(n ast.Node, class string, mode Mode) bool {
	for _, h := range la.NodeStates[n] {
		if h.Class == class && h.Mode >= mode {
			return true
		}
	}
	return false
}

func (bc *bodyCtx) call(call *ast.CallExpr, st *lockState) {
	la := bc.la
	if la.report {
		if la.CallStates == nil {
			la.CallStates = map[*ast.CallExpr]map[string]held{}
		}
		la.CallStates[call] = la.recordState(la.CallStates[call], st)
	}
	fun := ast.Unparen(call.Fun)
	// lock operations
	if op, h, ok := la.lockOp(bc.fn, call); ok {
		la.LockOps++
		if sel, ok := fun.(*ast.SelectorExpr); ok {
			bc.expr(sel.X, st, false)
		}
		switch op {
		case "Lock", "RLock":
			bc.acquired(h.Class, call.Pos(), "", st, true)
			if prev, dup := st.may[h.key()]; dup && la.report && !prev.Deferred {
				la.Pairs = append(la.Pairs, pairFinding{Fn: bc.fn, Pos: call.Pos(), Class: h.Class, Expr: h.Expr, Kind: "relock",
					Detail: fmt.Sprintf("%s is locked at %s while it may already be held since %s", h.Expr, la.P.Position(call.Pos()), la.P.Position(prev.Pos))})
			}
			if la.report {
				la.Acqs = append(la.Acqs, acqSite{bc.fn, h.Class, call.Pos()})
			}
			h.Pos = call.Pos()
			if _, pend := st.may["pending-defer:"+h.key()]; pend {
				h.Deferred = true
			}
			st.must[h.key()] = h
			st.may[h.key()] = h
		case "Unlock", "RUnlock":
			if _, ok := st.may[h.key()]; !ok {
				if la.report {
					la.Pairs = append(la.Pairs, pairFinding{Fn: bc.fn, Pos: call.Pos(), Class: h.Class, Expr: h.Expr, Kind: "unheld-unlock",
						Detail: fmt.Sprintf("%s.%s at %s releases a lock that is not held on any path to it", h.Expr, op, la.P.Position(call.Pos()))})
				}
			}
			delete(st.must, h.key())
			delete(st.may, h.key())
		case "TryLock", "TryRLock":
			// result-dependent; not used in the analysed packages
			la.Unknown = append(la.Unknown, fmt.Sprintf("%s: TryLock is not modelled", la.P.Position(call.Pos())))
		}
		return
	}
	// builtins with write effect on their first argument
	if bi, ok := Callee(bc.fn, call).(*types.Builtin); ok {
		switch bi.Name() {
		case "delete", "clear":
			if len(call.Args) > 0 {
				bc.expr(call.Args[0], st, true)
				for _, a := range call.Args[1:] {
					bc.expr(a, st, false)
				}
				return
			}
		}
		for _, a := range call.Args {
			bc.expr(a, st, false)
		}
		return
	}
	// receiver / function expression
	switch f := fun.(type) {
	case *ast.SelectorExpr:
		bc.expr(f.X, st, bc.isMutatorCall(call))
	case *ast.FuncLit:
		// immediately invoked literal: runs here
		for _, a := range call.Args {
			bc.expr(a, st, false)
		}
		bc.inlineLit(f, st)
		return
	case *ast.Ident:
		// call of a function-typed parameter: record what is held
		if o := objOf(bc.fn, f); o != nil {
			if idx, ok := bc.params[o]; ok {
				var hs []held
				for _, h := range st.must {
					hs = append(hs, h)
				}
				sort.Slice(hs, func(i, j int) bool { return hs[i].key() < hs[j].key() })
				s := la.summary(bc.fn)
				old, seen := s.InvokesParam[idx]
				if !seen {
					s.InvokesParam[idx] = hs
					la.changed = true
				} else {
					// intersect
					var keep []held
					for _, h := range old {
						for _, n := range hs {
							if n.key() == h.key() {
								keep = append(keep, h)
							}
						}
					}
					if len(keep) != len(old) {
						s.InvokesParam[idx] = keep
						la.changed = true
					}
				}
			}
		}
	default:
		bc.expr(fun, st, false)
	}
	// arguments; literals are given their context below
	var lits []struct {
		idx int
		lit *ast.FuncLit
	}
	for i, a := range call.Args {
		if l, ok := ast.Unparen(a).(*ast.FuncLit); ok {
			lits = append(lits, struct {
				idx int
				lit *ast.FuncLit
			}{i, l})
			continue
		}
		bc.expr(a, st, false)
	}
	callees := la.calleeNodes(bc.fn, call)
	for _, l := range lits {
		bc.litArg(call, callees, l.idx, l.lit, st)
	}
	if la.syncExternalCall(bc.fn, call) {
		for _, a := range call.Args {
			_, g := la.funcValueArg(bc.fn, a)
			if g == nil {
				continue
			}
			sum := la.calleeSummary(g)
			if la.report {
				la.callers[g] = append(la.callers[g], callerSite{Caller: bc.fn, Pos: call.Pos(), Held: st.clone()})
			}
			for k, ws := range sum.Requires {
				if len(ws) == 0 || st.holdsClass(k.Class, k.Mode) {
					continue
				}
				bc.require(k, call.Pos(), &reqWitness{Pos: call.Pos(), What: "hands " + g.Name + " to a synchronous callee", Callee: g, Fn: bc.fn}, st)
			}
		}
	}
	bc.callEffects(call, st, false)
}

// syncExternalCall: the callee is a function outside the repository that is not known to
// defer its callbacks.
func (la *LockAnalysis) syncExternalCall(fn *FuncNode, call *ast.CallExpr) bool {
	if len(la.calleeNodes(fn, call)) != 0 {
		return false
	}
	f, ok := Callee(fn, call).(*types.Func)
	return ok && !asyncCallees[FuncIDFull(f)]
}

// funcValueArg: the argument names a plain (receiver-less) function of the repository,
// possibly instantiated (cmp[R]); returns the identifier that names it.
func (la *LockAnalysis) funcValueArg(fn *FuncNode, a ast.Expr) (*ast.Ident, *FuncNode) {
	a = ast.Unparen(a)
	switch x := a.(type) {
	case *ast.IndexExpr:
		a = ast.Unparen(x.X)
	case *ast.IndexListExpr:
		a = ast.Unparen(x.X)
	}
	id, ok := a.(*ast.Ident)
	if !ok {
		return nil, nil
	}
	f, ok := fn.Pkg.TypesInfo.Uses[id].(*types.Func)
	if !ok {
		return nil, nil
	}
	if sig, _ := f.Type().(*types.Signature); sig == nil || sig.Recv() != nil {
		return nil, nil
	}
	g := la.P.ByObj[f.Origin()]
	if g == nil || g.Body == nil {
		return nil, nil
	}
	return id, g
}

// inlineLit analyses an immediately invoked literal with the current state and
// continues with its exit state.
func (bc *bodyCtx) inlineLit(lit *ast.FuncLit, st *lockState) {
	la := bc.la
	ln := la.P.LitNode(lit)
	if ln == nil {
		return
	}
	la.litSeen[ln] = true
	// locks held by the caller are not this literal's to release at its exit
	entry := st.clone()
	marked := newLockState()
	for k, v := range entry.may {
		marked.may[k] = v
	}
	for k, v := range entry.must {
		marked.must[k] = v
	}
	la.litEntry[ln] = marked
	exit := la.analyzeBody(ln, entry, true)
	sum := la.summary(ln)
	for k, ws := range sum.Requires {
		if !st.holdsClass(k.Class, k.Mode) {
			for _, w := range ws {
				bc.require(k, w.Pos, w, st)
			}
		}
	}
	for c, w := range sum.Acquires {
		bc.acquired(c, w.Pos, "closure "+ln.Name, st, false)
	}
	// keep the caller's deferred flags
	for k, v := range exit.must {
		if o, ok := st.must[k]; ok {
			v.Deferred = o.Deferred
			exit.must[k] = v
		}
	}
	for k, v := range exit.may {
		if o, ok := st.may[k]; ok {
			v.Deferred = o.Deferred
			exit.may[k] = v
		}
	}
	// locks the caller holds with a deferred release were dropped by releaseDeferred
	for k, v := range st.must {
		if v.Deferred {
			exit.must[k] = v
		}
	}
	for k, v := range st.may {
		if v.Deferred {
			exit.may[k] = v
		}
	}
	*st = exit
}

var asyncCallees = map[string]bool{
	"time.AfterFunc": true, "golang.org/x/sync/errgroup.(*Group).Go": true, "sync.(*WaitGroup).Go": true,
}

// litArg decides under which locks a literal passed as an argument runs.
func (bc *bodyCtx) litArg(call *ast.CallExpr, callees []*FuncNode, idx int, lit *ast.FuncLit, st *lockState) {
	la := bc.la
	if os.Getenv("VERIF_DEBUG") == "2" {
		fmt.Printf("DEBUG litArg in %s callees=%d report=%v\n", bc.fn.Name, len(callees), la.report)
	}
	if len(callees) == 0 {
		// callee outside the repository (lo.Filter, slices.SortFunc, sync.Once.Do ...):
		// synchronous unless known to defer the call
		if f, ok := Callee(bc.fn, call).(*types.Func); ok && asyncCallees[FuncIDFull(f)] {
			bc.litContext(lit, newLockState())
			return
		}
		bc.litContext(lit, *st)
		return
	}
	// repository callee: synchronous iff every candidate calls the parameter directly
	entry := st.clone()
	sync := true
	for _, c := range callees {
		hs, ok := la.calleeSummary(c).InvokesParam[idx]
		if !ok {
			sync = false
			break
		}
		for _, h := range hs {
			h.Deferred = true // not the literal's to release
			entry.must[h.key()] = h
			entry.may[h.key()] = h
		}
	}
	if !sync {
		bc.litContext(lit, newLockState())
		return
	}
	bc.litContext(lit, entry)
}

func FuncIDFull(f *types.Func) string {
	if f == nil || f.Pkg() == nil {
		return ""
	}
	sig, _ := f.Type().(*types.Signature)
	if sig != nil && sig.Recv() != nil {
		t := sig.Recv().Type()
		ptr := ""
		if p, ok := t.(*types.Pointer); ok {
			t, ptr = p.Elem(), "*"
		}
		if n, ok := t.(*types.Named); ok {
			return fmt.Sprintf("%s.(%s%s).%s", f.Pkg().Path(), ptr, n.Obj().Name(), f.Name())
		}
	}
	return f.Pkg().Path() + "." + f.Name()
}

// isMutatorCall reports whether the call is a method call that writes through its
// receiver's map/slice (x/set.Set.Add/Remove and similar).
func (bc *bodyCtx) isMutatorCall(call *ast.CallExpr) bool {
	f, ok := Callee(bc.fn, call).(*types.Func)
	if !ok {
		return false
	}
	n, ok := bc.la.P.ByObj[f.Origin()]
	if !ok || n.Decl == nil || n.Decl.Recv == nil || len(n.Decl.Recv.List) == 0 || len(n.Decl.Recv.List[0].Names) == 0 {
		return false
	}
	recv := n.Pkg.TypesInfo.Defs[n.Decl.Recv.List[0].Names[0]]
	if recv == nil {
		return false
	}
	switch recv.Type().Underlying().(type) {
	case *types.Map, *types.Slice, *types.Pointer:
	default:
		return false
	}
	if _, isPtr := recv.Type().Underlying().(*types.Pointer); isPtr {
		return false
	}
	writes := false
	rooted := func(e ast.Expr) bool {
		for {
			switch x := ast.Unparen(e).(type) {
			case *ast.IndexExpr:
				e = x.X
				continue
			case *ast.Ident:
				return n.Pkg.TypesInfo.Uses[x] == recv
			}
			return false
		}
	}
	ast.Inspect(n.Body, func(x ast.Node) bool {
		switch s := x.(type) {
		case *ast.AssignStmt:
			for _, l := range s.Lhs {
				if _, isIdx := ast.Unparen(l).(*ast.IndexExpr); isIdx && rooted(l) {
					writes = true
				}
			}
		case *ast.CallExpr:
			if id, ok := s.Fun.(*ast.Ident); ok && (id.Name == "delete" || id.Name == "clear") && len(s.Args) > 0 && rooted(s.Args[0]) {
				writes = true
			}
			// one level of delegation: s.Add(...) from s.AddAll(...)
			if sel, ok := s.Fun.(*ast.SelectorExpr); ok && rooted(sel.X) {
				switch sel.Sel.Name {
				case "Add", "Remove", "Clear", "Delete", "Set":
					writes = true
				}
			}
		}
		return true
	})
	return writes
}

// callEffects applies callee summaries at a call site.
func (bc *bodyCtx) callEffects(call *ast.CallExpr, st *lockState, deferred bool) {
	la := bc.la
	callees := la.calleeNodes(bc.fn, call)
	for _, c := range callees {
		if c.Lit != nil && !la.litSeen[c] {
			// local closure called here: analyse it with the current state
			la.litSeen[c] = true
		}
		if c.Lit != nil {
			// closures called through a variable run here with the current state
			save := st.clone()
			la.litEntry[c] = save
			la.analyzeBody(c, save, true)
		}
		sum := la.calleeSummary(c)
		fresh := false
		if sel, ok := ast.Unparen(call.Fun).(*ast.SelectorExpr); ok {
			fresh = bc.freshRoot(sel.X)
		}
		if la.report {
			la.callers[c] = append(la.callers[c], callerSite{Caller: bc.fn, Pos: call.Pos(), Held: st.clone(), Fresh: fresh})
		}
		for k, ws := range sum.Requires {
			if len(ws) == 0 || fresh || st.holdsClass(k.Class, k.Mode) {
				continue
			}
			bc.require(k, call.Pos(), &reqWitness{Pos: call.Pos(), What: "calls " + c.Name, Callee: c, Fn: bc.fn}, st)
		}
		for cls, w := range sum.Acquires {
			bc.acquired(cls, call.Pos(), "call "+c.Name+" ("+la.P.Position(w.Pos)+")", st, false)
		}
		// acquire-and-return-releaser: the caller now holds the lock until it calls the
		// returned function; model the common "v, release := x.Peek(); defer release()"
		for _, h := range sum.ReturnsHeld {
			nh := held{Expr: "releaser:" + releaserVar(bc.fn, call), Class: h.Class, Mode: h.Mode, Pos: call.Pos()}
			st.must[nh.key()] = nh
			st.may[nh.key()] = nh
		}
	}
	// call of a releaser variable: release()
	if id, ok := ast.Unparen(call.Fun).(*ast.Ident); ok && !deferred {
		if o := objOf(bc.fn, id); o != nil {
			for k, v := range st.may {
				if v.Expr == "releaser:"+o.Name() {
					delete(st.may, k)
					delete(st.must, k)
				}
			}
		}
	}
}

// releaserVar finds the name of the variable that receives the releaser result of call.
func releaserVar(fn *FuncNode, call *ast.CallExpr) string {
	name := "?"
	inspectNoLit(fn.Body, func(n ast.Node) bool {
		as, ok := n.(*ast.AssignStmt)
		if !ok || len(as.Rhs) != 1 || ast.Unparen(as.Rhs[0]) != call {
			return true
		}
		for _, l := range as.Lhs {
			if id, ok := l.(*ast.Ident); ok {
				if t := fn.Pkg.TypesInfo.TypeOf(id); t != nil {
					if _, isF := t.Underlying().(*types.Signature); isF {
						name = id.Name
					}
				}
			}
		}
		return true
	})
	return name
}

// ---------------------------------------------------------------------------------
// Results
// ---------------------------------------------------------------------------------

// Unsatisfied returns, for a function and a requirement, a call chain from a root that
// reaches the function without the lock; nil if every chain supplies it.
func (la *LockAnalysis) Unsatisfied(fn *FuncNode, k reqKey, seen map[*FuncNode]bool) []string {
	if seen[fn] {
		return nil
	}
	seen[fn] = true
	if len(la.summary(fn).Requires[k]) == 0 {
		return nil
	}
	isRoot := la.rootRef[fn]
	var callers []callerSite
	if fn.Lit != nil {
		// a literal's requirement was already forwarded to its creator when it has a known
		// context; a stored/returned literal is a root.
		if la.litSeen[fn] {
			if fn.Parent != nil {
				if ch := la.Unsatisfied(fn.Parent, k, seen); ch != nil {
					return append(ch, fn.Name)
				}
			}
			return nil
		}
		return []string{fn.Name + " (closure stored or returned: runs with nothing held)"}
	}
	callers = la.callers[fn]
	if isRoot {
		return []string{fn.Name + " (used as a value / goroutine entry: callers unknown)"}
	}
	if len(callers) == 0 {
		if la.isEntry == nil || la.isEntry(fn) {
			return []string{fn.Name + " (exported entry point: callers outside the analysed program)"}
		}
		// unexported or internal-package function nobody calls: not reachable in production
		if la.Dead == nil {
			la.Dead = map[string]bool{}
		}
		la.Dead[fn.Name] = true
		return nil
	}
	if la.isEntry != nil && la.isEntry(fn) {
		// exported API with in-program callers can still be called from outside
		return []string{fn.Name + " (exported entry point: callers outside the analysed program)"}
	}
	for _, cs := range callers {
		if cs.Fresh || cs.Held.holdsClass(k.Class, k.Mode) {
			continue
		}
		if ch := la.Unsatisfied(cs.Caller, k, seen); ch != nil {
			return append(ch, fmt.Sprintf("%s [called at %s without %s(%s)]", fn.Name, la.P.Position(cs.Pos), k.Class, k.Mode))
		}
	}
	return nil
}

// Cycles returns the elementary cycles of the lock-order graph (by class), each with
// one witness edge per hop.
func (la *LockAnalysis) Cycles() [][]orderEdge {
	adj := map[string]map[string]orderEdge{}
	for _, e := range la.Edges {
		if adj[e.From] == nil {
			adj[e.From] = map[string]orderEdge{}
		}
		if _, ok := adj[e.From][e.To]; !ok {
			adj[e.From][e.To] = e
		}
	}
	var nodes []string
	for n := range adj {
		nodes = append(nodes, n)
	}
	sort.Strings(nodes)
	var cycles [][]orderEdge
	seenCycle := map[string]bool{}
	var path []orderEdge
	onPath := map[string]bool{}
	var dfs func(start, cur string)
	dfs = func(start, cur string) {
		var tos []string
		for t := range adj[cur] {
			tos = append(tos, t)
		}
		sort.Strings(tos)
		for _, t := range tos {
			e := adj[cur][t]
			if t == start {
				cyc := append(append([]orderEdge{}, path...), e)
				var names []string
				for _, c := range cyc {
					names = append(names, c.From)
				}
				sort.Strings(names)
				key := strings.Join(names, ">")
				if !seenCycle[key] {
					seenCycle[key] = true
					cycles = append(cycles, cyc)
				}
				continue
			}
			if onPath[t] || t < start || len(path) > 6 {
				continue
			}
			onPath[t] = true
			path = append(path, e)
			dfs(start, t)
			path = path[:len(path)-1]
			onPath[t] = false
		}
	}
	for _, n := range nodes {
		onPath = map[string]bool{n: true}
		path = nil
		dfs(n, n)
	}
	return cycles
}
