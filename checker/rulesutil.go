package main

import (
	"fmt"
	"go/ast"
	"go/token"
	"go/types"
	"strings"

	"golang.org/x/tools/go/cfg"
)

type edge struct {
	B    *cfg.Block
	Succ int
}

// CondEdges scans every two-way block of the graph and lets classify pick, for its
// condition, the successor index that establishes a fact (0 = condition true, 1 =
// condition false). It returns the chosen edges.
func (c *FuncCFG) CondEdges(classify func(cond ast.Expr) (succ int, ok bool)) map[edge]bool {
	out := map[edge]bool{}
	for _, b := range c.G.Blocks {
		cond := Cond(b)
		if cond == nil {
			continue
		}
		if s, ok := classify(cond); ok {
			out[edge{b, s}] = true
		}
	}
	return out
}

// ReachAvoiding explores from the start points without crossing the given edges or
// passing the stop nodes.
func (c *FuncCFG) ReachAvoiding(starts []Point, edges map[edge]bool, stop func(ast.Node) bool) (*Query, map[Point]bool) {
	q := &Query{C: c, StopNode: stop, StopEdge: func(b *cfg.Block, s int) bool { return edges[edge{b, s}] }}
	return q, q.Run(starts...)
}

// NodesWhere returns the points of all graph nodes satisfying pred.
func (c *FuncCFG) NodesWhere(pred func(n ast.Node) bool) []Point {
	var out []Point
	for _, b := range c.G.Blocks {
		if !b.Live {
			continue
		}
		for i, n := range b.Nodes {
			if pred(n) {
				out = append(out, Point{b, i})
			}
		}
	}
	return out
}

// lhsSpineHasField reports whether the assignment target e writes through field v:
// v is selected somewhere on the spine x.f[i].g of e.
func lhsSpineHasField(fn *FuncNode, e ast.Expr, v *types.Var) bool {
	for {
		switch x := ast.Unparen(e).(type) {
		case *ast.SelectorExpr:
			if fieldVar(fn, x) == v {
				return true
			}
			e = x.X
		case *ast.IndexExpr:
			e = x.X
		case *ast.StarExpr:
			e = x.X
		case *ast.SliceExpr:
			e = x.X
		default:
			return false
		}
	}
}

// isStoreTo reports whether graph node n (a statement) stores through field v: an
// assignment / inc-dec whose target spine selects v, or delete/clear on it.
func isStoreTo(fn *FuncNode, n ast.Node, v *types.Var) bool {
	switch s := n.(type) {
	case *ast.AssignStmt:
		for _, l := range s.Lhs {
			if lhsSpineHasField(fn, l, v) {
				return true
			}
		}
	case *ast.IncDecStmt:
		return lhsSpineHasField(fn, s.X, v)
	case *ast.ExprStmt:
		if call, ok := s.X.(*ast.CallExpr); ok {
			if bi, ok := Callee(fn, call).(*types.Builtin); ok && (bi.Name() == "delete" || bi.Name() == "clear") && len(call.Args) > 0 {
				return lhsSpineHasField(fn, call.Args[0], v)
			}
		}
	}
	return false
}

// FieldOf resolves a (possibly nested "a.b") field of a named struct type to its object.
func (p *Prog) FieldOf(pkgShort, typeName, fieldPath string) *types.Var {
	pk := p.Pkg(pkgShort)
	if pk == nil {
		return nil
	}
	tn, ok := pk.Types.Scope().Lookup(typeName).(*types.TypeName)
	if !ok {
		return nil
	}
	var cur types.Type = tn.Type()
	var v *types.Var
	for _, part := range strings.Split(fieldPath, ".") {
		st := structOf(cur)
		if st == nil {
			return nil
		}
		v = nil
		for i := 0; i < st.NumFields(); i++ {
			if st.Field(i).Name() == part {
				v = st.Field(i)
			}
		}
		if v == nil {
			return nil
		}
		cur = v.Type()
	}
	return v.Origin()
}

// calleeIs builds a callee predicate matching one repository function.
func calleeIs(target *FuncNode) func(types.Object, *ast.CallExpr) bool {
	return func(o types.Object, _ *ast.CallExpr) bool { return IsFunc(o, target) }
}

// calleeNamed matches a function or method by package path suffix, optional receiver
// type name and name, resolved on the callee object (never on source text).
func calleeNamed(pkgSuffix, recv, name string) func(types.Object, *ast.CallExpr) bool {
	return func(o types.Object, _ *ast.CallExpr) bool {
		f, ok := o.(*types.Func)
		if !ok || f.Name() != name || f.Pkg() == nil || !strings.HasSuffix(f.Pkg().Path(), pkgSuffix) {
			return false
		}
		sig, _ := f.Type().(*types.Signature)
		if recv == "" {
			return sig == nil || sig.Recv() == nil
		}
		if sig == nil || sig.Recv() == nil {
			return false
		}
		t := sig.Recv().Type()
		if p, ok := t.(*types.Pointer); ok {
			t = p.Elem()
		}
		switch n := t.(type) {
		case *types.Named:
			return n.Obj().Name() == recv
		case *types.Alias:
			return n.Obj().Name() == recv
		}
		return false
	}
}

// exprMentions reports whether e (outside literals) uses object o.
func exprMentions(fn *FuncNode, e ast.Node, o types.Object) bool {
	found := false
	inspectNoLit(e, func(n ast.Node) bool {
		if id, ok := n.(*ast.Ident); ok && fn.Pkg.TypesInfo.Uses[id] == o {
			found = true
		}
		return !found
	})
	return found
}

// paramObj returns the object of the i-th parameter (counting names) of fn.
func paramObj(fn *FuncNode, i int) types.Object {
	if fn.Type.Params == nil {
		return nil
	}
	k := 0
	for _, f := range fn.Type.Params.List {
		for _, nm := range f.Names {
			if k == i {
				return fn.Pkg.TypesInfo.Defs[nm]
			}
			k++
		}
		if len(f.Names) == 0 {
			k++
		}
	}
	return nil
}

// paramNamed returns the parameter object with the given name.
func paramNamed(fn *FuncNode, name string) types.Object {
	if fn.Type.Params == nil {
		return nil
	}
	for _, f := range fn.Type.Params.List {
		for _, nm := range f.Names {
			if nm.Name == name {
				return fn.Pkg.TypesInfo.Defs[nm]
			}
		}
	}
	return nil
}

// isFieldOfObj reports whether e is "o.<field>" (possibly through embedded promotion)
// and returns the field name.
func isFieldOfObj(fn *FuncNode, e ast.Expr, o types.Object) (string, bool) {
	sel, ok := ast.Unparen(e).(*ast.SelectorExpr)
	if !ok {
		return "", false
	}
	if objOf(fn, sel.X) != o {
		return "", false
	}
	return sel.Sel.Name, true
}

// varDefinedBy returns the right-hand side expression that defines/assigns variable o
// when there is exactly one assignment to it in fn (outside literals); ok is false
// otherwise.
func varDefinedBy(fn *FuncNode, o types.Object) (ast.Expr, *ast.AssignStmt, bool) {
	var rhs ast.Expr
	var stmt *ast.AssignStmt
	n := 0
	inspectNoLit(fn.Body, func(x ast.Node) bool {
		switch s := x.(type) {
		case *ast.AssignStmt:
			for i, l := range s.Lhs {
				if objOf(fn, l) != o {
					continue
				}
				n++
				stmt = s
				if len(s.Rhs) == len(s.Lhs) {
					rhs = s.Rhs[i]
				} else if len(s.Rhs) == 1 {
					rhs = s.Rhs[0]
				}
			}
		case *ast.ValueSpec:
			for i, nm := range s.Names {
				if fn.Pkg.TypesInfo.Defs[nm] == o && len(s.Values) > 0 {
					n++
					if len(s.Values) == len(s.Names) {
						rhs = s.Values[i]
					} else {
						rhs = s.Values[0]
					}
				}
			}
		}
		return true
	})
	return rhs, stmt, n == 1 && rhs != nil
}

// boolFactEdge classifies a condition as a test of the boolean fact "core is true",
// where core is matched by isCore on the (de-negated) condition expression or, through
// one single-assignment boolean variable, on its defining expression. Returns the
// successor index on which the fact holds.
func boolFactEdge(fn *FuncNode, cond ast.Expr, isCore func(e ast.Expr) bool) (int, bool) {
	core, neg := BoolTest(cond)
	if isCore(core) {
		return neg, true
	}
	if id, ok := core.(*ast.Ident); ok {
		if o := objOf(fn, id); o != nil {
			if rhs, _, ok := varDefinedBy(fn, o); ok {
				c2, n2 := BoolTest(rhs)
				if isCore(c2) {
					return neg ^ n2, true
				}
			}
		}
	}
	return 0, false
}

// callIn returns the first call inside e (outside literals) satisfying pred.
func callIn(fn *FuncNode, e ast.Node, pred func(types.Object, *ast.CallExpr) bool) *ast.CallExpr {
	var out *ast.CallExpr
	inspectNoLit(e, func(n ast.Node) bool {
		if out != nil {
			return false
		}
		if c, ok := n.(*ast.CallExpr); ok && pred(Callee(fn, c), c) {
			out = c
			return false
		}
		return true
	})
	return out
}

// errNilEdgesFor returns, for an error variable assigned from the call at callPoint,
// the edges on which that error was tested nil. It follows the repository's idioms:
// "x, err := f(); if err != nil {...}" and "if err := f(); err != nil {...}".
func errNilEdges(c *FuncCFG, errObj types.Object) map[edge]bool {
	return c.EdgesEstablishing(func(atom ast.Expr, val bool) bool {
		o, trueMeansNil, ok := nilCompare(c.Fn, atom)
		return ok && o == errObj && val == trueMeansNil
	})
}

// errNonNilEdges: the edges on which errObj was tested non-nil.
func errNonNilEdges(c *FuncCFG, errObj types.Object) map[edge]bool {
	return c.EdgesEstablishing(func(atom ast.Expr, val bool) bool {
		o, trueMeansNil, ok := nilCompare(c.Fn, atom)
		return ok && o == errObj && val != trueMeansNil
	})
}

// errVarOfCall finds the error-typed variable that receives the (last) result of call
// in the statement containing it.
func errVarOfCall(fn *FuncNode, call *ast.CallExpr) types.Object {
	var out types.Object
	inspectNoLit(fn.Body, func(n ast.Node) bool {
		as, ok := n.(*ast.AssignStmt)
		if !ok || len(as.Rhs) != 1 {
			return true
		}
		if !contains(as.Rhs[0], call) {
			return true
		}
		last := as.Lhs[len(as.Lhs)-1]
		if o := objOf(fn, last); o != nil && isErrorType(o.Type()) {
			out = o
		}
		return true
	})
	return out
}

func isErrorType(t types.Type) bool {
	n, ok := t.(*types.Named)
	return ok && n.Obj().Pkg() == nil && n.Obj().Name() == "error"
}

// succeededBefore checks that every path from entry to target passes the call and then
// the nil edge of the error it returned: "target runs only after call succeeded".
// It returns an offending path (nil when the rule holds).
func (c *FuncCFG) succeededBefore(call *ast.CallExpr, target Point) ([]string, string) {
	errObj := errVarOfCall(c.Fn, call)
	if errObj == nil {
		return []string{c.P.Position(call.Pos())}, "the call's error result is not bound to a variable"
	}
	nilEdges := errNilEdges(c, errObj)
	if len(nilEdges) == 0 {
		return []string{c.P.Position(call.Pos())}, "the call's error is never compared with nil"
	}
	// (a) the call precedes the target on every path
	q, vis := c.ReachAvoiding([]Point{c.Entry()}, nil, func(n ast.Node) bool { return contains(n, call) })
	if vis[target] {
		return q.PathTo(target), "a path reaches it without making the call"
	}
	// (b) from the call, the target is reachable only through a nil edge of its error,
	// taken before the error variable is overwritten by something else
	cp, ok := c.Locate(call)
	if !ok {
		return nil, "call not found in graph"
	}
	reassigns := func(n ast.Node) bool {
		if contains(n, call) {
			return false
		}
		hit := false
		inspectNoLit(n, func(x ast.Node) bool {
			if as, ok := x.(*ast.AssignStmt); ok {
				for _, l := range as.Lhs {
					if objOf(c.Fn, l) == errObj {
						hit = true
					}
				}
			}
			return true
		})
		return hit
	}
	type st struct {
		p      Point
		killed bool
	}
	parent := map[st]st{}
	seen := map[st]bool{}
	work := []st{}
	push := func(from, to st) {
		if !seen[to] {
			seen[to] = true
			parent[to] = from
			work = append(work, to)
		}
	}
	advance := func(s st) {
		if s.p.I+1 < len(s.p.B.Nodes) {
			push(s, st{Point{s.p.B, s.p.I + 1}, s.killed})
			return
		}
		for si, succ := range s.p.B.Succs {
			if !s.killed && nilEdges[edge{s.p.B, si}] {
				continue
			}
			if len(succ.Nodes) == 0 {
				push(s, st{Point{succ, -1}, s.killed})
			} else {
				push(s, st{Point{succ, 0}, s.killed})
			}
		}
	}
	advance(st{cp, false})
	for len(work) > 0 {
		cur := work[len(work)-1]
		work = work[:len(work)-1]
		if cur.p == target {
			var out []string
			for x, ok := cur, true; ok; x, ok = parent[x] {
				if x.p.I >= 0 && x.p.I < len(x.p.B.Nodes) {
					out = append([]string{c.P.Position(x.p.B.Nodes[x.p.I].Pos())}, out...)
				}
				if len(out) > 30 {
					break
				}
			}
			return out, "a path from the call reaches it without the call's error having been tested nil (before the error variable is reused)"
		}
		if cur.p.I >= 0 && cur.p.I < len(cur.p.B.Nodes) && reassigns(cur.p.B.Nodes[cur.p.I]) {
			cur.killed = true
		}
		advance(cur)
	}
	return nil, ""
}

func posOf(p *Prog, n ast.Node) string { return p.Position(n.Pos()) }

func describe(e ast.Node) string {
	if ex, ok := e.(ast.Expr); ok {
		return types.ExprString(ex)
	}
	return fmt.Sprintf("%T", e)
}

var _ = token.NoPos

// ---------------------------------------------------------------------------------
// Conditions. go/cfg keeps "a && b" as one condition node, so facts established by an
// edge are derived here: on the true edge of a conjunction every conjunct is true, on
// the false edge of a disjunction every disjunct is false; negation flips. Boolean
// variables with a single definition are expanded once.
// ---------------------------------------------------------------------------------

type condFact struct {
	Atom ast.Expr
	Val  bool
}

func condFacts(fn *FuncNode, cond ast.Expr, val bool, depth int) []condFact {
	e := ast.Unparen(cond)
	switch x := e.(type) {
	case *ast.UnaryExpr:
		if x.Op == token.NOT {
			return condFacts(fn, x.X, !val, depth)
		}
	case *ast.BinaryExpr:
		switch x.Op {
		case token.LAND:
			if val {
				return append(condFacts(fn, x.X, true, depth), condFacts(fn, x.Y, true, depth)...)
			}
			return nil
		case token.LOR:
			if !val {
				return append(condFacts(fn, x.X, false, depth), condFacts(fn, x.Y, false, depth)...)
			}
			return nil
		}
	case *ast.Ident:
		out := []condFact{{x, val}}
		if depth < 2 {
			if o := objOf(fn, x); o != nil {
				if _, isVar := o.(*types.Var); isVar {
					if rhs, as, ok := varDefinedBy(fn, o); ok && (as == nil || len(as.Lhs) == len(as.Rhs)) {
						if b, ok := fn.Pkg.TypesInfo.TypeOf(rhs).Underlying().(*types.Basic); ok && b.Info()&types.IsBoolean != 0 {
							out = append(out, condFacts(fn, rhs, val, depth+1)...)
						}
					}
				}
			}
		}
		return out
	}
	return []condFact{{e, val}}
}

// EdgesEstablishing returns the edges on which some fact accepted by pred certainly holds.
func (c *FuncCFG) EdgesEstablishing(pred func(atom ast.Expr, val bool) bool) map[edge]bool {
	out := map[edge]bool{}
	for _, b := range c.G.Blocks {
		cond := Cond(b)
		if cond == nil {
			continue
		}
		for succ := 0; succ < 2; succ++ {
			for _, f := range condFacts(c.Fn, cond, succ == 0, 0) {
				if pred(f.Atom, f.Val) {
					out[edge{b, succ}] = true
					break
				}
			}
		}
	}
	return out
}

// conjuncts flattens a && b && c.
func conjuncts(e ast.Expr) []ast.Expr {
	e = ast.Unparen(e)
	if b, ok := e.(*ast.BinaryExpr); ok && b.Op == token.LAND {
		return append(conjuncts(b.X), conjuncts(b.Y)...)
	}
	return []ast.Expr{e}
}

// FalseEdgesOfConjunctionOf returns the false edges of conditions that are conjunctions
// made only of atoms accepted by atomOK (at least one atom must satisfy must): when the
// conjunction of all such atoms holds the condition is true, so having taken its false
// edge proves that conjunction false.
func (c *FuncCFG) FalseEdgesOfConjunctionOf(atomOK func(ast.Expr) bool, must func(ast.Expr) bool) map[edge]bool {
	out := map[edge]bool{}
	for _, b := range c.G.Blocks {
		cond := Cond(b)
		if cond == nil {
			continue
		}
		all, any := true, false
		for _, a := range conjuncts(cond) {
			if !atomOK(a) {
				all = false
			}
			if must(a) {
				any = true
			}
		}
		if all && any {
			out[edge{b, 1}] = true
		}
	}
	return out
}

// nilCompare recognises "v != nil" / "v == nil" and returns v's object and whether the
// expression being TRUE means v is nil.
func nilCompare(fn *FuncNode, e ast.Expr) (types.Object, bool, bool) {
	be, ok := ast.Unparen(e).(*ast.BinaryExpr)
	if !ok || (be.Op != token.NEQ && be.Op != token.EQL) {
		return nil, false, false
	}
	var v ast.Expr
	switch {
	case isNilIdent(fn, be.Y):
		v = be.X
	case isNilIdent(fn, be.X):
		v = be.Y
	default:
		return nil, false, false
	}
	o := objOf(fn, v)
	if o == nil {
		return nil, false, false
	}
	return o, be.Op == token.EQL, true
}

// varDefinedByUp looks for the single definition of o in fn or in the functions
// enclosing it (closures capture variables of their parents).
func varDefinedByUp(fn *FuncNode, o types.Object) (ast.Expr, *ast.AssignStmt, bool) {
	for f := fn; f != nil; f = f.Parent {
		if rhs, as, ok := varDefinedBy(f, o); ok {
			return rhs, as, true
		}
	}
	return nil, nil, false
}

func disjuncts(e ast.Expr) []ast.Expr {
	e = ast.Unparen(e)
	if b, ok := e.(*ast.BinaryExpr); ok && b.Op == token.LOR {
		return append(disjuncts(b.X), disjuncts(b.Y)...)
	}
	return []ast.Expr{e}
}

// TrueEdgesOfDisjunctionOf returns the true edges of conditions that are disjunctions
// made only of atoms accepted by atomOK: taking the edge proves one of those atoms.
func (c *FuncCFG) TrueEdgesOfDisjunctionOf(atomOK func(ast.Expr) bool) map[edge]bool {
	out := map[edge]bool{}
	for _, b := range c.G.Blocks {
		cond := Cond(b)
		if cond == nil {
			continue
		}
		all := true
		for _, a := range disjuncts(cond) {
			if !atomOK(a) {
				all = false
			}
		}
		if all {
			out[edge{b, 0}] = true
		}
	}
	return out
}

// succeededInLoopBefore is succeededBefore for a call made once per iteration of a
// range loop that precedes target: (a) every path to target passes the loop, (b) an
// iteration cannot end without making the call, (c) after the call, the iteration
// continues (or the function proceeds) only across the nil edge of the call's error.
func (c *FuncCFG) succeededInLoopBefore(call *ast.CallExpr, loop *ast.RangeStmt, target Point) ([]string, string) {
	errObj := errVarOfCall(c.Fn, call)
	if errObj == nil {
		return []string{c.P.Position(call.Pos())}, "the call's error result is not bound to a variable"
	}
	nilEdges := errNilEdges(c, errObj)
	if len(nilEdges) == 0 {
		return []string{c.P.Position(call.Pos())}, "the call's error is never compared with nil"
	}
	isLoopBlock := func(pt Point, kinds ...string) bool {
		if pt.B.Stmt != loop {
			return false
		}
		for _, k := range kinds {
			if pt.B.Kind.String() == k {
				return true
			}
		}
		return false
	}
	// (a) the loop head lies on every path to the target
	var head *cfg.Block
	var body *cfg.Block
	for _, b := range c.G.Blocks {
		if b.Stmt == loop && b.Kind.String() == "RangeLoop" {
			head = b
		}
		if b.Stmt == loop && b.Kind.String() == "RangeBody" {
			body = b
		}
	}
	if head == nil || body == nil {
		return nil, "loop blocks not found"
	}
	q := &Query{C: c, StopEdge: func(b *cfg.Block, s int) bool { return b.Succs[s] == head }}
	vis := q.Run(c.Entry())
	if vis[target] {
		return q.PathTo(target), "a path reaches it without entering the loop that makes the call"
	}
	// (b) no iteration without the call
	q2, vis2 := c.ReachAvoiding([]Point{{body, -1}}, nil, func(n ast.Node) bool { return contains(n, call) })
	for pt := range vis2 {
		if isLoopBlock(pt, "RangeLoop", "RangeDone") {
			return q2.PathTo(pt), "an iteration can end without making the call"
		}
	}
	// (c) past the call only across the nil edge
	cp, ok := c.Locate(call)
	if !ok {
		return nil, "call not found in graph"
	}
	q3, vis3 := c.ReachAvoiding([]Point{cp}, nilEdges, nil)
	for pt := range vis3 {
		if isLoopBlock(pt, "RangeLoop", "RangeDone") || pt == target {
			return q3.PathTo(pt), "execution continues past the call without its error having been tested nil"
		}
	}
	return nil, ""
}

// boolStateSearch explores the graph from starts carrying one boolean fact. node may
// update the fact at a node (or end the path: stop), edgeFact may update it across a
// condition edge; bad reports a node reached in a state that violates the rule. It
// returns the path to the first such node (nil when there is none).
func (c *FuncCFG) boolStateSearch(starts []Point, init bool,
	node func(n ast.Node, fact bool) (newFact bool, stop bool),
	edgeFact func(cond ast.Expr, val bool, fact bool) bool,
	bad func(n ast.Node, fact bool) bool) []string {
	type st struct {
		pt   Point
		fact bool
	}
	seen := map[st]bool{}
	parent := map[st]st{}
	var work []st
	push := func(from, to st, root bool) {
		if !seen[to] {
			seen[to] = true
			if !root {
				parent[to] = from
			}
			work = append(work, to)
		}
	}
	for _, s := range starts {
		push(st{}, st{s, init}, true)
	}
	for len(work) > 0 {
		cur := work[len(work)-1]
		work = work[:len(work)-1]
		b, idx, fact := cur.pt.B, cur.pt.I, cur.fact
		if idx >= 0 && idx < len(b.Nodes) {
			n := b.Nodes[idx]
			if bad(n, fact) {
				var out []string
				for x, ok := cur, true; ok && len(out) < 30; x, ok = parent[x] {
					if x.pt.I >= 0 && x.pt.I < len(x.pt.B.Nodes) {
						out = append([]string{c.P.Position(x.pt.B.Nodes[x.pt.I].Pos())}, out...)
					}
				}
				if len(out) == 0 {
					out = []string{c.P.Position(n.Pos())}
				}
				return out
			}
			var stop bool
			fact, stop = node(n, fact)
			if stop {
				continue
			}
		}
		if idx+1 < len(b.Nodes) {
			push(cur, st{Point{b, idx + 1}, fact}, false)
			continue
		}
		cond := Cond(b)
		for si, succ := range b.Succs {
			f2 := fact
			if cond != nil && edgeFact != nil {
				f2 = edgeFact(cond, si == 0, fact)
			}
			push(cur, st{Point{succ, -1}, f2}, false)
		}
	}
	return nil
}

// mayReturnNilError reports whether a return statement of an error-returning function can
// hand out a nil error: the nil literal, a bare return or an error variable that is not
// tested non-nil around the statement. A constructed or
// package-level error, or a variable returned inside its own "!= nil" branch, cannot.
func mayReturnNilError(fn *FuncNode, ret *ast.ReturnStmt) bool {
	res := fn.Type.Results
	if res == nil || len(res.List) == 0 {
		return false
	}
	lastField := res.List[len(res.List)-1]
	if t := fn.Pkg.TypesInfo.TypeOf(lastField.Type); t == nil || !isErrorType(t) {
		return false
	}
	if len(ret.Results) == 0 {
		if len(lastField.Names) == 0 {
			return false
		}
		o := fn.Pkg.TypesInfo.Defs[lastField.Names[len(lastField.Names)-1]]
		return !guardedNonNil(fn, ret, o)
	}
	last := ast.Unparen(ret.Results[len(ret.Results)-1])
	if isNilIdent(fn, last) {
		return true
	}
	// another call's result (v.Error(), a delegated operation) is not counted: whether it
	// can be nil is that callee's business and the rules that care name the callee
	if _, isCall := last.(*ast.CallExpr); isCall {
		return false
	}
	return !certainErr(fn, last, ret)
}

// returnsErrorOf: the exit returns the variable the call's error was bound to, the call
// precedes it on every path and nothing else is stored in the variable in between
// ("err = f(); return err").
func (c *FuncCFG) returnsErrorOf(call *ast.CallExpr, ex Exit) bool {
	errObj := errVarOfCall(c.Fn, call)
	if errObj == nil || ex.Return == nil || len(ex.Return.Results) == 0 {
		return false
	}
	if objOf(c.Fn, ex.Return.Results[len(ex.Return.Results)-1]) != errObj {
		return false
	}
	hasCall := func(n ast.Node) bool { return contains(n, call) }
	if _, vis := c.ReachAvoiding([]Point{c.Entry()}, nil, hasCall); vis[ex.P] {
		return false
	}
	cp, ok := c.Locate(call)
	if !ok {
		return false
	}
	_, after := c.ReachAvoiding([]Point{cp}, nil, func(ast.Node) bool { return false })
	for _, rp := range c.NodesWhere(func(n ast.Node) bool {
		if contains(n, call) {
			return false
		}
		hit := false
		inspectNoLit(n, func(x ast.Node) bool {
			if as, ok := x.(*ast.AssignStmt); ok {
				for _, l := range as.Lhs {
					if objOf(c.Fn, l) == errObj {
						hit = true
					}
				}
			}
			return true
		})
		return hit
	}) {
		if !after[rp] {
			continue
		}
		if _, v2 := c.ReachAvoiding([]Point{rp}, nil, hasCall); v2[ex.P] {
			return false
		}
	}
	return true
}

// succeedsOnlyAfter reports whether function h can return a nil error only after its
// call tc succeeded: every exit either returns tc's own result, returns a certain error,
// or is dominated by the nil edge of tc's error.
func succeedsOnlyAfter(p *Prog, h *FuncNode, tc *ast.CallExpr) bool {
	c := p.CFG(h)
	for _, ex := range c.Exits() {
		if ex.Return == nil {
			return false
		}
		if contains(ex.Return, tc) {
			continue
		}
		n := len(ex.Return.Results)
		if n > 0 && certainErr(h, ex.Return.Results[n-1], ex.Return) {
			continue
		}
		if n > 0 && c.returnsErrorOf(tc, ex) {
			continue
		}
		if pth, _ := c.succeededBefore(tc, ex.P); pth != nil {
			return false
		}
	}
	return true
}

// wrapperCallsOf returns the calls in fn to package-local functions that wrap target:
// the wrapper calls target exactly once, hands its own parameter argIdx on as target's
// argument argIdx, and succeeds only after that call succeeded.
func wrapperCallsOf(p *Prog, fn *FuncNode, target *FuncNode, argIdx int) []*ast.CallExpr {
	var out []*ast.CallExpr
	for _, call := range CallsIn(fn, func(o types.Object, _ *ast.CallExpr) bool {
		f, ok := o.(*types.Func)
		return ok && p.ByObj[f.Origin()] != nil && p.ByObj[f.Origin()].Pkg == fn.Pkg && p.ByObj[f.Origin()] != target
	}) {
		h := p.ByObj[CalleeFunc(fn, call)]
		if h == nil || h.Body == nil {
			continue
		}
		tcs := CallsIn(h, calleeIs(target))
		if len(tcs) != 1 || argIdx >= len(tcs[0].Args) || objOf(h, tcs[0].Args[argIdx]) == nil || objOf(h, tcs[0].Args[argIdx]) != paramObj(h, argIdx) {
			continue
		}
		if succeedsOnlyAfter(p, h, tcs[0]) {
			out = append(out, call)
		}
	}
	return out
}

// loopEarlyExit returns a path on which an iteration of loop ends the whole loop (break,
// return, goto, panic-free fall-out) instead of handing over to the next iteration;
// nil when every iteration continues with the loop head.
func (c *FuncCFG) loopEarlyExit(loop ast.Stmt) []string {
	var body, done *cfg.Block
	heads := map[*cfg.Block]bool{}
	for _, b := range c.G.Blocks {
		if b.Stmt != loop {
			continue
		}
		switch b.Kind {
		case cfg.KindRangeBody, cfg.KindForBody:
			body = b
		case cfg.KindRangeDone, cfg.KindForDone:
			done = b
		case cfg.KindRangeLoop, cfg.KindForLoop, cfg.KindForPost:
			heads[b] = true
		}
	}
	if body == nil {
		return []string{"loop body not found"}
	}
	q := &Query{C: c, StopEdge: func(b *cfg.Block, s int) bool { return heads[b.Succs[s]] }}
	vis := q.Run(Point{body, -1})
	for pt := range vis {
		if pt.B == done {
			return append(q.PathTo(pt), "leaves the loop")
		}
	}
	for _, ex := range c.Exits() {
		if vis[ex.P] {
			return append(q.PathTo(ex.P), "leaves the function")
		}
	}
	return nil
}

// callsReaching returns the calls in fn to target or, when there are none, the calls in
// fn to package-local functions that call target themselves (a step moved into a helper).
func callsReaching(p *Prog, fn *FuncNode, target *FuncNode) []*ast.CallExpr {
	if direct := CallsIn(fn, calleeIs(target)); len(direct) > 0 {
		return direct
	}
	return CallsIn(fn, func(o types.Object, _ *ast.CallExpr) bool {
		f, ok := o.(*types.Func)
		if !ok {
			return false
		}
		h := p.ByObj[f.Origin()]
		return h != nil && h.Body != nil && h.Pkg == fn.Pkg && h != target && len(CallsIn(h, calleeIs(target))) > 0
	})
}
