package main

import (
	"fmt"
	"go/ast"
	"go/constant"
	"go/token"
	"go/types"
	"sort"
	"strings"

	"golang.org/x/tools/go/cfg"
)

func init() { checks["C19"] = checkC19 }

const (
	arcTypesPkg = "arc/types"
	arcWasmPkg  = "arc/compiler/wasm"
	arcExprPkg  = "arc/compiler/expression"
	arcStmtPkg  = "arc/compiler/statement"
	arcCtxPkg   = "arc/compiler/context"
)

// wasmOp is one entry of the WebAssembly 1.0 numeric instruction table (plus the
// sign-extension operators), keyed by opcode byte. It is the reference the compiler's
// selections are compared against; it comes from the WebAssembly specification, not from
// the repository.
type wasmOp struct {
	Arg, Res string // operand and result value type: i32 i64 f32 f64
	Op       string
	Sign     byte // 's', 'u' or 0 when the operator is sign-agnostic
}

var wasmSpec = func() map[int64]wasmOp {
	m := map[int64]wasmOp{}
	icmp := []struct {
		op string
		s  byte
	}{{"eqz", 0}, {"eq", 0}, {"ne", 0}, {"lt", 's'}, {"lt", 'u'}, {"gt", 's'}, {"gt", 'u'}, {"le", 's'}, {"le", 'u'}, {"ge", 's'}, {"ge", 'u'}}
	for i, c := range icmp {
		m[0x45+int64(i)] = wasmOp{"i32", "i32", c.op, c.s}
		m[0x50+int64(i)] = wasmOp{"i64", "i32", c.op, c.s}
	}
	for i, op := range []string{"eq", "ne", "lt", "gt", "le", "ge"} {
		m[0x5b+int64(i)] = wasmOp{"f32", "i32", op, 0}
		m[0x61+int64(i)] = wasmOp{"f64", "i32", op, 0}
	}
	iar := []struct {
		op string
		s  byte
	}{{"clz", 0}, {"ctz", 0}, {"popcnt", 0}, {"add", 0}, {"sub", 0}, {"mul", 0}, {"div", 's'}, {"div", 'u'}, {"rem", 's'}, {"rem", 'u'}, {"and", 0}, {"or", 0}, {"xor", 0}, {"shl", 0}, {"shr", 's'}, {"shr", 'u'}, {"rotl", 0}, {"rotr", 0}}
	for i, c := range iar {
		m[0x67+int64(i)] = wasmOp{"i32", "i32", c.op, c.s}
		m[0x79+int64(i)] = wasmOp{"i64", "i64", c.op, c.s}
	}
	for i, op := range []string{"abs", "neg", "ceil", "floor", "trunc", "nearest", "sqrt", "add", "sub", "mul", "div", "min", "max", "copysign"} {
		m[0x8b+int64(i)] = wasmOp{"f32", "f32", op, 0}
		m[0x99+int64(i)] = wasmOp{"f64", "f64", op, 0}
	}
	conv := []wasmOp{
		{"i64", "i32", "wrap", 0},
		{"f32", "i32", "trunc", 's'}, {"f32", "i32", "trunc", 'u'}, {"f64", "i32", "trunc", 's'}, {"f64", "i32", "trunc", 'u'},
		{"i32", "i64", "extend", 's'}, {"i32", "i64", "extend", 'u'},
		{"f32", "i64", "trunc", 's'}, {"f32", "i64", "trunc", 'u'}, {"f64", "i64", "trunc", 's'}, {"f64", "i64", "trunc", 'u'},
		{"i32", "f32", "convert", 's'}, {"i32", "f32", "convert", 'u'}, {"i64", "f32", "convert", 's'}, {"i64", "f32", "convert", 'u'},
		{"f64", "f32", "demote", 0},
		{"i32", "f64", "convert", 's'}, {"i32", "f64", "convert", 'u'}, {"i64", "f64", "convert", 's'}, {"i64", "f64", "convert", 'u'},
		{"f32", "f64", "promote", 0},
		{"f32", "i32", "reinterpret", 0}, {"f64", "i64", "reinterpret", 0}, {"i32", "f32", "reinterpret", 0}, {"i64", "f64", "reinterpret", 0},
		{"i32", "i32", "extend8", 's'}, {"i32", "i32", "extend16", 's'}, {"i64", "i64", "extend8", 's'}, {"i64", "i64", "extend16", 's'}, {"i64", "i64", "extend32", 's'},
	}
	for i, c := range conv {
		m[0xa7+int64(i)] = c
	}
	// control/parametric operators referred to by the saturation rule
	m[0x04] = wasmOp{"", "", "if", 0}
	m[0x0d] = wasmOp{"", "", "br_if", 0}
	m[0x1b] = wasmOp{"", "", "select", 0}
	m[0x41] = wasmOp{"", "i32", "const", 0}
	m[0x42] = wasmOp{"", "i64", "const", 0}
	m[0xfc] = wasmOp{"", "", "misc-prefix", 0} // trunc_sat family lives behind 0xFC
	return m
}()

var valTypeByte = map[int64]string{0x7f: "i32", 0x7e: "i64", 0x7d: "f32", 0x7c: "f64"}

type arcKind struct {
	Name   string // u8 ...
	Const  string // KindU8
	Bits   int
	Signed bool
	Float  bool
}

var arcKinds = []arcKind{
	{"u8", "KindU8", 8, false, false}, {"u16", "KindU16", 16, false, false}, {"u32", "KindU32", 32, false, false}, {"u64", "KindU64", 64, false, false},
	{"i8", "KindI8", 8, true, false}, {"i16", "KindI16", 16, true, false}, {"i32", "KindI32", 32, true, false}, {"i64", "KindI64", 64, true, false},
	{"f32", "KindF32", 32, true, true}, {"f64", "KindF64", 64, true, true},
}

func (k arcKind) carrier() string {
	switch {
	case k.Float && k.Bits == 64:
		return "f64"
	case k.Float:
		return "f32"
	case k.Bits == 64:
		return "i64"
	}
	return "i32"
}

func (k arcKind) sign() byte {
	if k.Signed {
		return 's'
	}
	return 'u'
}

var arcBinOps = map[string]string{"+": "add", "-": "sub", "*": "mul", "/": "div", "%": "rem", "==": "eq", "!=": "ne", "<": "lt", ">": "gt", "<=": "le", ">=": "ge"}

type c19 struct {
	r        *Run
	p        *Prog
	kindObj  map[string]*types.Const
	kindStr  func(*types.Const) (string, bool)
	switchOp map[string]bool
}

func (c *c19) env(fn *FuncNode) *kenv {
	return &kenv{p: c.p, fn: fn, vars: map[types.Object]kval{}, kindString: c.kindStr}
}

func (c *c19) typeVal(k arcKind) kval {
	return kval{K: kvType, Kind: c.kindObj[k.Const]}
}

// opcodes extracts the opcode bytes (not immediates) of an effect list.
func opcodeBytes(effects []kval) ([]int64, bool) {
	var out []int64
	for _, e := range effects {
		if e.Descr == "imm" {
			continue
		}
		if e.K != kvConst {
			return nil, false
		}
		v := e.Lit
		if e.C != nil {
			v = e.C.Val()
		}
		n, ok := constant.Int64Val(constant.ToInt(v))
		if !ok {
			return nil, false
		}
		out = append(out, n)
	}
	return out, true
}

func describeOps(ops []int64) string {
	var parts []string
	for _, o := range ops {
		if s, ok := wasmSpec[o]; ok {
			name := s.Op
			if s.Sign != 0 {
				name += "_" + string(s.Sign)
			}
			if s.Arg != "" && s.Arg != s.Res {
				parts = append(parts, fmt.Sprintf("0x%02x %s.%s/%s", o, s.Res, name, s.Arg))
			} else {
				parts = append(parts, fmt.Sprintf("0x%02x %s.%s", o, s.Res, name))
			}
		} else {
			parts = append(parts, fmt.Sprintf("0x%02x", o))
		}
	}
	if len(parts) == 0 {
		return "(nothing)"
	}
	return strings.Join(parts, "; ")
}

func checkC19(r *Run) {
	r.Explanation = "Structural necessary conditions of 'compiled Arc code computes what the specification says', decided by evaluating the compiler's selection functions over the finite domain of the ten scalar kinds (no compiler code is run; the syntax trees of wasm.binaryOpcode, wasm.ConvertType, expression.EmitCast, the types.Type predicates and the unary-minus switch are interpreted over abstract kinds): (R1) for every operator string and kind, the selected WebAssembly instruction (compared by opcode byte against the WebAssembly instruction table) has the operator the source operator denotes, operates on the register class the kind is carried in, and is the signed variant exactly for signed kinds; (R2) the register class of each kind; (R3) every operator string the compiler can hand to the selector has a case in it; (R4) every cast between distinct register classes emits exactly one conversion whose operand/result classes are those of the source/target kinds, sign- or zero-extending by the source's signedness and truncating by the target's; (R5) unary minus multiplies/negates in the kind's register class; (R6-R9) narrow (8/16-bit) results are re-normalised to their width, narrowing casts truncate, float->integer casts saturate, signed<->unsigned casts saturate; (R10) each operand of 'and'/'or' is normalised to 0/1 before it is joined, with the short-circuit constant 1 for 'or' and 0 for 'and'; (R11) the block depth recorded in the compile context equals the number of structured blocks actually emitted at every nested statement compilation, and loop break/continue depths name a block/loop opened at that depth."
	r.NotDecided = "Values computed by compiled programs (this is not an execution of any program): evaluation order, precedence/associativity of the parser, stateful variables, host math functions, wasm validation of whole modules, the no-crash clause for arbitrary source text."
	r.Trusted = []string{"go/types constant evaluation", "go/cfg", "the WebAssembly 1.0 numeric instruction table embedded in the checker", "arc/docs/spec.md cast rules as transcribed in the rule texts"}
	r.Extra["module"] = "arc/go"
	p, err := Load("arc/go", "./compiler/...", "./types/...", "./stl/stateful/...")
	if err != nil {
		r.Undecide("%v", err)
		return
	}
	r.Stats["packages"] = len(p.Repo)
	r.Rule("C19.R1.binop", "wasm.binaryOpcode(op, kind) selects, for each of the 11 operators and 10 scalar kinds, the instruction with that operator on the kind's register class, signed iff the kind is signed (division, remainder, ordering)", 100)
	r.Rule("C19.R2.carrier", "wasm.ConvertType maps u8..u32/i8..i32 to i32, u64/i64 to i64, f32 to f32, f64 to f64", 10)
	r.Rule("C19.R3.operators", "every operator string that reaches Writer.WriteBinaryOpInferred is a case of binaryOpcode's switch", 8)
	r.Rule("C19.R4.cast", "expression.EmitCast(from, to) between kinds in different register classes emits exactly one conversion from class(from) to class(to): extend/convert signed iff from is signed, trunc signed iff to is signed; same class emits no conversion", 90)
	r.Rule("C19.R5.negate", "unary minus on kind K emits const -1 and mul of K's integer register class, or neg of K's float class", 10)
	r.Rule("C19.R6.wrap", "results of + - * and unary minus on 8/16-bit kinds are re-normalised to the kind's width (two's-complement wrapping per integer width)", 4)
	r.Rule("C19.R7.narrow", "a cast from a wider integer kind to an 8/16-bit kind truncates to the target width", 4)
	r.Rule("C19.R8.saturate", "a float -> integer cast saturates instead of trapping", 2)
	r.Rule("C19.R9.signsat", "a signed <-> unsigned integer cast whose source range exceeds the target range saturates at the target's bounds", 2)
	r.Rule("C19.R10.logic", "in the 'or'/'and' lowering every operand compile is followed by normalizeBoolean (value != 0) before the join; the short-circuit arm pushes 1 for 'or' and 0 for 'and'", 6)
	r.Rule("C19.R14.presence", "the stateful-variable host functions decide 'stored value or initialiser' by the presence of the slot (comma-ok), never by comparing the looked-up value with zero", 5)
	r.Rule("C19.R13.locals", "compiler.collectLocals lists local types in the order symbol.Add numbered them (one pre-order pass), for the same set of symbol kinds", 2)
	r.Rule("C19.R12.bound", "every local the emitted loop header and increment read is a hidden '__for_*' local or a loop variable, resolved once from the loop scope (range bounds are fixed on loop entry)", 10)
	r.Rule("C19.R11.depth", "at every nested statement compilation the context's block depth equals the number of open emitted blocks; LoopEntry.BreakDepth names a 'block', ContinueDepth a 'block' or 'loop' strictly inside it, both read when they name the innermost open block", 12)

	c := &c19{r: r, p: p, kindObj: map[string]*types.Const{}, switchOp: map[string]bool{}}
	tp := p.Pkg(arcTypesPkg)
	if tp == nil {
		r.Undecide("C19: package %s not loaded", arcTypesPkg)
		return
	}
	for _, k := range arcKinds {
		o, _ := tp.Types.Scope().Lookup(k.Const).(*types.Const)
		if o == nil {
			r.Undecide("C19: kind constant %s not found", k.Const)
			return
		}
		c.kindObj[k.Const] = o
	}
	c.kindStr = kindStringTable(p, p.Func(arcTypesPkg, "Type", "String"))
	c.checkBinop()
	c.checkCarrier()
	c.checkOperators()
	c.checkCasts()
	c.checkNegate()
	c.checkWrap()
	c.checkLogic()
	c.checkDepth()
	c.checkLoopHeaderReads()
	c.checkLocalsOrder()
	c.checkStatePresence()
}

// checkStatePresence decides C19.R14: a stateful variable is "already initialised" when
// its slot exists, not when its value is non-zero. In stl/stateful every lookup of a
// state map that decides between the stored value and the initialiser uses the comma-ok
// form; a test of the looked-up value against zero re-applies the initialiser whenever
// the stored value is 0.
func (c *c19) checkStatePresence() {
	const pkg = "arc/stl/stateful"
	if c.p.Pkg(pkg) == nil {
		c.r.Undecide("C19.R14: package %s not loaded", pkg)
		return
	}
	n := 0
	for _, fn := range c.p.FuncsOfPkg(pkg) {
		if fn.Body == nil {
			continue
		}
		inspectNoLit(fn.Body, func(x ast.Node) bool {
			ifs, ok := x.(*ast.IfStmt)
			if !ok || ifs.Init == nil {
				return true
			}
			as, ok := ifs.Init.(*ast.AssignStmt)
			if !ok || len(as.Rhs) != 1 {
				return true
			}
			ix, ok := ast.Unparen(as.Rhs[0]).(*ast.IndexExpr)
			if !ok {
				return true
			}
			tv, ok := fn.Pkg.TypesInfo.Types[ix.X]
			if !ok {
				return true
			}
			if _, isMap := tv.Type.Underlying().(*types.Map); !isMap {
				return true
			}
			n++
			commaOK := len(as.Lhs) == 2
			if commaOK {
				if o := objOf(fn, as.Lhs[1]); o == nil || objOf(fn, ifs.Cond) != o {
					// the condition must be the ok flag itself (possibly negated elsewhere)
					if u, isNot := ast.Unparen(ifs.Cond).(*ast.UnaryExpr); !isNot || objOf(fn, u.X) != o {
						commaOK = false
					}
				}
			}
			c.r.Ob("C19.R14.presence", fmt.Sprintf("state lookup #%d in %s decides by presence", n, fn.Name), posOf(c.p, ifs), commaOK,
				"the branch is chosen by "+types.ExprString(ifs.Cond)+" instead of the comma-ok flag of the map lookup: a stored zero reads as 'never initialised' and the initialiser is applied again")
			return true
		})
	}
	if n < 5 {
		c.r.Undecide("C19.R14: only %d map lookups in if-initialisers found in %s (expected >= 5)", n, pkg)
	}
}

// checkLocalsOrder decides C19.R13: symbol.Scope.Add numbers variables from one
// per-function counter in the order they are declared (a pre-order walk of the scope
// tree); compiler.collectLocals must list the local types in exactly that order, i.e.
// walk the children once and descend into a nested block or loop at its own position.
// The kinds that receive an ID and the kinds collected as locals must agree (inputs and
// config values are parameters, not locals).
func (c *c19) checkLocalsOrder() {
	fn := c.p.Func("arc/compiler", "", "collectLocals")
	add := c.p.Func("arc/symbol", "Symbol", "Add")
	if fn == nil {
		c.r.Undecide("C19.R13: compiler.collectLocals not found")
		return
	}
	// (a) one loop over the children; the recursive call is inside that loop
	var loops []*ast.RangeStmt
	inspectNoLit(fn.Body, func(x ast.Node) bool {
		if rng, ok := x.(*ast.RangeStmt); ok {
			loops = append(loops, rng)
		}
		return true
	})
	var rec []*ast.CallExpr
	inspectNoLit(fn.Body, func(x ast.Node) bool {
		if call, ok := x.(*ast.CallExpr); ok && IsFunc(Callee(fn, call), fn) {
			rec = append(rec, call)
		}
		return true
	})
	collected := map[string]bool{}
	var ownLoop *ast.RangeStmt
	for _, l := range loops {
		inspectNoLit(l.Body, func(x ast.Node) bool {
			if cc, ok := x.(*ast.CaseClause); ok {
				hasConv := false
				inspectNoLit(cc, func(y ast.Node) bool {
					if call, ok := y.(*ast.CallExpr); ok {
						if f := CalleeFunc(fn, call); f != nil && f.Name() == "ConvertType" {
							hasConv = true
						}
					}
					return true
				})
				if hasConv {
					ownLoop = l
					for _, e := range cc.List {
						if sel, ok := ast.Unparen(e).(*ast.SelectorExpr); ok {
							collected[sel.Sel.Name] = true
						}
					}
				}
			}
			return true
		})
	}
	inOrder := ownLoop != nil && len(rec) > 0
	for _, call := range rec {
		if ownLoop == nil || !contains(ownLoop.Body, call) {
			inOrder = false
		}
	}
	c.r.Ob("C19.R13.locals", "collectLocals descends into a nested scope at its position among the children", posOf(c.p, fn.Decl), inOrder && len(loops) == 1,
		fmt.Sprintf("%d loop(s), %d recursive call(s): local indices are assigned in declaration order (pre-order); collecting a scope's own variables before its nested scopes permutes the local type vector", len(loops), len(rec)))
	// (b) kinds
	if add == nil {
		c.r.Undecide("C19.R13: symbol.Symbol.Add not found")
		return
	}
	idKinds := map[string]bool{}
	inspectNoLit(add.Body, func(x ast.Node) bool {
		ifs, ok := x.(*ast.IfStmt)
		if !ok {
			return true
		}
		assignsID := false
		inspectNoLit(ifs.Body, func(y ast.Node) bool {
			if as, ok := y.(*ast.AssignStmt); ok {
				for _, l := range as.Lhs {
					if sel, ok := ast.Unparen(l).(*ast.SelectorExpr); ok && sel.Sel.Name == "ID" {
						assignsID = true
					}
				}
			}
			return true
		})
		if !assignsID {
			return true
		}
		for _, d := range disjuncts(ifs.Cond) {
			if be, ok := ast.Unparen(d).(*ast.BinaryExpr); ok {
				if id, ok := ast.Unparen(be.Y).(*ast.Ident); ok && strings.HasPrefix(id.Name, "Kind") {
					idKinds[id.Name] = true
				}
			}
		}
		return true
	})
	params := map[string]string{"KindInput": "function parameter", "KindConfig": "function parameter"}
	var missing, extra []string
	for k := range idKinds {
		if !collected[k] {
			if _, ok := params[k]; !ok {
				missing = append(missing, k)
			}
		}
	}
	for k := range collected {
		if !idKinds[k] {
			extra = append(extra, k)
		}
	}
	sort.Strings(missing)
	sort.Strings(extra)
	c.r.Ob("C19.R13.locals", "the kinds numbered by Symbol.Add and the kinds declared as locals agree", posOf(c.p, fn.Decl), len(missing) == 0 && len(extra) == 0 && len(idKinds) >= 4,
		fmt.Sprintf("numbered but not declared: %v; declared but not numbered: %v", missing, extra))
}

// checkLoopHeaderReads decides C19.R12: the bounds of a range loop are evaluated once.
// Everything the emitted loop header and increment read (local.get after the 'loop'
// instruction was written) is a hidden local of the loop ("__for_*", set before the
// loop) or one of the loop's own variables, never a user variable the body can assign.
func (c *c19) checkLoopHeaderReads() {
	n := 0
	for _, fn := range c.p.FuncsOfPkg(arcStmtPkg) {
		if fn.Decl == nil || fn.Body == nil {
			continue
		}
		var loopAt token.Pos
		inspectNoLit(fn.Body, func(x ast.Node) bool {
			if call, ok := x.(*ast.CallExpr); ok && loopAt == token.NoPos {
				if f := CalleeFunc(fn, call); f != nil && f.Name() == "WriteLoop" && recvNamed(f) == "Writer" {
					loopAt = call.End()
				}
			}
			return true
		})
		if loopAt == token.NoPos {
			continue
		}
		strParams := map[types.Object]bool{}
		for i := 0; ; i++ {
			po := paramObj(fn, i)
			if po == nil {
				break
			}
			if b, ok := po.Type().Underlying().(*types.Basic); ok && b.Kind() == types.String {
				strParams[po] = true
			}
		}
		// symOK: a symbol variable defined once from Resolve(ctx, "__for_*" | loop variable name)
		symOK := func(o types.Object) (bool, string) {
			var defs []ast.Expr
			inspectNoLit(fn.Body, func(x ast.Node) bool {
				if as, ok := x.(*ast.AssignStmt); ok {
					for i, l := range as.Lhs {
						if objOf(fn, l) == o {
							if len(as.Rhs) == 1 {
								defs = append(defs, as.Rhs[0])
							} else if i < len(as.Rhs) {
								defs = append(defs, as.Rhs[i])
							}
						}
					}
				}
				return true
			})
			if len(defs) != 1 {
				return false, fmt.Sprintf("%s has %d definitions", o.Name(), len(defs))
			}
			call, ok := ast.Unparen(defs[0]).(*ast.CallExpr)
			if !ok || len(call.Args) != 2 {
				return false, o.Name() + " is not a scope lookup"
			}
			f := CalleeFunc(fn, call)
			if f == nil || f.Name() != "Resolve" {
				return false, o.Name() + " is not a scope lookup"
			}
			if sname, ok := constString(fn, call.Args[1]); ok {
				if strings.HasPrefix(sname, "__for_") {
					return true, ""
				}
				return false, "looks up " + sname
			}
			if po := objOf(fn, call.Args[1]); po != nil && strParams[po] {
				return true, ""
			}
			return false, o.Name() + " looks up a name that is neither a hidden loop local nor a loop variable"
		}
		idxOK := func(e ast.Expr) (bool, string) {
			e = ast.Unparen(e)
			if sel, ok := e.(*ast.SelectorExpr); ok && sel.Sel.Name == "ID" {
				if so := objOf(fn, sel.X); so != nil {
					return symOK(so)
				}
			}
			o := objOf(fn, e)
			if o == nil {
				return false, "not a variable"
			}
			var defs []ast.Expr
			inspectNoLit(fn.Body, func(x ast.Node) bool {
				if as, ok := x.(*ast.AssignStmt); ok {
					for i, l := range as.Lhs {
						if objOf(fn, l) == o {
							if len(as.Lhs) == len(as.Rhs) {
								defs = append(defs, as.Rhs[i])
							} else {
								defs = append(defs, nil)
							}
						}
					}
				}
				return true
			})
			if len(defs) != 1 || defs[0] == nil {
				return false, fmt.Sprintf("%s has %d definitions (one of them is not '<symbol>.ID')", o.Name(), len(defs))
			}
			sel, ok := ast.Unparen(defs[0]).(*ast.SelectorExpr)
			if !ok || sel.Sel.Name != "ID" {
				return false, o.Name() + " is not defined as <symbol>.ID"
			}
			so := objOf(fn, sel.X)
			if so == nil {
				return false, o.Name() + " is not defined as <symbol>.ID"
			}
			return symOK(so)
		}
		seen := map[string]int{}
		inspectNoLit(fn.Body, func(x ast.Node) bool {
			call, ok := x.(*ast.CallExpr)
			if !ok || call.Pos() < loopAt || len(call.Args) != 1 {
				return true
			}
			f := CalleeFunc(fn, call)
			if f == nil || f.Name() != "WriteLocalGet" || recvNamed(f) != "Writer" {
				return true
			}
			n++
			good, why := idxOK(call.Args[0])
			key := fmt.Sprintf("%s: local.get %s in the loop header/increment", fn.Name, types.ExprString(call.Args[0]))
			seen[key]++
			if seen[key] > 1 {
				key = fmt.Sprintf("%s #%d", key, seen[key])
			}
			c.r.Ob("C19.R12.bound", key, posOf(c.p, call), good, "the loop re-reads a local that is not fixed on loop entry ("+why+"): a body that assigns it changes the iteration count")
			return true
		})
	}
	if n < 10 {
		c.r.Undecide("C19.R12: only %d local.get emissions after WriteLoop found (expected >= 10)", n)
	}
}

// ---------------------------------------------------------------------------------

func (c *c19) evalCall(fn *FuncNode, args map[int]kval) ([]kval, []kval, string) {
	e := c.env(fn)
	for i, v := range args {
		if po := paramObj(fn, i); po != nil {
			e.vars[po] = v
		}
	}
	res := e.block(fn.Body.List)
	return res.vals, e.effects, e.fail
}

func (c *c19) checkBinop() {
	fn := c.p.Func(arcWasmPkg, "", "binaryOpcode")
	if fn == nil {
		c.r.Undecide("C19.R1: wasm.binaryOpcode not found")
		return
	}
	// the operator cases of its switch
	var ops []string
	ast.Inspect(fn.Body, func(n ast.Node) bool {
		sw, ok := n.(*ast.SwitchStmt)
		if !ok || sw.Tag == nil || objOf(fn, sw.Tag) != paramObj(fn, 0) {
			return true
		}
		for _, cc := range sw.Body.List {
			for _, e := range cc.(*ast.CaseClause).List {
				if s, ok := constString(fn, e); ok {
					ops = append(ops, s)
					c.switchOp[s] = true
				}
			}
		}
		return false
	})
	for op := range arcBinOps {
		if !c.switchOp[op] {
			c.r.Ob("C19.R1.binop", fmt.Sprintf("binaryOpcode(%q, *)", op), posOf(c.p, fn.Decl), false, "the selector has no case for this operator of the language")
		}
	}
	sort.Strings(ops)
	for _, op := range ops {
		want, known := arcBinOps[op]
		if !known {
			c.r.Undecide("C19.R1: binaryOpcode has a case %q whose meaning the checker does not know", op)
			continue
		}
		for _, k := range arcKinds {
			construct := fmt.Sprintf("binaryOpcode(%q, %s)", op, k.Name)
			vals, _, fail := c.evalCall(fn, map[int]kval{0: {K: kvConst, Lit: constant.MakeString(op)}, 1: c.typeVal(k)})
			if fail != "" || len(vals) != 2 {
				c.r.Undecide("C19.R1: cannot evaluate %s: %s", construct, fail)
				continue
			}
			if vals[1].K == kvErr {
				c.r.Ob("C19.R1.binop", construct, posOf(c.p, fn.Decl), false, "the selector returns an error for an operator/kind combination the analyzer accepts (operator "+op+" is defined on all numeric types)")
				continue
			}
			bytes, ok := opcodeBytes(vals[:1])
			if !ok || len(bytes) != 1 {
				c.r.Undecide("C19.R1: %s does not evaluate to an opcode constant", construct)
				continue
			}
			got, inSpec := wasmSpec[bytes[0]]
			wantSign := byte(0)
			if !k.Float && (want == "div" || want == "rem" || want == "lt" || want == "gt" || want == "le" || want == "ge") {
				wantSign = k.sign()
			}
			good := inSpec && got.Op == want && got.Arg == k.carrier() && got.Sign == wantSign
			c.r.Ob("C19.R1.binop", construct, posOf(c.p, fn.Decl), good,
				fmt.Sprintf("selected %s; required %s.%s%s", describeOps(bytes), k.carrier(), want, signSuffix(wantSign)))
		}
	}
}

func signSuffix(s byte) string {
	if s == 0 {
		return ""
	}
	return "_" + string(s)
}

func (c *c19) checkCarrier() {
	fn := c.p.Func(arcWasmPkg, "", "ConvertType")
	if fn == nil {
		c.r.Undecide("C19.R2: wasm.ConvertType not found")
		return
	}
	for _, k := range arcKinds {
		construct := "ConvertType(" + k.Name + ")"
		vals, _, fail := c.evalCall(fn, map[int]kval{0: c.typeVal(k)})
		if fail != "" || len(vals) != 1 {
			c.r.Undecide("C19.R2: cannot evaluate %s: %s", construct, fail)
			continue
		}
		b, ok := opcodeBytes(vals)
		if !ok {
			c.r.Undecide("C19.R2: %s is not a constant", construct)
			continue
		}
		got := valTypeByte[b[0]]
		c.r.Ob("C19.R2.carrier", construct, posOf(c.p, fn.Decl), got == k.carrier(), fmt.Sprintf("maps to %q (0x%02x); required %s", got, b[0], k.carrier()))
	}
}

// stringSources resolves the constant strings an expression can evaluate to: literals,
// variables assigned only from such, elements of slices built by append of such, and
// results of package-local functions returning only such.
func (c *c19) stringSources(fn *FuncNode, e ast.Expr, depth int) ([]string, bool) {
	if depth > 4 {
		return nil, false
	}
	e = ast.Unparen(e)
	if s, ok := constString(fn, e); ok {
		return []string{s}, true
	}
	switch x := e.(type) {
	case *ast.IndexExpr:
		o := objOf(fn, x.X)
		if o == nil {
			return nil, false
		}
		var out []string
		ok := true
		found := false
		inspectNoLit(fn.Body, func(n ast.Node) bool {
			as, isAs := n.(*ast.AssignStmt)
			if !isAs {
				return true
			}
			for i, l := range as.Lhs {
				if objOf(fn, l) != o || i >= len(as.Rhs) {
					continue
				}
				call, isCall := ast.Unparen(as.Rhs[i]).(*ast.CallExpr)
				if !isCall {
					ok = false
					continue
				}
				if bi, isB := Callee(fn, call).(*types.Builtin); !isB || bi.Name() != "append" || objOf(fn, call.Args[0]) != o {
					ok = false
					continue
				}
				for _, a := range call.Args[1:] {
					s, sok := c.stringSources(fn, a, depth+1)
					if !sok {
						ok = false
					}
					out = append(out, s...)
					found = true
				}
			}
			return true
		})
		return out, ok && found
	case *ast.Ident:
		o := objOf(fn, x)
		if o == nil {
			return nil, false
		}
		if po, isParam := paramIndex(fn, o); isParam {
			_ = po
			return nil, false
		}
		var out []string
		ok, found := true, false
		inspectNoLit(fn.Body, func(n ast.Node) bool {
			as, isAs := n.(*ast.AssignStmt)
			if !isAs {
				return true
			}
			for i, l := range as.Lhs {
				if objOf(fn, l) == o {
					if len(as.Lhs) != len(as.Rhs) {
						ok = false
						continue
					}
					s, sok := c.stringSources(fn, as.Rhs[i], depth+1)
					if !sok {
						ok = false
					}
					out = append(out, s...)
					found = true
				}
			}
			return true
		})
		return out, ok && found
	case *ast.CallExpr:
		f := CalleeFunc(fn, x)
		if f == nil {
			return nil, false
		}
		callee, ok := c.p.ByObj[f]
		if !ok || callee.Body == nil {
			return nil, false
		}
		var out []string
		good, found := true, false
		inspectNoLit(callee.Body, func(n ast.Node) bool {
			if ret, isRet := n.(*ast.ReturnStmt); isRet && len(ret.Results) == 1 {
				s, sok := c.stringSources(callee, ret.Results[0], depth+1)
				if !sok {
					good = false
				}
				out = append(out, s...)
				found = true
			}
			return true
		})
		return out, good && found
	}
	return nil, false
}

func paramIndex(fn *FuncNode, o types.Object) (int, bool) {
	for i := 0; i < 16; i++ {
		po := paramObj(fn, i)
		if po == nil {
			break
		}
		if po == o {
			return i, true
		}
	}
	return 0, false
}

type binopSite struct {
	fn   *FuncNode
	call *ast.CallExpr
	ops  []string
}

func (c *c19) binopSites() []binopSite {
	var sites []binopSite
	for _, fn := range c.p.Funcs {
		if !fn.InPkgs("arc/compiler") || fn.InPkgs("arc/compiler/testutil") || fn.Body == nil {
			continue
		}
		inspectNoLit(fn.Body, func(n ast.Node) bool {
			call, ok := n.(*ast.CallExpr)
			if !ok {
				return true
			}
			f := CalleeFunc(fn, call)
			if f == nil || f.Name() != "WriteBinaryOpInferred" || recvNamed(f) != "Writer" || len(call.Args) != 2 {
				return true
			}
			ops, ok := c.stringSources(fn, call.Args[0], 0)
			if !ok {
				if _, isParam := paramIndex(fn, objOf(fn, call.Args[0])); isParam {
					return true // forwarded parameter: the callers are the sites
				}
				c.r.Undecide("C19.R3: operator argument %s of %s at %s cannot be resolved to constant strings", types.ExprString(call.Args[0]), fn.Name, posOf(c.p, call))
				return true
			}
			sites = append(sites, binopSite{fn, call, ops})
			return true
		})
	}
	return sites
}

func (c *c19) checkOperators() {
	if len(c.switchOp) == 0 {
		return
	}
	seen := map[string]int{}
	for _, s := range c.binopSites() {
		seen[s.fn.Name]++
		var bad []string
		uniq := map[string]bool{}
		for _, op := range s.ops {
			if op == "" || uniq[op] {
				continue // the zero string is the 'no token matched' default and is rejected by the selector
			}
			uniq[op] = true
			if !c.switchOp[op] {
				bad = append(bad, op)
			}
		}
		var all []string
		for op := range uniq {
			all = append(all, op)
		}
		sort.Strings(all)
		c.r.Ob("C19.R3.operators", fmt.Sprintf("operator strings of WriteBinaryOpInferred call #%d in %s", seen[s.fn.Name], s.fn.Name), posOf(c.p, s.call), len(bad) == 0 && len(all) > 0,
			fmt.Sprintf("operators %v; without a selector case: %v", all, bad))
	}
}

func (c *c19) castEffects(fn *FuncNode, from, to arcKind) ([]int64, string) {
	// parameters: ctx, from, to
	_, eff, fail := c.evalCall(fn, map[int]kval{1: c.typeVal(from), 2: c.typeVal(to)})
	if fail != "" {
		return nil, fail
	}
	b, ok := opcodeBytes(eff)
	if !ok {
		return nil, "a non-constant opcode is emitted"
	}
	return b, ""
}

func isNormaliser(ops []int64, k arcKind) bool {
	for _, o := range ops {
		s, ok := wasmSpec[o]
		if !ok {
			continue
		}
		switch s.Op {
		case "and", "extend8", "extend16", "shr", "rem":
			return true
		}
	}
	return false
}

func (c *c19) checkCasts() {
	fn := c.p.Func(arcExprPkg, "", "EmitCast")
	if fn == nil {
		c.r.Undecide("C19.R4: expression.EmitCast not found")
		return
	}
	pos := posOf(c.p, fn.Decl)
	narrowBad := map[string][]string{}
	satBad := map[string][]string{}
	signBad := map[string][]string{}
	for _, from := range arcKinds {
		for _, to := range arcKinds {
			construct := fmt.Sprintf("EmitCast(%s -> %s)", from.Name, to.Name)
			ops, fail := c.castEffects(fn, from, to)
			if fail != "" {
				c.r.Undecide("C19.R4: cannot evaluate %s: %s", construct, fail)
				continue
			}
			// R4: the register-class conversion
			var conv []wasmOp
			var convBytes []int64
			for _, o := range ops {
				if s, ok := wasmSpec[o]; ok {
					switch s.Op {
					case "wrap", "extend", "trunc", "convert", "promote", "demote", "reinterpret":
						if s.Arg != s.Res || s.Op == "trunc" && !strings.HasPrefix(s.Arg, "f") {
							conv = append(conv, s)
							convBytes = append(convBytes, o)
						}
					}
				} else {
					conv = append(conv, wasmOp{Op: "unknown"})
					convBytes = append(convBytes, o)
				}
			}
			if from.carrier() == to.carrier() {
				c.r.Ob("C19.R4.cast", construct, pos, len(conv) == 0, "same register class; emitted "+describeOps(ops))
			} else {
				var wantOp string
				var wantSign byte
				switch {
				case !from.Float && !to.Float && to.Bits == 64:
					wantOp, wantSign = "extend", from.sign()
				case !from.Float && !to.Float:
					wantOp = "wrap"
				case !from.Float && to.Float:
					wantOp, wantSign = "convert", from.sign()
				case from.Float && !to.Float:
					wantOp, wantSign = "trunc", to.sign()
				case from.Bits < to.Bits:
					wantOp = "promote"
				default:
					wantOp = "demote"
				}
				good := len(conv) == 1 && conv[0].Op == wantOp && conv[0].Sign == wantSign && conv[0].Arg == from.carrier() && conv[0].Res == to.carrier()
				if !good && len(conv) == 0 {
					// zero-valued opcode (unreachable) or nothing at all
					good = false
				}
				c.r.Ob("C19.R4.cast", construct, pos, good, fmt.Sprintf("emitted %s; required %s.%s%s/%s", describeOps(ops), to.carrier(), wantOp, signSuffix(wantSign), from.carrier()))
			}
			// R7: narrowing to 8/16 bits from a wider integer
			if !to.Float && to.Bits < 32 && !from.Float && from.Bits > to.Bits {
				if !isNormaliser(ops, to) {
					narrowBad[to.Name] = append(narrowBad[to.Name], from.Name)
				}
			}
			// R8: float -> int saturates
			if from.Float && !to.Float {
				sat := false
				for _, o := range ops {
					if s, ok := wasmSpec[o]; ok && (s.Op == "misc-prefix" || s.Op == "select" || s.Op == "if" || s.Op == "min" || s.Op == "max") {
						sat = true
					}
				}
				if !sat {
					satBad[from.Name] = append(satBad[from.Name], to.Name)
				}
			}
			// R9: signed <-> unsigned saturates
			if !from.Float && !to.Float && from.Signed != to.Signed && (from.Signed || to.Bits <= from.Bits) {
				sat := false
				for _, o := range ops {
					if s, ok := wasmSpec[o]; ok && (s.Op == "select" || s.Op == "if" || s.Op == "br_if") {
						sat = true
					}
				}
				key := "signed -> unsigned"
				if !from.Signed {
					key = "unsigned -> signed"
				}
				if !sat {
					signBad[key] = append(signBad[key], from.Name+"->"+to.Name)
				}
			}
		}
	}
	for _, k := range arcKinds {
		if k.Float || k.Bits >= 32 {
			continue
		}
		bad := narrowBad[k.Name]
		c.r.Ob("C19.R7.narrow", "EmitCast(wider integer -> "+k.Name+")", pos, len(bad) == 0, fmt.Sprintf("no truncation to %d bits is emitted for sources %v (value keeps its upper bits in the i32 register)", k.Bits, bad))
	}
	for _, k := range arcKinds {
		if !k.Float {
			continue
		}
		bad := satBad[k.Name]
		c.r.Ob("C19.R8.saturate", "EmitCast("+k.Name+" -> integer)", pos, len(bad) == 0, fmt.Sprintf("a trapping trunc with no clamp is emitted for targets %v (out-of-range and NaN inputs trap instead of saturating)", bad))
	}
	for _, key := range []string{"signed -> unsigned", "unsigned -> signed"} {
		bad := signBad[key]
		c.r.Ob("C19.R9.signsat", "EmitCast("+key+" integer)", pos, len(bad) == 0, fmt.Sprintf("no comparison/select is emitted for %v (the bit pattern is reinterpreted instead of saturating)", bad))
	}
}

// kindSwitch finds, in fn, the switch statements whose tag is "<v>.Kind" for a variable v
// of the arc Type, returning the variable.
func kindSwitches(fn *FuncNode) map[*ast.SwitchStmt]types.Object {
	out := map[*ast.SwitchStmt]types.Object{}
	inspectNoLit(fn.Body, func(n ast.Node) bool {
		sw, ok := n.(*ast.SwitchStmt)
		if !ok || sw.Tag == nil {
			return true
		}
		sel, ok := ast.Unparen(sw.Tag).(*ast.SelectorExpr)
		if !ok || sel.Sel.Name != "Kind" {
			return true
		}
		if o := objOf(fn, sel.X); o != nil {
			out[sw] = o
		}
		return true
	})
	return out
}

func (c *c19) negateEffects(k arcKind) ([]kval, *FuncNode, *ast.SwitchStmt, string) {
	fn := c.p.Func(arcExprPkg, "", "compileUnary")
	if fn == nil {
		return nil, nil, nil, "expression.compileUnary not found"
	}
	// the switch inside the MINUS branch
	var target *ast.SwitchStmt
	var v types.Object
	inspectNoLit(fn.Body, func(n ast.Node) bool {
		ifs, ok := n.(*ast.IfStmt)
		if !ok || target != nil {
			return true
		}
		if !strings.Contains(types.ExprString(ifs.Cond), "MINUS()") {
			return true
		}
		for sw, o := range kindSwitches(&FuncNode{Pkg: fn.Pkg, Body: ifs.Body}) {
			target, v = sw, o
		}
		return false
	})
	if target == nil {
		return nil, fn, nil, "the kind switch of the unary-minus branch was not found"
	}
	e := c.env(fn)
	e.vars[v] = c.typeVal(k)
	res := e.stmt(target)
	if e.fail == "" && res.returned && len(res.vals) > 0 && res.vals[len(res.vals)-1].K == kvErr {
		return nil, fn, target, ""
	}
	return e.effects, fn, target, e.fail
}

func (c *c19) checkNegate() {
	for _, k := range arcKinds {
		construct := "unary minus on " + k.Name
		eff, fn, sw, fail := c.negateEffects(k)
		if fail != "" {
			c.r.Undecide("C19.R5: cannot evaluate %s: %s", construct, fail)
			continue
		}
		ops, ok := opcodeBytes(eff)
		if !ok {
			c.r.Undecide("C19.R5: %s emits a non-constant opcode", construct)
			continue
		}
		good := false
		if eff == nil {
			c.r.Ob("C19.R5.negate", construct, posOf(c.p, sw), false, "the compiler returns an error for unary minus on a numeric kind")
			continue
		}
		if k.Float {
			good = len(ops) == 1 && wasmSpec[ops[0]].Op == "neg" && wasmSpec[ops[0]].Res == k.carrier()
		} else if len(ops) >= 2 {
			// const -1 ; mul  (or  const 0 ; <x> ; sub is not what the compiler does: x is already on the stack)
			last := wasmSpec[ops[len(ops)-1]]
			first := wasmSpec[ops[0]]
			minusOne := false
			for _, ev := range eff {
				if ev.Descr == "imm" && ev.K == kvConst {
					if n, ok := constant.Int64Val(constant.ToInt(ev.Lit)); ok && n == -1 {
						minusOne = true
					}
				}
			}
			good = first.Op == "const" && first.Res == k.carrier() && last.Op == "mul" && last.Res == k.carrier() && minusOne
		}
		c.r.Ob("C19.R5.negate", construct, posOf(c.p, sw), good, "emitted "+describeOps(ops)+"; required "+map[bool]string{true: k.carrier() + ".neg", false: k.carrier() + ".const -1; " + k.carrier() + ".mul"}[k.Float])
		_ = fn
	}
}

// checkWrap decides R6 per narrow kind: every site that emits + - * (and unary minus)
// for the kind is followed by an emission that re-normalises the value.
func (c *c19) checkWrap() {
	wfn := c.p.Func(arcWasmPkg, "Writer", "WriteBinaryOpInferred")
	if wfn == nil {
		c.r.Undecide("C19.R6: Writer.WriteBinaryOpInferred not found")
		return
	}
	sites := c.binopSites()
	for _, k := range arcKinds {
		if k.Float || k.Bits >= 32 {
			continue
		}
		var lacking []string
		nsites := 0
		for _, s := range sites {
			arith := ""
			for _, op := range s.ops {
				if op == "+" || op == "-" || op == "*" {
					arith = op
				}
			}
			if arith == "" {
				continue
			}
			nsites++
			// (i) inside the writer
			_, eff, fail := c.evalCall(wfn, map[int]kval{0: {K: kvConst, Lit: constant.MakeString(arith)}, 1: c.typeVal(k)})
			if fail == "" {
				if ops, ok := opcodeBytes(eff); ok && len(ops) > 1 && isNormaliser(ops[1:], k) {
					continue
				}
			}
			// (ii) a later call in the same function taking the same type expression
			if c.laterNormaliser(s.fn, s.call, s.call.Args[1], k) {
				continue
			}
			lacking = append(lacking, fmt.Sprintf("%s (%s)", s.fn.Name, posOf(c.p, s.call)))
		}
		// unary minus
		if eff, fn, sw, fail := c.negateEffects(k); fail == "" {
			nsites++
			ops, _ := opcodeBytes(eff)
			mulAt := -1
			for i, o := range ops {
				if wasmSpec[o].Op == "mul" {
					mulAt = i
				}
			}
			if mulAt < 0 || !isNormaliser(ops[mulAt+1:], k) {
				lacking = append(lacking, fmt.Sprintf("%s unary minus (%s)", fn.Name, posOf(c.p, sw)))
			}
		}
		sort.Strings(lacking)
		c.r.Ob("C19.R6.wrap", "arithmetic results of kind "+k.Name, posOf(c.p, wfn.Decl), len(lacking) == 0 && nsites > 0,
			fmt.Sprintf("%d emission sites; the i32 result is not reduced to %d bits at: %s", nsites, k.Bits, strings.Join(lacking, ", ")))
	}
}

func (c *c19) laterNormaliser(fn *FuncNode, site *ast.CallExpr, typeArg ast.Expr, k arcKind) bool {
	want := types.ExprString(typeArg)
	found := false
	inspectNoLit(fn.Body, func(n ast.Node) bool {
		call, ok := n.(*ast.CallExpr)
		if !ok || call.Pos() <= site.End() || found {
			return true
		}
		f := CalleeFunc(fn, call)
		if f == nil {
			return true
		}
		callee, ok := c.p.ByObj[f]
		if !ok || callee.Body == nil || !callee.InPkgs("arc/compiler") {
			return true
		}
		args := map[int]kval{}
		has := false
		for i, a := range call.Args {
			if types.ExprString(a) == want {
				args[i] = c.typeVal(k)
				has = true
			}
		}
		if !has {
			return true
		}
		_, eff, fail := c.evalCall(callee, args)
		if fail != "" {
			return true
		}
		if ops, ok := opcodeBytes(eff); ok && isNormaliser(ops, k) {
			found = true
		}
		return true
	})
	return found
}

// ---------------------------------------------------------------------------------
// R10: boolean normalisation in the and/or lowering

func (c *c19) checkLogic() {
	norm := c.p.Func(arcExprPkg, "", "normalizeBoolean")
	if norm == nil {
		c.r.Undecide("C19.R10: expression.normalizeBoolean not found")
		return
	}
	_, eff, fail := c.evalCall(norm, nil)
	ops, ok := opcodeBytes(eff)
	if fail != "" || !ok {
		c.r.Undecide("C19.R10: cannot evaluate normalizeBoolean: %s", fail)
		return
	}
	zero := false
	for _, ev := range eff {
		if ev.Descr == "imm" && ev.K == kvConst {
			if n, ok := constant.Int64Val(constant.ToInt(ev.Lit)); ok && n == 0 {
				zero = true
			}
		}
	}
	good := len(ops) == 2 && wasmSpec[ops[0]].Op == "const" && wasmSpec[ops[0]].Res == "i32" && wasmSpec[ops[1]].Op == "ne" && wasmSpec[ops[1]].Arg == "i32" && zero
	c.r.Ob("C19.R10.logic", "normalizeBoolean emits (value != 0)", posOf(c.p, norm.Decl), good, "emitted "+describeOps(ops))

	for _, spec := range []struct {
		name    string
		operand string
		shortC  int64
		eqz     bool
	}{{"compileLogicalOrImpl", "compileLogicalAnd", 1, false}, {"compileLogicalAndImpl", "compileEquality", 0, true}} {
		fn := c.p.Func(arcExprPkg, "", spec.name)
		if fn == nil {
			c.r.Undecide("C19.R10: expression.%s not found", spec.name)
			continue
		}
		g := c.p.CFG(fn)
		isCallTo := func(n ast.Node, name string) *ast.CallExpr {
			var out *ast.CallExpr
			inspectNoLit(n, func(x ast.Node) bool {
				if call, ok := x.(*ast.CallExpr); ok && out == nil {
					if f := CalleeFunc(fn, call); f != nil && f.Name() == name {
						out = call
					}
				}
				return out == nil
			})
			return out
		}
		isJoin := func(n ast.Node) bool {
			// WriteIf, WriteOpcode(OpEnd), WriteEnd: the operand value is consumed/joined
			var hit bool
			inspectNoLit(n, func(x ast.Node) bool {
				call, ok := x.(*ast.CallExpr)
				if !ok {
					return true
				}
				f := CalleeFunc(fn, call)
				if f == nil || recvNamed(f) != "Writer" {
					return true
				}
				switch f.Name() {
				case "WriteIf", "WriteEnd", "WriteBrIf", "WriteSelect":
					hit = true
				case "WriteOpcode":
					if len(call.Args) == 1 {
						if tv, ok := fn.Pkg.TypesInfo.Types[call.Args[0]]; ok && tv.Value != nil {
							if n, ok := constant.Int64Val(constant.ToInt(tv.Value)); ok && (n == 0x0b || n == 0x04 || n == 0x45 || n == 0x1b) {
								hit = true
							}
						}
					}
				}
				return true
			})
			return hit
		}
		nOperand := 0
		for _, b := range g.G.Blocks {
			for i, n := range b.Nodes {
				call := isCallTo(n, spec.operand)
				if call == nil {
					continue
				}
				nOperand++
				// from after the operand compile, on the success edge, reach a join or a
				// success return without passing normalizeBoolean
				start := Point{b, i}
				path := c.reachWithout(g, fn, start, call, func(m ast.Node) bool { return isCallTo(m, "normalizeBoolean") != nil }, isJoin)
				c.r.ObPath("C19.R10.logic", fmt.Sprintf("operand compile #%d in %s is normalised before it is joined", nOperand, spec.name), posOf(c.p, call), path == nil,
					"a path from the operand's compilation reaches the join/return without normalizeBoolean", path)
			}
		}
		if nOperand < 2 {
			c.r.Undecide("C19.R10: %s: expected two operand compilations of %s, found %d", spec.name, spec.operand, nOperand)
		}
		// the short-circuit arm: the straight-line emission between WriteIf and OpElse
		var seq []string
		var consts []int64
		inIf := false
		eqzBeforeIf := false
		lastWasEqz := false
		foundArm := false
		inspectNoLit(fn.Body, func(x ast.Node) bool {
			call, ok := x.(*ast.CallExpr)
			if !ok {
				return true
			}
			f := CalleeFunc(fn, call)
			if f == nil || recvNamed(f) != "Writer" {
				return true
			}
			opc := int64(-1)
			if f.Name() == "WriteOpcode" && len(call.Args) == 1 {
				if tv, ok := fn.Pkg.TypesInfo.Types[call.Args[0]]; ok && tv.Value != nil {
					opc, _ = constant.Int64Val(constant.ToInt(tv.Value))
				}
			}
			switch {
			case f.Name() == "WriteIf":
				inIf = true
				eqzBeforeIf = lastWasEqz
			case f.Name() == "WriteElse" || opc == 0x05:
				if inIf {
					foundArm = true
				}
				inIf = false
			case f.Name() == "WriteI32Const" && inIf && len(call.Args) == 1:
				if tv, ok := fn.Pkg.TypesInfo.Types[call.Args[0]]; ok && tv.Value != nil {
					n, _ := constant.Int64Val(constant.ToInt(tv.Value))
					consts = append(consts, n)
				} else {
					consts = append(consts, -999)
				}
			default:
				if inIf {
					seq = append(seq, f.Name())
				}
			}
			lastWasEqz = f.Name() == "WriteI32Eqz" || opc == 0x45
			return true
		})
		if !foundArm {
			c.r.Undecide("C19.R10: %s: the WriteIf..Else short-circuit arm was not found (unknown lowering)", spec.name)
			continue
		}
		good := len(consts) == 1 && consts[0] == spec.shortC && len(seq) == 0 && eqzBeforeIf == spec.eqz
		c.r.Ob("C19.R10.logic", "short-circuit arm of "+spec.name, posOf(c.p, fn.Decl), good,
			fmt.Sprintf("arm pushes %v (other emissions %v), eqz before if: %v; required constant %d, eqz before if: %v", consts, seq, eqzBeforeIf, spec.shortC, spec.eqz))
	}
}

// reachWithout searches from just after node start (the statement containing call) along
// edges on which call's error is nil, to a node satisfying goal or a return of a nil
// error, avoiding nodes that satisfy block. It returns a witness path or nil.
func (c *c19) reachWithout(g *FuncCFG, fn *FuncNode, start Point, call *ast.CallExpr, block, goal func(ast.Node) bool) []string {
	errObj := errVarOfCall(fn, call)
	nilEdges := map[edge]bool{}
	if errObj != nil {
		nilEdges = errNilEdges(g, errObj)
	}
	type st struct {
		b *cfg.Block
		i int
	}
	seen := map[st]bool{}
	var path []string
	var dfs func(b *cfg.Block, i int) bool
	dfs = func(b *cfg.Block, i int) bool {
		for ; i < len(b.Nodes); i++ {
			n := b.Nodes[i]
			if block(n) {
				return false
			}
			if goal(n) {
				path = append(path, "reaches "+describe(n)+" at "+posOf(c.p, n))
				return true
			}
			if ret, ok := n.(*ast.ReturnStmt); ok {
				if len(ret.Results) > 0 {
					last := ret.Results[len(ret.Results)-1]
					if id, ok := ast.Unparen(last).(*ast.Ident); ok && id.Name == "nil" {
						path = append(path, "returns success at "+posOf(c.p, n))
						return true
					}
				}
				return false
			}
		}
		for si, s := range b.Succs {
			// an "if err != nil" on the call's error: only the nil edge continues
			if errObj != nil && len(b.Nodes) > 0 {
				if cond, ok := b.Nodes[len(b.Nodes)-1].(ast.Expr); ok && exprMentions(fn, cond, errObj) && len(b.Succs) == 2 {
					if !nilEdges[edge{b, si}] {
						continue
					}
				}
			}
			k := st{s, 0}
			if seen[k] {
				continue
			}
			seen[k] = true
			if dfs(s, 0) {
				return true
			}
		}
		return false
	}
	if dfs(start.B, start.I+1) {
		return path
	}
	return nil
}

// ---------------------------------------------------------------------------------
// R11: block depth tracking (constant propagation of depth(ctx) - open blocks)

type depthVal struct {
	top  bool
	n    int
	kind string // for ints read by BlockDepth(): kind of the innermost block at the read
	set  bool
}

func joinDepth(a, b depthVal) depthVal {
	if !a.set {
		return b
	}
	if !b.set {
		return a
	}
	if a.top || b.top || a.n != b.n || a.kind != b.kind {
		return depthVal{top: true, set: true}
	}
	return a
}

type depthState struct {
	vars map[types.Object]depthVal
	last depthVal // kind of the innermost open block emitted in this function (n unused)
	live bool
}

func (s depthState) clone() depthState {
	m := make(map[types.Object]depthVal, len(s.vars))
	for k, v := range s.vars {
		m[k] = v
	}
	return depthState{vars: m, last: s.last, live: s.live}
}

func isArcContext(t types.Type) bool {
	if t == nil {
		return false
	}
	n, ok := t.(*types.Named)
	if !ok {
		return false
	}
	return n.Obj().Name() == "Context" && n.Obj().Pkg() != nil && strings.HasSuffix(n.Obj().Pkg().Path(), arcCtxPkg)
}

func (c *c19) checkDepth() {
	// only EnterBlock may change the depth
	ctxPkg := c.p.Pkg(arcCtxPkg)
	if ctxPkg == nil {
		c.r.Undecide("C19.R11: package %s not loaded", arcCtxPkg)
		return
	}
	var depthField *types.Var
	if eb := c.p.Func(arcCtxPkg, "Context", "EnterBlock"); eb != nil {
		inspectNoLit(eb.Body, func(n ast.Node) bool {
			switch x := n.(type) {
			case *ast.IncDecStmt:
				if sel, ok := x.X.(*ast.SelectorExpr); ok {
					depthField, _ = eb.Pkg.TypesInfo.Uses[sel.Sel].(*types.Var)
				}
			case *ast.AssignStmt:
				if sel, ok := x.Lhs[0].(*ast.SelectorExpr); ok && (x.Tok == token.ADD_ASSIGN || x.Tok == token.ASSIGN) {
					if v, ok := eb.Pkg.TypesInfo.Uses[sel.Sel].(*types.Var); ok && v.IsField() {
						depthField = v
					}
				}
			}
			return true
		})
	}
	if depthField == nil {
		c.r.Undecide("C19.R11: the depth field written by Context.EnterBlock was not identified")
		return
	}
	for _, fn := range c.p.Funcs {
		if fn.Body == nil || !fn.InPkgs("arc/") {
			continue
		}
		inspectNoLit(fn.Body, func(n ast.Node) bool {
			var lhs []ast.Expr
			switch x := n.(type) {
			case *ast.AssignStmt:
				lhs = x.Lhs
			case *ast.IncDecStmt:
				lhs = []ast.Expr{x.X}
			}
			for _, l := range lhs {
				if sel, ok := ast.Unparen(l).(*ast.SelectorExpr); ok && fn.Pkg.TypesInfo.Uses[sel.Sel] == depthField {
					isEnter := fn.Decl != nil && fn.Decl.Name.Name == "EnterBlock"
					c.r.Ob("C19.R11.depth", "write of Context."+depthField.Name()+" in "+fn.Name, posOf(c.p, n), isEnter, "the block depth is changed only by EnterBlock")
				}
			}
			return true
		})
	}
	// every Context built by a composite literal carries the depth of the context it is
	// derived from
	for _, fn := range c.p.FuncsOfPkg(arcCtxPkg) {
		if fn.Body == nil {
			continue
		}
		inspectNoLit(fn.Body, func(n ast.Node) bool {
			cl, ok := n.(*ast.CompositeLit)
			if !ok {
				return true
			}
			tv, ok := fn.Pkg.TypesInfo.Types[cl]
			if !ok || !isArcContext(tv.Type) {
				return true
			}
			copied := false
			for _, el := range cl.Elts {
				kv, ok := el.(*ast.KeyValueExpr)
				if !ok {
					continue
				}
				if id, ok := kv.Key.(*ast.Ident); ok && fn.Pkg.TypesInfo.Uses[id] == depthField {
					if sel, ok := ast.Unparen(kv.Value).(*ast.SelectorExpr); ok && fn.Pkg.TypesInfo.Uses[sel.Sel] == depthField {
						copied = true
					}
				}
			}
			derived := false
			for i := 0; ; i++ {
				po := paramObj(fn, i)
				if po == nil {
					break
				}
				if isArcContext(po.Type()) {
					derived = true
				}
			}
			if derived {
				c.r.Ob("C19.R11.depth", "Context literal in "+fn.Name+" carries the parent's "+depthField.Name(), posOf(c.p, cl), copied, "a derived context must keep the block depth of the context it is derived from")
			}
			return true
		})
	}
	for _, fn := range c.p.Funcs {
		if fn.Decl == nil || fn.Body == nil || !fn.InPkgs(arcStmtPkg) {
			continue
		}
		po := paramObj(fn, 0)
		if po == nil || !isArcContext(po.Type()) {
			continue
		}
		c.depthFlow(fn, po)
	}
}

func (c *c19) depthFlow(fn *FuncNode, ctxParam types.Object) {
	g := c.p.CFG(fn)
	info := fn.Pkg.TypesInfo
	in := map[*cfg.Block]depthState{}
	entry := g.G.Blocks[0]
	in[entry] = depthState{vars: map[types.Object]depthVal{ctxParam: {n: 0, set: true}}, last: depthVal{}, live: true}

	// ctxDepth evaluates the depth of a context expression: variables, method chains that
	// do not enter a block, context.Child(x, ...).
	var ctxDepth func(s depthState, e ast.Expr) (depthVal, bool)
	ctxDepth = func(s depthState, e ast.Expr) (depthVal, bool) {
		e = ast.Unparen(e)
		switch x := e.(type) {
		case *ast.Ident:
			if o := objOf(fn, x); o != nil {
				if v, ok := s.vars[o]; ok {
					return v, true
				}
			}
		case *ast.CallExpr:
			f := CalleeFunc(fn, x)
			if f == nil {
				return depthVal{}, false
			}
			if sel, ok := ast.Unparen(x.Fun).(*ast.SelectorExpr); ok && recvNamed(f) == "Context" {
				base, ok := ctxDepth(s, sel.X)
				if !ok {
					return depthVal{}, false
				}
				if f.Name() == "EnterBlock" && !base.top {
					base.n++
				}
				return base, true
			}
			if f.Name() == "Child" && f.Pkg() != nil && strings.HasSuffix(f.Pkg().Path(), arcCtxPkg) && len(x.Args) >= 1 {
				return ctxDepth(s, x.Args[0])
			}
		}
		return depthVal{}, false
	}

	type obl struct {
		construct, pos, detail string
		ok                     bool
	}
	results := map[string]obl{}
	counts := map[string]int{}
	record := false

	transfer := func(s depthState, n ast.Node) depthState {
		localCount := map[string]int{}
		_ = localCount
		var visit func(x ast.Node) bool
		handleCall := func(call *ast.CallExpr) {
			f := CalleeFunc(fn, call)
			if f == nil {
				return
			}
			if recvNamed(f) == "Writer" {
				delta, kind := 0, ""
				switch f.Name() {
				case "WriteIf":
					delta, kind = 1, "if"
				case "WriteBlock":
					delta, kind = 1, "block"
				case "WriteLoop":
					delta, kind = 1, "loop"
				case "WriteEnd":
					delta = -1
				case "WriteOpcode":
					if len(call.Args) == 1 {
						if tv, ok := info.Types[call.Args[0]]; ok && tv.Value != nil {
							switch v, _ := constant.Int64Val(constant.ToInt(tv.Value)); v {
							case 0x0b:
								delta = -1
							case 0x02, 0x03, 0x04:
								delta, kind = 1, map[int64]string{2: "block", 3: "loop", 4: "if"}[v]
							}
						}
					}
				}
				if delta != 0 {
					for o, v := range s.vars {
						if !v.top {
							v.n -= delta
							s.vars[o] = v
						}
					}
					if delta > 0 {
						s.last = depthVal{kind: kind, set: true}
					} else {
						s.last = depthVal{top: true, set: true}
					}
				}
				return
			}
			// nested statement compilation
			if record && f.Pkg() != nil && strings.HasSuffix(f.Pkg().Path(), arcStmtPkg) && len(call.Args) >= 1 {
				if sig, ok := f.Type().(*types.Signature); ok && sig.Params().Len() >= 1 && isArcContext(sig.Params().At(0).Type()) {
					d, ok := ctxDepth(s, call.Args[0])
					key := fmt.Sprintf("%s: %s(%s)", fn.Name, f.Name(), types.ExprString(call.Args[0]))
					counts[key]++
					if counts[key] > 1 {
						key = fmt.Sprintf("%s #%d", key, counts[key])
					}
					switch {
					case !ok:
						results[key] = obl{key, posOf(c.p, call), "the context argument's depth is not tracked (unknown idiom)", false}
					default:
						good := !d.top && d.n == 0
						detail := fmt.Sprintf("context depth minus emitted open blocks = %d", d.n)
						if d.top {
							detail = "the context's recorded depth differs from the number of emitted open blocks on some path to this call"
						}
						results[key] = obl{key, posOf(c.p, call), detail, good}
					}
				}
			}
		}
		visit = func(x ast.Node) bool {
			switch v := x.(type) {
			case *ast.FuncLit:
				return false
			case *ast.AssignStmt:
				// evaluate RHS calls first
				for _, r := range v.Rhs {
					ast.Inspect(r, visit)
				}
				if len(v.Lhs) == len(v.Rhs) {
					for i, l := range v.Lhs {
						o := objOf(fn, l)
						if o == nil {
							continue
						}
						if isArcContext(o.Type()) {
							if d, ok := ctxDepth(s, v.Rhs[i]); ok {
								d.set = true
								s.vars[o] = d
							} else {
								s.vars[o] = depthVal{top: true, set: true}
							}
							continue
						}
						// v := X.BlockDepth()
						if call, ok := ast.Unparen(v.Rhs[i]).(*ast.CallExpr); ok {
							if f := CalleeFunc(fn, call); f != nil && f.Name() == "BlockDepth" && recvNamed(f) == "Context" {
								if sel, ok := ast.Unparen(call.Fun).(*ast.SelectorExpr); ok {
									d, ok := ctxDepth(s, sel.X)
									if ok {
										d.kind = s.last.kind
										if s.last.top || !s.last.set {
											d.kind = "?"
										}
										d.set = true
										s.vars[o] = d
										if record {
											key := fmt.Sprintf("%s: %s := %s", fn.Name, o.Name(), types.ExprString(v.Rhs[i]))
											results[key] = obl{key, posOf(c.p, v), fmt.Sprintf("read when context depth minus open blocks = %d, innermost emitted block: %s", d.n, d.kind), !d.top && d.n == 0 && d.kind != "?"}
										}
									}
								}
							}
						}
					}
				}
				return false
			case *ast.CompositeLit:
				// context.LoopEntry{BreakDepth: b, ContinueDepth: c}
				if tv, ok := info.Types[v]; ok && record {
					if nt, ok := tv.Type.(*types.Named); ok && nt.Obj().Name() == "LoopEntry" {
						var br, co depthVal
						var hb, hc bool
						for _, el := range v.Elts {
							kv, ok := el.(*ast.KeyValueExpr)
							if !ok {
								continue
							}
							name := types.ExprString(kv.Key)
							if o := objOf(fn, kv.Value); o != nil {
								if d, ok := s.vars[o]; ok {
									if name == "BreakDepth" {
										br, hb = d, true
									} else if name == "ContinueDepth" {
										co, hc = d, true
									}
								}
							}
						}
						key := fn.Name + ": LoopEntry depths"
						counts[key]++
						if counts[key] > 1 {
							key = fmt.Sprintf("%s #%d", key, counts[key])
						}
						good := hb && hc && !br.top && !co.top && br.kind == "block" && (co.kind == "block" || co.kind == "loop") && br.n < co.n
						results[key] = obl{key, posOf(c.p, v), fmt.Sprintf("BreakDepth names a %q at relative depth %d, ContinueDepth a %q at relative depth %d", br.kind, br.n, co.kind, co.n), good}
					}
				}
				return true
			case *ast.CallExpr:
				// arguments first
				for _, a := range v.Args {
					ast.Inspect(a, visit)
				}
				ast.Inspect(v.Fun, visit)
				handleCall(v)
				return false
			}
			return true
		}
		ast.Inspect(n, visit)
		return s
	}

	run := func() {
		work := []*cfg.Block{entry}
		inWork := map[*cfg.Block]bool{entry: true}
		iter := 0
		for len(work) > 0 && iter < 10000 {
			iter++
			b := work[0]
			work = work[1:]
			inWork[b] = false
			s := in[b].clone()
			for _, n := range b.Nodes {
				s = transfer(s, n)
			}
			for _, succ := range b.Succs {
				old, had := in[succ]
				var merged depthState
				if !had {
					merged = s.clone()
				} else {
					merged = old.clone()
					changed := false
					for o, v := range s.vars {
						j := joinDepth(merged.vars[o], v)
						if j != merged.vars[o] {
							merged.vars[o] = j
							changed = true
						}
					}
					// a variable unset on the new path stays as it was
					jl := joinDepth(merged.last, s.last)
					if jl != merged.last {
						merged.last = jl
						changed = true
					}
					if !changed {
						continue
					}
				}
				in[succ] = merged
				if !inWork[succ] {
					work = append(work, succ)
					inWork[succ] = true
				}
			}
		}
	}
	run()
	// second pass: record obligations with the fixpoint states
	record = true
	for _, b := range g.G.Blocks {
		st, ok := in[b]
		if !ok {
			continue
		}
		s := st.clone()
		for _, n := range b.Nodes {
			s = transfer(s, n)
		}
	}
	keys := make([]string, 0, len(results))
	for k := range results {
		keys = append(keys, k)
	}
	sort.Strings(keys)
	for _, k := range keys {
		o := results[k]
		c.r.Ob("C19.R11.depth", o.construct, o.pos, o.ok, o.detail)
	}
}
