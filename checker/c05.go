package main

import (
	"fmt"
	"go/ast"
	"go/token"
	"go/types"
	"sort"
	"strings"

	"golang.org/x/tools/go/cfg"
)

func init() { checks["C05"] = checkC05 }

const ctlPkg = "cesium/internal/control"

// enclosingLoop returns the innermost for/range statement of fn that contains n.
func enclosingLoop(fn *FuncNode, n ast.Node) ast.Stmt {
	var out ast.Stmt
	ast.Inspect(fn.Body, func(x ast.Node) bool {
		switch l := x.(type) {
		case *ast.FuncLit:
			return l.Pos() > n.Pos() || l.End() < n.End() || true
		case *ast.RangeStmt:
			if contains(l.Body, n) {
				out = l
			}
		case *ast.ForStmt:
			if contains(l.Body, n) {
				out = l
			}
		}
		return true
	})
	return out
}

// leavesWithout explores from start (after it) across unblocked edges and reports a
// path on which control leaves the current loop iteration (reaches the head or the done
// block of the enclosing loop) or the function, without passing a goal node.
func (c *FuncCFG) leavesWithout(start Point, loop ast.Stmt, blocked map[edge]bool, goal func(ast.Node) bool) []string {
	q, vis := c.ReachAvoiding([]Point{start}, blocked, goal)
	for _, ex := range c.Exits() {
		if vis[ex.P] && !(ex.P.I >= 0 && ex.P.I < len(ex.P.B.Nodes) && goal(ex.P.B.Nodes[ex.P.I])) {
			return append(q.PathTo(ex.P), "leaves the function")
		}
	}
	if loop != nil {
		for pt := range vis {
			if pt.B.Stmt == loop {
				switch pt.B.Kind {
				case cfg.KindRangeLoop, cfg.KindRangeDone, cfg.KindForLoop, cfg.KindForDone, cfg.KindForPost:
					return append(q.PathTo(pt), "ends the loop iteration")
				}
			}
		}
	}
	return nil
}

func isTransferType(t types.Type) bool {
	t = types.Unalias(t)
	n, ok := t.(*types.Named)
	if !ok {
		return false
	}
	o := n.Origin().Obj()
	return o.Name() == "Transfer" && o.Pkg() != nil && strings.HasSuffix(o.Pkg().Path(), "x/control")
}

func isControlUpdateType(t types.Type) bool {
	t = types.Unalias(t)
	n, ok := t.(*types.Named)
	if !ok {
		return false
	}
	o := n.Obj()
	return o.Name() == "ControlUpdate" && o.Pkg() != nil && strings.HasSuffix(o.Pkg().Path(), "synnaxlabs/cesium")
}

// discardAllowed lists the only places where a control transfer result may be dropped.
var discardAllowed = map[string]string{
	"cesium.(*DB).newStreamWriter|Close": "error clean-up of a writer whose acquiring transfer was never reported either",
	"cesium.(*streamWriter).close|Close": "the digest writer's own close: the update channel cannot report its own release",
}

func checkC05(r *Run) {
	r.Explanation = "Structural necessary conditions of 'one controller per region; transfers reported', decided on CFGs, locksets and call sites: (R1) in unary.Writer.write/commitWithEnd and virtual.Writer.Write the controlled resource is used only on the nil-error edge of Gate.Authorize, no writer struct keeps its own reference to the controlled resource, and domain writer methods are called in package unary only on a resource obtained from Authorize/Release; (R2) region.curr/gates/counter/timeRange, Gate.authority and Controller.regions are lock-guarded (lockset), Controller.remove re-checks emptiness under the controller's write lock, and Gate.position comes from the monotone region.counter; (R3) every control.Transfer / ControlUpdate produced by a call in package cesium is bound, appended to a ControlUpdate on the success path, and that update reaches updateControlDigests/updateDBControl or is returned; discards are limited to a frozen table; (R4) unauthorized series are excluded before relay (shared with C20)."
	r.NotDecided = "That shouldBeInControl picks (authority desc, position asc) and that each Transfer names the right holders (value semantics over map iteration); concurrent interleavings beyond lock discipline."
	r.Trusted = []string{"go/types, go/cfg, lockset engine"}
	r.Extra["module"] = "cesium"
	p, err := Load("cesium")
	if err != nil {
		r.Undecide("%v", err)
		return
	}
	r.Stats["packages"] = len(p.Repo)
	r.Rule("C05.R1.authorize", "the resource returned by Gate.Authorize is used only after its error was tested nil; writer structs hold no direct reference to the controlled resource; domain.Writer methods are invoked in package unary only through an authorized or released resource", 6)
	r.Rule("C05.R2.GUARD", "control-plane state (region.curr/gates/counter/timeRange, Gate.authority, Controller.regions) is accessed under its lock", 20)
	r.Rule("C05.R2.atomic", "Controller.remove decides emptiness and removes the region inside one Controller.mu write section; Gate.position is taken from region.counter, which only ever increases", 3)
	r.Rule("C05.R4.rejected", "idxWriter.write advances the index high-water mark before authorization, so every path on which a write was rejected as ErrUnauthorized resets hasUncommittedData before returning", 1)
	r.Rule("C05.R5.range", "region.open admits a gate (returns it with a nil error) only on paths that stored the union of the region's range with the gate's range: OpenGate decides by range overlap whether a new gate contends with the holder, so a gate admitted without growing the region lets a later writer open a second region - and be in control - over part of the holder's range", 1)
	r.Rule("C05.R6.decide", "Gate.Authorize hands out the resource only across the edge on which the gate is the region's current holder (exclusive concurrency) or its authority is at least the holder's (shared); Controller.OpenGate opens a new resource only when no existing region overlapped the gate's range, and marks a region as found on every path on which it opened the gate there", 4)
	r.Rule("C05.ERR", "in the cesium writer/control code no error is discarded, replaced inside its own failure branch, or accumulated over a loop from a possibly-nil value (an ErrUnauthorized of one index group must survive the groups written after it)", 1)
	r.Rule("C05.R3.transfers", "every call in package cesium that yields a control.Transfer or ControlUpdate binds it, appends it to a ControlUpdate on the success/Occurred path and forwards that update (updateControlDigests / updateDBControl / return); discards only where tabled", 10)

	la := applyLockRules(r, p, lockRuleSet{Prefix: "C05.R2", Scope: cesiumScope, Guards: cesiumGuards[6:12], MinOps: 100, MinAcc: 40})
	checkAuthorize(r, p)
	checkControlAtomic(r, p, la)
	checkTransfers(r, p)
	checkRejectedWrite(r, p)
	checkRegionRange(r, p)
	checkAuthorizeDecision(r, p)
	checkErrDrop(r, p, "C05.ERR", func(fn *FuncNode) bool {
		return fn.InPkgs("cesium") && !fn.InPkgs("cesium/internal/testutil", "cesium/internal/domain", "cesium/internal/index", "cesium/internal/meta", "cesium/internal/migrate")
	}, 300)
}

// checkRejectedWrite decides C05.R4: idxWriter.write advances the index high-water mark
// (updateHighWater) before the index write is authorized. A frame rejected as unauthorized
// must therefore not leave the writer believing it has uncommitted data, or a later Commit
// (after control returns) persists a domain that ends at the rejected frame's timestamp.
func checkRejectedWrite(r *Run, p *Prog) {
	fn := p.Func("cesium", "idxWriter", "write")
	hw := p.Func("cesium", "idxWriter", "updateHighWater")
	flag := p.FieldOf("cesium", "idxWriter", "hasUncommittedData")
	if fn == nil || hw == nil || flag == nil {
		r.Undecide("C05.R4: idxWriter.write / updateHighWater / hasUncommittedData not found")
		return
	}
	c := p.CFG(fn)
	hwCalls := CallsIn(fn, calleeIs(hw))
	if len(hwCalls) == 0 {
		r.ObTrivial("C05.R4.rejected", "idxWriter.write does not advance the high-water mark itself", p.Position(fn.Pos()), true, "")
		return
	}
	isUnauthAtom := func(atom ast.Expr) bool {
		call, ok := ast.Unparen(atom).(*ast.CallExpr)
		if !ok || len(call.Args) != 2 {
			return false
		}
		f := CalleeFunc(fn, call)
		if f == nil || f.Name() != "Is" {
			return false
		}
		return strings.HasSuffix(types.ExprString(call.Args[1]), "ErrUnauthorized")
	}
	unauth := c.EdgesEstablishing(func(atom ast.Expr, val bool) bool { return isUnauthAtom(atom) && val })
	notUnauth := c.EdgesEstablishing(func(atom ast.Expr, val bool) bool { return isUnauthAtom(atom) && !val })
	if len(unauth) == 0 {
		r.Undecide("C05.R4: no errors.Is(.., ErrUnauthorized) test in idxWriter.write")
		return
	}
	// does the high-water mark move before authorization? (a write call follows it)
	isReset := func(n ast.Node) bool {
		as, ok := n.(*ast.AssignStmt)
		if !ok || !isStoreTo(fn, n, flag) || len(as.Rhs) != 1 {
			return false
		}
		id, ok := ast.Unparen(as.Rhs[0]).(*ast.Ident)
		return ok && id.Name == "false"
	}
	var starts []Point
	for e := range unauth {
		starts = append(starts, Point{e.B.Succs[e.Succ], -1})
	}
	q, vis := c.ReachAvoiding(starts, notUnauth, isReset)
	var path []string
	for _, ex := range c.Exits() {
		if vis[ex.P] {
			path = q.PathTo(ex.P)
		}
	}
	r.ObPath("C05.R4.rejected", "a frame rejected as unauthorized clears idxWriter.hasUncommittedData before write returns", p.Position(fn.Pos()), path == nil,
		"updateHighWater ran before the authorization; without the reset a Commit after control returns persists an index domain ending at the rejected frame", path)
}

func checkAuthorize(r *Run, p *Prog) {
	authorize := p.Func(ctlPkg, "Gate", "Authorize")
	if authorize == nil {
		r.Undecide("C05.R1: Gate.Authorize not found")
		return
	}
	sites := p.AllCalls(func(o types.Object, _ *ast.CallExpr) bool { return IsFunc(o, authorize) })
	// nobody outside the control package peeks at the controlled resource
	if peek := p.Func(ctlPkg, "Gate", "PeekResource"); peek != nil {
		for _, cs := range p.AllCalls(func(o types.Object, _ *ast.CallExpr) bool { return IsFunc(o, peek) }) {
			if cs.Fn.InPkgs("cesium") && !cs.Fn.InPkgs(ctlPkg) {
				r.Ob("C05.R1.authorize", "Gate.PeekResource used in "+cs.Fn.Top().Name, p.Position(cs.Call.Pos()), false, "the resource is reached without the authorization test: writes through it take effect for a writer that is not in control")
			}
		}
	}
	n := 0
	for _, cs := range sites {
		if !cs.Fn.InPkgs("cesium") {
			continue
		}
		n++
		fn := cs.Fn
		c := p.CFG(fn)
		// no successful return of the writing function before the authorization
		if fn.Decl != nil && (fn.Decl.Name.Name == "write" || fn.Decl.Name.Name == "Write") {
			q0, vis0 := c.ReachAvoiding([]Point{c.Entry()}, nil, func(x ast.Node) bool { return contains(x, cs.Call) })
			var early []string
			for _, ex := range c.Exits() {
				if ex.Return == nil || !vis0[ex.P] || len(ex.Return.Results) == 0 {
					continue
				}
				if mayReturnNilError(fn, ex.Return) {
					early = q0.PathTo(ex.P)
				}
			}
			r.ObPath("C05.R1.authorize", fn.Name+" cannot succeed before Authorize", p.Position(fn.Pos()), early == nil,
				"a write returns success on a path that never asked the gate: the series is relayed (and the shared cursor moved) for a writer that is not in control", early)
		}
		var res types.Object
		inspectNoLit(fn.Body, func(x ast.Node) bool {
			if as, ok := x.(*ast.AssignStmt); ok && len(as.Rhs) == 1 && ast.Unparen(as.Rhs[0]) == cs.Call && len(as.Lhs) == 2 {
				res = objOf(fn, as.Lhs[0])
			}
			return true
		})
		if res == nil {
			r.Ob("C05.R1.authorize", "Authorize result bound in "+fn.Name, p.Position(cs.Call.Pos()), false, "the (resource, error) results are not bound to variables")
			continue
		}
		uses := c.NodesWhere(func(x ast.Node) bool {
			if contains(x, cs.Call) {
				return false
			}
			return exprMentions(fn, x, res)
		})
		ok := len(uses) > 0
		var path []string
		why := fmt.Sprintf("%d use(s) of the resource, all behind err == nil", len(uses))
		for _, u := range uses {
			if pth, w := c.succeededBefore(cs.Call, u); pth != nil {
				ok, path, why = false, pth, w
			}
		}
		r.ObPath("C05.R1.authorize", "uses of the authorized resource in "+fn.Name+" follow a nil error", p.Position(cs.Call.Pos()), ok, why, path)
	}
	if n < 3 {
		r.Undecide("C05.R1: only %d Authorize call sites found (expected 3)", n)
	}
	// writer structs keep no private reference to the controlled resource
	for _, w := range [][2]string{{"cesium/internal/unary", "Writer"}, {"cesium/internal/virtual", "Writer"}} {
		pk := p.Pkg(w[0])
		tn, _ := pk.Types.Scope().Lookup(w[1]).(*types.TypeName)
		if tn == nil {
			r.Undecide("C05.R1: %s.%s not found", w[0], w[1])
			continue
		}
		st := structOf(tn.Type())
		bad := ""
		for i := 0; i < st.NumFields(); i++ {
			ft := st.Field(i).Type()
			if n, ok := derefNamed(ft); ok {
				name := n.Origin().Obj().Name()
				pkgp := ""
				if n.Obj().Pkg() != nil {
					pkgp = n.Obj().Pkg().Path()
				}
				if name == "controlledWriter" || name == "controlResource" || (name == "Writer" && strings.HasSuffix(pkgp, "internal/domain")) {
					bad = st.Field(i).Name() + " " + ft.String()
				}
			}
		}
		r.Ob("C05.R1.authorize", "struct "+w[0]+"."+w[1]+" reaches the resource only through its gate", p.Position(tn.Pos()), bad == "", "field "+bad+" would let writes bypass Gate.Authorize")
	}
	// domain.Writer methods in package unary are called on resources from Authorize / Release / the open callback
	release := p.Func(ctlPkg, "Gate", "Release")
	nCalls := 0
	for _, fn := range p.FuncsOfPkg("cesium/internal/unary") {
		inspectNoLit(fn.Body, func(x ast.Node) bool {
			call, ok := x.(*ast.CallExpr)
			if !ok {
				return true
			}
			f := CalleeFunc(fn, call)
			if f == nil || f.Pkg() == nil || !strings.HasSuffix(f.Pkg().Path(), "internal/domain") {
				return true
			}
			sig := f.Type().(*types.Signature)
			if sig.Recv() == nil {
				return true
			}
			if n, ok := derefNamed(sig.Recv().Type()); !ok || n.Obj().Name() != "Writer" {
				return true
			}
			switch f.Name() {
			case "Write", "Commit", "Close":
			default:
				return true
			}
			nCalls++
			sel, _ := ast.Unparen(call.Fun).(*ast.SelectorExpr)
			okSrc := false
			src := "?"
			if sel != nil {
				var root ast.Expr = sel.X
				for {
					if s, ok := ast.Unparen(root).(*ast.SelectorExpr); ok {
						root = s.X
						continue
					}
					break
				}
				if o := objOf(fn, root); o != nil {
					src = o.Name()
					if rhs, _, ok := varDefinedByUp(fn, o); ok {
						if c2, ok := ast.Unparen(rhs).(*ast.CallExpr); ok {
							cal := Callee(fn, c2)
							if IsFunc(cal, authorize) || IsFunc(cal, release) {
								okSrc = true
							}
						}
					}
					// receiver of a controlledWriter method: reached only through a resource
					if fn.Decl != nil && fn.Decl.Recv != nil && len(fn.Decl.Recv.List) > 0 && len(fn.Decl.Recv.List[0].Names) > 0 && fn.Pkg.TypesInfo.Defs[fn.Decl.Recv.List[0].Names[0]] == o {
						if n, ok := derefNamed(o.Type()); ok && n.Obj().Name() == "controlledWriter" {
							okSrc = true
						}
					}
				}
			}
			r.Ob("C05.R1.authorize", fmt.Sprintf("domain.Writer.%s in %s is called on an authorized/released resource", f.Name(), fn.Name), p.Position(call.Pos()), okSrc, "receiver comes from "+src)
			return true
		})
	}
	if nCalls < 3 {
		r.Undecide("C05.R1: only %d domain.Writer method calls found in package unary (expected >= 3)", nCalls)
	}
}

func checkControlAtomic(r *Run, p *Prog, la *LockAnalysis) {
	remove := p.Func(ctlPkg, "Controller", "remove")
	gates := p.FieldOf(ctlPkg, "region", "gates")
	regions := p.FieldOf(ctlPkg, "Controller", "regions")
	if remove == nil || gates == nil || regions == nil {
		r.Undecide("C05.R2: Controller.remove / region.gates / Controller.regions not resolved")
		return
	}
	c := p.CFG(remove)
	reads := c.NodesWhere(func(n ast.Node) bool {
		found := false
		inspectNoLit(n, func(x ast.Node) bool {
			if sel, ok := x.(*ast.SelectorExpr); ok && fieldVar(remove, sel) == gates {
				found = true
			}
			return true
		})
		return found
	})
	ok := len(reads) > 0
	for _, rd := range reads {
		if !la.HeldAtNode(rd.B.Nodes[rd.I], ctlPkg+".Controller.mu", ModeW) {
			ok = false
		}
	}
	stores := c.NodesWhere(func(n ast.Node) bool { return isStoreTo(remove, n, regions) })
	for _, s := range stores {
		if !la.HeldAtNode(s.B.Nodes[s.I], ctlPkg+".Controller.mu", ModeW) {
			ok = false
		}
	}
	r.Ob("C05.R2.atomic", "Controller.remove tests region emptiness and deletes the region under one Controller.mu write section", p.Position(remove.Pos()), ok && len(stores) > 0,
		fmt.Sprintf("%d emptiness read(s), %d removal store(s): an OpenGate queued on the controller lock may join the region between an earlier check and the removal", len(reads), len(stores)))
	// the removal is reachable only after the emptiness test said "empty"
	if len(reads) > 0 && len(stores) > 0 {
		// the variable or condition derived from len(r.gates)
		// gatesTest: e compares len(<region>.gates) with 0; trueMeansEmpty tells which way
		gatesTest := func(e ast.Expr) (trueMeansEmpty bool, ok bool) {
			be, isBin := ast.Unparen(e).(*ast.BinaryExpr)
			if !isBin {
				return false, false
			}
			isLen := func(x ast.Expr) bool {
				call, ok := ast.Unparen(x).(*ast.CallExpr)
				if !ok || len(call.Args) != 1 {
					return false
				}
				if bi, ok := Callee(remove, call).(*types.Builtin); !ok || bi.Name() != "len" {
					return false
				}
				sel, ok := ast.Unparen(call.Args[0]).(*ast.SelectorExpr)
				return ok && fieldVar(remove, sel) == gates
			}
			isZero := func(x ast.Expr) bool { v, ok := constInt(remove, x); return ok && v == 0 }
			switch {
			case isLen(be.X) && isZero(be.Y):
				switch be.Op {
				case token.EQL, token.LEQ:
					return true, true
				case token.NEQ, token.GTR:
					return false, true
				}
			case isZero(be.X) && isLen(be.Y):
				switch be.Op {
				case token.EQL, token.GEQ:
					return true, true
				case token.NEQ, token.LSS:
					return false, true
				}
			}
			return false, false
		}
		var flag types.Object
		flagMeansEmpty := false
		inspectNoLit(remove.Body, func(n ast.Node) bool {
			if as, ok := n.(*ast.AssignStmt); ok && len(as.Lhs) == 1 && len(as.Rhs) == 1 {
				if me, ok := gatesTest(as.Rhs[0]); ok {
					flag, flagMeansEmpty = objOf(remove, as.Lhs[0]), me
				}
			}
			return true
		})

		emptyEdges := c.EdgesEstablishing(func(atom ast.Expr, val bool) bool {
			if flag != nil && objOf(remove, atom) == flag {
				return val == flagMeansEmpty
			}
			if me, ok := gatesTest(atom); ok {
				return val == me
			}
			return false
		})
		q, vis := c.ReachAvoiding([]Point{c.Entry()}, emptyEdges, nil)
		okGate := len(emptyEdges) > 0
		var path []string
		for _, s := range stores {
			if vis[s] {
				okGate = false
				path = q.PathTo(s)
			}
		}
		r.ObPath("C05.R2.atomic", "the region is removed only when the re-check found no gates", p.Position(stores[0].B.Nodes[stores[0].I].Pos()), okGate, "removing a region that has a gate lets a second region (and resource) be created for the same time range", path)
	}
	// Gate.position <- a field of region that only ever increments
	position := p.FieldOf(ctlPkg, "Gate", "position")
	if position == nil {
		r.Undecide("C05.R2: Gate.position not resolved")
		return
	}
	regionT, _ := p.Pkg(ctlPkg).Types.Scope().Lookup("region").(*types.TypeName)
	var counter *types.Var
	okPos, nPos := true, 0
	where := ""
	for _, fn := range p.FuncsOfPkg(ctlPkg) {
		inspectNoLit(fn.Body, func(n ast.Node) bool {
			switch x := n.(type) {
			case *ast.KeyValueExpr:
				if id, ok := x.Key.(*ast.Ident); ok {
					if v, ok := fn.Pkg.TypesInfo.Uses[id].(*types.Var); ok && v.Origin() == position {
						nPos++
						sel, ok := ast.Unparen(x.Value).(*ast.SelectorExpr)
						fv := (*types.Var)(nil)
						if ok {
							fv = fieldVar(fn, sel)
						}
						isRegionField := false
						if fv != nil && regionT != nil {
							st := structOf(regionT.Type())
							for i := 0; i < st.NumFields(); i++ {
								if st.Field(i).Origin() == fv {
									isRegionField = true
								}
							}
						}
						if !isRegionField {
							okPos = false
							where = "position initialised from " + types.ExprString(x.Value) + " at " + p.Position(x.Pos())
						} else {
							counter = fv
						}
					}
				}
			case *ast.AssignStmt:
				for _, l := range x.Lhs {
					if lhsSpineHasField(fn, l, position) {
						okPos = false
						where = "position reassigned at " + p.Position(x.Pos())
					}
				}
			}
			return true
		})
	}
	okCtr, nCtr := counter != nil, 0
	if counter != nil {
		for _, fn := range p.FuncsOfPkg(ctlPkg) {
			inspectNoLit(fn.Body, func(n ast.Node) bool {
				switch x := n.(type) {
				case *ast.AssignStmt:
					for _, l := range x.Lhs {
						if lhsSpineHasField(fn, l, counter) {
							okCtr = false
							where = "counter assigned at " + p.Position(x.Pos())
						}
					}
				case *ast.IncDecStmt:
					if lhsSpineHasField(fn, x.X, counter) {
						nCtr++
						if x.Tok != token.INC {
							okCtr = false
							where = "counter decremented at " + p.Position(x.Pos())
						}
					}
				}
				return true
			})
		}
	}
	r.Ob("C05.R2.atomic", "Gate.position is initialised from a region field that only ever increments", "cesium/internal/control/region.go", okPos && okCtr && nPos == 1 && nCtr >= 1,
		fmt.Sprintf("position initialisers=%d, counter increments=%d %s: ties are broken by open order, which must never repeat or go back", nPos, nCtr, where))
}

func checkTransfers(r *Run, p *Prog) {
	updDigests := p.Func("cesium", "DB", "updateControlDigests")
	if updDigests == nil {
		r.Undecide("C05.R3: updateControlDigests not found")
		return
	}
	n := 0
	for _, fn := range p.FuncsOfPkg("cesium") {
		if fn.File != nil && strings.HasSuffix(p.Fset.Position(fn.File.Pos()).Filename, "_test.go") {
			continue
		}
		c := p.CFG(fn)
		inspectNoLit(fn.Body, func(x ast.Node) bool {
			call, ok := x.(*ast.CallExpr)
			if !ok {
				return true
			}
			tv, ok := fn.Pkg.TypesInfo.Types[call]
			if !ok {
				return true
			}
			idx := -1
			kind := ""
			switch t := tv.Type.(type) {
			case *types.Tuple:
				for i := 0; i < t.Len(); i++ {
					if isTransferType(t.At(i).Type()) {
						idx, kind = i, "Transfer"
					}
					if isControlUpdateType(t.At(i).Type()) {
						idx, kind = i, "ControlUpdate"
					}
				}
			default:
				if isTransferType(tv.Type) {
					idx, kind = 0, "Transfer"
				}
				if isControlUpdateType(tv.Type) {
					idx, kind = 0, "ControlUpdate"
				}
			}
			if idx < 0 {
				return true
			}
			f := CalleeFunc(fn, call)
			if f == nil {
				return true
			}
			// producers of fresh values (not carriers of transfers): skip constructors/encoders
			if f.Pkg() != nil && strings.HasSuffix(f.Pkg().Path(), "synnaxlabs/cesium") && (f.Name() == "ControlStates" || f.Name() == "DecodeControlUpdate") {
				return true
			}
			n++
			construct := fmt.Sprintf("%s result of %s in %s", kind, f.Name(), fn.Top().Name)
			// find the binding
			var v types.Object
			blank := false
			bound := false
			ast.Inspect(fn.Body, func(y ast.Node) bool {
				switch s := y.(type) {
				case *ast.AssignStmt:
					if len(s.Rhs) == 1 && ast.Unparen(s.Rhs[0]) == call && idx < len(s.Lhs) {
						bound = true
						if id, ok := s.Lhs[idx].(*ast.Ident); ok && id.Name == "_" {
							blank = true
						} else {
							v = objOf(fn, s.Lhs[idx])
						}
					}
				case *ast.ReturnStmt:
					for _, res := range s.Results {
						if ast.Unparen(res) == call {
							bound = true
							v = nil
							blank = false
						}
					}
				}
				return true
			})
			returnedDirectly := bound && !blank && v == nil
			if returnedDirectly {
				r.Ob("C05.R3.transfers", construct, p.Position(call.Pos()), true, "returned to the caller unchanged")
				return true
			}
			if !bound || blank {
				key := fn.Top().Name + "|" + f.Name()
				reason, allowed := discardAllowed[key]
				if !bound {
					reason = "result not bound at all"
					allowed = false
				}
				r.Ob("C05.R3.transfers", construct+" (discarded)", p.Position(call.Pos()), allowed, "transfer dropped: "+reason)
				return true
			}
			// the value must reach an append to a .Transfers field (or be returned) before the iteration/function ends
			goal := func(nd ast.Node) bool {
				hit := false
				inspectNoLit(nd, func(z ast.Node) bool {
					switch s := z.(type) {
					case *ast.CallExpr:
						if bi, ok := Callee(fn, s).(*types.Builtin); ok && bi.Name() == "append" && len(s.Args) >= 2 {
							if sel, ok := ast.Unparen(s.Args[0]).(*ast.SelectorExpr); ok && sel.Sel.Name == "Transfers" {
								for _, a := range s.Args[1:] {
									if exprMentions(fn, a, v) {
										hit = true
									}
								}
							}
						}
					case *ast.ReturnStmt:
						for _, res := range s.Results {
							if exprMentions(fn, res, v) {
								hit = true
							}
						}
					}
					return true
				})
				return hit
			}
			// blocked: error edges of the call's error, and "did not occur"
			blocked := map[edge]bool{}
			if ev := errVarOfCall(fn, call); ev != nil {
				for e := range c.EdgesEstablishing(func(atom ast.Expr, val bool) bool {
					o, trueMeansNil, ok := nilCompare(fn, atom)
					return ok && o == ev && val != trueMeansNil
				}) {
					blocked[e] = true
				}
			}
			for e := range c.EdgesEstablishing(func(atom ast.Expr, val bool) bool {
				cl, ok := atom.(*ast.CallExpr)
				if !ok || val {
					return false
				}
				ff := CalleeFunc(fn, cl)
				if ff == nil || ff.Name() != "Occurred" {
					return false
				}
				sel, ok := ast.Unparen(cl.Fun).(*ast.SelectorExpr)
				return ok && objOf(fn, sel.X) == v
			}) {
				blocked[e] = true
			}
			cp, found := c.Locate(call)
			if !found {
				r.Undecide("C05.R3: call site not in graph: %s", p.Position(call.Pos()))
				return true
			}
			path := c.leavesWithout(cp, enclosingLoop(fn, call), blocked, goal)
			r.ObPath("C05.R3.transfers", construct, p.Position(call.Pos()), path == nil, "a successful, occurred transfer can leave the iteration/function without being collected into a ControlUpdate", path)
			return true
		})
	}
	if n < 8 {
		r.Undecide("C05.R3: only %d transfer-producing call sites found in package cesium (expected >= 8)", n)
	}
	// accumulated updates are forwarded
	nAcc := 0
	for _, fn := range p.FuncsOfPkg("cesium") {
		c := p.CFG(fn)
		// local ControlUpdate variables that receive appends
		vars := map[types.Object]ast.Node{}
		inspectNoLit(fn.Body, func(x ast.Node) bool {
			as, ok := x.(*ast.AssignStmt)
			if !ok {
				return true
			}
			for _, l := range as.Lhs {
				if sel, ok := ast.Unparen(l).(*ast.SelectorExpr); ok && sel.Sel.Name == "Transfers" {
					if o := objOf(fn, sel.X); o != nil && isControlUpdateType(o.Type()) {
						if _, isParam := o.(*types.Var); isParam {
							vars[o] = as
						}
					}
				}
			}
			return true
		})
		for v, at := range vars {
			nAcc++
			forwards := c.NodesWhere(func(nd ast.Node) bool {
				hit := false
				inspectNoLit(nd, func(z ast.Node) bool {
					switch s := z.(type) {
					case *ast.CallExpr:
						cal := Callee(fn, s)
						isUpd := IsFunc(cal, updDigests)
						if vv, ok := cal.(*types.Var); ok && vv.Name() == "updateDBControl" {
							isUpd = true
						}
						if isUpd {
							for _, a := range s.Args {
								if objOf(fn, a) == v {
									hit = true
								}
							}
						}
					case *ast.ReturnStmt:
						for _, res := range s.Results {
							if objOf(fn, res) == v {
								hit = true
							}
						}
					}
					return true
				})
				return hit
			})
			if len(forwards) == 0 {
				r.Ob("C05.R3.transfers", "ControlUpdate accumulated in "+fn.Top().Name+" is forwarded", p.Position(at.Pos()), false, "the collected transfers are never handed to updateControlDigests/updateDBControl nor returned")
				continue
			}
			// from the end of accumulation, on the "has transfers" and no-error path, a forward is reached before a nil/success exit
			blocked := c.EdgesEstablishing(func(atom ast.Expr, val bool) bool {
				be, ok := ast.Unparen(atom).(*ast.BinaryExpr)
				if !ok {
					return false
				}
				mentions := false
				ast.Inspect(be, func(z ast.Node) bool {
					if sel, ok := z.(*ast.SelectorExpr); ok && sel.Sel.Name == "Transfers" && objOf(fn, sel.X) == v {
						mentions = true
					}
					return true
				})
				if !mentions {
					return false
				}
				// len(u.Transfers) > 0 false | == 0 true
				return (be.Op == token.GTR && !val) || (be.Op == token.NEQ && !val) || (be.Op == token.EQL && val)
			})
			for e := range c.EdgesEstablishing(func(atom ast.Expr, val bool) bool {
				o, trueMeansNil, ok := nilCompare(fn, atom)
				return ok && isErrorType(o.Type()) && val != trueMeansNil
			}) {
				blocked[e] = true
			}
			starts := c.NodesWhere(func(nd ast.Node) bool { return nd == at })
			ok := true
			var path []string
			if len(starts) > 0 {
				q, vis := c.ReachAvoiding(starts, blocked, func(nd ast.Node) bool {
					for _, f := range forwards {
						if f.B.Nodes[f.I] == nd {
							return true
						}
					}
					return false
				})
				for _, ex := range c.Exits() {
					if !vis[ex.P] {
						continue
					}
					isFwd := false
					for _, f := range forwards {
						if f == ex.P {
							isFwd = true
						}
					}
					if !isFwd {
						ok = false
						path = q.PathTo(ex.P)
					}
				}
			}
			r.ObPath("C05.R3.transfers", "ControlUpdate accumulated in "+fn.Top().Name+" is forwarded", p.Position(at.Pos()), ok, "on the path with collected transfers and no error the function can finish without publishing them", path)
		}
	}
	if nAcc < 4 {
		r.Undecide("C05.R3: only %d accumulating ControlUpdate variables found (expected >= 4)", nAcc)
	}
}

// checkRegionRange decides C05.R5.
func checkRegionRange(r *Run, p *Prog) {
	fn := p.Func(ctlPkg, "region", "open")
	fld := p.FieldOf(ctlPkg, "region", "timeRange")
	if fn == nil || fld == nil {
		r.Undecide("C05.R5: region.open / region.timeRange not found")
		return
	}
	c := p.CFG(fn)
	isUnionStore := func(n ast.Node) bool {
		as, ok := n.(*ast.AssignStmt)
		if !ok || !isStoreTo(fn, n, fld) {
			return false
		}
		union := false
		for _, rh := range as.Rhs {
			ast.Inspect(rh, func(y ast.Node) bool {
				if call, ok := y.(*ast.CallExpr); ok {
					if f := CalleeFunc(fn, call); f != nil && f.Name() == "Union" {
						union = true
					}
				}
				return true
			})
		}
		return union
	}
	q, vis := c.ReachAvoiding([]Point{c.Entry()}, nil, isUnionStore)
	ok := len(c.NodesWhere(isUnionStore)) > 0
	var path []string
	n := 0
	for _, ex := range c.Exits() {
		if ex.Return == nil || !mayReturnNilError(fn, ex.Return) {
			continue
		}
		n++
		if vis[ex.P] {
			ok = false
			path = q.PathTo(ex.P)
		}
	}
	r.ObPath("C05.R5.range", "region.open grows the region's range on every path that admits the gate", p.Position(fn.Pos()), ok && n > 0,
		"a gate admitted without the union leaves part of its range outside every region: the next writer opened there gets a region of its own and is authorized next to the holder", path)
}

// checkAuthorizeDecision decides C05.R6.
func checkAuthorizeDecision(r *Run, p *Prog) {
	auth := p.Func(ctlPkg, "Gate", "Authorize")
	if auth == nil {
		r.Undecide("C05.R6: Gate.Authorize not found")
	} else {
		var recv types.Object
		if auth.Decl.Recv != nil && len(auth.Decl.Recv.List[0].Names) == 1 {
			recv = auth.Pkg.TypesInfo.Defs[auth.Decl.Recv.List[0].Names[0]]
		}
		// the three things the decision may depend on, however it is written down
		classify := func(ev *ttEval, st *ttState, fn *FuncNode, e ast.Expr) (string, bool, bool) {
			be, ok := ast.Unparen(e).(*ast.BinaryExpr)
			if !ok {
				return "", false, false
			}
			isRecv := func(x ast.Expr) bool {
				f2, x2 := ev.resolve(st, fn, x)
				return objOf(f2, x2) == recv && recv != nil
			}
			isCurr := func(x ast.Expr) bool {
				_, x2 := ev.resolve(st, fn, x)
				sel, ok := ast.Unparen(x2).(*ast.SelectorExpr)
				return ok && sel.Sel.Name == "curr"
			}
			authOf := func(x ast.Expr) string {
				sel, ok := ast.Unparen(x).(*ast.SelectorExpr)
				if !ok || sel.Sel.Name != "authority" {
					return ""
				}
				switch {
				case isRecv(sel.X):
					return "gate"
				case isCurr(sel.X):
					return "curr"
				}
				return ""
			}
			isExcl := func(x ast.Expr) bool {
				sel, ok := ast.Unparen(x).(*ast.SelectorExpr)
				return ok && sel.Sel.Name == "ConcurrencyExclusive"
			}
			switch be.Op {
			case token.EQL, token.NEQ:
				if isExcl(be.X) || isExcl(be.Y) {
					return "exclusive", be.Op == token.NEQ, true
				}
				if (isRecv(be.X) && isCurr(be.Y)) || (isRecv(be.Y) && isCurr(be.X)) {
					return "holder", be.Op == token.NEQ, true
				}
			case token.GEQ, token.LSS, token.LEQ, token.GTR:
				a, b := authOf(be.X), authOf(be.Y)
				switch {
				case a == "gate" && b == "curr" && (be.Op == token.GEQ || be.Op == token.LSS):
					return "outranks", be.Op == token.LSS, true
				case a == "curr" && b == "gate" && (be.Op == token.LEQ || be.Op == token.GTR):
					return "outranks", be.Op == token.GTR, true
				}
			}
			return "", false, false
		}
		outcome := func(fn *FuncNode, ret *ast.ReturnStmt, results []ttVal) string {
			switch ttErrOutcome(ret, results) {
			case "ok":
				return "authorized"
			case "fail":
				return "refused"
			}
			return "delegated"
		}
		atoms := []string{"exclusive", "holder", "outranks"}
		table, bad := ttTable(p, auth, atoms, classify, outcome, false)
		if bad != "" {
			r.Undecide("C05.R6: Gate.Authorize could not be evaluated: %s", bad)
		} else {
			var wrongAny, wrongExcl []string
			sawAuthorized := false
			for mask, outs := range table {
				excl, holder, outranks := mask&1 != 0, mask&2 != 0, mask&4 != 0
				if !outs["authorized"] {
					continue
				}
				sawAuthorized = true
				desc := fmt.Sprintf("exclusive=%v holder=%v outranks=%v", excl, holder, outranks)
				if !holder && !outranks {
					wrongAny = append(wrongAny, desc)
				}
				if excl && !holder {
					wrongExcl = append(wrongExcl, desc)
				}
			}
			sort.Strings(wrongAny)
			sort.Strings(wrongExcl)
			r.Ob("C05.R6.decide", "Gate.Authorize succeeds only for the current holder or a gate that outranks it", p.Position(auth.Pos()), sawAuthorized && len(wrongAny) == 0,
				"the resource is handed out when "+strings.Join(wrongAny, "; ")+": a writer that is not in control writes (truth table over holder / outranks / exclusive, all 8 cases)")
			r.Ob("C05.R6.decide", "under exclusive concurrency Gate.Authorize succeeds only for the current holder", p.Position(auth.Pos()), sawAuthorized && len(wrongExcl) == 0,
				"with exclusive concurrency the resource is handed out when "+strings.Join(wrongExcl, "; "))
		}
	}
	og := p.Func(ctlPkg, "Controller", "OpenGate")
	if og == nil {
		r.Undecide("C05.R6: Controller.OpenGate not found")
		return
	}
	c := p.CFG(og)
	var exists types.Object
	inspectNoLit(og.Body, func(n ast.Node) bool {
		if as, ok := n.(*ast.AssignStmt); ok && len(as.Lhs) == 1 && len(as.Rhs) == 1 {
			if id, ok := ast.Unparen(as.Rhs[0]).(*ast.Ident); ok && id.Name == "true" {
				if o := objOf(og, as.Lhs[0]); o != nil {
					exists = o
				}
			}
		}
		return true
	})
	isOpenRes := func(n ast.Node) bool {
		return nodeHasCall(og, n, func(o types.Object, call *ast.CallExpr) bool {
			if sel, ok := ast.Unparen(call.Fun).(*ast.SelectorExpr); ok && sel.Sel.Name == "OpenResource" {
				return true
			}
			f, ok := o.(*types.Func)
			return ok && f.Name() == "unsafeInsertNewRegion"
		})
	}
	notFound := c.EdgesEstablishing(func(atom ast.Expr, val bool) bool { return exists != nil && objOf(og, atom) == exists && !val })
	q, vis := c.ReachAvoiding([]Point{c.Entry()}, notFound, nil)
	var path []string
	for _, pt := range c.NodesWhere(isOpenRes) {
		if vis[pt] {
			path = q.PathTo(pt)
		}
	}
	r.ObPath("C05.R6.decide", "OpenGate opens a new resource only when no existing region overlapped", p.Position(og.Pos()), exists != nil && len(notFound) > 0 && len(c.NodesWhere(isOpenRes)) > 0 && path == nil,
		"a second region (and resource) over a range an existing region covers: two writers are then in control of overlapping ranges", path)
	// the overlap branch marks the region as found unless it returns
	overlap := c.EdgesEstablishing(func(atom ast.Expr, val bool) bool {
		call, ok := ast.Unparen(atom).(*ast.CallExpr)
		if !ok || !val {
			return false
		}
		f := CalleeFunc(og, call)
		return f != nil && f.Name() == "OverlapsWith"
	})
	var starts []Point
	for e := range overlap {
		starts = append(starts, Point{e.B.Succs[e.Succ], -1})
	}
	var loop ast.Stmt
	inspectNoLit(og.Body, func(n ast.Node) bool {
		if rs, ok := n.(*ast.RangeStmt); ok && loop == nil {
			loop = rs
		}
		return true
	})
	isMark := func(n ast.Node) bool {
		as, ok := n.(*ast.AssignStmt)
		if !ok || len(as.Lhs) != 1 || exists == nil || objOf(og, as.Lhs[0]) != exists {
			return false
		}
		id, ok := ast.Unparen(as.Rhs[0]).(*ast.Ident)
		return ok && id.Name == "true"
	}
	q3, vis3 := c.ReachAvoiding(starts, nil, isMark)
	var p3 []string
	for pt := range vis3 {
		if pt.B.Stmt == loop && (pt.B.Kind.String() == "RangeLoop" || pt.B.Kind.String() == "RangeDone") {
			p3 = q3.PathTo(pt)
		}
	}
	r.ObPath("C05.R6.decide", "OpenGate records an overlapping region as found on every path that goes on", p.Position(og.Pos()), len(starts) > 0 && loop != nil && p3 == nil,
		"a region that took the gate but is not recorded lets OpenGate open a second region for the same gate", p3)
}
