package main

import (
	"fmt"
	"go/ast"
	"go/types"
	"strings"
)

// ---------------------------------------------------------------------------------
// E12: fresh decode targets. The repository's codecs (msgpack, json) merge into the
// value they are given: fields that a message leaves out (omitempty, absent map keys)
// keep whatever the value held before. A value handed by address to a Decode/Unmarshal
// call must therefore be fresh for every message: declared inside the loop that decodes
// a batch, and never a field that lives as long as the stream. Otherwise one message
// inherits data from the previous one.
// ---------------------------------------------------------------------------------

func checkFreshDecodeTargets(r *Run, p *Prog, rule string, scope func(*FuncNode) bool, min int) {
	n := 0
	for _, fn := range p.Funcs {
		if fn.Body == nil || !scope(fn) {
			continue
		}
		var stack []ast.Node
		seen := map[string]int{}
		ast.Inspect(fn.Body, func(x ast.Node) bool {
			if x == nil {
				stack = stack[:len(stack)-1]
				return true
			}
			if _, isLit := x.(*ast.FuncLit); isLit {
				return false
			}
			stack = append(stack, x)
			call, ok := x.(*ast.CallExpr)
			if !ok {
				return true
			}
			f := CalleeFunc(fn, call)
			if f == nil || !(strings.HasPrefix(f.Name(), "Decode") || strings.HasPrefix(f.Name(), "Unmarshal")) {
				return true
			}
			// the target: the last argument of the form &x
			var target ast.Expr
			for _, a := range call.Args {
				if u, ok := ast.Unparen(a).(*ast.UnaryExpr); ok && u.Op.String() == "&" {
					target = u.X
				}
			}
			if target == nil {
				return true
			}
			n++
			good, why := true, "fresh"
			root := ast.Unparen(target)
			if sel, ok := root.(*ast.SelectorExpr); ok {
				// a field: does it belong to the receiver / a longer-lived object?
				if v, ok := fn.Pkg.TypesInfo.Uses[sel.Sel].(*types.Var); ok && v.IsField() {
					if base := objOf(fn, sel.X); base != nil {
						if _, isParam := paramIndex(fn, base); isParam || isReceiver(fn, base) {
							good, why = false, "the target "+types.ExprString(target)+" is a field of a longer-lived object"
						}
					}
				}
			}
			// the variable the target lives in
			base := root
			for {
				if sel, ok := ast.Unparen(base).(*ast.SelectorExpr); ok {
					base = sel.X
					continue
				}
				if ix, ok := ast.Unparen(base).(*ast.IndexExpr); ok {
					base = ix.X
					continue
				}
				break
			}
			if o := objOf(fn, base); o != nil && good {
				if _, isParam := paramIndex(fn, o); isParam || isReceiver(fn, o) {
					o = nil
				}
				if o == nil {
					goto done
				}
				// a local declared outside the enclosing loop
				for i := len(stack) - 1; i >= 0; i-- {
					var body *ast.BlockStmt
					switch l := stack[i].(type) {
					case *ast.ForStmt:
						body = l.Body
					case *ast.RangeStmt:
						body = l.Body
					}
					if body != nil {
						if o.Pos() < body.Pos() || o.Pos() > body.End() {
							// tolerated when the loop resets the whole value before decoding
							reset := false
							inspectNoLit(body, func(y ast.Node) bool {
								if as, ok := y.(*ast.AssignStmt); ok && len(as.Lhs) == 1 && objOf(fn, as.Lhs[0]) == o && as.Pos() < call.Pos() {
									if _, isLit := ast.Unparen(as.Rhs[0]).(*ast.CompositeLit); isLit {
										reset = true
									}
								}
								return true
							})
							if !reset {
								good, why = false, "the target "+o.Name()+" is declared outside the loop that decodes the batch"
							}
						}
						break
					}
				}
			}
		done:
			key := fmt.Sprintf("decode target of %s in %s", f.Name(), fn.Name)
			seen[key]++
			if seen[key] > 1 {
				key = fmt.Sprintf("%s #%d", key, seen[key])
			}
			r.Ob(rule, key, posOf(p, call), good, why+": the decoders merge into the given value, so fields a message omits keep the previous message's data")
			return true
		})
	}
	if n < min {
		r.Undecide("%s: only %d decode calls with an address-of target found (expected >= %d)", rule, n, min)
	}
}

func isReceiver(fn *FuncNode, o types.Object) bool {
	top := fn.Top()
	if top.Decl == nil || top.Decl.Recv == nil || len(top.Decl.Recv.List) == 0 || len(top.Decl.Recv.List[0].Names) == 0 {
		return false
	}
	return top.Pkg.TypesInfo.Defs[top.Decl.Recv.List[0].Names[0]] == o
}
