package main

import (
	"fmt"
	"go/ast"
	"go/token"
	"go/types"
	"sort"
	"strings"

	"golang.org/x/tools/go/cfg"
)

// ---------------------------------------------------------------------------------
// E14: error flow. E11 finds errors that are never bound; this rule follows the ones
// that are. For every local error variable e assigned from a call, on every path of the
// control-flow graph from the assignment one of these happens before the function is
// left or e is assigned again:
//   - an edge is crossed on which e is certainly nil, or certainly one of the values it
//     was compared with (errors.Is(e, X), e == X): the failure was ruled out or classified;
//   - e is used other than in a branch condition: returned, wrapped, passed on, stored,
//     logged, captured by a closure.
// A path on which neither happens is a path on which the step may have failed and the
// function goes on (and usually reports success) as if it had not: "if err != nil &&
// cond { return err }" is the shape - the false edge proves nothing about err. Branch
// conditions are evaluated over the finite set of things a condition can say about e
// (nil / equal to a compared value / some other error), foreign atoms being free.
// ---------------------------------------------------------------------------------

// errFlowAllowed is keyed "function: callee" - one named site each, with the reason.
var errFlowAllowed = map[string]string{
	"cesium.(*streamWriter).Flow$1: Err":                   "ctx.Err() is the default result of a cancelled writer; an accumulated write error, when there is one, is the more specific result and replaces it",
	"deleter.(*leaseProxy).deleteTimeRangeRemote: Resolve": "the host resolver (aspen Cluster.Node) fails only with ErrNodeNotFound, which is the value tested",
	"channel.TryToRetrieveStringer: Exec":                  "a display helper: a channel that cannot be retrieved is printed by its key",
	"channel.formatNameMatcher: Compile":                   "a name that is not a valid pattern is matched literally",
	"relay.(*tapper).updateTaps: tapInto":                  "a tap that cannot be opened is logged and left out of t.taps, so the next demand update opens it again; the relay keeps serving the other nodes",
}

type errState int // abstract value of e: 0 = nil, 1 = some other error, 2+k = the k-th compared value

type errCondEval struct {
	fn      *FuncNode
	e       types.Object
	classes []string   // rendered compared values
	foreign []ast.Expr // atoms that say nothing about e
}

func (ev *errCondEval) mentions(x ast.Node) bool {
	hit := false
	ast.Inspect(x, func(n ast.Node) bool {
		if id, ok := n.(*ast.Ident); ok && objOf(ev.fn, id) == ev.e {
			hit = true
		}
		return !hit
	})
	return hit
}

// atomKind: 0 foreign, 1 "e == nil", 2 "e is class k"
func (ev *errCondEval) atom(x ast.Expr) (kind, k int, neg bool) {
	x = ast.Unparen(x)
	if o, trueMeansNil, ok := nilCompare(ev.fn, x); ok && o == ev.e {
		return 1, 0, !trueMeansNil
	}
	class := func(s string) int {
		for i, c := range ev.classes {
			if c == s {
				return i
			}
		}
		ev.classes = append(ev.classes, s)
		return len(ev.classes) - 1
	}
	if be, ok := x.(*ast.BinaryExpr); ok && (be.Op == token.EQL || be.Op == token.NEQ) {
		if objOf(ev.fn, be.X) == ev.e && !ev.mentions(be.Y) {
			return 2, class(types.ExprString(be.Y)), be.Op == token.NEQ
		}
		if objOf(ev.fn, be.Y) == ev.e && !ev.mentions(be.X) {
			return 2, class(types.ExprString(be.X)), be.Op == token.NEQ
		}
	}
	if call, ok := x.(*ast.CallExpr); ok {
		if t := ev.fn.Pkg.TypesInfo.TypeOf(call); t != nil {
			if b, ok := t.Underlying().(*types.Basic); ok && b.Info()&types.IsBoolean != 0 {
				for _, a := range call.Args {
					if objOf(ev.fn, a) == ev.e {
						return 2, class(types.ExprString(call)), false
					}
				}
			}
		}
	}
	return 0, 0, false
}

func (ev *errCondEval) collect(x ast.Expr) {
	x = ast.Unparen(x)
	switch v := x.(type) {
	case *ast.UnaryExpr:
		if v.Op == token.NOT {
			ev.collect(v.X)
			return
		}
	case *ast.BinaryExpr:
		if v.Op == token.LAND || v.Op == token.LOR {
			ev.collect(v.X)
			ev.collect(v.Y)
			return
		}
	}
	if kind, _, _ := ev.atom(x); kind == 0 {
		ev.foreign = append(ev.foreign, x)
	}
}

func (ev *errCondEval) eval(x ast.Expr, s errState, free map[ast.Expr]bool) bool {
	x = ast.Unparen(x)
	switch v := x.(type) {
	case *ast.UnaryExpr:
		if v.Op == token.NOT {
			return !ev.eval(v.X, s, free)
		}
	case *ast.BinaryExpr:
		switch v.Op {
		case token.LAND:
			return ev.eval(v.X, s, free) && ev.eval(v.Y, s, free)
		case token.LOR:
			return ev.eval(v.X, s, free) || ev.eval(v.Y, s, free)
		}
	}
	kind, k, neg := ev.atom(x)
	switch kind {
	case 1:
		return (s == 0) != neg
	case 2:
		return (int(s) == 2+k) != neg
	}
	return free[x]
}

// consistent returns the abstract values of e under which cond can evaluate to val.
func (ev *errCondEval) consistent(cond ast.Expr, val bool) map[errState]bool {
	ev.foreign = nil
	ev.collect(cond)
	out := map[errState]bool{}
	if len(ev.foreign) > 10 {
		for s := 0; s < 2+len(ev.classes); s++ {
			out[errState(s)] = true
		}
		return out
	}
	for s := 0; s < 2+len(ev.classes); s++ {
		for m := 0; m < 1<<len(ev.foreign); m++ {
			free := map[ast.Expr]bool{}
			for i, a := range ev.foreign {
				free[a] = m&(1<<i) != 0
			}
			if ev.eval(cond, errState(s), free) == val {
				out[errState(s)] = true
				break
			}
		}
	}
	return out
}

// errTolerances collects, per run, the places where a function goes on although an error
// is known to be one of the values it was compared with: key "function: value".
var errTolerances = map[string]string{}

type errFlowSite struct {
	key, pos, how string
	path          []string
}

func checkErrFlow(r *Run, p *Prog, rule string, scope func(*FuncNode) bool, min int) {
	var bad []errFlowSite
	nDefs := 0
	for _, fn := range p.Funcs {
		if fn.Body == nil || !scope(fn) {
			continue
		}
		c := p.CFG(fn)
		for _, b := range c.G.Blocks {
			if !b.Live {
				continue
			}
			for i, n := range b.Nodes {
				as, ok := n.(*ast.AssignStmt)
				if !ok || len(as.Rhs) != 1 {
					continue
				}
				call, ok := ast.Unparen(as.Rhs[0]).(*ast.CallExpr)
				if !ok {
					continue
				}
				lhs := as.Lhs[len(as.Lhs)-1]
				id, ok := ast.Unparen(lhs).(*ast.Ident)
				if !ok || id.Name == "_" {
					continue
				}
				o, _ := objOf(fn, id).(*types.Var)
				if o == nil || o.IsField() || !isErrorType(o.Type()) {
					continue
				}
				if tv := fn.Pkg.TypesInfo.TypeOf(call); tv != nil {
					if tup, ok := tv.(*types.Tuple); ok {
						if tup.Len() != len(as.Lhs) || !isErrorType(tup.At(tup.Len()-1).Type()) {
							continue
						}
					} else if !isErrorType(tv) || len(as.Lhs) != 1 {
						continue
					}
				}
				nDefs++
				if how, path := errFlowFrom(p, c, fn, Point{b, i}, o); how != "" {
					name := "?"
					if f := CalleeFunc(fn, call); f != nil {
						name = f.Name()
					} else if sel, ok := ast.Unparen(call.Fun).(*ast.SelectorExpr); ok {
						name = sel.Sel.Name
					} else if idf, ok := ast.Unparen(call.Fun).(*ast.Ident); ok {
						name = idf.Name
					}
					bad = append(bad, errFlowSite{fn.Name + ": " + name, posOf(p, as), how, path})
				}
			}
		}
	}
	sort.Slice(bad, func(i, j int) bool { return bad[i].key < bad[j].key })
	seen := map[string]int{}
	for _, s := range bad {
		key := "error not examined on some path: " + s.key
		seen[key]++
		if seen[key] > 1 {
			key = fmt.Sprintf("%s #%d", key, seen[key])
		}
		if reason, ok := errFlowAllowed[s.key]; ok {
			r.ObTrivial(rule, key, s.pos, true, "tabled: "+reason)
		} else {
			r.ObPath(rule, key, s.pos, false, s.how, s.path)
		}
	}
	r.Ob(rule, "every other error bound from a call is ruled out, classified or used on every path", "", true, fmt.Sprintf("%d error definitions followed", nDefs))
	r.Stats["errflow_defs_"+rule] = nDefs
	if nDefs < min {
		r.Undecide("%s: only %d error definitions followed (expected >= %d)", rule, nDefs, min)
	}
}

// errFlowFrom explores from the definition at def; returns a description and a path when
// some path leaves the function or redefines e with e neither resolved nor used.
func errFlowFrom(p *Prog, c *FuncCFG, fn *FuncNode, def Point, e *types.Var) (string, []string) {
	ev := &errCondEval{fn: fn, e: e}
	// e captured by a closure, a named result, or declared outside this function: reading
	// it after the function is left is possible, so leaving is not losing
	outlives := e.Pos() < fn.Pos() || e.Pos() > fn.Body.End()
	ast.Inspect(fn.Body, func(n ast.Node) bool {
		if lit, ok := n.(*ast.FuncLit); ok && ev.mentions(lit) {
			outlives = true
		}
		return true
	})
	type st struct {
		pt     Point
		failed bool
	}
	parent := map[st]st{}
	seen := map[st]bool{}
	var work []st
	push := func(from, to st) {
		if !seen[to] {
			seen[to] = true
			parent[to] = from
			work = append(work, to)
		}
	}
	pathTo := func(s st) []string {
		var out []string
		for x, ok := s, true; ok && len(out) < 40; x, ok = parent[x] {
			if x.pt.I >= 0 && x.pt.I < len(x.pt.B.Nodes) {
				out = append([]string{c.P.Position(x.pt.B.Nodes[x.pt.I].Pos())}, out...)
			}
		}
		return out
	}
	start := st{def, false}
	seen[start] = true
	work = append(work, start)
	first := true
	for len(work) > 0 {
		cur := work[len(work)-1]
		work = work[:len(work)-1]
		b := cur.pt.B
		idx := cur.pt.I
		if first {
			first = false
		} else if idx >= 0 && idx < len(b.Nodes) {
			n := b.Nodes[idx]
			isCond := idx == len(b.Nodes)-1 && Cond(b) != nil
			if !isCond {
				switch errNodeUse(ev, n) {
				case "use", "fails":
					continue
				case "overwrite":
					return "the error is assigned again before it was examined", pathTo(cur)
				case "translated":
					if cur.failed || outlives {
						continue
					}
					return "the function returns another call's result without having examined the error", pathTo(cur)
				case "return":
					if outlives {
						continue
					}
					return "the function returns without having examined the error", pathTo(cur)
				}
			}
		}
		// advance
		if idx+1 < len(b.Nodes) {
			push(cur, st{Point{b, idx + 1}, cur.failed})
			continue
		}
		if len(b.Succs) == 0 {
			// end of function or a call that does not return
			if idx >= 0 && idx < len(b.Nodes) {
				if _, isRet := b.Nodes[idx].(*ast.ReturnStmt); isRet {
					continue
				}
				if es, ok := b.Nodes[idx].(*ast.ExprStmt); ok {
					if _, isCall := es.X.(*ast.CallExpr); isCall && idx == len(b.Nodes)-1 && !blockFallsOff(c, b) {
						continue
					}
				}
			}
			if outlives {
				continue
			}
			return "the function ends without having examined the error", pathTo(cur)
		}
		cond := Cond(b)
		for si, succ := range b.Succs {
			failed := cur.failed
			if cond != nil && idx == len(b.Nodes)-1 && ev.mentions(cond) {
				// a use of e inside the condition that is not a test (f(err) > 0)
				if errCondUses(ev, cond) {
					goto nextSucc
				}
				cons := ev.consistent(cond, si == 0)
				if failed {
					delete(cons, 0)
				}
				resolved, nonNil := true, true
				for s := range cons {
					if s == 1 {
						resolved = false
					}
					if s == 0 {
						nonNil = false
					}
				}
				if len(cons) == 0 || resolved {
					for st := range cons {
						if st >= 2 && int(st)-2 < len(ev.classes) {
							errTolerances[fn.Name+": "+ev.classes[int(st)-2]] = c.P.Position(cond.Pos())
						}
					}
					goto nextSucc
				}
				if nonNil {
					failed = true
				}
			}
			push(cur, st{Point{succ, -1}, failed})
		nextSucc:
		}
	}
	return "", nil
}

// blockFallsOff: a block without successors that is the function's last block falls off
// the end; any other one ends in a call that does not return.
func blockFallsOff(c *FuncCFG, b *cfg.Block) bool {
	for _, ex := range c.Exits() {
		if ex.P.B == b && ex.Return == nil {
			return true
		}
	}
	return false
}

// errCondUses: e occurs in the condition other than as an operand of a nil / equality
// test or as an argument of a boolean classifier.
func errCondUses(ev *errCondEval, cond ast.Expr) bool {
	uses := false
	var walk func(x ast.Expr)
	walk = func(x ast.Expr) {
		x = ast.Unparen(x)
		switch v := x.(type) {
		case *ast.UnaryExpr:
			if v.Op == token.NOT {
				walk(v.X)
				return
			}
		case *ast.BinaryExpr:
			if v.Op == token.LAND || v.Op == token.LOR {
				walk(v.X)
				walk(v.Y)
				return
			}
		}
		if kind, _, _ := ev.atom(x); kind == 0 && ev.mentions(x) {
			uses = true
		}
	}
	walk(cond)
	return uses
}

// errNodeUse classifies a non-condition node: "use" (e is read), "overwrite" (e is
// assigned from something that does not read it), "return" (a return that does not
// mention e), or "".
func errNodeUse(ev *errCondEval, n ast.Node) string {
	switch v := n.(type) {
	case *ast.ReturnStmt:
		if ev.mentions(v) {
			return "use"
		}
		if len(v.Results) == 0 {
			// bare return: named results
			if sig := ev.fn.Type; sig.Results != nil {
				for _, f := range sig.Results.List {
					for _, nm := range f.Names {
						if ev.fn.Pkg.TypesInfo.Defs[nm] == types.Object(ev.e) {
							return "use"
						}
					}
				}
			}
		}
		// a return that reports some other failure: the function does not succeed
		if n := len(v.Results); n > 0 {
			if certainErr(ev.fn, v.Results[n-1], v) {
				return "fails"
			}
			// the failure reported through a boolean result (the "ok" of a transform)
			for _, res := range v.Results {
				if id, ok := ast.Unparen(res).(*ast.Ident); ok && id.Name == "false" {
					return "translated"
				}
			}
			// some other error-typed value chosen inside the failure branch
			last := ast.Unparen(v.Results[n-1])
			if t := ev.fn.Pkg.TypesInfo.TypeOf(last); t != nil && !isNilIdent(ev.fn, last) && (isErrorType(t) || types.Implements(t, errorIface)) {
				return "translated"
			}
		}
		return "return"
	case *ast.AssignStmt:
		assigned := false
		for _, l := range v.Lhs {
			if id, ok := ast.Unparen(l).(*ast.Ident); ok && objOf(ev.fn, id) == types.Object(ev.e) {
				assigned = true
			}
		}
		for _, rh := range v.Rhs {
			if ev.mentions(rh) {
				return "use"
			}
		}
		for _, l := range v.Lhs {
			if _, ok := ast.Unparen(l).(*ast.Ident); !ok && ev.mentions(l) {
				return "use"
			}
		}
		if assigned {
			return "overwrite"
		}
		return ""
	}
	if ev.mentions(n) {
		return "use"
	}
	return ""
}

var _ = strings.Contains

var errorIface = types.Universe.Lookup("error").Type().Underlying().(*types.Interface)

// isErrorTypedVar: a plain local variable of type error (which may hold nil), as opposed
// to a constructed or package-level error value.
func isErrorTypedVar(fn *FuncNode, e ast.Expr) bool {
	v, ok := objOf(fn, e).(*types.Var)
	if !ok {
		return false
	}
	return v.Pkg() == nil || v.Parent() != v.Pkg().Scope()
}

// guardedNonNil: stmt lies in a branch whose condition establishes o != nil: the body of
// an if, the else of an if whose condition says o == nil, or a clause of a tagless switch
// whose single case expression says o != nil.
func guardedNonNil(fn *FuncNode, stmt ast.Node, o types.Object) bool {
	if o == nil {
		return false
	}
	found := false
	within := func(a, b token.Pos) bool { return stmt.Pos() >= a && stmt.End() <= b }
	establishes := func(cond ast.Expr, val bool) {
		for _, f := range condFacts(fn, cond, val, 0) {
			if oo, trueMeansNil, ok := nilCompare(fn, f.Atom); ok && oo == o && f.Val != trueMeansNil {
				found = true
			}
		}
	}
	ast.Inspect(fn.Body, func(n ast.Node) bool {
		if found {
			return false
		}
		switch v := n.(type) {
		case *ast.IfStmt:
			if within(v.Body.Pos(), v.Body.End()) {
				establishes(v.Cond, true)
			} else if v.Else != nil && within(v.Else.Pos(), v.Else.End()) {
				establishes(v.Cond, false)
			}
		case *ast.SwitchStmt:
			if v.Tag != nil {
				break
			}
			for _, cc := range v.Body.List {
				clause := cc.(*ast.CaseClause)
				if len(clause.List) == 1 && len(clause.Body) > 0 && within(clause.Body[0].Pos(), clause.Body[len(clause.Body)-1].End()) {
					establishes(clause.List[0], true)
				}
			}
		}
		return true
	})
	return found
}

// certainErr: the expression is an error value that cannot be nil - a package-level error,
// a freshly constructed one, a wrapper around such a value, or a local tested non-nil
// around stmt.
func certainErr(fn *FuncNode, e ast.Expr, stmt ast.Node) bool {
	e = ast.Unparen(e)
	if isNilIdent(fn, e) {
		return false
	}
	t := fn.Pkg.TypesInfo.TypeOf(e)
	if t == nil || !(isErrorType(t) || types.Implements(t, errorIface)) {
		return false
	}
	switch v := e.(type) {
	case *ast.Ident, *ast.SelectorExpr:
		o := objOf(fn, e)
		if sel, ok := v.(*ast.SelectorExpr); ok {
			o = fn.Pkg.TypesInfo.Uses[sel.Sel]
		}
		if vr, ok := o.(*types.Var); ok {
			if vr.Pkg() != nil && vr.Parent() == vr.Pkg().Scope() {
				return true
			}
			return !vr.IsField() && (guardedNonNil(fn, stmt, vr) || assignedCertainJustBefore(fn, stmt, vr))
		}
		return false
	case *ast.CallExpr:
		name, pkg := "", ""
		if f := CalleeFunc(fn, v); f != nil {
			name = f.Name()
			if f.Pkg() != nil {
				pkg = f.Pkg().Path()
			}
		}
		isErrPkg := pkg == "errors" || strings.HasSuffix(pkg, "/errors") || pkg == "fmt"
		switch {
		case isErrPkg && (name == "New" || name == "Newf" || name == "Errorf" || strings.HasPrefix(name, "AssertionFailed")):
			return true
		case strings.HasPrefix(name, "New") && strings.HasSuffix(name, "Error"):
			return true
		}
		for _, a := range v.Args {
			if certainErr(fn, a, stmt) {
				return true
			}
		}
		return false
	case *ast.UnaryExpr, *ast.CompositeLit:
		return true // &MyError{...}
	}
	return false
}

// assignedCertainJustBefore: in the statement list that contains stmt, the nearest earlier
// assignment to v (with only plain assignments and expression statements in between) gives
// it a certainly non-nil error.
func assignedCertainJustBefore(fn *FuncNode, stmt ast.Node, v *types.Var) bool {
	found := false
	ast.Inspect(fn.Body, func(n ast.Node) bool {
		var list []ast.Stmt
		switch b := n.(type) {
		case *ast.BlockStmt:
			list = b.List
		case *ast.CaseClause:
			list = b.Body
		case *ast.CommClause:
			list = b.Body
		}
		for i, st := range list {
			if ast.Node(st) != stmt {
				continue
			}
			for j := i - 1; j >= 0; j-- {
				switch prev := list[j].(type) {
				case *ast.AssignStmt:
					for k, l := range prev.Lhs {
						if objOf(fn, l) == types.Object(v) {
							if len(prev.Lhs) == len(prev.Rhs) && certainErr(fn, prev.Rhs[k], prev) {
								found = true
							}
							return false
						}
					}
				case *ast.ExprStmt:
				default:
					return false
				}
			}
		}
		return !found
	})
	return found
}
