package domain_test

import (
	"context"
	"testing"

	"github.com/synnaxlabs/cesium/internal/domain"
	xfs "github.com/synnaxlabs/x/io/fs"
	"github.com/synnaxlabs/x/telem"
)

// WriterConfig.Validate recorded "end timestamp must be after or equal to start timestamp"
// on a validator and then returned nil: a writer with an inverted preset range opens, and
// only its commits fail later.
func TestO1InvertedWriterRangeIsRejected(t *testing.T) {
	ctx := context.Background()
	db, err := domain.Open(domain.Config{FS: xfs.NewMem()})
	if err != nil {
		t.Fatal(err)
	}
	defer func() { _ = db.Close() }()
	if err := domain.Write(ctx, db, (10 * telem.SecondTS).Range(20*telem.SecondTS), []byte{1, 2, 3, 4}); err != nil {
		t.Fatal(err)
	}
	w, err := db.OpenWriter(ctx, domain.WriterConfig{Start: 30 * telem.SecondTS, End: 25 * telem.SecondTS})
	if err == nil {
		_ = w.Close()
		t.Fatalf("OpenWriter(start 30s, end 25s) succeeded although the end precedes the start")
	}
}
