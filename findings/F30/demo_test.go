package domain_test

import (
	"bytes"
	"context"
	"errors"
	"os"
	"testing"

	"github.com/synnaxlabs/cesium/internal/domain"
	xfs "github.com/synnaxlabs/x/io/fs"
	"github.com/synnaxlabs/x/telem"
)

// failStatFS fails Stat for one file name once armed: the per-file step of GarbageCollect
// starts with a Stat, so this makes the pass fail at a chosen file.
type failStatFS struct {
	xfs.FS
	name  string
	armed *bool
}

func (f failStatFS) Stat(name string) (os.FileInfo, error) {
	if *f.armed && name == f.name {
		return nil, errors.New("injected stat failure")
	}
	return f.FS.Stat(name)
}

// TestF30GCErrorKeepsIndexInStep checks that a garbage collection pass is invisible to readers
// across a restart: whatever GC did to the data files, the index that is loaded on the
// next open must describe the files as they are on disk.
//
// History: two data files (file 1 is full, file 2 is the half-empty tail file), restart,
// delete the first domain of file 1, GC (compacts file 1, has nothing to do on file 2),
// restart, read.
func TestF30GCErrorKeepsIndexInStep(t *testing.T) {
	var (
		ctx  = context.Background()
		mem   = xfs.NewMem()
		armed = false
		fs    = failStatFS{FS: mem, name: "2.domain", armed: &armed}
		open = func() *domain.DB {
			db, err := domain.Open(domain.Config{
				FS:          fs,
				FileSize:    7 * telem.Byte,
				GCThreshold: 0.5,
			})
			if err != nil {
				t.Fatalf("open: %v", err)
			}
			return db
		}
		noOffset = func(
			_ context.Context,
			_ telem.TimeStamp,
			ts telem.TimeStamp,
		) (telem.Size, telem.TimeStamp, error) {
			return 0, ts, nil
		}
		must = func(err error) {
			t.Helper()
			if err != nil {
				t.Fatal(err)
			}
		}
		readAll = func(stage string, db *domain.DB) map[telem.TimeStamp][]byte {
			t.Helper()
			out := make(map[telem.TimeStamp][]byte)
			i := db.OpenIterator(domain.IterRange(telem.TimeRangeMax))
			for ok := i.SeekFirst(ctx); ok; ok = i.Next() {
				r, err := i.OpenReader(ctx)
				must(err)
				buf := make([]byte, r.Size())
				if _, err = r.ReadAt(buf, 0); err != nil {
					t.Fatalf("%s: reading domain %s: %v", stage, i.TimeRange(), err)
				}
				must(r.Close())
				out[i.TimeRange().Start] = buf
			}
			must(i.Close())
			return out
		}
		expected = map[telem.TimeStamp][]byte{
			20 * telem.SecondTS: {20, 21, 22, 23, 24, 25},
			30 * telem.SecondTS: {30, 31, 32},
		}
		check = func(stage string, got map[telem.TimeStamp][]byte) {
			t.Helper()
			if len(got) != len(expected) {
				t.Fatalf("%s: expected %d domains, got %d: %v", stage, len(expected), len(got), got)
			}
			for start, want := range expected {
				if !bytes.Equal(got[start], want) {
					t.Fatalf("%s: domain starting at %s: expected %v, got %v", stage, start, want, got[start])
				}
			}
		}
	)

	db := open()
	// file 1: two domains, 10 bytes in total (over the file size -> full).
	must(domain.Write(ctx, db, (10 * telem.SecondTS).Range(13*telem.SecondTS+1), []byte{10, 11, 12, 13}))
	must(domain.Write(ctx, db, (20 * telem.SecondTS).Range(25*telem.SecondTS+1), []byte{20, 21, 22, 23, 24, 25}))
	// file 2: the tail file, not full.
	must(domain.Write(ctx, db, (30 * telem.SecondTS).Range(32*telem.SecondTS+1), []byte{30, 31, 32}))
	must(db.Close())

	// Restart.
	db = open()
	// Delete the whole first domain: a 4 byte tombstone at the head of file 1.
	must(db.Delete(ctx, (10 * telem.SecondTS).Range(14*telem.SecondTS), noOffset, noOffset))
	check("after delete", readAll("after delete", db))

	// The pass compacts file 1 and then fails on file 2.
	armed = true
	if err := db.GarbageCollect(ctx); err == nil {
		t.Fatal("expected the injected failure to fail the pass")
	}
	armed = false
	s, err := fs.Stat("1.domain")
	must(err)
	if s.Size() != 6 {
		t.Fatalf("expected file 1 to be compacted to 6 bytes, got %d", s.Size())
	}
	check("after gc", readAll("after gc", db))
	must(db.Close())

	// Restart: the reads must be the same as before the restart.
	db = open()
	check("after gc and reopen", readAll("after gc and reopen", db))
	must(db.Close())
}
