package freightfluence_test

import (
	"context"
	"errors"
	"testing"
	"time"

	"github.com/synnaxlabs/freighter"
	"github.com/synnaxlabs/freighter/freightfluence"
	"github.com/synnaxlabs/x/confluence"
	"github.com/synnaxlabs/x/signal"
)

var errTransform = errors.New("transform failed")

type scriptedReceiver struct{ n int }

func (s *scriptedReceiver) Receive() (int, error) {
	s.n++
	if s.n > 3 {
		return 0, freighter.EOF
	}
	return s.n, nil
}

// A transform that fails reports (zero, false, err) - the shape every transform in the
// repository uses for a failure. Every other segment (TransformSender,
// MultiTransformSender, LinearTransform, DeltaTransformMultiplier) ends its flow with
// that error; before the fix TransformReceiver tested ok first and carried on.
func TestF29TransformReceiverReportsTransformError(t *testing.T) {
	sCtx, cancel := signal.WithCancel(context.Background())
	defer cancel()
	r := &freightfluence.TransformReceiver[int, int]{
		Receiver: &scriptedReceiver{},
		Transform: func(_ context.Context, v int) (int, bool, error) {
			if v == 2 {
				return 0, false, errTransform
			}
			return v, true, nil
		},
	}
	out := confluence.NewStream[int](10)
	r.OutTo(out)
	r.Flow(sCtx, confluence.CloseOutputInletsOnExit())
	done := make(chan error, 1)
	go func() { done <- sCtx.Wait() }()
	select {
	case err := <-done:
		if !errors.Is(err, errTransform) {
			t.Fatalf("flow ended with %v; want the transform's error", err)
		}
	case <-time.After(5 * time.Second):
		t.Fatal("flow did not end")
	}
}
