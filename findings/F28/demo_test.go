package index_test

import (
	"context"
	"errors"
	"os"
	"testing"

	"github.com/synnaxlabs/cesium/internal/domain"
	"github.com/synnaxlabs/cesium/internal/index"
	xfs "github.com/synnaxlabs/x/io/fs"
	"github.com/synnaxlabs/x/telem"
)

var errInjected = errors.New("injected read failure")

type failFS struct {
	xfs.FS
	failAt int64
}

type failFile struct {
	xfs.File
	failAt int64
}

func (f failFS) Open(name string, flag int) (xfs.File, error) {
	file, err := f.FS.Open(name, flag)
	if err != nil {
		return nil, err
	}
	return failFile{File: file, failAt: f.failAt}, nil
}

func (f failFile) ReadAt(p []byte, off int64) (int, error) {
	if off == f.failAt && len(p) == 8 {
		return 0, errInjected
	}
	return f.File.ReadAt(p, off)
}

// A read failure in the binary search of Stamp(ref, 0) must surface as an error. Before
// the fix zeroStamp dropped it and answered with the first sample of the domain.
func TestF28ZeroStampKeepsSearchError(t *testing.T) {
	ctx := context.Background()
	mem := xfs.NewMem()
	db, err := domain.Open(domain.Config{FS: failFS{FS: mem, failAt: 4 * 8}})
	if err != nil {
		t.Fatal(err)
	}
	defer func() { _ = db.Close() }()
	if err := domain.Write(ctx, db, (1 * telem.SecondTS).Range(20*telem.SecondTS+1),
		telem.NewSeriesSecondsTSV(1, 2, 3, 5, 7, 9, 15, 19, 20).Data); err != nil {
		t.Fatal(err)
	}
	idx := &index.Domain{DB: db}
	approx, err := idx.Stamp(ctx, 20*telem.SecondTS, 0, true)
	if err == nil {
		t.Fatalf("Stamp(20s, 0) = %v with a nil error although the index read failed (the stored sample is 20s)", approx)
	}
	if !errors.Is(err, errInjected) {
		t.Fatalf("unexpected error %v", err)
	}
	_ = os.O_RDONLY
}
