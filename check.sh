#!/bin/sh
# usage: ./check.sh <property> [quick|thorough]
# Re-reads /repo's working tree on every run; exit 0 held / 1 VIOLATION / 2 undecided.
cd "$(dirname "$0")"
. ./env.sh
prop="$1"; tier="${2:-${VERIF_TIER:-quick}}"
[ -x bin/synnaxlint ] || ./setup.sh >/dev/null
VERIF_TIER="$tier" exec ./bin/synnaxlint check "$prop"
