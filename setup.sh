#!/bin/sh
# Builds the checker from files on disk only (offline).
set -e
cd "$(dirname "$0")"
. ./env.sh
mkdir -p bin evidence out
cd checker
go build -o ../bin/synnaxlint .
echo "built $(cd .. && pwd)/bin/synnaxlint"
