# sourced by every script in /verif: offline Go toolchain that can load /repo
export PATH=/opt/veriftools/go1.26.8/bin:$PATH
export GOFLAGS=-mod=mod GOPROXY=off GOSUMDB=off GOTOOLCHAIN=local
unset GOWORK
export GOWORK=off
