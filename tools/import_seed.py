#!/usr/bin/env python3
"""usage: import_seed.py <prop> <A|B>  — copies a confirmed seeded change from /tmp/seed into /verif/seeded."""
import json, os, shutil, sys
prop, v = sys.argv[1], sys.argv[2]
src = f"/tmp/seed/{prop}/{v}"
dst = f"/verif/seeded/{prop}-{v}"
conf = json.load(open(f"{src}/confirm.json"))
if not conf.get("confirmed"):
    print("NOT CONFIRMED:", conf); sys.exit(1)
os.makedirs(dst, exist_ok=True)
shutil.copy(f"{src}/patch.diff", f"{dst}/patch.diff")
shutil.copy(f"{src}/demo_test.go", f"{dst}/demo_test.go")
m = json.load(open(f"{src}/meta.json"))
meta = {
    "property": prop,
    "variant": v,
    "summary": m.get("summary"),
    "why_it_breaks": m.get("why_it_breaks"),
    "needs_to_manifest": m.get("needs_to_manifest"),
    "demo_path_in_repo": m.get("demo_path_in_repo"),
    "demo_cmd": m.get("demo_cmd"),
    "author": "independent sub-agent given only the property text and a scratch worktree",
    "what_i_ran": {
        "base_commit": conf.get("base"),
        "procedure": "tools/confirm_seed.sh in a scratch worktree of /repo HEAD: demo without the change (expect exit 0), git apply patch, demo with the change (expect non-zero), demo file removed, `go build ./... && go test -mod=mod -vet=off -count=1 ./...` in every touched module",
        "demo_exit_without_change": conf.get("demo_exit_without_change"),
        "demo_exit_with_change": conf.get("demo_exit_with_change"),
        "suites": conf.get("suites"),
    },
}
json.dump(meta, open(f"{dst}/meta.json", "w"), indent=1)
print("imported", dst)
