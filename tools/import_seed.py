#!/usr/bin/env python3
"""usage: import_seed.py <prop> <A|B> [src root] [dst variant]  — copies a confirmed seeded change from /tmp/seed into /verif/seeded."""
import json, os, shutil, sys
prop, v = sys.argv[1], sys.argv[2]
root = sys.argv[3] if len(sys.argv) > 3 else "/tmp/seed"
dv = sys.argv[4] if len(sys.argv) > 4 else v
src = f"{root}/{prop}/{v}"
dst = f"/verif/seeded/{prop}-{dv}"
v = dv
conf = json.load(open(f"{src}/confirm.json"))
if not conf.get("confirmed"):
    print("NOT CONFIRMED:", conf); sys.exit(1)
os.makedirs(dst, exist_ok=True)
shutil.copy(f"{src}/patch.diff", f"{dst}/patch.diff")
shutil.copy(f"{src}/demo_test.go", f"{dst}/demo_test.go")
m = json.load(open(f"{src}/meta.json"))
meta = {
    "property": prop,
    "variant": v,
    "summary": m.get("summary"),
    "why_it_breaks": m.get("why_it_breaks"),
    "needs_to_manifest": m.get("needs_to_manifest"),
    "demo_path_in_repo": m.get("demo_path_in_repo"),
    "demo_cmd": m.get("demo_cmd"),
    "author": "independent sub-agent given only the property text and a scratch worktree" + (" (round 2: also told which sites round 1 had used)" if root != "/tmp/seed" else ""),
    "notes": m.get("notes"),
    "what_i_ran": {
        "base_commit": conf.get("base"),
        "procedure": "tools/confirm_seed.sh in a scratch worktree of /repo HEAD: demo without the change (expect exit 0), git apply patch, demo with the change (expect non-zero), demo file removed, `go build ./... && go test -mod=mod -vet=off -count=1 ./...` in every touched module",
        "demo_exit_without_change": conf.get("demo_exit_without_change"),
        "demo_exit_with_change": conf.get("demo_exit_with_change"),
        "suites": conf.get("suites"),
    },
}
json.dump(meta, open(f"{dst}/meta.json", "w"), indent=1)
print("imported", dst)
