# executed by gen_manifest.py
claim("C09", "lockset dataflow (must/may) over go/cfg with caller-held summaries; lock-order cycle detection; VTA call graph",
      "Decides on every run, for every function of the cesium packages: each mutex acquisition is released exactly once on every exit (PAIR), every access to a field of the frozen guarded-field table holds its lock class locally or in every caller chain from an entry point (GUARD), and the lock-class order graph is acyclic (ORDER). These are necessary conditions of race- and deadlock-freedom for every schedule; serial-order equivalence of the content is not decided.",
      "DESIGN.md §3 C09")
claim("C03", "CFG guard-edge reachability (go/cfg) + who-may-write call-graph closure + lockset guard",
      "Decides on every run: only the frozen owner set (or helpers reachable only from it) writes the pointer table and every access is lock-guarded; in index.insert/update each store to the table lies behind an edge proving no overlap (decided with TimeRange.OverlapsWith on the inserted range) and no conflict error is returned after a store; OpenWriter acquires a file only behind !overlap; commit reaches the index only after validateCommitRange succeeded and behind the preset-end test; the writer's prevCommit/Start advance only on the success edge of the index call. Necessary conditions of 'no overlapping domains, failed writes change nothing'; the interval arithmetic on particular timestamps is not decided.",
      "DESIGN.md §3 C03")
claim("C02", "CFG ordering/must-pass queries, constant evaluation of file names and open flags, codec layout table agreement, who-may-construct, lockset state at call sites",
      "Decides on every run: meta.json is only replaced by rename from the temp file after a successful encode and close and is never opened for writing; the index file is rewritten Truncate-then-WriteAt under the persist mutex from one snapshot and opened in one place; the 26-byte pointer encoder and decoder agree field by field and tile the record; domain pointers are constructed only by commit (from the tracked writer's Offset/Len), Delete (from existing pointers) and the decoder; channel deletion removes only a renamed, unparseable directory name after the channel left the map; GC persists the index after the last file rewrite on every success path and swaps offsets and files in one index write section. Necessary conditions of crash consistency; the enumeration of crash points (and the known GC rename/persist window) is not decided.",
      "DESIGN.md §3 C02")
for pid, why in {
    "C01": "equality of returned samples with committed samples is decided by index arithmetic over runtime timestamps; no structural necessary condition specific to C01 beyond those claimed under C03/C09 (DESIGN.md §4)",
    "C10": "view arithmetic and accumulate loops over runtime spans/positions; no shape-of-code clause that would not also fire on harmless edits (DESIGN.md §4)",
    "C18": "a biconditional over subject/role/policy contents decided by a pure function of values; the only shape fact would miss every realistic over-permissive edit (DESIGN.md §4)",
}.items():
    na(pid, why)
for pid in ["C04","C05","C06","C07","C08","C11","C12","C13","C14","C15","C16","C17","C19","C20"]:
    na(pid, "check under construction in this session (rules designed in DESIGN.md §3, not yet armed); not claimed until its check is silent on the unchanged tree and detects its seeded variants")
