# executed by gen_manifest.py
claim("C09", "lockset dataflow (must/may) over go/cfg with caller-held summaries; lock-order cycle detection; VTA call graph",
      "Decides on every run, for every function of the cesium packages: each mutex acquisition is released exactly once on every exit (PAIR), every access to a field of the frozen guarded-field table holds its lock class locally or in every caller chain from an entry point (GUARD), and the lock-class order graph is acyclic (ORDER). These are necessary conditions of race- and deadlock-freedom for every schedule; serial-order equivalence of the content is not decided.",
      "DESIGN.md §3 C09")
for pid, why in {
    "C01": "equality of returned samples with committed samples is decided by index arithmetic over runtime timestamps; no structural necessary condition specific to C01 beyond those claimed under C03/C09 (DESIGN.md §4)",
    "C10": "view arithmetic and accumulate loops over runtime spans/positions; no shape-of-code clause that would not also fire on harmless edits (DESIGN.md §4)",
    "C18": "a biconditional over subject/role/policy contents decided by a pure function of values; the only shape fact would miss every realistic over-permissive edit (DESIGN.md §4)",
}.items():
    na(pid, why)
for pid in ["C02","C03","C04","C05","C06","C07","C08","C11","C12","C13","C14","C15","C16","C17","C19","C20"]:
    na(pid, "check under construction in this session (rules designed in DESIGN.md §3, not yet armed); not claimed until its check is silent on the unchanged tree and detects its seeded variants")
