#!/usr/bin/env python3
"""Which functions carry an obligation that no behaviour-preserving edit of the corpus has touched?

Reads out/anchors.tsv (rule <tab> file:line per obligation; produce it with
  for c in C02 ... C20; do bin/synnaxlint anchors $c; done > out/anchors.tsv)
and the hunks of harmless/*/*.diff, and prints the anchored functions whose body no hunk
overlaps. A reading aid for pointing the next batch of edits; nothing in the registered
checks depends on it."""
import re, glob, collections, os

def funcs(path):
    out = []; cur = None
    for i, l in enumerate(open(path, errors='ignore'), 1):
        if l.startswith('func '):
            m = re.match(r'func (\([^)]*\) )?([A-Za-z0-9_]+)', l)
            cur = [m.group(2) if m else '?', i, None]
            if l.rstrip().endswith('}') and '{' in l:
                cur[2] = i; out.append(tuple(cur)); cur = None
        elif l.startswith('}') and cur:
            cur[2] = i; out.append(tuple(cur)); cur = None
    return out

root = os.path.join(os.path.dirname(__file__), '..')
anch = collections.defaultdict(set)
fcache = {}
def fof(f):
    if f not in fcache:
        fcache[f] = funcs('/repo/' + f) if os.path.exists('/repo/' + f) else []
    return fcache[f]
for line in open(os.path.join(root, 'out', 'anchors.tsv')):
    rule, pos = line.rstrip('\n').split('\t')
    m = re.match(r'(.+?):(\d+)', pos)
    if not m:
        continue
    f, ln = m.group(1), int(m.group(2))
    for name, a, b in fof(f):
        if a <= ln <= (b or a):
            anch[(f, name)].add('.'.join(rule.split('.')[:2])); break
touched = set()
for d in glob.glob(os.path.join(root, 'harmless', '*', '*.diff')):
    cur = None
    for l in open(d, errors='ignore'):
        if l.startswith('--- a/'):
            cur = l[6:].strip()
        m = re.match(r'@@ -(\d+),?(\d*) ', l)
        if m and cur:
            a = int(m.group(1)); n = int(m.group(2) or 1)
            for name, fa, fb in fof(cur):
                if fa <= a + n - 3 and (fb or fa) >= a + 3:
                    touched.add((cur, name))
un = [(k, v) for k, v in anch.items() if k not in touched]
print(len(anch), 'anchored functions;', len(un), 'never touched by an edit of the corpus')
byfile = collections.defaultdict(list)
for (f, n), v in sorted(un):
    byfile[f].append(n + '[' + ','.join(sorted(v)) + ']')
for f, v in sorted(byfile.items()):
    print(f, ':', ' '.join(v))
