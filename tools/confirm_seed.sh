#!/bin/bash
# usage: tools/confirm_seed.sh <seed dir with patch.diff demo_test.go meta.json> <name>
# Confirms in a scratch worktree of /repo HEAD: demo passes without the change, fails with it,
# and the touched modules' existing suites still pass with it. Writes <seed dir>/confirm.json.
set -u
src="$1"; name="$2"
wt=/tmp/confirm/$name
rm -rf "$wt"; mkdir -p /tmp/confirm
git -C /repo worktree add -q --detach "$wt" HEAD || exit 2
cleanup() { git -C /repo worktree remove --force "$wt" >/dev/null 2>&1; }
trap cleanup EXIT
demo_path=$(python3 -c "import json;print(json.load(open('$src/meta.json'))['demo_path_in_repo'])")
demo_cmd=$(python3 -c "import json;print(json.load(open('$src/meta.json'))['demo_cmd'])")
cd "$wt"
if ! git apply --check "$src/patch.diff" 2>/dev/null && ! git apply --3way --check "$src/patch.diff" 2>/dev/null; then
  echo "{\"name\":\"$name\",\"applies\":false}" > "$src/confirm.json"; echo "$name: patch does not apply"; exit 3
fi
cp "$src/demo_test.go" "$wt/$demo_path"
run_demo() { (cd "$wt" && timeout 900 bash -c "$demo_cmd" >/tmp/confirm/$name.demo.log 2>&1); echo $?; }
without=$(run_demo)
git apply "$src/patch.diff" 2>/dev/null || git apply --3way "$src/patch.diff"
with=$(run_demo)
tail -5 /tmp/confirm/$name.demo.log > /tmp/confirm/$name.demo.tail
rm -f "$wt/$demo_path"
mods=$(git diff --name-only | sed -E 's#^(alamos/go|arc/go|aspen|cesium|core|freighter/go|x/go)/.*#\1#' | sort -u)
suites_ok=true; suites=""
for m in $mods; do
  [ -d "$wt/$m" ] || continue
  if (cd "$wt/$m" && go build ./... && timeout 2400 go test -mod=mod -vet=off -count=1 ./... > /tmp/confirm/$name.suite.$(echo $m|tr / _).log 2>&1); then suites="$suites $m:pass"; else
    # one retry for known-flaky suites
    if (cd "$wt/$m" && timeout 2400 go test -mod=mod -vet=off -count=1 ./... > /tmp/confirm/$name.suite.$(echo $m|tr / _).log 2>&1); then suites="$suites $m:pass-on-retry"; else suites="$suites $m:FAIL"; suites_ok=false; fi
  fi
done
python3 - <<PY
import json
json.dump({"name":"$name","applies":True,"demo_exit_without_change":$without,"demo_exit_with_change":$with,
 "suites":"$suites".split(),"suites_ok":"$suites_ok"=="true","base":"$(git -C /repo rev-parse --short HEAD)",
 "confirmed": ($without==0 and $with!=0 and "$suites_ok"=="true")}, open("$src/confirm.json","w"), indent=1)
PY
cat "$src/confirm.json"
