#!/usr/bin/env python3
"""Union of the guard-weakening / statement-deletion sweeps (bin/synnaxlint weaken <prop>).

A site is "noticed" when at least one property's check reported a violation (or became
undecided) for at least one variant of it.  Prints the sites no property notices, grouped
by file and function, and writes out/weaken/UNION.json.  A reading aid for finding
missing rules; nothing in the registered checks depends on it.
"""
import glob, json, os, re, sys, collections

root = os.path.join(os.path.dirname(__file__), '..', 'out', 'weaken')
sites = {}
for path in sorted(glob.glob(os.path.join(root, 'C*.json'))):
    d = json.load(open(path))
    prop = d['property']
    for s in d['sites'] or []:
        k = (s['file'], s['Start'], s['End'], bool(s.get('stmt')))
        e = sites.setdefault(k, dict(file=s['file'], line=s['line'], func=s['func'], text=' '.join(s['cond'].split()),
                                     stmt=bool(s.get('stmt')), noticed_by=[], tested_by=[], invalid=True))
        e['tested_by'].append(prop)
        st = [s.get('and'), s.get('or')]
        if any(x in ('detected', 'undecided') for x in st):
            e['noticed_by'].append(prop)
        if any(x != 'invalid' for x in st):
            e['invalid'] = False
flt = sys.argv[1] if len(sys.argv) > 1 else ''
tot = collections.Counter()
groups = collections.defaultdict(list)
for k, e in sorted(sites.items()):
    kind = 'stmt' if e['stmt'] else 'cond'
    if e['invalid']:
        tot[kind + '_invalid'] += 1
        continue
    tot[kind] += 1
    if e['noticed_by']:
        tot[kind + '_noticed'] += 1
    else:
        groups[(e['file'], e['func'])].append(e)
json.dump(dict(totals=tot, unnoticed=[e for g in groups.values() for e in g]), open(os.path.join(root, 'UNION.json'), 'w'), indent=1)
print(dict(tot))
for (f, fn), es in sorted(groups.items()):
    if flt and flt not in f:
        continue
    print(f'{f} :: {fn}')
    for e in es:
        print(f"   {e['line']:5d} {'S' if e['stmt'] else 'C'} {e['text'][:150]}   [{','.join(e['tested_by'])}]")
