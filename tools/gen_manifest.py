#!/usr/bin/env python3
"""Generates /verif/MANIFEST.json from the table below (single source of truth)."""
import json, os
ROOT = os.path.dirname(os.path.dirname(os.path.abspath(__file__)))

LEVEL_NOTE = ("Trusted base: go/types + go/packages + go/cfg + go/ssa + callgraph/vta from golang.org/x/tools v0.29.0 "
              "built with the pre-installed go1.26.8; the frozen rule tables in /verif/checker (each row confirmed by reading). "
              "Not modelled: reflection, unsafe, cgo. Level 'other' = structural necessary conditions decided on every path / call site of the "
              "type-checked source, not the behavioural statement itself.")

# id -> (technique, claim text, design ref)
CLAIMED = {}
NOT_APPLICABLE = {}

def claim(pid, technique, text, ref):
    CLAIMED[pid] = (technique, text, ref)

def na(pid, reason):
    NOT_APPLICABLE[pid] = reason

exec(open(os.path.join(ROOT, "tools", "claims.py")).read())

checks = []
for pid in sorted(CLAIMED):
    technique, text, ref = CLAIMED[pid]
    checks.append({
        "property_id": pid,
        "quick_cmd": f"./check.sh {pid} quick",
        "thorough_cmd": f"./check.sh {pid} thorough",
        "evidence_file": f"/verif/evidence/{pid}.json",
        "replay_cmd_template": "./bin/synnaxlint replay {path}",
        "engine": "synnaxlint",
        "level_claimed": {"category": "other", "text": text, "design_ref": ref},
        "level_note": LEVEL_NOTE,
        "technique": technique,
    })
manifest = {
    "version": 1,
    "setup_cmd": "./setup.sh",
    "hooks": {
        "guard": "verif",
        "enable": "no hooks: the checks are static and never build or run /repo; the build tag 'verif' is reserved and unused",
        "baseline_off_cmd": json.load(open("/root/.vp/BASELINE.json"))["cmd"],
        "source_commits": [],
        "add_only": True,
    },
    "engines": [{
        "name": "synnaxlint",
        "path": "/verif/checker",
        "serves_properties": sorted(CLAIMED),
        "kind_free_text": "repository-specific static analyser (Go): CFG path/dominance queries, lockset dataflow with interprocedural summaries, who-may-call/write tables, table agreement, taint, call-graph reachability (VTA)",
    }],
    "checks": checks,
    "not_applicable": [{"property_id": k, "reason": v} for k, v in sorted(NOT_APPLICABLE.items())],
    "notes": "Static analysis only. Exit protocol: 0 held; 1 + 'VIOLATION property=<id> replay=<path>'; 2 + 'UNDECIDED' on stderr when the analyser lost an anchor or met an idiom it does not know (a broken check, never 'held'). Known findings: /verif/known_findings.json.",
}
json.dump(manifest, open(os.path.join(ROOT, "MANIFEST.json"), "w"), indent=1)
print("claimed:", sorted(CLAIMED), "n/a:", sorted(NOT_APPLICABLE))
