#!/bin/sh
# usage: tools/try_seed.sh <patch.diff> <property>...   — applies a seeded change to /repo, runs the checks, reverts.
patch="$1"; shift
export VERIF_EVIDENCE_DIR=/verif/out/matrix_evidence
cd /repo || exit 2
if ! git diff --quiet; then echo "/repo dirty"; exit 2; fi
if ! git apply --check "$patch" 2>/dev/null; then echo "PATCH DOES NOT APPLY: $patch"; exit 3; fi
git apply "$patch"
for p in "$@"; do
  out=$(cd /verif && ./check.sh "$p" quick 2>&1); rc=$?
  echo "== $p rc=$rc"
  echo "$out" | grep -E "^FINDING|^VIOLATION|UNDECIDED|^property=" | cut -c1-400
done
git -C /repo reset -q --hard HEAD; git -C /repo status --short | head -3
