#!/bin/sh
# usage: tools/try_seed.sh <patch.diff> <property>...   — applies a seeded change to /repo, runs the checks, reverts.
patch="$1"; shift
cd /repo || exit 2
if ! git diff --quiet; then echo "/repo dirty"; exit 2; fi
if ! git apply --check "$patch" 2>/dev/null; then
  if ! git apply --3way --check "$patch" 2>/dev/null; then echo "PATCH DOES NOT APPLY: $patch"; exit 3; fi
fi
git apply "$patch" 2>/dev/null || git apply --3way "$patch"
for p in "$@"; do
  out=$(cd /verif && ./check.sh "$p" quick 2>&1); rc=$?
  echo "== $p rc=$rc"
  echo "$out" | grep -E "^FINDING|^VIOLATION|UNDECIDED|^property=" | cut -c1-400
done
git -C /repo reset -q; git -C /repo checkout -- . ; git -C /repo status --short | head -3
